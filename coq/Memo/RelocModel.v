(* C34 — model of the relocation arithmetic of the cross-test DUT reuse (definitions only).

   Code modelled (branch for branch)
   ---------------------------------
   crates/simulator/src/ir/variable.rs      VarOffset::{Ff,Comb}, VarOffset::adjust
   crates/simulator/src/ir/expression.rs    ProtoExpression::adjust_offsets
   crates/simulator/src/ir/statement.rs     ProtoStatement::adjust_offsets   (CompiledBlock = no-op !)
   crates/simulator/src/backend/inst.rs     reloc_stmt / reloc_stmts / reloc_var_meta / relocate_entry
   crates/simulator/src/ir/statement.rs     ProtoStatement::apply_values_ptr (binding to buffers:
                                            ptr.offset(off); CompiledBlock: wrapping_offset(delta))

   Integers.  Offsets and deltas are Rust `isize`; the code adds them with `+` (wrapping in
   release builds, panicking on overflow in debug builds — never reached for offsets inside a
   buffer).  Pointers are 64-bit and CompiledBlock bases use `wrapping_offset`.  The model uses
   two's-complement 64-bit arithmetic throughout: `iadd` is the wrapping isize addition and
   `ptr b o` the wrapping pointer offset, so the theorems hold for every delta, negative and
   wrapping ones included.

   Lists.  `Vec<ProtoStatement>` / concatenation element lists are right-nested with SSeq/SSkip
   and ECat/ENil; `Option<dynamic_select>` is the pair of constructors with and without it. *)
From Coq Require Import List Bool ZArith.
Import ListNotations.
Open Scope Z_scope.

Definition W : Z := 2 ^ 64.
Definition wrap (z : Z) : Z := z mod W.                                   (* usize / pointer *)
Definition sext (z : Z) : Z := let r := z mod W in if r <? 2 ^ 63 then r else r - W.  (* isize *)
Definition iadd (a b : Z) : Z := sext (a + b).                            (* isize wrapping + *)
Definition ptr (b o : Z) : Z := wrap (b + o).                             (* *u8 .wrapping_offset *)

Inductive voff := Ff (o : Z) | Comb (o : Z).
Definition is_ff (v : voff) : bool := match v with Ff _ => true | Comb _ => false end.
Definition raw (v : voff) : Z := match v with Ff o | Comb o => o end.

(* VarOffset::adjust *)
Definition adjust (fd cd : Z) (v : voff) : voff :=
  match v with Ff o => Ff (iadd o fd) | Comb o => Comb (iadd o cd) end.

Inductive expr :=
| EHier (n : Z)                                        (* HierVariable: no offsets yet *)
| EVar (v : voff)                                      (* Variable, dynamic_select = None *)
| EVarSel (v : voff) (idx : expr)                      (* Variable, dynamic_select = Some *)
| EDyn (base : voff) (idx : expr)                      (* DynamicVariable *)
| EDynSel (base : voff) (idx sel : expr)
| EUn (op : Z) (x : expr)
| EBin (op : Z) (x y : expr)
| ETern (c t f : expr)
| ENil | ECat (e rest : expr)                          (* Concatenation elements *)
| EVal (n : Z).

(* ProtoExpression::adjust_offsets *)
Fixpoint adjust_expr (fd cd : Z) (e : expr) : expr :=
  match e with
  | EHier n => EHier n
  | EVar v => EVar (adjust fd cd v)
  | EVarSel v i => EVarSel (adjust fd cd v) (adjust_expr fd cd i)
  | EDyn b i => EDyn (adjust fd cd b) (adjust_expr fd cd i)
  | EDynSel b i s => EDynSel (adjust fd cd b) (adjust_expr fd cd i) (adjust_expr fd cd s)
  | EUn op x => EUn op (adjust_expr fd cd x)
  | EBin op x y => EBin op (adjust_expr fd cd x) (adjust_expr fd cd y)
  | ETern c t f => ETern (adjust_expr fd cd c) (adjust_expr fd cd t) (adjust_expr fd cd f)
  | ENil => ENil
  | ECat x r => ECat (adjust_expr fd cd x) (adjust_expr fd cd r)
  | EVal n => EVal n
  end.

(* Readmemh element / VariableElement: current + optional next offset *)
Record elem := mkElem { el_cur : voff; el_next : option Z }.

(* ProtoSystemFunctionCall::Readmemh arm of adjust_offsets:
   next += if current.is_ff() { ff_delta } else { comb_delta } *)
Definition adjust_elem_readmem (fd cd : Z) (e : elem) : elem :=
  let c := adjust fd cd (el_cur e) in
  mkElem c (match el_next e with
            | Some n => Some (iadd n (if is_ff c then fd else cd))
            | None => None end).

(* reloc_var_meta: next_offset + ff_delta only when current.is_ff(), else unchanged *)
Definition reloc_elem_meta (fd cd : Z) (e : elem) : elem :=
  mkElem (adjust fd cd (el_cur e))
         (match el_next e with
          | Some n => Some (if is_ff (el_cur e) then iadd n fd else n)
          | None => None end).

Inductive stmt :=
| SAssign (dst : voff) (ffcur : Z) (e : expr)                   (* dst_ff_current_offset *)
| SAssignSel (dst : voff) (ffcur : Z) (e idx : expr)
| SAssignDyn (base : voff) (ffcur : Z) (idx e : expr)
| SIf (c : expr) (t f : stmt)
| SDisplay (args : expr)                                        (* Display/Write/Assert args *)
| SReadmem (els : list elem)
| SFor (v : voff) (lo hi : expr) (body : stmt)
| SBlock (body : stmt)                                          (* SequentialBlock *)
| SCompiled (art : Z) (fdelta cdelta : Z) (ins outs : list voff) (canon : list Z)
            (orig : stmt)                                       (* CompiledBlockStatement *)
| SSkip | SSeq (a b : stmt).

(* ProtoStatement::adjust_offsets — note the CompiledBlock arm does nothing *)
Fixpoint adjust_stmt (fd cd : Z) (s : stmt) : stmt :=
  match s with
  | SAssign d c e =>
      let d' := adjust fd cd d in
      SAssign d' (if is_ff d' then iadd c fd else c) (adjust_expr fd cd e)
  | SAssignSel d c e i =>
      let d' := adjust fd cd d in
      SAssignSel d' (if is_ff d' then iadd c fd else c) (adjust_expr fd cd e) (adjust_expr fd cd i)
  | SAssignDyn b c i e =>
      let b' := adjust fd cd b in
      SAssignDyn b' (if is_ff b' then iadd c fd else c) (adjust_expr fd cd i) (adjust_expr fd cd e)
  | SIf c t f => SIf (adjust_expr fd cd c) (adjust_stmt fd cd t) (adjust_stmt fd cd f)
  | SDisplay a => SDisplay (adjust_expr fd cd a)
  | SReadmem els => SReadmem (map (adjust_elem_readmem fd cd) els)
  | SFor v lo hi b => SFor (adjust fd cd v) (adjust_expr fd cd lo) (adjust_expr fd cd hi) (adjust_stmt fd cd b)
  | SBlock b => SBlock (adjust_stmt fd cd b)
  | SCompiled a f c i o k orig => SCompiled a f c i o k orig
  | SSkip => SSkip
  | SSeq a b => SSeq (adjust_stmt fd cd a) (adjust_stmt fd cd b)
  end.

(* inst.rs reloc_stmt / reloc_stmts: a CompiledBlock at list level accumulates the deltas and
   has every baked offset adjusted; any other statement goes through adjust_offsets *)
Fixpoint reloc_stmts (fd cd : Z) (s : stmt) : stmt :=
  match s with
  | SSkip => SSkip
  | SSeq a b => SSeq (reloc_stmts fd cd a) (reloc_stmts fd cd b)
  | SCompiled a f c i o k orig =>
      SCompiled a (iadd f fd) (iadd c cd) (map (adjust fd cd) i) (map (adjust fd cd) o)
                (map (fun x => iadd x fd) k) (reloc_stmts fd cd orig)
  | other => adjust_stmt fd cd other
  end.

(* ---- binding to buffers: ProtoStatement::apply_values_ptr (instantiate) ------------------ *)

Inductive addr := AFf (a : Z) | AComb (a : Z).
Definition bind_off (bf bc : Z) (v : voff) : addr :=
  match v with Ff o => AFf (ptr bf o) | Comb o => AComb (ptr bc o) end.

Inductive bexpr :=
| BHier (n : Z) | BVar (a : addr) | BVarSel (a : addr) (i : bexpr)
| BDyn (a : addr) (i : bexpr) | BDynSel (a : addr) (i s : bexpr)
| BUn (op : Z) (x : bexpr) | BBin (op : Z) (x y : bexpr) | BTern (c t f : bexpr)
| BNil | BCat (x r : bexpr) | BVal (n : Z).

Fixpoint bind_expr (bf bc : Z) (e : expr) : bexpr :=
  match e with
  | EHier n => BHier n
  | EVar v => BVar (bind_off bf bc v)
  | EVarSel v i => BVarSel (bind_off bf bc v) (bind_expr bf bc i)
  | EDyn b i => BDyn (bind_off bf bc b) (bind_expr bf bc i)
  | EDynSel b i s => BDynSel (bind_off bf bc b) (bind_expr bf bc i) (bind_expr bf bc s)
  | EUn op x => BUn op (bind_expr bf bc x)
  | EBin op x y => BBin op (bind_expr bf bc x) (bind_expr bf bc y)
  | ETern c t f => BTern (bind_expr bf bc c) (bind_expr bf bc t) (bind_expr bf bc f)
  | ENil => BNil
  | ECat x r => BCat (bind_expr bf bc x) (bind_expr bf bc r)
  | EVal n => BVal n
  end.

(* the FF "current" slot is only meaningful (and only read) for an FF destination *)
Definition bind_cur (bf : Z) (d : voff) (c : Z) : option Z :=
  if is_ff d then Some (ptr bf c) else None.

(* element: the next slot lives in the same buffer as current *)
Definition bind_elem (bf bc : Z) (e : elem) : addr * option Z :=
  (bind_off bf bc (el_cur e),
   match el_next e with
   | Some n => Some (ptr (if is_ff (el_cur e) then bf else bc) n)
   | None => None end).

(* variable meta element: next_offset is an FF-buffer offset, read only for FF elements *)
Definition bind_elem_meta (bf bc : Z) (e : elem) : addr * option Z :=
  (bind_off bf bc (el_cur e),
   match el_next e with
   | Some n => if is_ff (el_cur e) then Some (ptr bf n) else None
   | None => None end).

Inductive bstmt :=
| BAssign (d : addr) (cur : option Z) (e : bexpr)
| BAssignSel (d : addr) (cur : option Z) (e i : bexpr)
| BAssignDyn (d : addr) (cur : option Z) (i e : bexpr)
| BIf (c : bexpr) (t f : bstmt)
| BDisplay (a : bexpr)
| BReadmem (els : list (addr * option Z))
| BFor (v : addr) (lo hi : bexpr) (b : bstmt)
| BBlock (b : bstmt)
  (* compiled code: artifact id, adjusted ff / comb base pointers handed to the function, the
     absolute write-log slots (baked canonical offset + runtime ff_delta, relative to the ff
     buffer), and the absolute cells named as inputs / outputs *)
| BCompiled (art : Z) (ffbase combbase : Z) (ins outs : list addr) (canon : list Z) (orig : bstmt)
| BSkip | BSeq (a b : bstmt).

Fixpoint bind_stmt (bf bc : Z) (s : stmt) : bstmt :=
  match s with
  | SAssign d c e => BAssign (bind_off bf bc d) (bind_cur bf d c) (bind_expr bf bc e)
  | SAssignSel d c e i => BAssignSel (bind_off bf bc d) (bind_cur bf d c) (bind_expr bf bc e) (bind_expr bf bc i)
  | SAssignDyn b c i e => BAssignDyn (bind_off bf bc b) (bind_cur bf b c) (bind_expr bf bc i) (bind_expr bf bc e)
  | SIf c t f => BIf (bind_expr bf bc c) (bind_stmt bf bc t) (bind_stmt bf bc f)
  | SDisplay a => BDisplay (bind_expr bf bc a)
  | SReadmem els => BReadmem (map (bind_elem bf bc) els)
  | SFor v lo hi b => BFor (bind_off bf bc v) (bind_expr bf bc lo) (bind_expr bf bc hi) (bind_stmt bf bc b)
  | SBlock b => BBlock (bind_stmt bf bc b)
  | SCompiled a f c i o k orig =>
      BCompiled a (ptr bf f) (ptr bc c) (map (bind_off bf bc) i) (map (bind_off bf bc) o)
                (map (ptr bf) k) (bind_stmt bf bc orig)
  | SSkip => BSkip
  | SSeq a b => BSeq (bind_stmt bf bc a) (bind_stmt bf bc b)
  end.

(* CompiledBlocks occur only at statement-list level (or inside another block's original
   statement list), never under If / For / SequentialBlock — the shape inst.rs produces.
   adjust_offsets silently skips a CompiledBlock, so this is what reloc_stmts relies on. *)
Fixpoint no_compiled (s : stmt) : bool :=
  match s with
  | SCompiled _ _ _ _ _ _ _ => false
  | SIf _ t f => no_compiled t && no_compiled f
  | SFor _ _ _ b => no_compiled b
  | SBlock b => no_compiled b
  | SSeq a b => no_compiled a && no_compiled b
  | _ => true
  end.

Fixpoint flat (s : stmt) : bool :=
  match s with
  | SSkip => true
  | SSeq a b => flat a && flat b
  | SCompiled _ _ _ _ _ _ orig => flat orig
  | other => no_compiled other
  end.

(* a cached subtree: statement lists plus the variable-meta elements of the child modules *)
Record subtree := mkSub {
  st_event : stmt; st_comb : stmt; st_post : stmt;
  st_meta : list elem; st_clock_cands : list voff }.

(* relocate_entry *)
Definition relocate (d : Z * Z) (t : subtree) : subtree :=
  let '(fd, cd) := d in
  mkSub (reloc_stmts fd cd (st_event t)) (reloc_stmts fd cd (st_comb t)) (reloc_stmts fd cd (st_post t))
        (map (reloc_elem_meta fd cd) (st_meta t)) (map (adjust fd cd) (st_clock_cands t)).

Definition bind_subtree (b : Z * Z) (t : subtree) :=
  let '(bf, bc) := b in
  (bind_stmt bf bc (st_event t), bind_stmt bf bc (st_comb t), bind_stmt bf bc (st_post t),
   map (bind_elem_meta bf bc) (st_meta t), map (bind_off bf bc) (st_clock_cands t)).

Definition flat_subtree (t : subtree) : bool :=
  flat (st_event t) && flat (st_comb t) && flat (st_post t).
