(* C34 — model of the converted-module caches of the simulator (definitions only).

   Code modelled
   -------------
   crates/simulator/src/ir.rs        build_ir_cached / ProtoModuleCache
       hit : entry.proto.instantiate(); Ir::from_module(module, config, entry.token)
       miss: Conv::conv(..)? ; instantiate ; insert(top, CacheEntry{proto, token})
             (an error of conv returns early: nothing is inserted)
   crates/simulator/src/backend/inst.rs   try_reuse_or_claim / ClaimGuard::store / relocate_entry
       gate: !dut_reuse || alias_enabled -> Disabled (convert, do not cache)
       hit : relocate_entry(entry, ff_start, comb_start)   (delta = start - entry.ref_start)
       miss: convert at (ff_start, comb_start); store with ref_start := start
             (a conversion error drops the claim: nothing is stored)

   The model is generic in the request type (everything the conversion reads), the key
   projection, the conversion itself and the post-processing done on every request
   (instantiate + from_module), so that the theorems quantify over all of them. *)
From Coq Require Import List Bool ZArith.
Import ListNotations.

Section Memo.
  (* Req: one request = everything the conversion entry point reads (design, top, config,
     parameter overrides, instance layout ...).  K: the cache key type.  V: the stored proto.
     R: what the caller receives (instantiated module). *)
  Variables (Req K V R : Type).
  Variable key   : Req -> K.
  Variable keqb  : K -> K -> bool.
  Variable conv  : Req -> option V.          (* None = conversion error / top not found *)
  Variable finish : Req -> V -> R.           (* instantiate + Ir::from_module(.., config, token) *)

  Definition cache := list (K * V).

  Fixpoint lookup (c : cache) (k : K) : option V :=
    match c with
    | [] => None
    | (k', v) :: c' => if keqb k' k then Some v else lookup c' k
    end.

  (* build_ir (no cache) *)
  Definition uncached (r : Req) : option R :=
    match conv r with Some v => Some (finish r v) | None => None end.

  (* build_ir_cached *)
  Definition cached_step (c : cache) (r : Req) : option R * cache :=
    match lookup c (key r) with
    | Some v => (Some (finish r v), c)
    | None =>
        match conv r with
        | Some v => (Some (finish r v), (key r, v) :: c)
        | None => (None, c)
        end
    end.

  Fixpoint run (c : cache) (rs : list Req) : list (option R) * cache :=
    match rs with
    | [] => ([], c)
    | r :: rs' =>
        let '(o, c1) := cached_step c r in
        let '(os, c2) := run c1 rs' in
        (o :: os, c2)
    end.

  (* every stored value is the conversion of some request with that key *)
  Definition cache_ok (c : cache) : Prop :=
    forall k v, lookup c k = Some v -> exists r, key r = k /\ conv r = Some v.

  (* the exact condition on the key: a request that shares its key with a successfully
     converted request must yield, from that stored proto, what it would get from scratch *)
  Definition key_sufficient : Prop :=
    forall x y vx, key x = key y -> conv x = Some vx -> uncached y = Some (finish y vx).

  (* the same, restricted to the requests of one process (P): what the CLI needs, because the
     analyzer IR and the Config are fixed for the life of the process *)
  Definition cache_ok_on (P : Req -> Prop) (c : cache) : Prop :=
    forall k v, lookup c k = Some v -> exists r, P r /\ key r = k /\ conv r = Some v.
  Definition key_sufficient_on (P : Req -> Prop) : Prop :=
    forall x y vx, P x -> P y -> key x = key y -> conv x = Some vx ->
                   uncached y = Some (finish y vx).

  (* the sufficient condition as usually phrased: the key determines the conversion *)
  Definition key_determines_conv : Prop :=
    forall x y, key x = key y -> conv x = conv y.
End Memo.

Arguments lookup {K V} keqb c k.
Arguments uncached {Req V R} conv finish r.
Arguments cached_step {Req K V R} key keqb conv finish c r.
Arguments run {Req K V R} key keqb conv finish c rs.
Arguments cache_ok {Req K V} key keqb conv c.
Arguments key_sufficient {Req K V R} key conv finish.
Arguments key_determines_conv {Req K V} key conv.
Arguments cache_ok_on {Req K V} key keqb conv P c.
Arguments key_sufficient_on {Req K V R} key conv finish P.

(* ---------------------------------------------------------------------------------------
   The cross-test statement cache with relocation (GLOBAL_STMT_CACHE).

   A request is (component, start, alias_enabled); the key is the component only; the stored
   entry remembers the start it was converted at; a hit relocates by (start - ref_start).  *)
Section RelocMemo.
  Variables (Comp P : Type).                 (* component identity; converted subtree *)
  Variable ceqb : Comp -> Comp -> bool.
  Variable convat : Comp -> Z * Z -> option P.        (* convert at (ff_start, comb_start) *)
  Variable reloc : Z * Z -> P -> P.                   (* relocate by (ff_delta, comb_delta) *)
  Variable dut_reuse : bool.                          (* process constant (Config.dut_reuse) *)

  Record rreq := mkRReq { rq_comp : Comp; rq_start : Z * Z; rq_alias : bool }.

  Definition rentry : Type := (Z * Z) * P.            (* (ref_ff_start, ref_comb_start), subtree *)
  Definition rcache := list (Comp * rentry).

  Definition delta (s ref : Z * Z) : Z * Z := (fst s - fst ref, snd s - snd ref)%Z.

  Definition reuse_step (c : rcache) (r : rreq) : option P * rcache :=
    if negb dut_reuse || rq_alias r then (convat (rq_comp r) (rq_start r), c)   (* Disabled *)
    else
      match lookup ceqb c (rq_comp r) with
      | Some (ref, p) => (Some (reloc (delta (rq_start r) ref) p), c)             (* Hit *)
      | None =>
          match convat (rq_comp r) (rq_start r) with                              (* Compute *)
          | Some p => (Some p, (rq_comp r, (rq_start r, p)) :: c)
          | None => (None, c)
          end
      end.

  Fixpoint reuse_run (c : rcache) (rs : list rreq) : list (option P) * rcache :=
    match rs with
    | [] => ([], c)
    | r :: rs' =>
        let '(o, c1) := reuse_step c r in
        let '(os, c2) := reuse_run c1 rs' in
        (o :: os, c2)
    end.

  Definition from_scratch (r : rreq) : option P := convat (rq_comp r) (rq_start r).

  (* conversion is position-equivariant: converting at another start is the relocation *)
  Definition equivariant : Prop :=
    forall cmp s s' p, convat cmp s = Some p -> convat cmp s' = Some (reloc (delta s' s) p).

  Definition rcache_ok (c : rcache) : Prop :=
    forall k ref p, lookup ceqb c k = Some (ref, p) -> convat k ref = Some p.
End RelocMemo.

Arguments mkRReq {Comp} _ _ _.
Arguments rq_comp {Comp} _.
Arguments rq_start {Comp} _.
Arguments rq_alias {Comp} _.
Arguments reuse_step {Comp P} ceqb convat reloc dut_reuse c r.
Arguments reuse_run {Comp P} ceqb convat reloc dut_reuse c rs.
Arguments from_scratch {Comp P} convat r.
Arguments equivariant {Comp P} convat reloc.
Arguments rcache_ok {Comp P} ceqb convat c.
