(* C34 — proofs about the relocation model RelocModel.v. *)
From Coq Require Import List Bool ZArith Lia.
From VV Require Import Memo.RelocModel.
Import ListNotations.
Open Scope Z_scope.

Lemma W_pos : 0 < W.
Proof. unfold W. reflexivity. Qed.

Lemma sext_mod : forall z, (sext z) mod W = z mod W.
Proof.
  intros z. unfold sext. cbv zeta.
  destruct (z mod W <? 2 ^ 63).
  - apply Z.mod_mod. unfold W. discriminate.
  - replace (z mod W - W) with (z mod W + (-1) * W) by ring.
    rewrite Z.mod_add by (unfold W; discriminate).
    apply Z.mod_mod. unfold W. discriminate.
Qed.

Lemma wrap_add_l : forall a b, wrap (wrap a + b) = wrap (a + b).
Proof. intros. unfold wrap. apply Z.add_mod_idemp_l. unfold W. discriminate. Qed.

Lemma wrap_add_r : forall a b, wrap (a + wrap b) = wrap (a + b).
Proof. intros. unfold wrap. apply Z.add_mod_idemp_r. unfold W. discriminate. Qed.

Lemma wrap_sext_r : forall a z, wrap (a + sext z) = wrap (a + z).
Proof.
  intros. unfold wrap.
  rewrite <- (Z.add_mod_idemp_r a (sext z)) by (unfold W; discriminate).
  rewrite sext_mod. apply Z.add_mod_idemp_r. unfold W. discriminate.
Qed.

(* the arithmetic core: offsetting a pointer by a relocated offset = offsetting the
   relocated pointer by the original offset, for ALL 64-bit values (negative deltas and
   wrapping sums included) *)
Lemma ptr_iadd : forall b o d, ptr b (iadd o d) = ptr (ptr b d) o.
Proof.
  intros. unfold ptr, iadd. rewrite wrap_sext_r, wrap_add_l. f_equal. ring.
Qed.

Lemma sext_congr : forall a b, a mod W = b mod W -> sext a = sext b.
Proof. intros a b H. unfold sext. cbv zeta. rewrite H. reflexivity. Qed.

Lemma iadd_assoc : forall o a b, iadd (iadd o a) b = iadd o (iadd a b).
Proof.
  intros. unfold iadd. apply sext_congr.
  rewrite <- (Z.add_mod_idemp_l (sext (o + a)) b) by (unfold W; discriminate).
  rewrite sext_mod.
  rewrite Z.add_mod_idemp_l by (unfold W; discriminate).
  rewrite <- (Z.add_mod_idemp_r o (sext (a + b))) by (unfold W; discriminate).
  rewrite sext_mod.
  rewrite Z.add_mod_idemp_r by (unfold W; discriminate).
  f_equal. ring.
Qed.

Lemma ptr_ptr : forall b d1 d2, ptr (ptr b d1) d2 = ptr b (iadd d1 d2).
Proof.
  intros. rewrite ptr_iadd. unfold ptr. rewrite !wrap_add_l. f_equal. ring.
Qed.

Lemma is_ff_adjust : forall fd cd v, is_ff (adjust fd cd v) = is_ff v.
Proof. intros fd cd [o|o]; reflexivity. Qed.

Lemma bind_adjust : forall bf bc fd cd v,
  bind_off bf bc (adjust fd cd v) = bind_off (ptr bf fd) (ptr bc cd) v.
Proof. intros bf bc fd cd [o|o]; simpl; rewrite ptr_iadd; reflexivity. Qed.

Lemma bind_adjust_expr : forall bf bc fd cd e,
  bind_expr bf bc (adjust_expr fd cd e) = bind_expr (ptr bf fd) (ptr bc cd) e.
Proof.
  intros bf bc fd cd e. induction e; simpl; rewrite ?bind_adjust;
    rewrite ?IHe, ?IHe1, ?IHe2, ?IHe3; reflexivity.
Qed.

Lemma bind_cur_adjust : forall bf fd cd d c,
  bind_cur bf (adjust fd cd d) (if is_ff (adjust fd cd d) then iadd c fd else c)
  = bind_cur (ptr bf fd) d c.
Proof.
  intros bf fd cd [o|o] c; unfold bind_cur; simpl; [rewrite ptr_iadd|]; reflexivity.
Qed.

Lemma bind_elem_readmem : forall bf bc fd cd e,
  bind_elem bf bc (adjust_elem_readmem fd cd e) = bind_elem (ptr bf fd) (ptr bc cd) e.
Proof.
  intros bf bc fd cd [[o|o] [n|]]; unfold bind_elem, adjust_elem_readmem; simpl;
    rewrite ?ptr_iadd; reflexivity.
Qed.

Lemma bind_elem_meta_reloc : forall bf bc fd cd e,
  bind_elem_meta bf bc (reloc_elem_meta fd cd e) = bind_elem_meta (ptr bf fd) (ptr bc cd) e.
Proof.
  intros bf bc fd cd [[o|o] [n|]]; unfold bind_elem_meta, reloc_elem_meta; simpl;
    rewrite ?ptr_iadd; reflexivity.
Qed.

Lemma map_ext_all : forall (A B : Type) (f g : A -> B) l, (forall x, f x = g x) -> map f l = map g l.
Proof. intros. apply map_ext. assumption. Qed.

(* ProtoStatement::adjust_offsets is sound on statements without compiled blocks *)
Lemma adjust_stmt_sound : forall bf bc fd cd s,
  no_compiled s = true ->
  bind_stmt bf bc (adjust_stmt fd cd s) = bind_stmt (ptr bf fd) (ptr bc cd) s.
Proof.
  intros bf bc fd cd s. induction s; intro H; simpl in *;
    try (apply andb_prop in H; destruct H as [H1 H2]);
    rewrite ?bind_adjust, ?bind_adjust_expr, ?bind_cur_adjust;
    try reflexivity; try discriminate.
  - rewrite IHs1, IHs2 by assumption. reflexivity.
  - rewrite map_map. f_equal. apply map_ext_all. intro e. apply bind_elem_readmem.
  - rewrite IHs by assumption. reflexivity.
  - rewrite IHs by assumption. reflexivity.
  - rewrite IHs1, IHs2 by assumption. reflexivity.
Qed.

(* reloc_sound: binding the relocated statements at base b = binding the original at b+delta *)
Theorem reloc_sound : forall bf bc fd cd s,
  flat s = true ->
  bind_stmt bf bc (reloc_stmts fd cd s) = bind_stmt (ptr bf fd) (ptr bc cd) s.
Proof.
  intros bf bc fd cd s. induction s; intro H;
    try (apply (adjust_stmt_sound bf bc fd cd); exact H).
  - (* SCompiled *)
    simpl in *. rewrite IHs by exact H. rewrite !map_map.
    rewrite ptr_ptr, ptr_ptr.
    replace (ptr bf (iadd fdelta fd)) with (ptr bf (iadd fd fdelta)).
    2:{ unfold ptr, iadd. rewrite !wrap_sext_r. f_equal. ring. }
    replace (ptr bc (iadd cdelta cd)) with (ptr bc (iadd cd cdelta)).
    2:{ unfold ptr, iadd. rewrite !wrap_sext_r. f_equal. ring. }
    f_equal; apply map_ext_all; intro x; try apply bind_adjust. apply ptr_iadd.
  - reflexivity.
  - simpl in *. apply andb_prop in H. destruct H as [H1 H2].
    rewrite IHs1, IHs2 by assumption. reflexivity.
Qed.

Theorem relocate_sound : forall bf bc fd cd t,
  flat_subtree t = true ->
  bind_subtree (bf, bc) (relocate (fd, cd) t) = bind_subtree (ptr bf fd, ptr bc cd) t.
Proof.
  intros bf bc fd cd t H. unfold flat_subtree in H.
  apply andb_prop in H. destruct H as [H H3]. apply andb_prop in H. destruct H as [H1 H2].
  unfold bind_subtree, relocate. simpl.
  rewrite !reloc_sound by assumption. rewrite !map_map.
  f_equal; [f_equal|]; apply map_ext_all; intro x; [apply bind_elem_meta_reloc|apply bind_adjust].
Qed.

(* composition of relocations (a subtree cached in test 1, reused in test 2, its parent cached
   and reused again in test 3, ...): two relocations = one relocation by the wrapped sum *)
Lemma adjust_compose : forall f1 c1 f2 c2 v,
  adjust f2 c2 (adjust f1 c1 v) = adjust (iadd f1 f2) (iadd c1 c2) v.
Proof. intros f1 c1 f2 c2 [o|o]; simpl; rewrite iadd_assoc; reflexivity. Qed.

Lemma adjust_expr_compose : forall f1 c1 f2 c2 e,
  adjust_expr f2 c2 (adjust_expr f1 c1 e) = adjust_expr (iadd f1 f2) (iadd c1 c2) e.
Proof.
  intros f1 c1 f2 c2 e. induction e; simpl; rewrite ?adjust_compose;
    rewrite ?IHe, ?IHe1, ?IHe2, ?IHe3; reflexivity.
Qed.

Lemma adjust_stmt_compose : forall f1 c1 f2 c2 s,
  adjust_stmt f2 c2 (adjust_stmt f1 c1 s) = adjust_stmt (iadd f1 f2) (iadd c1 c2) s.
Proof.
  intros f1 c1 f2 c2 s. induction s; simpl;
    rewrite ?adjust_compose, ?adjust_expr_compose, ?is_ff_adjust;
    rewrite ?IHs, ?IHs1, ?IHs2; try reflexivity.
  - destruct (is_ff dst); [rewrite iadd_assoc|]; reflexivity.
  - destruct (is_ff dst); [rewrite iadd_assoc|]; reflexivity.
  - destruct (is_ff base); [rewrite iadd_assoc|]; reflexivity.
  - rewrite map_map. f_equal. apply map_ext_all. intros [[o|o] [n|]];
      unfold adjust_elem_readmem; simpl; rewrite ?iadd_assoc; reflexivity.
Qed.

Theorem reloc_compose : forall f1 c1 f2 c2 s,
  reloc_stmts f2 c2 (reloc_stmts f1 c1 s) = reloc_stmts (iadd f1 f2) (iadd c1 c2) s.
Proof.
  intros f1 c1 f2 c2 s. induction s;
    try (match goal with |- reloc_stmts _ _ (reloc_stmts _ _ ?t) = _ =>
           exact (adjust_stmt_compose f1 c1 f2 c2 t) end).
  - simpl. rewrite IHs, !map_map, !iadd_assoc.
    f_equal; apply map_ext_all; intro x; try apply adjust_compose. apply iadd_assoc.
  - simpl. rewrite IHs1, IHs2. reflexivity.
Qed.

(* the flatness hypothesis of reloc_sound is necessary: adjust_offsets skips a CompiledBlock,
   so one nested under an `if` keeps its old base *)
Example reloc_needs_flat :
  let s := SIf (EVal 1) (SCompiled 7 0 0 [] [] [] SSkip) SSkip in
  flat s = false /\
  bind_stmt 4096 8192 (reloc_stmts 64 128 s) <> bind_stmt (ptr 4096 64) (ptr 8192 128) s.
Proof. split; [reflexivity|]. vm_compute. intro H. discriminate H. Qed.

(* non-vacuity and a negative / wrapping delta *)
Example reloc_example_negative :
  let s := SSeq (SAssign (Ff 16) 24 (EBin 1 (EVar (Comb 8)) (EVarSel (Ff 32) (EVar (Comb 12)))))
           (SSeq (SCompiled 3 0 0 [Comb 8] [Ff 16] [16] (SAssign (Ff 16) 24 (EVar (Comb 8)))) SSkip) in
  flat s = true /\
  bind_stmt 1000 2000 (reloc_stmts (-16) (-8) s) = bind_stmt 984 1992 s /\
  bind_stmt 8 0 (reloc_stmts (-16) (2 ^ 63 - 1) s) = bind_stmt (2 ^ 64 - 8) (2 ^ 63 - 1) s.
Proof. vm_compute. repeat split. Qed.

Lemma sext_small : forall z, - 2 ^ 63 <= z < 2 ^ 63 -> sext z = z.
Proof.
  intros z H. unfold sext, W. cbv zeta.
  destruct (Z_lt_le_dec z 0) as [Hn|Hp].
  - replace (z mod 2 ^ 64) with (z + 2 ^ 64).
    2:{ apply Z.mod_unique with (q := -1); lia. }
    destruct (z + 2 ^ 64 <? 2 ^ 63) eqn:E; [apply Z.ltb_lt in E; lia|lia].
  - rewrite Z.mod_small by lia.
    destruct (z <? 2 ^ 63) eqn:E; [reflexivity|apply Z.ltb_ge in E; lia].
Qed.

(* a conversion that lays a subtree out at start + constants is equivariant (inside isize) *)
Lemma equivariant_example :
  let convat := fun (c : nat) (s : Z * Z) =>
      Some (SAssign (Ff (fst s + 8)) (fst s + 8) (EVar (Comb (snd s + 4)))) in
  forall s s', (-1000 <= fst s <= 1000 /\ -1000 <= snd s <= 1000 /\
                -1000 <= fst s' <= 1000 /\ -1000 <= snd s' <= 1000) ->
  convat 0%nat s' = Some (reloc_stmts (fst s' - fst s) (snd s' - snd s)
                        (SAssign (Ff (fst s + 8)) (fst s + 8) (EVar (Comb (snd s + 4))))).
Proof.
  intros convat [a b] [a' b'] H. simpl in *. unfold convat. simpl. unfold iadd.
  rewrite !sext_small by lia. do 2 f_equal; try (f_equal; lia); try lia.
  f_equal. f_equal. lia.
Qed.
