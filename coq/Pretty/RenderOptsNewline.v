(* C26, newline part: the renderer's output is an instantiation of an ABSTRACT output
   (characters + NEWLINE markers) that does not depend on the newline string; all other
   observable state (column, line, swallow flag, pending indent, anchors) and every group-fit
   decision is independent of the newline string.

   Proved by a simulation relation between the render states of two runs whose options agree
   on max_width and indent_width (the newline strings and the strip flag may differ), through
   every primitive of Render.v and through [render_doc] by induction on the document.

   The only place where the renderer READS its own output is DedentHardline's all-spaces
   test; it is insensitive to the newline string when that string is non-empty and holds no
   space (true for LF and CRLF).

   Scope: the RAW output (render_text with strip = false).  This is what the emitter uses
   (crates/emitter/src/emitter.rs sets strip_trailing_whitespace: false).  Through
   strip_trailing_whitespace the statement is FALSE for documents whose texts embed a bare LF
   (split on CRLF does not split there): see [newline_strip_refuted]. *)
From VV Require Import Pretty.Render.
Open Scope N_scope.

Inductive atom := Ch (c : N) | NLm.

(* instantiate an abstract output with a newline string *)
Definition inst_atom (nl : str) (a : atom) : list N := match a with Ch c => [c] | NLm => nl end.
Definition inst (nl : str) (a : list atom) : list N := flat_map (inst_atom nl) a.

(* same, on reversed output *)
Definition rinst_atom (nl : str) (a : atom) : list N := match a with Ch c => [c] | NLm => rev nl end.
Definition rinst (nl : str) (ar : list atom) : list N := flat_map (rinst_atom nl) ar.

Definition nl_good (nl : str) : Prop := nl <> [] /\ forallb (fun c => negb (c =? SP)) nl = true.

Definition same_layout (o1 o2 : opts) : Prop :=
  max_width o1 = max_width o2 /\ indent_width o1 = indent_width o2.

Definition srel (nl1 nl2 : str) (s1 s2 : state) : Prop :=
  exists ar, rout s1 = rinst nl1 ar /\ rout s2 = rinst nl2 ar /\
    col s1 = col s2 /\ cur_line s1 = cur_line s2 /\ swallow s1 = swallow s2 /\
    pending s1 = pending s2 /\ ranchors s1 = ranchors s2.

(* ---------------------------------------------------------------- list facts *)

Lemma rinst_app nl a b : rinst nl (a ++ b) = rinst nl a ++ rinst nl b.
Proof. apply flat_map_app. Qed.

Lemma rinst_chs nl s : rinst nl (map Ch s) = s.
Proof. induction s as [|c s IH]; simpl; congruence. Qed.

Lemma push_rinst nl s ar : push s (rinst nl ar) = rinst nl (map Ch (rev s) ++ ar).
Proof. unfold push. rewrite rev_append_rev, rinst_app, rinst_chs. reflexivity. Qed.

Lemma push_nl_rinst nl ar : push nl (rinst nl ar) = rinst nl (NLm :: ar).
Proof. unfold push. rewrite rev_append_rev. reflexivity. Qed.

Lemma cons_rinst nl c ar : c :: rinst nl ar = rinst nl (Ch c :: ar).
Proof. reflexivity. Qed.

Lemma iter_push_nl nl n ar :
  N.iter n (push nl) (rinst nl ar) = rinst nl (repeat NLm (N.to_nat n) ++ ar).
Proof.
  induction n as [|n IH] using N.peano_ind.
  - reflexivity.
  - rewrite N.iter_succ, IH, push_nl_rinst, N2Nat.inj_succ. reflexivity.
Qed.

Lemma rev_inst nl ar : rev (rinst nl ar) = inst nl (rev ar).
Proof.
  induction ar as [|a ar IH]; simpl; auto.
  rewrite rev_app_distr, IH. unfold inst. rewrite flat_map_app. simpl. rewrite app_nil_r.
  f_equal. destruct a; simpl; auto. apply rev_involutive.
Qed.

(* all-spaces test on the abstract output *)
Fixpoint all_spaces_atoms (n : nat) (l : list atom) : bool :=
  match n with
  | O => true
  | S n' => match l with Ch c :: r => (c =? SP) && all_spaces_atoms n' r | _ => false end
  end.

Lemma nl_good_rev_head nl : nl_good nl -> exists c r, rev nl = c :: r /\ (c =? SP) = false.
Proof.
  intros [Hne Hsp]. destruct (rev nl) as [|c r] eqn:E.
  - apply (f_equal (@rev N)) in E. rewrite rev_involutive in E. simpl in E. congruence.
  - exists c, r. split; auto.
    assert (Hin : In c nl) by (apply in_rev; rewrite E; left; reflexivity).
    rewrite forallb_forall in Hsp. specialize (Hsp c Hin).
    destruct (c =? SP); auto; discriminate.
Qed.

Lemma all_spaces_rinst nl n ar : nl_good nl ->
  all_spaces_prefix n (rinst nl ar) = all_spaces_atoms n ar.
Proof.
  intros G. revert ar. induction n as [|n IH]; intros ar; simpl; auto.
  destruct ar as [|[c|] ar]; simpl; auto.
  - rewrite IH. reflexivity.
  - destruct (nl_good_rev_head nl G) as (c & r & -> & Hc). simpl. rewrite Hc. reflexivity.
Qed.

Lemma skipn_rinst nl n ar : all_spaces_atoms n ar = true ->
  skipn n (rinst nl ar) = rinst nl (skipn n ar).
Proof.
  revert ar. induction n as [|n IH]; intros ar H; simpl in *; auto.
  destruct ar as [|[c|] ar]; try discriminate.
  apply andb_true_iff in H as [_ H]. simpl. apply IH. assumption.
Qed.

(* ---------------------------------------------------------------- primitives *)

Lemma srel_intro nl1 nl2 ar ro1 ro2 c l sw p an :
  ro1 = rinst nl1 ar -> ro2 = rinst nl2 ar ->
  srel nl1 nl2 (mkState ro1 c l sw p an) (mkState ro2 c l sw p an).
Proof. intros -> ->. exists ar. repeat split. Qed.

Ltac srel_elim H :=
  match type of H with
  | srel _ _ ?s1 ?s2 =>
      destruct s1 as [ro1 c1 l1 sw1 p1 an1], s2 as [ro2 c2 l2 sw2 p2 an2];
      let ar := fresh "ar" in
      destruct H as (ar & E1 & E2 & E3 & E4 & E5 & E6 & E7); simpl in E1, E2, E3, E4, E5, E6, E7;
      subst ro1 ro2 c2 l2 sw2 p2 an2
  end.

Ltac srel_push := eapply srel_intro;
  repeat first [ rewrite push_nl_rinst | rewrite iter_push_nl | rewrite push_rinst | rewrite cons_rinst ];
  reflexivity.

Section Sim.
  Variables o1 o2 : opts.
  Hypothesis HL : same_layout o1 o2.
  Let nl1 := newline o1.
  Let nl2 := newline o2.

  Lemma pad_for_eq i : pad_for o1 i = pad_for o2 i.
  Proof. unfold pad_for. destruct HL as [_ ->]. reflexivity. Qed.

  Lemma sim_flush_pending s1 s2 :
    srel nl1 nl2 s1 s2 -> srel nl1 nl2 (flush_pending s1) (flush_pending s2).
  Proof.
    intros H. srel_elim H. unfold flush_pending; simpl.
    destruct p1; [srel_push | eapply srel_intro; reflexivity].
  Qed.

  Lemma sim_flush_wi i s1 s2 :
    srel nl1 nl2 s1 s2 ->
    srel nl1 nl2 (flush_pending_with_indent o1 i s1) (flush_pending_with_indent o2 i s2).
  Proof.
    intros H. srel_elim H. unfold flush_pending_with_indent; simpl. rewrite pad_for_eq.
    destruct p1; [srel_push | eapply srel_intro; reflexivity].
  Qed.

  Lemma sim_put_text s s1 s2 :
    srel nl1 nl2 s1 s2 -> srel nl1 nl2 (put_text s s1) (put_text s s2).
  Proof.
    intros H. srel_elim H. unfold put_text; simpl. destruct (count_nl s =? 0); srel_push.
  Qed.

  Lemma sim_put_flat s s1 s2 :
    srel nl1 nl2 s1 s2 -> srel nl1 nl2 (put_flat s s1) (put_flat s s2).
  Proof. intros H. srel_elim H. unfold put_flat; simpl. srel_push. Qed.

  Lemma sim_emit_break i s1 s2 :
    srel nl1 nl2 s1 s2 -> srel nl1 nl2 (emit_break o1 i s1) (emit_break o2 i s2).
  Proof.
    intros H. srel_elim H. unfold emit_break; simpl. rewrite pad_for_eq.
    destruct sw1; [eapply srel_intro; reflexivity|].
    fold nl1 nl2. srel_push.
  Qed.

  Lemma sim_dedent_trunc lvl s1 s2 : nl_good nl1 -> nl_good nl2 ->
    srel nl1 nl2 s1 s2 -> srel nl1 nl2 (dedent_trunc o1 lvl s1) (dedent_trunc o2 lvl s2).
  Proof.
    intros G1 G2 H. srel_elim H. unfold dedent_trunc; simpl.
    destruct HL as [_ Hiw]. rewrite Hiw.
    destruct ((0 <? lvl * indent_width o2) && _); [|eapply srel_intro; reflexivity].
    rewrite !all_spaces_rinst by assumption.
    destruct (all_spaces_atoms _ ar) eqn:E; [|eapply srel_intro; reflexivity].
    eapply srel_intro; apply skipn_rinst; exact E.
  Qed.

  Lemma sim_put_spaces i w s1 s2 :
    srel nl1 nl2 s1 s2 -> srel nl1 nl2 (put_spaces o1 i w s1) (put_spaces o2 i w s2).
  Proof.
    intros H. apply (sim_flush_wi i) in H. unfold put_spaces.
    srel_elim H. simpl. srel_push.
  Qed.

  Lemma sim_flat_space s1 s2 :
    srel nl1 nl2 s1 s2 -> srel nl1 nl2 (flat_space s1) (flat_space s2).
  Proof.
    intros H. apply sim_flush_pending in H. unfold flat_space. srel_elim H. simpl. srel_push.
  Qed.

  Lemma sim_emit_anchored i s sl sc s1 s2 :
    srel nl1 nl2 s1 s2 ->
    srel nl1 nl2 (emit_anchored o1 i s sl sc s1) (emit_anchored o2 i s sl sc s2).
  Proof.
    intros H. apply (sim_flush_wi i) in H. unfold emit_anchored. apply sim_put_text.
    srel_elim H. simpl. eapply srel_intro; reflexivity.
  Qed.

  Lemma sim_render_comment i c s1 s2 :
    srel nl1 nl2 s1 s2 ->
    srel nl1 nl2 (render_comment o1 i s1 c) (render_comment o2 i s2 c).
  Proof.
    intros H. srel_elim H. unfold render_comment; simpl. rewrite pad_for_eq. fold nl1 nl2.
    destruct ((c_lead c =? 0) && negb sw1 && negb (match p1 with Some _ => true | None => false end)).
    - destruct (0 <? c1); simpl;
        destruct (negb (c_sl c =? 0) && negb (c_sc c =? 0)); simpl;
        destruct (c_is_line c); try destruct (0 <? count_nl (c_text c)); srel_push.
    - simpl. destruct (negb (c_sl c =? 0) && negb (c_sc c =? 0)); simpl;
        destruct (c_is_line c); try destruct (0 <? count_nl (c_text c)); srel_push.
  Qed.

  Lemma sim_render_comments i cs : forall s1 s2,
    srel nl1 nl2 s1 s2 ->
    srel nl1 nl2 (render_comments o1 i cs s1) (render_comments o2 i cs s2).
  Proof.
    unfold render_comments. induction cs as [|c cs IH]; intros s1 s2 H; simpl; auto.
    apply IH. apply sim_render_comment. assumption.
  Qed.

  Lemma srel_col s1 s2 : srel nl1 nl2 s1 s2 -> col s1 = col s2.
  Proof. intros (ar & _ & _ & E & _). exact E. Qed.

  Lemma sim_render_doc (G1 : nl_good nl1) (G2 : nl_good nl2) d :
    forall i m k s1 s2, srel nl1 nl2 s1 s2 ->
    srel nl1 nl2 (render_doc o1 i m d k s1) (render_doc o2 i m d k s2).
  Proof.
    induction d as [ |s|l IH|off d IH|d IH|d IH|sep| |lvl|cs|s|w|w|w|s a b] using doc_ind2;
      intros i m k s1 s2 H; cbn [render_doc].
    - assumption.
    - apply sim_put_text, sim_flush_wi; assumption.
    - revert k s1 s2 H. induction IH as [|x xs Hx Hxs IHl]; intros k s1 s2 H; auto.
    - apply IH; assumption.
    - destruct HL as [Hmw _]. rewrite Hmw, (srel_col _ _ H).
      destruct m; [apply IH; assumption|].
      destruct (fits_flat d k _); apply IH; assumption.
    - apply IH; assumption.
    - destruct m; [apply sim_put_flat, sim_flush_pending | apply sim_emit_break]; assumption.
    - destruct m; [apply sim_flat_space | apply sim_emit_break]; assumption.
    - destruct m; [apply sim_flat_space | apply sim_emit_break, sim_dedent_trunc]; assumption.
    - apply sim_render_comments; assumption.
    - destruct m; [assumption | apply sim_put_flat, sim_flush_wi; assumption].
    - destruct m; [assumption|]. destruct (0 <? w); [apply sim_put_spaces|]; assumption.
    - destruct (0 <? w); [apply sim_put_spaces|]; assumption.
    - destruct m; [|assumption]. destruct (0 <? w); [apply sim_put_spaces|]; assumption.
    - apply sim_emit_anchored; assumption.
  Qed.
End Sim.

Lemma srel_init nl1 nl2 : srel nl1 nl2 init_state init_state.
Proof. exists []. repeat split. Qed.

(* ---------------------------------------------------------------- main statements *)

Definition raw_text (o : opts) (d : doc) : str := rev (rout (raw_render o d)).

Theorem newline_abstract_output o1 o2 d :
  same_layout o1 o2 -> nl_good (newline o1) -> nl_good (newline o2) ->
  exists a : list atom,
    raw_text o1 d = inst (newline o1) a /\
    raw_text o2 d = inst (newline o2) a /\
    render_anchors o1 d = render_anchors o2 d /\
    cur_line (raw_render o1 d) = cur_line (raw_render o2 d) /\
    col (raw_render o1 d) = col (raw_render o2 d).
Proof.
  intros HL G1 G2.
  destruct (sim_render_doc o1 o2 HL G1 G2 d 0%Z Break [] _ _ (srel_init _ _))
    as (ar & E1 & E2 & E3 & E4 & _ & _ & E7).
  exists (rev ar). unfold raw_text, render_anchors, raw_render.
  rewrite E1, E2, !rev_inst, E7. auto.
Qed.

(* the python oracle's normalisation: delete every CR *)
Definition del_cr (s : str) : str := filter (fun c => negb (c =? 13)) s.

Lemma del_cr_inst a : del_cr (inst [13; 10] a) = del_cr (inst [10] a).
Proof.
  induction a as [|[c|] a IH]; simpl; auto.
  - unfold del_cr in *. simpl. rewrite IH. reflexivity.
  - unfold del_cr in *. simpl. rewrite IH. reflexivity.
Qed.

Theorem newline_crlf_lf_normalised mw iw sb1 sb2 d :
  del_cr (raw_text (mkOpts mw iw [13; 10] sb1) d) = del_cr (raw_text (mkOpts mw iw [10] sb2) d).
Proof.
  destruct (newline_abstract_output (mkOpts mw iw [13;10] sb1) (mkOpts mw iw [10] sb2) d)
    as (a & E1 & E2 & _); try (split; [discriminate|reflexivity]); try (split; reflexivity).
  rewrite E1, E2. apply del_cr_inst.
Qed.

(* with strip = false render_text is the raw text *)
Lemma render_text_raw mw iw nl d : render_text (mkOpts mw iw nl false) d = raw_text (mkOpts mw iw nl false) d.
Proof. reflexivity. Qed.

(* Through strip_trailing_whitespace the statement fails: a text with an embedded bare LF
   preceded by a space is trimmed at that LF under newline = LF but not under CRLF. *)
Example newline_strip_refuted :
  let d := Text [97; 32; 10; 98] in
  del_cr (render_text (mkOpts 80 4 [13; 10] true) d) <> del_cr (render_text (mkOpts 80 4 [10] true) d).
Proof. vm_compute. discriminate. Qed.
