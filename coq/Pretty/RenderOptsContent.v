(* C26, widths / indent / strip_comments part.

   [LContents m d l] refines RenderContent.Contents: the content of a document as a list of
   LABELLED fragments
     Fixed  - Text and Anchored fragments (always present),
     Cond   - Line separators (present when the enclosing group is flat) and IfBreak texts
              (present when it is broken),
     Com    - comment texts.
   Results:
   - every Contents derivation is the flattening of an LContents derivation;
   - the Fixed fragments and the Com fragments of ANY LContents of d are functions of d alone
     ([doc_fixed], [doc_comments]): option sets can only change which Cond fragments appear;
   - removing the Comments nodes ([strip_doc]) keeps an LContents derivation with the Com
     fragments filtered out, keeps [doc_fixed] and leaves no comment. *)
From VV Require Import Pretty.Render Pretty.RenderContent.
Open Scope N_scope.

Inductive kind := Fixed | Cond | Com.
Definition frag := (kind * str)%type.

Definition kind_eqb (a b : kind) : bool :=
  match a, b with Fixed, Fixed | Cond, Cond | Com, Com => true | _, _ => false end.

Definition flat (l : list frag) : str := concat (map snd l).
Definition only (k : kind) (l : list frag) : list str :=
  map snd (filter (fun f => kind_eqb (fst f) k) l).
Definition without (k : kind) (l : list frag) : list frag :=
  filter (fun f => negb (kind_eqb (fst f) k)) l.

Inductive LContents : mode -> doc -> list frag -> Prop :=
| LNil m : LContents m Nil []
| LText m s : LContents m (Text s) [(Fixed, s)]
| LConcatNil m : LContents m (Concat []) []
| LConcatCons m x xs l1 l2 :
    LContents m x l1 -> LContents m (Concat xs) l2 -> LContents m (Concat (x :: xs)) (l1 ++ l2)
| LIndent m off d l : LContents m d l -> LContents m (Indent off d) l
| LGroupFlat m d l : LContents Flat d l -> LContents m (Group d) l
| LGroupBreak d l : LContents Break d l -> LContents Break (Group d) l
| LForceFlat m d l : LContents Flat d l -> LContents m (ForceFlat d) l
| LLineFlat sep : LContents Flat (Line sep) [(Cond, sep)]
| LLineBreak sep : LContents Break (Line sep) []
| LHard m : LContents m Hardline []
| LDedent m lv : LContents m (DedentHardline lv) []
| LComments m cs : LContents m (Comments cs) (map (fun c => (Com, c_text c)) cs)
| LIfBreakB s : LContents Break (IfBreak s) [(Cond, s)]
| LIfBreakF s : LContents Flat (IfBreak s) []
| LIfBreakPad m w : LContents m (IfBreakPad w) []
| LPad m w : LContents m (Pad w) []
| LIfFlatPad m w : LContents m (IfFlatPad w) []
| LAnchored m s a b : LContents m (Anchored s a b) [(Fixed, s)].

(* what a document always contains *)
Fixpoint doc_fixed (d : doc) : list str :=
  match d with
  | Text s | Anchored s _ _ => [s]
  | Concat l => (fix go (l : list doc) := match l with [] => [] | x :: xs => doc_fixed x ++ go xs end) l
  | Indent _ d' | Group d' | ForceFlat d' => doc_fixed d'
  | _ => []
  end.

Fixpoint doc_comments (d : doc) : list str :=
  match d with
  | Comments cs => map c_text cs
  | Concat l => (fix go (l : list doc) := match l with [] => [] | x :: xs => doc_comments x ++ go xs end) l
  | Indent _ d' | Group d' | ForceFlat d' => doc_comments d'
  | _ => []
  end.

(* the emitter with strip_comments = true builds the same document without Comments nodes *)
Fixpoint strip_doc (d : doc) : doc :=
  match d with
  | Comments _ => Nil
  | Concat l => Concat ((fix go (l : list doc) := match l with [] => [] | x :: xs => strip_doc x :: go xs end) l)
  | Indent o d' => Indent o (strip_doc d')
  | Group d' => Group (strip_doc d')
  | ForceFlat d' => ForceFlat (strip_doc d')
  | o => o
  end.

Lemma flat_app a b : flat (a ++ b) = flat a ++ flat b.
Proof. unfold flat. rewrite map_app, concat_app. reflexivity. Qed.

Lemma only_app k a b : only k (a ++ b) = only k a ++ only k b.
Proof. unfold only. rewrite filter_app, map_app. reflexivity. Qed.

Lemma without_app k a b : without k (a ++ b) = without k a ++ without k b.
Proof. unfold without. apply filter_app. Qed.

Lemma contents_labelled m d s : Contents m d s -> exists l, LContents m d l /\ flat l = s.
Proof.
  intros C. induction C.
  all: try (eexists; split; [econstructor|]; unfold flat; simpl; rewrite ?app_nil_r; reflexivity).
  - destruct IHC1 as [l1 [L1 F1]], IHC2 as [l2 [L2 F2]].
    exists (l1 ++ l2). split; [constructor; assumption|]. rewrite flat_app. congruence.
  - destruct IHC as [l [L F]]. exists l. split; [constructor|]; assumption.
  - destruct IHC as [l [L F]]. exists l. split; [apply LGroupFlat|]; assumption.
  - destruct IHC as [l [L F]]. exists l. split; [apply LGroupBreak|]; assumption.
  - destruct IHC as [l [L F]]. exists l. split; [constructor|]; assumption.
  - exists (map (fun c => (Com, c_text c)) cs). split; [constructor|].
    unfold flat. rewrite map_map. reflexivity.
Qed.

Lemma lcontents_fixed m d l : LContents m d l -> only Fixed l = doc_fixed d.
Proof.
  intros L. induction L; simpl; auto.
  - rewrite only_app, IHL1, IHL2. reflexivity.
  - induction cs; simpl; auto.
Qed.

Lemma only_com_map cs : only Com (map (fun c => (Com, c_text c)) cs) = map c_text cs.
Proof. induction cs as [|c cs IH]; simpl; auto. unfold only in *. simpl. f_equal. exact IH. Qed.

Lemma lcontents_comments m d l : LContents m d l -> only Com l = doc_comments d.
Proof.
  intros L. induction L; simpl; auto.
  - rewrite only_app, IHL1, IHL2. reflexivity.
  - apply only_com_map.
Qed.

Lemma without_com_map cs : without Com (map (fun c => (Com, c_text c)) cs) = [].
Proof. induction cs; simpl; auto. Qed.

Lemma lcontents_strip m d l : LContents m d l -> LContents m (strip_doc d) (without Com l).
Proof.
  intros L. induction L; simpl; try (constructor; assumption).
  - rewrite without_app. apply (LConcatCons m (strip_doc x) _ _ _ IHL1 IHL2).
  - rewrite without_com_map. constructor.
Qed.

Lemma strip_doc_fixed d : doc_fixed (strip_doc d) = doc_fixed d.
Proof.
  induction d using doc_ind2; simpl; auto.
  induction H as [|x xs Hx Hxs IH]; simpl; auto. rewrite Hx. f_equal. exact IH.
Qed.

Lemma strip_doc_comments d : doc_comments (strip_doc d) = [].
Proof.
  induction d using doc_ind2; simpl; auto.
  induction H as [|x xs Hx Hxs IH]; simpl; auto. rewrite Hx. exact IH.
Qed.

(* ---------------------------------------------------------------- statements *)

(* labelled version of the C28 content theorem *)
Theorem render_lcontent o d : nl_ok o ->
  exists l, LContents Break d l /\ nonws (render_text o d) = nonws (flat l).
Proof.
  intros H. destruct (render_content o d H) as [s [C E]].
  destruct (contents_labelled _ _ _ C) as [l [L F]]. exists l. split; [assumption|congruence].
Qed.

(* any two option sets: both renderings are labelled contents of the same document; they
   agree on every Fixed fragment and every comment; only Cond fragments can differ *)
Theorem render_opts_content o1 o2 d : nl_ok o1 -> nl_ok o2 ->
  exists l1 l2,
    LContents Break d l1 /\ LContents Break d l2 /\
    nonws (render_text o1 d) = nonws (flat l1) /\
    nonws (render_text o2 d) = nonws (flat l2) /\
    only Fixed l1 = only Fixed l2 /\ only Com l1 = only Com l2 /\
    only Fixed l1 = doc_fixed d /\ only Com l1 = doc_comments d.
Proof.
  intros H1 H2.
  destruct (render_lcontent o1 d H1) as [l1 [L1 E1]].
  destruct (render_lcontent o2 d H2) as [l2 [L2 E2]].
  exists l1, l2. repeat split; auto.
  - rewrite (lcontents_fixed _ _ _ L1), (lcontents_fixed _ _ _ L2). reflexivity.
  - rewrite (lcontents_comments _ _ _ L1), (lcontents_comments _ _ _ L2). reflexivity.
  - apply (lcontents_fixed _ _ _ L1).
  - apply (lcontents_comments _ _ _ L1).
Qed.

(* when no conditional fragment of the document carries a visible character, the visible
   content is the same under every option set *)
Fixpoint cond_blank (d : doc) : bool :=
  match d with
  | Line s | IfBreak s => match nonws s with [] => true | _ => false end
  | Concat l => (fix go (l : list doc) := match l with [] => true | x :: xs => cond_blank x && go xs end) l
  | Indent _ d' | Group d' | ForceFlat d' => cond_blank d'
  | _ => true
  end.

Lemma nonws_flat_app a b : nonws (flat (a ++ b)) = nonws (flat a) ++ nonws (flat b).
Proof. rewrite flat_app, nonws_app. reflexivity. Qed.

Lemma nonws_concat ls : nonws (concat ls) = concat (map nonws ls).
Proof. induction ls as [|x r IH]; simpl; auto. rewrite nonws_app, IH. reflexivity. Qed.

(* visible content written as a function of the document when conditionals are blank *)
Fixpoint doc_visible (d : doc) : str :=
  match d with
  | Text s | Anchored s _ _ => nonws s
  | Comments cs => nonws (concat (map c_text cs))
  | Concat l => (fix go (l : list doc) := match l with [] => [] | x :: xs => doc_visible x ++ go xs end) l
  | Indent _ d' | Group d' | ForceFlat d' => doc_visible d'
  | _ => []
  end.

Lemma lcontents_visible m d l : cond_blank d = true -> LContents m d l ->
  nonws (flat l) = doc_visible d.
Proof.
  intros B L. induction L; simpl in *; auto.
  - unfold flat. simpl. rewrite app_nil_r. reflexivity.
  - apply andb_true_iff in B as [B1 B2]. rewrite nonws_flat_app, IHL1, IHL2 by assumption. reflexivity.
  - unfold flat. simpl. rewrite app_nil_r. destruct (nonws sep); [reflexivity|discriminate].
  - unfold flat. rewrite map_map. reflexivity.
  - unfold flat. simpl. rewrite app_nil_r. destruct (nonws s); [reflexivity|discriminate].
  - unfold flat. simpl. rewrite app_nil_r. reflexivity.
Qed.

Theorem render_opts_same_visible o1 o2 d : nl_ok o1 -> nl_ok o2 -> cond_blank d = true ->
  nonws (render_text o1 d) = nonws (render_text o2 d).
Proof.
  intros H1 H2 B.
  destruct (render_lcontent o1 d H1) as [l1 [L1 E1]].
  destruct (render_lcontent o2 d H2) as [l2 [L2 E2]].
  rewrite E1, E2, (lcontents_visible _ _ _ B L1), (lcontents_visible _ _ _ B L2). reflexivity.
Qed.

(* strip_comments: rendering the document without its Comments nodes (any option set) gives a
   labelled content of the stripped document that has no comment fragment and exactly the
   Fixed fragments of the rendering with comments *)
Theorem strip_comments_content o1 o2 d : nl_ok o1 -> nl_ok o2 ->
  exists l l',
    LContents Break d l /\ LContents Break (strip_doc d) l' /\
    nonws (render_text o1 d) = nonws (flat l) /\
    nonws (render_text o2 (strip_doc d)) = nonws (flat l') /\
    only Fixed l' = only Fixed l /\ only Com l' = [] /\ only Com l = doc_comments d.
Proof.
  intros H1 H2.
  destruct (render_lcontent o1 d H1) as [l [L E]].
  destruct (render_lcontent o2 (strip_doc d) H2) as [l' [L' E']].
  exists l, l'. repeat split; auto.
  - rewrite (lcontents_fixed _ _ _ L'), (lcontents_fixed _ _ _ L). apply strip_doc_fixed.
  - rewrite (lcontents_comments _ _ _ L'). apply strip_doc_comments.
  - apply (lcontents_comments _ _ _ L).
Qed.

(* the labelled content of d minus its comments IS a labelled content of the stripped
   document (same group decisions) *)
Theorem strip_comments_same_decisions m d l :
  LContents m d l -> LContents m (strip_doc d) (without Com l).
Proof. exact (lcontents_strip m d l). Qed.

(* with blank conditionals: visible text of the stripped rendering = visible text of the
   document without comments, for every pair of option sets *)
Lemma strip_doc_blank d : cond_blank d = true -> cond_blank (strip_doc d) = true.
Proof.
  induction d using doc_ind2; simpl; auto.
  induction H as [|x xs Hx Hxs IH]; simpl; auto.
  intros B. apply andb_true_iff in B as [B1 B2]. rewrite Hx, IH by assumption. reflexivity.
Qed.

Theorem strip_comments_visible o d : nl_ok o -> cond_blank d = true ->
  nonws (render_text o (strip_doc d)) = doc_visible (strip_doc d).
Proof.
  intros H B. destruct (render_lcontent o (strip_doc d) H) as [l [L E]].
  rewrite E. apply (lcontents_visible _ _ _ (strip_doc_blank d B) L).
Qed.
