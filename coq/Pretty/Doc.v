(* Model of crates/pretty/src/doc.rs : the document IR.
   Text is a list of Unicode code points (N); the Rust code measures widths with
   chars().count(), so a code-point list is the right granularity. *)
From Coq Require Export List NArith ZArith Bool Lia.
Export ListNotations.
Open Scope N_scope.
Global Arguments N.add : simpl never.
Global Arguments N.sub : simpl never.
Global Arguments N.mul : simpl never.
Global Arguments N.eqb : simpl never.
Global Arguments N.ltb : simpl never.
Global Arguments N.leb : simpl never.
Global Arguments N.min : simpl never.
Global Arguments N.max : simpl never.

Definition str := list N.

Record comment := mkComment {
  c_text : str;
  c_lead : N;          (* leading_newlines *)
  c_is_line : bool;    (* is_line_comment *)
  c_sl : N;            (* src_line, 0 = no anchor *)
  c_sc : N             (* src_column *)
}.

Inductive doc :=
| Nil
| Text (s : str)
| Concat (l : list doc)
| Indent (off : Z) (d : doc)
| Group (d : doc)
| ForceFlat (d : doc)
| Line (sep : str)
| Hardline
| DedentHardline (lvl : N)
| Comments (cs : list comment)
| IfBreak (s : str)
| IfBreakPad (w : N)
| Pad (w : N)
| IfFlatPad (w : N)
| Anchored (s : str) (sl sc : N).

(* Induction principle that goes through the list in Concat. *)
Section doc_ind2.
  Variable P : doc -> Prop.
  Hypothesis HNil : P Nil.
  Hypothesis HText : forall s, P (Text s).
  Hypothesis HConcat : forall l, Forall P l -> P (Concat l).
  Hypothesis HIndent : forall o d, P d -> P (Indent o d).
  Hypothesis HGroup : forall d, P d -> P (Group d).
  Hypothesis HForceFlat : forall d, P d -> P (ForceFlat d).
  Hypothesis HLine : forall s, P (Line s).
  Hypothesis HHard : P Hardline.
  Hypothesis HDedent : forall l, P (DedentHardline l).
  Hypothesis HComments : forall cs, P (Comments cs).
  Hypothesis HIfBreak : forall s, P (IfBreak s).
  Hypothesis HIfBreakPad : forall w, P (IfBreakPad w).
  Hypothesis HPad : forall w, P (Pad w).
  Hypothesis HIfFlatPad : forall w, P (IfFlatPad w).
  Hypothesis HAnchored : forall s a b, P (Anchored s a b).

  Fixpoint doc_ind2 (d : doc) : P d :=
    match d with
    | Nil => HNil
    | Text s => HText s
    | Concat l =>
        HConcat l ((fix go (l : list doc) : Forall P l :=
                      match l with
                      | [] => Forall_nil P
                      | x :: xs => Forall_cons x (doc_ind2 x) (go xs)
                      end) l)
    | Indent o d => HIndent o d (doc_ind2 d)
    | Group d => HGroup d (doc_ind2 d)
    | ForceFlat d => HForceFlat d (doc_ind2 d)
    | Line s => HLine s
    | Hardline => HHard
    | DedentHardline l => HDedent l
    | Comments cs => HComments cs
    | IfBreak s => HIfBreak s
    | IfBreakPad w => HIfBreakPad w
    | Pad w => HPad w
    | IfFlatPad w => HIfFlatPad w
    | Anchored s a b => HAnchored s a b
    end.
End doc_ind2.
