(* C28, content part: the rendered output contains, in document order, exactly the text
   fragments, anchored fragments and comments of the document; conditional fragments
   (Line separators, IfBreak texts) are present exactly according to the mode chosen for the
   immediately enclosing group.  Everything else the renderer emits is layout (spaces,
   newline).  Stated on the non-whitespace characters of the output. *)
From VV Require Import Pretty.Render.
Open Scope N_scope.

Definition ws (c : N) : bool := (c =? 32) || (c =? 9) || (c =? 10) || (c =? 13).
Definition nonws (s : str) : str := filter (fun c => negb (ws c)) s.

(* [Contents m d s]: s is the content of d when its enclosing group is in mode m and every
   Group inside makes ONE flat/break decision that all of its direct Line / IfBreak children
   follow (a group inside a flat region is flat). *)
Inductive Contents : mode -> doc -> str -> Prop :=
| CNil m : Contents m Nil []
| CText m s : Contents m (Text s) s
| CConcatNil m : Contents m (Concat []) []
| CConcatCons m x xs s1 s2 :
    Contents m x s1 -> Contents m (Concat xs) s2 -> Contents m (Concat (x :: xs)) (s1 ++ s2)
| CIndent m off d s : Contents m d s -> Contents m (Indent off d) s
| CGroupFlat m d s : Contents Flat d s -> Contents m (Group d) s
| CGroupBreak d s : Contents Break d s -> Contents Break (Group d) s
| CForceFlat m d s : Contents Flat d s -> Contents m (ForceFlat d) s
| CLineFlat sep : Contents Flat (Line sep) sep
| CLineBreak sep : Contents Break (Line sep) []
| CHard m : Contents m Hardline []
| CDedent m l : Contents m (DedentHardline l) []
| CComments m cs : Contents m (Comments cs) (concat (map c_text cs))
| CIfBreakB s : Contents Break (IfBreak s) s
| CIfBreakF s : Contents Flat (IfBreak s) []
| CIfBreakPad m w : Contents m (IfBreakPad w) []
| CPad m w : Contents m (Pad w) []
| CIfFlatPad m w : Contents m (IfFlatPad w) []
| CAnchored m s a b : Contents m (Anchored s a b) s.

Definition nl_ok (o : opts) : Prop := forallb ws (newline o) = true.

Definition cont (st : state) : str := nonws (rev (rout st)).

Lemma nonws_app a b : nonws (a ++ b) = nonws a ++ nonws b.
Proof. unfold nonws. apply filter_app. Qed.

Lemma rev_push s ro : rev (push s ro) = rev ro ++ s.
Proof. unfold push. rewrite rev_append_rev, rev_app_distr, rev_involutive. reflexivity. Qed.

Lemma nonws_repeat_sp n : nonws (repeat SP n) = [].
Proof. induction n as [|n IH]; simpl; auto. Qed.

Lemma nonws_spaces n : nonws (spaces n) = [].
Proof. apply nonws_repeat_sp. Qed.

Lemma nonws_all_ws s : forallb ws s = true -> nonws s = [].
Proof.
  induction s as [|c s IH]; simpl; intros H; auto.
  apply andb_true_iff in H as [H1 H2]. rewrite H1. simpl. auto.
Qed.

Lemma cont_push s st' st :
  rout st' = push s (rout st) -> cont st' = cont st ++ nonws s.
Proof. unfold cont. intros ->. rewrite rev_push, nonws_app. reflexivity. Qed.

Lemma nonws_rev_push s ro : nonws (rev (push s ro)) = nonws (rev ro) ++ nonws s.
Proof. rewrite rev_push, nonws_app. reflexivity. Qed.

Lemma nonws_rev_cons_sp ro : nonws (rev (SP :: ro)) = nonws (rev ro).
Proof. simpl. rewrite nonws_app. simpl. rewrite app_nil_r. reflexivity. Qed.

Lemma all_spaces_skipn n ro :
  all_spaces_prefix n ro = true -> nonws (rev (skipn n ro)) = nonws (rev ro).
Proof.
  revert ro. induction n as [|n IH]; intros ro H; simpl in *; auto.
  destruct ro as [|c r]; try discriminate.
  apply andb_true_iff in H as [Hc Hr]. apply N.eqb_eq in Hc. subst c.
  rewrite IH by assumption. simpl. rewrite nonws_app. simpl. rewrite app_nil_r. reflexivity.
Qed.

Lemma cont_flush st : cont (flush_pending st) = cont st.
Proof.
  unfold flush_pending, cont. destruct (pending st); simpl; auto.
  rewrite nonws_rev_push, nonws_spaces, app_nil_r. reflexivity.
Qed.

Lemma cont_flush_wi o i st : cont (flush_pending_with_indent o i st) = cont st.
Proof.
  unfold flush_pending_with_indent, cont. destruct (pending st); simpl; auto.
  rewrite nonws_rev_push, nonws_spaces, app_nil_r. reflexivity.
Qed.

Lemma cont_put_text s st : cont (put_text s st) = cont st ++ nonws s.
Proof.
  unfold put_text, cont. destruct (count_nl s =? 0); simpl; apply nonws_rev_push.
Qed.

Lemma cont_put_flat s st : cont (put_flat s st) = cont st ++ nonws s.
Proof. unfold put_flat, cont. simpl. apply nonws_rev_push. Qed.

Lemma cont_emit_break o i st : nl_ok o -> cont (emit_break o i st) = cont st.
Proof.
  intros H. unfold emit_break, cont. destruct (swallow st); simpl; auto.
  rewrite nonws_rev_push, (nonws_all_ws _ H), app_nil_r. reflexivity.
Qed.

Lemma cont_dedent_trunc o l st : cont (dedent_trunc o l st) = cont st.
Proof.
  unfold dedent_trunc, cont.
  destruct (_ && _); auto.
  destruct (all_spaces_prefix _ _) eqn:E; auto. simpl.
  apply all_spaces_skipn; assumption.
Qed.

Lemma cont_put_spaces o i w st : cont (put_spaces o i w st) = cont st.
Proof.
  unfold put_spaces. unfold cont at 1. simpl.
  rewrite nonws_rev_push, nonws_spaces, app_nil_r. apply cont_flush_wi.
Qed.

Lemma cont_flat_space st : cont (flat_space st) = cont st.
Proof.
  unfold flat_space. unfold cont at 1. cbn [rout]. rewrite nonws_rev_cons_sp. apply cont_flush.
Qed.

Lemma nonws_iter_nl o n ro :
  nl_ok o -> nonws (rev (N.iter n (push (newline o)) ro)) = nonws (rev ro).
Proof.
  intros H. induction n as [|n IH] using N.peano_ind.
  - reflexivity.
  - rewrite N.iter_succ. rewrite nonws_rev_push, IH, (nonws_all_ws _ H), app_nil_r. reflexivity.
Qed.

Lemma cont_render_comment o i st c :
  nl_ok o -> cont (render_comment o i st c) = cont st ++ nonws (c_text c).
Proof.
  intros H. unfold render_comment.
  set (st1 := if (c_lead c =? 0) && negb (swallow st) && negb _ then _ else _).
  assert (H1 : cont st1 = cont st).
  { subst st1. destruct (_ && _ && _).
    - destruct (0 <? col st); unfold cont; cbn [rout]; auto. apply nonws_rev_cons_sp.
    - unfold cont. cbn [rout]. rewrite nonws_rev_push, nonws_spaces, app_nil_r.
      apply nonws_iter_nl. assumption. }
  set (st2 := if negb (c_sl c =? 0) && negb (c_sc c =? 0) then _ else st1).
  assert (H2 : rout st2 = rout st1) by (subst st2; destruct (negb (c_sl c =? 0) && negb (c_sc c =? 0)); reflexivity).
  rewrite H2.
  destruct (c_is_line c).
  - unfold cont at 1. cbn [rout]. rewrite !nonws_rev_push, (nonws_all_ws _ H), app_nil_r.
    fold (cont st1). rewrite H1. reflexivity.
  - destruct (0 <? count_nl (c_text c)); unfold cont at 1; cbn [rout].
    all: rewrite nonws_rev_push; fold (cont st1); rewrite H1; reflexivity.
Qed.

Lemma cont_render_comments o i cs : nl_ok o ->
  forall st, cont (render_comments o i cs st) = cont st ++ nonws (concat (map c_text cs)).
Proof.
  intros H. unfold render_comments. induction cs as [|c cs IH]; intros st; simpl.
  - rewrite app_nil_r. reflexivity.
  - rewrite IH, cont_render_comment by assumption. rewrite nonws_app, app_assoc. reflexivity.
Qed.

Lemma render_doc_content o (Hnl : nl_ok o) d :
  forall indent m k st,
  exists s, Contents m d s /\ cont (render_doc o indent m d k st) = cont st ++ nonws s.
Proof.
  induction d as [ |s|l IH|off d IH|d IH|d IH|sep| |lvl|cs|s|w|w|w|s a b] using doc_ind2;
    intros indent m k st; cbn [render_doc].
  - exists []. split; [constructor|]. simpl. rewrite app_nil_r. reflexivity.
  - exists s. split; [constructor|]. rewrite cont_put_text, cont_flush_wi. reflexivity.
  - revert k st. induction IH as [|x xs Hx Hxs IHl]; intros k st.
    + exists []. split; [constructor|]. simpl. rewrite app_nil_r. reflexivity.
    + destruct (Hx indent m (xs ++ k) st) as [s1 [C1 E1]].
      destruct (IHl k (render_doc o indent m x (xs ++ k) st)) as [s2 [C2 E2]].
      exists (s1 ++ s2). split; [constructor; assumption|].
      rewrite E2, E1, nonws_app, app_assoc. reflexivity.
  - destruct (IH (indent + off)%Z m k st) as [s [C E]]. exists s. split; [constructor; auto|auto].
  - destruct m.
    + destruct (IH indent Flat k st) as [s [C E]]. exists s. split; [apply CGroupFlat; auto|auto].
    + destruct (fits_flat d k _).
      * destruct (IH indent Flat k st) as [s [C E]]. exists s. split; [apply CGroupFlat; auto|auto].
      * destruct (IH indent Break k st) as [s [C E]]. exists s. split; [apply CGroupBreak; auto|auto].
  - destruct (IH indent Flat k st) as [s [C E]]. exists s. split; [constructor; auto|auto].
  - destruct m.
    + exists sep. split; [constructor|]. rewrite cont_put_flat, cont_flush. reflexivity.
    + exists []. split; [constructor|]. rewrite cont_emit_break by assumption. simpl.
      rewrite app_nil_r. reflexivity.
  - exists []. split; [constructor|]. simpl. rewrite app_nil_r.
    destruct m; [apply cont_flat_space | apply cont_emit_break; assumption].
  - exists []. split; [constructor|]. simpl. rewrite app_nil_r.
    destruct m; [apply cont_flat_space |].
    rewrite cont_emit_break by assumption. apply cont_dedent_trunc.
  - exists (concat (map c_text cs)). split; [constructor|]. apply cont_render_comments. assumption.
  - destruct m.
    + exists []. split; [constructor|]. simpl. rewrite app_nil_r. reflexivity.
    + exists s. split; [constructor|]. rewrite cont_put_flat, cont_flush_wi. reflexivity.
  - exists []. split; [constructor|]. simpl. rewrite app_nil_r.
    destruct m; auto. destruct (0 <? w); auto. apply cont_put_spaces.
  - exists []. split; [constructor|]. simpl. rewrite app_nil_r.
    destruct (0 <? w); auto. apply cont_put_spaces.
  - exists []. split; [constructor|]. simpl. rewrite app_nil_r.
    destruct m; auto. destruct (0 <? w); auto. apply cont_put_spaces.
  - exists s. split; [constructor|]. unfold emit_anchored. rewrite cont_put_text.
    unfold cont at 1. cbn [rout]. fold (cont (flush_pending_with_indent o indent st)).
    rewrite cont_flush_wi. reflexivity.
Qed.

(* --- strip_trailing_whitespace removes only spaces and tabs *)

Lemma nonws_drop_while l : nonws (drop_while_sptab l) = nonws l.
Proof.
  induction l as [|c l IH]; simpl; auto.
  destruct (is_sptab c) eqn:E; auto.
  rewrite IH. unfold is_sptab in E. unfold ws.
  apply orb_true_iff in E as [E|E]; apply N.eqb_eq in E; subst c; reflexivity.
Qed.

Lemma nonws_rev l : nonws (rev l) = rev (nonws l).
Proof.
  induction l as [|c l IH]; simpl; auto.
  rewrite nonws_app, IH. simpl. destruct (negb (ws c)); simpl; auto. rewrite app_nil_r. reflexivity.
Qed.

Lemma nonws_trim_end l : nonws (trim_end l) = nonws l.
Proof.
  unfold trim_end. rewrite nonws_rev, nonws_drop_while, nonws_rev, rev_involutive. reflexivity.
Qed.

Lemma nonws_join_trim nl ls :
  nonws (join nl (map trim_end ls)) = nonws (join nl ls).
Proof.
  induction ls as [|x r IH]; simpl; auto.
  destruct r as [|y r'].
  - simpl. apply nonws_trim_end.
  - cbn [map] in *. rewrite !nonws_app, nonws_trim_end. f_equal. f_equal. exact IH.
Qed.

Lemma starts_with_split p s : starts_with p s = true -> s = p ++ skipn (length p) s.
Proof.
  revert s. induction p as [|a p IH]; intros s H; simpl in *; auto.
  destruct s as [|b s]; try discriminate.
  apply andb_true_iff in H as [H1 H2]. apply N.eqb_eq in H1. subst b.
  f_equal. apply IH. assumption.
Qed.

(* joining the pieces of split gives back the string *)
Lemma split_on_nonnil nl fuel s cur : split_on nl fuel s cur <> [].
Proof.
  revert s cur. induction fuel as [|f IH]; intros s cur; simpl; [discriminate|].
  destruct s as [|c r]; [discriminate|].
  destruct (match nl with [] => false | _ :: _ => starts_with nl (c :: r) end); [discriminate|apply IH].
Qed.

Lemma join_cons nl x r : r <> [] -> join nl (x :: r) = x ++ nl ++ join nl r.
Proof. destruct r; [congruence|reflexivity]. Qed.

Lemma join_split nl fuel : forall s cur,
  (length s < fuel)%nat -> join nl (split_on nl fuel s cur) = rev cur ++ s.
Proof.
  induction fuel as [|f IH]; intros s cur Hf; [inversion Hf|].
  destruct s as [|c r]; cbn [split_on].
  - simpl. rewrite app_nil_r. reflexivity.
  - destruct (match nl with [] => false | _ :: _ => starts_with nl (c :: r) end) eqn:E.
    + destruct nl as [|n0 nl']; [discriminate|].
      pose proof (starts_with_split _ _ E) as Hs.
      rewrite join_cons by apply split_on_nonnil.
      rewrite IH.
      * change (rev [] ++ ?x) with x. f_equal. symmetry. exact Hs.
      * rewrite skipn_length. simpl in *. lia.
    + rewrite IH by (simpl in Hf; lia). simpl. rewrite <- app_assoc. reflexivity.
Qed.

Lemma nonws_strip nl s : nonws (strip_trailing_whitespace nl s) = nonws s.
Proof.
  unfold strip_trailing_whitespace. rewrite nonws_join_trim, join_split by lia. reflexivity.
Qed.

(* ---------------------------------------------------------------- main content theorem *)

Theorem render_content o d :
  nl_ok o ->
  exists s, Contents Break d s /\ nonws (render_text o d) = nonws s.
Proof.
  intros Hnl.
  destruct (render_doc_content o Hnl d 0%Z Break [] init_state) as [s [C E]].
  exists s. split; [assumption|].
  unfold render_text. fold (raw_render o d) in E.
  unfold cont in E. simpl in E.
  destruct (strip o); [rewrite nonws_strip|]; exact E.
Qed.
