(* Model of crates/pretty/src/render.rs, transcribed function by function.
   Definitions only (no proofs) so that the model still evaluates when a proof breaks.

   Deviations from the Rust text, all behaviour-preserving:
   - the explicit work-list [stack] of [render_inner] becomes structural recursion on the
     document; the part of the stack that [fits_flat] inspects (the documents of the
     frames below the current one, top first) is passed as the argument [k];
   - [out : String] is kept reversed ([rout]) so that push is cons; bytes vs chars: the
     only byte-level test in the Rust code is the all-spaces test of DedentHardline, and a
     space is a single byte that is never a UTF-8 continuation byte, so testing the last
     [want] code points is equivalent;
   - usize/u32/i32 are modelled by unbounded N/Z (the property is not about overflow). *)
From VV Require Export Pretty.Doc.
Open Scope N_scope.

Inductive mode := Flat | Break.

Record opts := mkOpts {
  max_width : N;
  indent_width : N;
  newline : str;
  strip : bool
}.

Record anchor := mkAnchor {
  a_dl : N; a_dc : N; a_sl : N; a_sc : N; a_text : str
}.

Record state := mkState {
  rout : list N;            (* output, reversed *)
  col : N;
  cur_line : N;
  swallow : bool;           (* swallow_next_break *)
  pending : option N;       (* pending_indent *)
  ranchors : list anchor    (* reversed *)
}.

Definition NL : N := 10.
Definition SP : N := 32.
Definition TAB : N := 9.

Definition len (s : str) : N := N.of_nat (length s).

Fixpoint count_nl (s : str) : N :=
  match s with [] => 0 | c :: r => (if c =? NL then 1 else 0) + count_nl r end.

(* number of code points after the last '\n' (whole string if there is none) *)
Fixpoint last_line_len (s : str) : N :=
  match s with
  | [] => 0
  | c :: r => if existsb (N.eqb NL) r then last_line_len r
              else if c =? NL then len r else 1 + len r
  end.

Definition spaces (n : N) : list N := repeat SP (N.to_nat n).

(* push s onto reversed output *)
Definition push (s : str) (ro : list N) : list N := rev_append s ro.

Definition pad_for (o : opts) (indent : Z) : N := Z.to_N (Z.max indent 0) * indent_width o.

Definition set_out st ro := mkState ro (col st) (cur_line st) (swallow st) (pending st) (ranchors st).

Definition flush_pending (st : state) : state :=
  match pending st with
  | Some p => mkState (push (spaces p) (rout st)) p (cur_line st) (swallow st) None (ranchors st)
  | None => st
  end.

Definition flush_pending_with_indent (o : opts) (indent : Z) (st : state) : state :=
  match pending st with
  | Some p => let t := N.min (pad_for o indent) p in
              mkState (push (spaces t) (rout st)) t (cur_line st) (swallow st) None (ranchors st)
  | None => st
  end.

(* out.push_str(s) with the column / line bookkeeping used for Text and Anchored *)
Definition put_text (s : str) (st : state) : state :=
  let nls := count_nl s in
  if nls =? 0
  then mkState (push s (rout st)) (col st + len s) (cur_line st) false (pending st) (ranchors st)
  else mkState (push s (rout st)) (last_line_len s) (cur_line st + nls) false (pending st) (ranchors st).

(* push_str(s); col += chars (no newline bookkeeping): Line sep in flat mode, IfBreak *)
Definition put_flat (s : str) (st : state) : state :=
  mkState (push s (rout st)) (col st + len s) (cur_line st) false (pending st) (ranchors st).

Definition emit_break (o : opts) (indent : Z) (st : state) : state :=
  if swallow st
  then mkState (rout st) (col st) (cur_line st) false (Some (pad_for o indent)) (ranchors st)
  else mkState (push (newline o) (rout st)) 0 (cur_line st + 1) false
               (Some (pad_for o indent)) (ranchors st).

(* first n elements all spaces, and at least n elements *)
Fixpoint all_spaces_prefix (n : nat) (l : list N) : bool :=
  match n with
  | O => true
  | S n' => match l with c :: r => (c =? SP) && all_spaces_prefix n' r | [] => false end
  end.

Definition dedent_trunc (o : opts) (lvl : N) (st : state) : state :=
  let want := lvl * indent_width o in
  if (0 <? want) && (match pending st with None => true | Some _ => false end)
  then if all_spaces_prefix (N.to_nat want) (rout st)
       then mkState (skipn (N.to_nat want) (rout st)) (col st - want) (cur_line st)
                    (swallow st) (pending st) (ranchors st)
       else st
  else st.

Definition render_comment (o : opts) (indent : Z) (st : state) (c : comment) : state :=
  let pad_width := pad_for o indent in
  let pre_swallow := swallow st in
  let pend := match pending st with Some _ => true | None => false end in
  (* st1: after the leading-separator part; swallow is already cleared *)
  let st1 :=
    if (c_lead c =? 0) && negb pre_swallow && negb pend
    then if 0 <? col st
         then mkState (SP :: rout st) (col st + 1) (cur_line st) false (pending st) (ranchors st)
         else mkState (rout st) (col st) (cur_line st) false (pending st) (ranchors st)
    else
      let already := if pre_swallow || pend then 1 else 0 in
      let to_emit := N.max (c_lead c) 1 - already in
      let ro := N.iter to_emit (push (newline o)) (rout st) in
      mkState (push (spaces pad_width) ro) pad_width (cur_line st + to_emit) false None
              (ranchors st) in
  let st2 :=
    if negb (c_sl c =? 0) && negb (c_sc c =? 0)
    then mkState (rout st1) (col st1) (cur_line st1) (swallow st1) (pending st1)
                 (mkAnchor (cur_line st1) (col st1 + 1) (c_sl c) (c_sc c) (c_text c)
                  :: ranchors st1)
    else st1 in
  let ro := push (c_text c) (rout st2) in
  let nls := count_nl (c_text c) in
  if c_is_line c
  then mkState (push (newline o) ro) 0 (cur_line st2 + nls + 1) true (Some pad_width) (ranchors st2)
  else if 0 <? nls
       then mkState ro (last_line_len (c_text c)) (cur_line st2 + nls) (swallow st2) (pending st2)
                    (ranchors st2)
       else mkState ro (col st2 + len (c_text c)) (cur_line st2) (swallow st2) (pending st2)
                    (ranchors st2).

Definition render_comments (o : opts) (indent : Z) (cs : list comment) (st : state) : state :=
  fold_left (render_comment o indent) cs st.

Definition emit_anchored (o : opts) (indent : Z) (s : str) (sl sc : N) (st : state) : state :=
  let st1 := flush_pending_with_indent o indent st in
  let st2 := mkState (rout st1) (col st1) (cur_line st1) false (pending st1)
                     (mkAnchor (cur_line st1) (col st1 + 1) sl sc s :: ranchors st1) in
  put_text s st2.

(* ---------------------------------------------------------------- fits_flat *)

Inductive fres := FRet (b : bool) | FCont (budget : Z).

Definition zlen (s : str) : Z := Z.of_N (len s).

Fixpoint fits_doc (d : doc) (in_start : bool) (budget : Z) : fres :=
  if (budget <? 0)%Z then FRet false else
  match d with
  | Nil => FCont budget
  | Text s => FCont (budget - zlen s)
  | Concat l =>
      (fix go (l : list doc) (b : Z) : fres :=
         match l with
         | [] => FCont b
         | x :: xs => match fits_doc x in_start b with
                      | FRet r => FRet r
                      | FCont b' => go xs b'
                      end
         end) l budget
  | Indent _ d' | Group d' | ForceFlat d' => fits_doc d' in_start budget
  | Line sep => if in_start then FCont (budget - zlen sep) else FRet true
  | Hardline | DedentHardline _ => FRet (negb in_start)
  | IfBreak _ | IfBreakPad _ => FCont budget
  | Pad w | IfFlatPad w => FCont (budget - Z.of_N w)
  | Anchored s _ _ => FCont (budget - zlen s)
  | Comments cs =>
      if existsb c_is_line cs then FRet (negb in_start)
      else FCont (fold_left (fun b c => (b - (zlen (c_text c) + 1))%Z) cs budget)
  end.

Fixpoint fits_outer (k : list doc) (budget : Z) : bool :=
  match k with
  | [] => (0 <=? budget)%Z
  | x :: xs => match fits_doc x false budget with
               | FRet r => r
               | FCont b => fits_outer xs b
               end
  end.

Definition fits_flat (d : doc) (k : list doc) (budget : Z) : bool :=
  if (budget <? 0)%Z then false else
  match fits_doc d true budget with
  | FRet r => r
  | FCont b => fits_outer k b
  end.

(* ---------------------------------------------------------------- render *)

Definition put_spaces (o : opts) (indent : Z) (w : N) (st : state) : state :=
  let st1 := flush_pending_with_indent o indent st in
  mkState (push (spaces w) (rout st1)) (col st1 + w) (cur_line st1) false (pending st1)
          (ranchors st1).

Definition flat_space (st : state) : state :=
  let st1 := flush_pending st in
  mkState (SP :: rout st1) (col st1 + 1) (cur_line st1) false (pending st1) (ranchors st1).

Fixpoint render_doc (o : opts) (indent : Z) (m : mode) (d : doc) (k : list doc) (st : state)
  : state :=
  match d with
  | Nil => st
  | Text s => put_text s (flush_pending_with_indent o indent st)
  | Concat l =>
      (fix go (l : list doc) (st : state) : state :=
         match l with
         | [] => st
         | x :: xs => go xs (render_doc o indent m x (xs ++ k) st)
         end) l st
  | Indent off d' => render_doc o (indent + off)%Z m d' k st
  | Group d' =>
      let chosen :=
        match m with
        | Flat => Flat
        | Break => if fits_flat d' k (Z.of_N (max_width o - col st)) then Flat else Break
        end in
      render_doc o indent chosen d' k st
  | ForceFlat d' => render_doc o indent Flat d' k st
  | Line sep =>
      match m with
      | Flat => put_flat sep (flush_pending st)
      | Break => emit_break o indent st
      end
  | Hardline =>
      match m with
      | Flat => flat_space st
      | Break => emit_break o indent st
      end
  | DedentHardline lvl =>
      match m with
      | Flat => flat_space st
      | Break => emit_break o indent (dedent_trunc o lvl st)
      end
  | Comments cs => render_comments o indent cs st
  | IfBreak s =>
      match m with
      | Break => put_flat s (flush_pending_with_indent o indent st)
      | Flat => st
      end
  | IfBreakPad w =>
      match m with
      | Break => if 0 <? w then put_spaces o indent w st else st
      | Flat => st
      end
  | Pad w => if 0 <? w then put_spaces o indent w st else st
  | IfFlatPad w =>
      match m with
      | Flat => if 0 <? w then put_spaces o indent w st else st
      | Break => st
      end
  | Anchored s sl sc => emit_anchored o indent s sl sc st
  end.

Definition init_state : state := mkState [] 0 1 false None [].

(* ---------------------------------------------------------------- strip_trailing_whitespace *)

Definition is_sptab (c : N) : bool := (c =? SP) || (c =? TAB).

Fixpoint starts_with (p s : str) : bool :=
  match p with
  | [] => true
  | a :: p' => match s with b :: s' => (a =? b) && starts_with p' s' | [] => false end
  end.

(* s.split(newline): non-overlapping, left to right.  [fuel] >= length s. *)
Fixpoint split_on (nl : str) (fuel : nat) (s : str) (cur_rev : str) : list str :=
  match fuel with
  | O => [rev cur_rev]
  | S f =>
      match s with
      | [] => [rev cur_rev]
      | c :: r =>
          if (match nl with [] => false | _ => starts_with nl s end)
          then rev cur_rev :: split_on nl f (skipn (length nl) s) []
          else split_on nl f r (c :: cur_rev)
      end
  end.

Fixpoint drop_while_sptab (l : str) : str :=
  match l with
  | c :: r => if is_sptab c then drop_while_sptab r else l
  | [] => []
  end.

Definition trim_end (l : str) : str := rev (drop_while_sptab (rev l)).

Fixpoint join (nl : str) (ls : list str) : str :=
  match ls with
  | [] => []
  | [x] => x
  | x :: r => x ++ nl ++ join nl r
  end.

Definition strip_trailing_whitespace (nl : str) (s : str) : str :=
  join nl (map trim_end (split_on nl (S (length s)) s [])).

Definition raw_render (o : opts) (d : doc) : state := render_doc o 0%Z Break d [] init_state.

Definition render_text (o : opts) (d : doc) : str :=
  let raw := rev (rout (raw_render o d)) in
  if strip o then strip_trailing_whitespace (newline o) raw else raw.

Definition render_anchors (o : opts) (d : doc) : list anchor := rev (ranchors (raw_render o d)).
