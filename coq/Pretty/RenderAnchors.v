(* C28, anchor part: every recorded anchor (dst_line, dst_column) is the true position of the
   anchored text in the raw rendered output, for every document outside one class
   (a block comment containing a newline; see anchor_after_multiline_comment_refuted). *)
From VV Require Import Pretty.Render Pretty.RenderContent.
Open Scope N_scope.

(* ---------------------------------------------------------------- positions in a text *)

Lemma count_nl_app a b : count_nl (a ++ b) = count_nl a + count_nl b.
Proof. induction a as [|c a IH]; simpl; [reflexivity|]. rewrite IH. lia. Qed.

Lemma len_app a b : len (a ++ b) = len a + len b.
Proof. unfold len. rewrite app_length. lia. Qed.

Lemma existsb_nl_count r : existsb (N.eqb NL) r = negb (count_nl r =? 0).
Proof.
  induction r as [|c r IH]; simpl; [reflexivity|].
  rewrite IH. rewrite (N.eqb_sym NL c).
  destruct (c =? NL); simpl.
  - destruct (count_nl r); reflexivity.
  - reflexivity.
Qed.

Lemma lll_no_nl s : count_nl s = 0 -> last_line_len s = len s.
Proof.
  induction s as [|c s IH]; simpl; intros H; [reflexivity|].
  destruct (c =? NL) eqn:E; [lia|].
  rewrite N.add_0_l in H. rewrite existsb_nl_count, H. simpl.
  unfold len. simpl length. lia.
Qed.

Lemma lll_app a b :
  last_line_len (a ++ b) = if count_nl b =? 0 then last_line_len a + len b else last_line_len b.
Proof.
  induction a as [|c a IH].
  - simpl. destruct (count_nl b =? 0) eqn:E; [|reflexivity].
    apply N.eqb_eq in E. rewrite lll_no_nl by assumption. reflexivity.
  - cbn [app last_line_len]. rewrite !existsb_nl_count, count_nl_app, IH.
    destruct (count_nl b =? 0) eqn:Eb.
    + apply N.eqb_eq in Eb. rewrite Eb, N.add_0_r.
      destruct (count_nl a =? 0); simpl; [|reflexivity].
      rewrite len_app. destruct (c =? NL); lia.
    + assert (count_nl a + count_nl b =? 0 = false) as ->
        by (apply N.eqb_neq; apply N.eqb_neq in Eb; lia).
      reflexivity.
Qed.

Lemma count_nl_repeat_sp n : count_nl (repeat SP n) = 0.
Proof. induction n; simpl; auto. Qed.

Lemma len_repeat n : len (repeat SP n) = N.of_nat n.
Proof. unfold len. rewrite repeat_length. reflexivity. Qed.

Lemma len_spaces n : len (spaces n) = n.
Proof. unfold spaces. rewrite len_repeat. lia. Qed.

Lemma count_nl_spaces n : count_nl (spaces n) = 0.
Proof. apply count_nl_repeat_sp. Qed.

(* ---------------------------------------------------------------- invariants *)

Definition out (st : state) : str := rev (rout st).

Definition nl_pos (o : opts) : Prop :=
  count_nl (newline o) = 1 /\ last_line_len (newline o) = 0.

Record Good0 (st : state) : Prop := {
  g_line : cur_line st = 1 + count_nl (out st);
  g_col : col st = last_line_len (out st);
  g_pend : pending st <> None -> col st = 0
}.

Definition Good (st : state) : Prop :=
  Good0 st /\ (swallow st = true -> pending st <> None).

Definition located (ro : list N) (a : anchor) : Prop :=
  exists rpost rpre, ro = rpost ++ rev (a_text a) ++ rpre /\
                     a_dl a = 1 + count_nl (rev rpre) /\
                     a_dc a = 1 + last_line_len (rev rpre).

Definition AnchOK (st : state) : Prop := Forall (located (rout st)) (ranchors st).

Definition ends_nonsp (s : str) : bool :=
  match rev s with c :: _ => negb (c =? SP) | [] => false end.

Definition anch_texts_ok (st : state) : Prop :=
  Forall (fun a => ends_nonsp (a_text a) = true) (ranchors st).

Definition Inv (st : state) : Prop := Good st /\ AnchOK st /\ anch_texts_ok st.

Definition comment_ok (c : comment) : bool :=
  (c_sl c =? 0) || (c_sc c =? 0) || ends_nonsp (c_text c).

(* documents for which positions are claimed *)
Fixpoint wf_pos (d : doc) : bool :=
  match d with
  | Concat l => forallb wf_pos l
  | Indent _ d' | Group d' | ForceFlat d' => wf_pos d'
  | Line sep => count_nl sep =? 0
  | IfBreak s => count_nl s =? 0
  | Comments cs => forallb comment_ok cs
  | Anchored s _ _ => ends_nonsp s
  | _ => true
  end.

(* ---------------------------------------------------------------- pushes *)

Lemma out_push s st ro' :
  ro' = push s (rout st) -> rev ro' = out st ++ s.
Proof. intros ->. apply rev_push. Qed.

Lemma located_push s ro a : located ro a -> located (push s ro) a.
Proof.
  intros (rpost & rpre & E & H1 & H2). exists (rev s ++ rpost), rpre.
  split; [|split; assumption].
  unfold push. rewrite rev_append_rev, E, app_assoc. reflexivity.
Qed.

Lemma located_cons c ro a : located ro a -> located (c :: ro) a.
Proof. intros H. apply (located_push [c]) in H. exact H. Qed.

Lemma Forall_located_push s ro l : Forall (located ro) l -> Forall (located (push s ro)) l.
Proof. intros H. eapply Forall_impl; [|exact H]. intros a. apply located_push. Qed.

Lemma located_iter_push s n ro a : located ro a -> located (N.iter n (push s) ro) a.
Proof.
  intros H. induction n as [|n IH] using N.peano_ind; [exact H|].
  rewrite N.iter_succ. apply located_push. exact IH.
Qed.

(* truncation of trailing spaces keeps anchors whose text does not end in a space *)
Lemma all_spaces_prefix_split n ro :
  all_spaces_prefix n ro = true -> ro = repeat SP n ++ skipn n ro.
Proof.
  revert ro. induction n as [|n IH]; intros ro H; simpl in *; [reflexivity|].
  destruct ro as [|c r]; [discriminate|].
  apply andb_true_iff in H as [Hc Hr]. apply N.eqb_eq in Hc. subst c.
  f_equal. apply IH. assumption.
Qed.

Lemma located_trunc n ro a :
  ends_nonsp (a_text a) = true ->
  located (repeat SP n ++ ro) a -> located ro a.
Proof.
  intros Hne. induction n as [|n IH]; [simpl; auto|].
  intros (rpost & rpre & E & H1 & H2). apply IH.
  destruct rpost as [|c rpost].
  - exfalso. simpl in E. unfold ends_nonsp in Hne.
    destruct (rev (a_text a)) as [|c r]; [discriminate|].
    simpl in E. injection E as Ec _. subst c. discriminate.
  - simpl in E. injection E as Ec E. exists rpost, rpre. auto.
Qed.

(* ---------------------------------------------------------------- Good0 under pushes *)

Lemma Good0_push_nonl s st st' :
  Good0 st -> pending st = None ->
  rout st' = push s (rout st) -> count_nl s = 0 ->
  col st' = col st + len s -> cur_line st' = cur_line st -> pending st' = None ->
  Good0 st'.
Proof.
  intros [Hl Hc Hp] Hpn Hro Hnl Hcol Hline Hpend.
  constructor; unfold out.
  - rewrite Hro, rev_push, count_nl_app, Hnl, Hline, Hl. unfold out. lia.
  - rewrite Hro, rev_push, lll_app, Hnl. simpl. rewrite Hcol, Hc. reflexivity.
  - rewrite Hpend. congruence.
Qed.

Lemma Good0_flush st :
  Good0 st -> Good0 (flush_pending st) /\ pending (flush_pending st) = None.
Proof.
  intros G. unfold flush_pending. destruct (pending st) as [p|] eqn:E; [|auto].
  split; [|reflexivity].
  pose proof (g_pend _ G) as Hp. rewrite E in Hp. specialize (Hp ltac:(discriminate)).
  destruct G as [Hl Hc _]. unfold out in *.
  constructor; unfold out; cbn [rout col cur_line pending].
  - rewrite rev_push, count_nl_app, count_nl_spaces, Hl. lia.
  - rewrite rev_push, lll_app, count_nl_spaces. simpl. rewrite len_spaces, <- Hc, Hp. reflexivity.
  - congruence.
Qed.

Lemma Good0_flush_wi o i st :
  Good0 st -> Good0 (flush_pending_with_indent o i st) /\
              pending (flush_pending_with_indent o i st) = None.
Proof.
  intros G. unfold flush_pending_with_indent. destruct (pending st) as [p|] eqn:E; [|auto].
  split; [|reflexivity].
  pose proof (g_pend _ G) as Hp. rewrite E in Hp. specialize (Hp ltac:(discriminate)).
  destruct G as [Hl Hc _]. unfold out in *.
  constructor; unfold out; cbn [rout col cur_line pending].
  - rewrite rev_push, count_nl_app, count_nl_spaces, Hl. lia.
  - rewrite rev_push, lll_app, count_nl_spaces. simpl. rewrite len_spaces, <- Hc, Hp. reflexivity.
  - congruence.
Qed.

Lemma AnchOK_flush st : AnchOK st -> AnchOK (flush_pending st).
Proof.
  unfold AnchOK, flush_pending. destruct (pending st); auto. cbn [rout ranchors].
  apply Forall_located_push.
Qed.

Lemma AnchOK_flush_wi o i st : AnchOK st -> AnchOK (flush_pending_with_indent o i st).
Proof.
  unfold AnchOK, flush_pending_with_indent. destruct (pending st); auto. cbn [rout ranchors].
  apply Forall_located_push.
Qed.

Lemma ranchors_flush st : ranchors (flush_pending st) = ranchors st.
Proof. unfold flush_pending. destruct (pending st); reflexivity. Qed.

Lemma ranchors_flush_wi o i st : ranchors (flush_pending_with_indent o i st) = ranchors st.
Proof. unfold flush_pending_with_indent. destruct (pending st); reflexivity. Qed.

Lemma Good_of_Good0_noswallow st : Good0 st -> swallow st = false -> Good st.
Proof. intros G H. split; [exact G|]. rewrite H. discriminate. Qed.

(* put_text after a flush *)
Lemma Good_put_text s st :
  Good0 st -> pending st = None -> Good (put_text s st).
Proof.
  intros G Hp. apply Good_of_Good0_noswallow.
  2:{ unfold put_text. destruct (count_nl s =? 0); reflexivity. }
  destruct G as [Hl Hc _]. unfold put_text.
  destruct (count_nl s =? 0) eqn:E.
  - apply N.eqb_eq in E.
    constructor; unfold out; cbn [rout col cur_line pending].
    + rewrite rev_push, count_nl_app, E, Hl. unfold out. lia.
    + rewrite rev_push, lll_app, E. simpl. rewrite Hc. reflexivity.
    + congruence.
  - constructor; unfold out; cbn [rout col cur_line pending].
    + rewrite rev_push, count_nl_app, Hl. unfold out. lia.
    + rewrite rev_push, lll_app, E. reflexivity.
    + congruence.
Qed.

Lemma AnchOK_put_text s st : AnchOK st -> AnchOK (put_text s st).
Proof.
  unfold AnchOK, put_text. destruct (count_nl s =? 0); cbn [rout ranchors];
    apply Forall_located_push.
Qed.

Lemma ranchors_put_text s st : ranchors (put_text s st) = ranchors st.
Proof. unfold put_text. destruct (count_nl s =? 0); reflexivity. Qed.

Lemma Good_put_flat s st :
  Good0 st -> pending st = None -> count_nl s = 0 -> Good (put_flat s st).
Proof.
  intros G Hp Hs. apply Good_of_Good0_noswallow; [|reflexivity].
  eapply Good0_push_nonl; eauto; reflexivity.
Qed.

Lemma Good_put_spaces o i w st : Good st -> Good (put_spaces o i w st).
Proof.
  intros [G _]. destruct (Good0_flush_wi o i st G) as [G1 P1].
  apply Good_of_Good0_noswallow; [|reflexivity].
  unfold put_spaces.
  eapply Good0_push_nonl; try exact G1; try exact P1; cbn [rout col cur_line pending]; auto.
  - apply count_nl_spaces.
  - rewrite len_spaces. reflexivity.
Qed.

Lemma Good_flat_space st : Good st -> Good (flat_space st).
Proof.
  intros [G _]. destruct (Good0_flush st G) as [G1 P1].
  apply Good_of_Good0_noswallow; [|reflexivity].
  unfold flat_space.
  eapply (Good0_push_nonl [SP]); try exact G1; try exact P1; cbn [rout col cur_line pending]; auto.
Qed.

Lemma Good_emit_break o i st : nl_pos o -> Good st -> Good (emit_break o i st).
Proof.
  intros [N1 N2] [G Hs]. unfold emit_break. destruct (swallow st) eqn:E.
  - apply Good_of_Good0_noswallow; [|reflexivity].
    pose proof (g_pend _ G (Hs eq_refl)) as Hc0.
    destruct G as [Hl Hc Hp]. constructor; cbn [rout col cur_line pending]; auto.
  - apply Good_of_Good0_noswallow; [|reflexivity].
    destruct G as [Hl Hc Hp]. constructor; unfold out; cbn [rout col cur_line pending]; auto.
    + rewrite rev_push, count_nl_app, N1, Hl. unfold out. lia.
    + rewrite rev_push, lll_app, N1. simpl. auto.
Qed.

Lemma AnchOK_emit_break o i st : AnchOK st -> AnchOK (emit_break o i st).
Proof.
  unfold AnchOK, emit_break. destruct (swallow st); cbn [rout ranchors]; auto.
  apply Forall_located_push.
Qed.

Lemma ranchors_emit_break o i st : ranchors (emit_break o i st) = ranchors st.
Proof. unfold emit_break. destruct (swallow st); reflexivity. Qed.

Lemma Good_dedent_trunc o l st : Good st -> Good (dedent_trunc o l st).
Proof.
  intros HG. pose proof HG as [G Hs]. unfold dedent_trunc.
  destruct (0 <? l * indent_width o); simpl; [|exact HG].
  destruct (pending st) eqn:Ep; [exact HG|].
  destruct (all_spaces_prefix _ _) eqn:Ea; [|exact HG].
  pose proof (all_spaces_prefix_split _ _ Ea) as Hsplit.
  set (n := N.to_nat (l * indent_width o)) in *.
  split; [|cbn [swallow pending]; exact Hs].
  destruct G as [Hl Hc Hp].
  assert (Ho : out st = rev (skipn n (rout st)) ++ repeat SP n).
  { unfold out. rewrite Hsplit at 1. rewrite rev_app_distr.
    f_equal. clear. induction n; simpl; auto. rewrite IHn.
    clear. induction n; simpl; auto. rewrite <- IHn. reflexivity. }
  constructor; unfold out in *; cbn [rout col cur_line pending].
  - rewrite Hl, Ho, count_nl_app, count_nl_repeat_sp. lia.
  - rewrite Hc, Ho, lll_app, count_nl_repeat_sp. simpl. rewrite len_repeat.
    subst n. lia.
  - congruence.
Qed.

Lemma AnchOK_dedent_trunc o l st :
  anch_texts_ok st -> AnchOK st -> AnchOK (dedent_trunc o l st).
Proof.
  intros Ht H. unfold dedent_trunc.
  destruct (_ && _); [|assumption].
  destruct (all_spaces_prefix _ _) eqn:Ea; [|assumption].
  pose proof (all_spaces_prefix_split _ _ Ea) as Hsplit.
  unfold AnchOK in *. cbn [rout ranchors].
  unfold anch_texts_ok in Ht. rewrite Forall_forall in *. intros a Ha.
  apply located_trunc with (n := N.to_nat (l * indent_width o)); [apply Ht; assumption|].
  rewrite <- Hsplit. apply H. assumption.
Qed.

Lemma ranchors_dedent_trunc o l st : ranchors (dedent_trunc o l st) = ranchors st.
Proof.
  unfold dedent_trunc. destruct (_ && _); auto. destruct (all_spaces_prefix _ _); reflexivity.
Qed.

(* ---------------------------------------------------------------- comments *)

Lemma count_nl_iter o n ro : nl_pos o ->
  count_nl (rev (N.iter n (push (newline o)) ro)) = count_nl (rev ro) + n.
Proof.
  intros [N1 _]. induction n as [|n IH] using N.peano_ind; [simpl; lia|].
  rewrite N.iter_succ, rev_push, count_nl_app, IH, N1. lia.
Qed.

Lemma lll_iter o n ro : nl_pos o ->
  last_line_len (rev (N.iter n (push (newline o)) ro)) =
  if n =? 0 then last_line_len (rev ro) else 0.
Proof.
  intros [N1 N2]. induction n as [|n IH] using N.peano_ind; [reflexivity|].
  rewrite N.iter_succ, rev_push, lll_app, N1. simpl.
  destruct (N.succ n =? 0) eqn:E; [apply N.eqb_eq in E; lia|exact N2].
Qed.

Lemma new_anchor_located (ro : list N) (text : str) l c sl sc :
  l = 1 + count_nl (rev ro) -> c = last_line_len (rev ro) ->
  located (push text ro) (mkAnchor l (c + 1) sl sc text).
Proof.
  intros -> ->. exists [], ro. cbn [a_text a_dl a_dc app].
  split; [unfold push; rewrite rev_append_rev; reflexivity|]. split; [reflexivity|lia].
Qed.

Lemma Inv_render_comment o i st c :
  nl_pos o -> comment_ok c = true -> Inv st -> Inv (render_comment o i st c).
Proof.
  intros Hnl Hok ((G & Hsw) & HA & HT).
  pose proof Hnl as [N1 N2].
  unfold render_comment.
  set (pend := match pending st with Some _ => true | None => false end).
  set (st1 := if (c_lead c =? 0) && negb (swallow st) && negb pend then _ else _).
  assert (H1 : Good0 st1 /\ pending st1 = None /\ swallow st1 = false /\
               Forall (located (rout st1)) (ranchors st) /\ ranchors st1 = ranchors st).
  { subst st1. destruct ((c_lead c =? 0) && negb (swallow st) && negb pend) eqn:E.
    - apply andb_true_iff in E as [E Ep]. apply andb_true_iff in E as [_ Es].
      assert (Hpn : pending st = None).
      { subst pend. destruct (pending st); [discriminate|reflexivity]. }
      destruct (0 <? col st).
      + split; [|split; [|split; [|split]]]; cbn [pending swallow ranchors rout]; auto.
        * eapply (Good0_push_nonl [SP]); try exact G; cbn [rout col cur_line pending]; auto.
        * eapply Forall_impl; [|exact HA]. intros a. apply located_cons.
      + split; [|split; [|split; [|split]]]; cbn [pending swallow ranchors rout]; auto.
        destruct G as [Hl Hc Hp]. constructor; auto.
    - clear E.
      set (already := if swallow st || pend then 1 else 0).
      set (k := N.max (c_lead c) 1 - already).
      split; [|split; [|split; [|split]]]; cbn [pending swallow ranchors rout col cur_line]; auto.
      + destruct G as [Hl Hc Hp]. unfold out in *.
        constructor; unfold out; cbn [pending swallow ranchors rout col cur_line].
        * rewrite rev_push, count_nl_app, count_nl_spaces, count_nl_iter by assumption.
          rewrite Hl. lia.
        * rewrite rev_push, lll_app, count_nl_spaces. simpl. rewrite len_spaces.
          rewrite lll_iter by assumption.
          destruct (k =? 0) eqn:Ek; [|lia].
          apply N.eqb_eq in Ek.
          assert (Hal : swallow st || pend = true).
          { destruct (swallow st || pend) eqn:Eo; auto. subst k already. lia. }
          assert (Hpn : pending st <> None).
          { apply orb_true_iff in Hal as [Hs|Hp']; [auto|].
            subst pend. destruct (pending st); [discriminate|discriminate]. }
          rewrite <- Hc, (Hp Hpn). lia.
        * congruence.
      + eapply Forall_impl; [|exact HA]. intros a Ha.
        apply located_push. apply located_iter_push. exact Ha. }
  clearbody st1. destruct H1 as (G1 & P1 & S1 & A1 & R1).
  pose proof Hok as Hok2. unfold comment_ok in Hok2.
  set (anch := negb (c_sl c =? 0) && negb (c_sc c =? 0)).
  set (st2 := if anch then _ else st1).
  assert (Hr2 : rout st2 = rout st1) by (subst st2; destruct anch; reflexivity).
  assert (Hc2 : col st2 = col st1) by (subst st2; destruct anch; reflexivity).
  assert (Hl2 : cur_line st2 = cur_line st1) by (subst st2; destruct anch; reflexivity).
  assert (Hs2 : swallow st2 = swallow st1) by (subst st2; destruct anch; reflexivity).
  assert (Hp2 : pending st2 = pending st1) by (subst st2; destruct anch; reflexivity).
  assert (HA2 : Forall (located (push (c_text c) (rout st1))) (ranchors st2) /\
                Forall (fun a => ends_nonsp (a_text a) = true) (ranchors st2)).
  { subst st2. destruct anch eqn:Ea; cbn [ranchors]; rewrite R1.
    - split.
      + constructor; [|apply Forall_located_push; exact A1].
        destruct G1 as [Hl Hc _]. unfold out in *.
        apply new_anchor_located; assumption.
      + constructor; [|exact HT]. cbn [a_text].
        subst anch. apply andb_true_iff in Ea as [E1 E2].
        destruct (c_sl c =? 0); [discriminate|]. destruct (c_sc c =? 0); [discriminate|].
        exact Hok2.
    - split; [apply Forall_located_push; exact A1|exact HT]. }
  clearbody st2. destruct HA2 as [HA2 HT2].
  rewrite Hr2, Hc2, Hl2, Hs2, Hp2.
  destruct G1 as [Hl Hc Hp]. unfold out in *.
  destruct (c_is_line c) eqn:Eline.
  - split; [|split].
    + split.
      * constructor; unfold out; cbn [pending swallow ranchors rout col cur_line].
        -- rewrite !rev_push, !count_nl_app, N1, Hl. lia.
        -- rewrite !rev_push, lll_app, N1. simpl. auto.
        -- reflexivity.
      * cbn [pending swallow]. discriminate.
    + unfold AnchOK. cbn [rout ranchors]. apply Forall_located_push. exact HA2.
    + exact HT2.
  - destruct (0 <? count_nl (c_text c)) eqn:Enl.
    + assert (Hne : count_nl (c_text c) =? 0 = false)
        by (apply N.eqb_neq; apply N.ltb_lt in Enl; lia).
      split; [|split].
      * split.
        -- constructor; unfold out; cbn [pending swallow ranchors rout col cur_line].
           ++ rewrite rev_push, count_nl_app, Hl. lia.
           ++ rewrite rev_push, lll_app, Hne. reflexivity.
           ++ rewrite P1. congruence.
        -- cbn [pending swallow]. rewrite S1. discriminate.
      * unfold AnchOK. cbn [rout ranchors]. exact HA2.
      * exact HT2.
    + assert (Hok1 : count_nl (c_text c) = 0) by (apply N.ltb_ge in Enl; lia).
      split; [|split].
      * split.
        -- constructor; unfold out; cbn [pending swallow ranchors rout col cur_line].
           ++ rewrite rev_push, count_nl_app, Hok1, Hl. lia.
           ++ rewrite rev_push, lll_app, Hok1. simpl. rewrite Hc. reflexivity.
           ++ rewrite P1. congruence.
        -- cbn [pending swallow]. rewrite S1. discriminate.
      * unfold AnchOK. cbn [rout ranchors]. exact HA2.
      * exact HT2.
Qed.

Lemma Inv_render_comments o i cs :
  nl_pos o -> forallb comment_ok cs = true ->
  forall st, Inv st -> Inv (render_comments o i cs st).
Proof.
  intros Hnl. unfold render_comments. induction cs as [|c cs IH]; intros Hok st H; simpl; auto.
  simpl in Hok. apply andb_true_iff in Hok as [H1 H2].
  apply IH; auto. apply Inv_render_comment; auto.
Qed.

(* ---------------------------------------------------------------- single steps *)

Lemma Inv_text o i s st : Inv st -> Inv (put_text s (flush_pending_with_indent o i st)).
Proof.
  intros ((G & _) & HA & HT).
  destruct (Good0_flush_wi o i st G) as [G1 P1].
  split; [apply Good_put_text; assumption|]. split.
  - apply AnchOK_put_text, AnchOK_flush_wi. exact HA.
  - unfold anch_texts_ok. rewrite ranchors_put_text, ranchors_flush_wi. exact HT.
Qed.

Lemma Inv_put_flat_wi o i s st :
  count_nl s = 0 -> Inv st -> Inv (put_flat s (flush_pending_with_indent o i st)).
Proof.
  intros Hs ((G & _) & HA & HT).
  destruct (Good0_flush_wi o i st G) as [G1 P1].
  split; [apply Good_put_flat; assumption|]. split.
  - unfold AnchOK, put_flat. cbn [rout ranchors]. apply Forall_located_push.
    apply AnchOK_flush_wi. exact HA.
  - unfold anch_texts_ok, put_flat. cbn [ranchors]. rewrite ranchors_flush_wi. exact HT.
Qed.

Lemma Inv_put_flat s st :
  count_nl s = 0 -> Inv st -> Inv (put_flat s (flush_pending st)).
Proof.
  intros Hs ((G & _) & HA & HT).
  destruct (Good0_flush st G) as [G1 P1].
  split; [apply Good_put_flat; assumption|]. split.
  - unfold AnchOK, put_flat. cbn [rout ranchors]. apply Forall_located_push.
    apply AnchOK_flush. exact HA.
  - unfold anch_texts_ok, put_flat. cbn [ranchors]. rewrite ranchors_flush. exact HT.
Qed.

Lemma Inv_put_spaces o i w st : Inv st -> Inv (put_spaces o i w st).
Proof.
  intros (G & HA & HT). split; [apply Good_put_spaces; exact G|]. split.
  - unfold AnchOK, put_spaces. cbn [rout ranchors]. apply Forall_located_push.
    apply AnchOK_flush_wi. exact HA.
  - unfold anch_texts_ok, put_spaces. cbn [ranchors]. rewrite ranchors_flush_wi. exact HT.
Qed.

Lemma Inv_flat_space st : Inv st -> Inv (flat_space st).
Proof.
  intros (G & HA & HT). split; [apply Good_flat_space; exact G|]. split.
  - unfold AnchOK, flat_space. cbn [rout ranchors].
    pose proof (AnchOK_flush st HA) as H. unfold AnchOK in H.
    eapply Forall_impl; [|exact H]. intros a. apply located_cons.
  - unfold anch_texts_ok, flat_space. cbn [ranchors]. rewrite ranchors_flush. exact HT.
Qed.

Lemma Inv_emit_break o i st : nl_pos o -> Inv st -> Inv (emit_break o i st).
Proof.
  intros Hnl (G & HA & HT). split; [apply Good_emit_break; assumption|]. split.
  - apply AnchOK_emit_break. exact HA.
  - unfold anch_texts_ok. rewrite ranchors_emit_break. exact HT.
Qed.

Lemma Inv_dedent_trunc o l st : Inv st -> Inv (dedent_trunc o l st).
Proof.
  intros (G & HA & HT). split; [apply Good_dedent_trunc; exact G|]. split.
  - apply AnchOK_dedent_trunc; assumption.
  - unfold anch_texts_ok. rewrite ranchors_dedent_trunc. exact HT.
Qed.

Lemma Inv_emit_anchored o i s sl sc st :
  ends_nonsp s = true -> Inv st -> Inv (emit_anchored o i s sl sc st).
Proof.
  intros Hs ((G & _) & HA & HT). unfold emit_anchored.
  destruct (Good0_flush_wi o i st G) as [G1 P1].
  set (st1 := flush_pending_with_indent o i st) in *.
  set (st2 := mkState _ _ _ _ _ _).
  assert (G2 : Good0 st2).
  { destruct G1 as [Hl Hc Hp]. constructor; auto. }
  split; [apply Good_put_text; [exact G2|exact P1]|]. split.
  - unfold AnchOK. rewrite ranchors_put_text. subst st2. cbn [ranchors].
    assert (rout (put_text s (mkState (rout st1) (col st1) (cur_line st1) false (pending st1)
               (mkAnchor (cur_line st1) (col st1 + 1) sl sc s :: ranchors st1)))
            = push s (rout st1)) as ->
      by (unfold put_text; destruct (count_nl s =? 0); reflexivity).
    constructor.
    + destruct G1 as [Hl Hc _]. unfold out in *. apply new_anchor_located; assumption.
    + apply Forall_located_push. subst st1. exact (AnchOK_flush_wi o i st HA).
  - unfold anch_texts_ok. rewrite ranchors_put_text. subst st2. cbn [ranchors].
    constructor; [exact Hs|]. subst st1. rewrite ranchors_flush_wi. exact HT.
Qed.

(* ---------------------------------------------------------------- the renderer *)

Lemma Inv_render_doc o (Hnl : nl_pos o) d :
  wf_pos d = true ->
  forall indent m k st, Inv st -> Inv (render_doc o indent m d k st).
Proof.
  induction d as [ |s|l IH|off d IH|d IH|d IH|sep| |lvl|cs|s|w|w|w|s a b] using doc_ind2;
    intros Hwf indent m k st H; cbn [render_doc]; cbn [wf_pos] in Hwf.
  - exact H.
  - apply Inv_text. exact H.
  - revert k st H. induction IH as [|x xs Hx Hxs IHl]; intros k st H; [exact H|].
    cbn [forallb] in Hwf. apply andb_true_iff in Hwf as [W1 W2].
    apply IHl; [exact W2|]. apply Hx; assumption.
  - apply IH; assumption.
  - destruct m; [|destruct (fits_flat d k _)]; apply IH; assumption.
  - apply IH; assumption.
  - apply N.eqb_eq in Hwf. destruct m; [apply Inv_put_flat; assumption|apply Inv_emit_break; assumption].
  - destruct m; [apply Inv_flat_space; assumption|apply Inv_emit_break; assumption].
  - destruct m; [apply Inv_flat_space; assumption|].
    apply Inv_emit_break; [assumption|]. apply Inv_dedent_trunc. exact H.
  - apply Inv_render_comments; assumption.
  - apply N.eqb_eq in Hwf. destruct m; [exact H|apply Inv_put_flat_wi; assumption].
  - destruct m; [exact H|]. destruct (0 <? w); [apply Inv_put_spaces|]; exact H.
  - destruct (0 <? w); [apply Inv_put_spaces|]; exact H.
  - destruct m; [|exact H]. destruct (0 <? w); [apply Inv_put_spaces|]; exact H.
  - apply Inv_emit_anchored; assumption.
Qed.

Lemma Inv_init : Inv init_state.
Proof.
  split; [|split; constructor].
  split; [constructor; cbn; auto; congruence|discriminate].
Qed.

(* position (1-based line, 1-based character column) at which [pre] ends *)
Definition line_after (pre : str) : N := 1 + count_nl pre.
Definition column_after (pre : str) : N := 1 + last_line_len pre.

Definition text_at (output : str) (line column : N) (text : str) : Prop :=
  exists pre post, output = pre ++ text ++ post /\
                   line = line_after pre /\ column = column_after pre.

Theorem anchor_points_at_text_raw o d :
  nl_pos o -> wf_pos d = true ->
  forall a, In a (render_anchors o d) ->
  text_at (rev (rout (raw_render o d))) (a_dl a) (a_dc a) (a_text a).
Proof.
  intros Hnl Hwf a Ha.
  pose proof (Inv_render_doc o Hnl d Hwf 0%Z Break [] init_state Inv_init) as (_ & HA & _).
  fold (raw_render o d) in HA. unfold render_anchors in Ha. apply in_rev in Ha.
  unfold AnchOK in HA. rewrite Forall_forall in HA.
  destruct (HA a Ha) as (rpost & rpre & E & H1 & H2).
  exists (rev rpre), (rev rpost). split; [|split; assumption].
  rewrite E, !rev_app_distr, rev_involutive, app_assoc. reflexivity.
Qed.

(* the recorded line/column bookkeeping is exact for every well-formed document *)
Theorem line_col_exact o d :
  nl_pos o -> wf_pos d = true ->
  let st := raw_render o d in
  cur_line st = line_after (rev (rout st)) /\ col st + 1 = column_after (rev (rout st)).
Proof.
  intros Hnl Hwf st.
  pose proof (Inv_render_doc o Hnl d Hwf 0%Z Break [] init_state Inv_init) as ((G & _) & _).
  destruct G as [Hl Hc _]. unfold out in *. fold (raw_render o d) in Hl, Hc.
  subst st. unfold line_after, column_after. split; [exact Hl|lia].
Qed.

(* ---------------------------------------------------------------- anchors are the document's *)

Fixpoint doc_anchors (d : doc) : list (N * N * str) :=
  match d with
  | Concat l => flat_map doc_anchors l
  | Indent _ d' | Group d' | ForceFlat d' => doc_anchors d'
  | Comments cs =>
      flat_map (fun c => if negb (c_sl c =? 0) && negb (c_sc c =? 0)
                         then [(c_sl c, c_sc c, c_text c)] else []) cs
  | Anchored s sl sc => [(sl, sc, s)]
  | _ => []
  end.

Definition src_of (a : anchor) : N * N * str := (a_sl a, a_sc a, a_text a).

Definition anchs (st : state) : list (N * N * str) := map src_of (rev (ranchors st)).

Lemma anchs_render_comment o i st c :
  anchs (render_comment o i st c) =
  anchs st ++ (if negb (c_sl c =? 0) && negb (c_sc c =? 0) then [(c_sl c, c_sc c, c_text c)] else []).
Proof.
  unfold render_comment.
  set (st1 := if (c_lead c =? 0) && negb (swallow st) && negb _ then _ else _).
  assert (R1 : ranchors st1 = ranchors st).
  { subst st1. destruct (_ && _ && _); [destruct (0 <? col st)|]; reflexivity. }
  clearbody st1.
  set (anch := negb (c_sl c =? 0) && negb (c_sc c =? 0)).
  set (st2 := if anch then _ else st1).
  assert (R2 : anchs st2 = anchs st ++ (if anch then [(c_sl c, c_sc c, c_text c)] else [])).
  { subst st2. unfold anchs. destruct anch; cbn [ranchors]; rewrite R1.
    - simpl. rewrite map_app. reflexivity.
    - rewrite app_nil_r. reflexivity. }
  clearbody st2. rewrite <- R2.
  destruct (c_is_line c); [reflexivity|]. destruct (0 <? _); reflexivity.
Qed.

Lemma anchs_render_doc o d : forall indent m k st,
  anchs (render_doc o indent m d k st) = anchs st ++ doc_anchors d.
Proof.
  induction d as [ |s|l IH|off d IH|d IH|d IH|sep| |lvl|cs|s|w|w|w|s a b] using doc_ind2;
    intros indent m k st; cbn [render_doc doc_anchors]; try (rewrite app_nil_r; reflexivity).
  - unfold anchs. rewrite ranchors_put_text, ranchors_flush_wi, app_nil_r. reflexivity.
  - revert k st. induction IH as [|x xs Hx Hxs IHl]; intros k st; simpl.
    + rewrite app_nil_r. reflexivity.
    + rewrite IHl, Hx, app_assoc. reflexivity.
  - apply IH.
  - destruct m; [|destruct (fits_flat d k _)]; apply IH.
  - apply IH.
  - rewrite app_nil_r. destruct m; unfold anchs;
      [unfold put_flat; cbn [ranchors]; rewrite ranchors_flush|rewrite ranchors_emit_break]; reflexivity.
  - rewrite app_nil_r. destruct m; unfold anchs;
      [unfold flat_space; cbn [ranchors]; rewrite ranchors_flush|rewrite ranchors_emit_break]; reflexivity.
  - rewrite app_nil_r. destruct m; unfold anchs;
      [unfold flat_space; cbn [ranchors]; rewrite ranchors_flush
      |rewrite ranchors_emit_break, ranchors_dedent_trunc]; reflexivity.
  - unfold render_comments. revert st. induction cs as [|c cs IHc]; intros st; simpl.
    + rewrite app_nil_r. reflexivity.
    + rewrite IHc, anchs_render_comment, app_assoc. reflexivity.
  - rewrite app_nil_r. destruct m; [reflexivity|].
    unfold anchs, put_flat. cbn [ranchors]. rewrite ranchors_flush_wi. reflexivity.
  - rewrite app_nil_r. destruct m; [reflexivity|]. destruct (0 <? w); [|reflexivity].
    unfold anchs, put_spaces. cbn [ranchors]. rewrite ranchors_flush_wi. reflexivity.
  - rewrite app_nil_r. destruct (0 <? w); [|reflexivity].
    unfold anchs, put_spaces. cbn [ranchors]. rewrite ranchors_flush_wi. reflexivity.
  - rewrite app_nil_r. destruct m; [|reflexivity]. destruct (0 <? w); [|reflexivity].
    unfold anchs, put_spaces. cbn [ranchors]. rewrite ranchors_flush_wi. reflexivity.
  - unfold emit_anchored, anchs. rewrite ranchors_put_text. cbn [ranchors].
    rewrite ranchors_flush_wi. simpl. rewrite map_app. reflexivity.
Qed.

(* the anchors recorded are exactly the document's anchored fragments and positioned
   comments, in document order: none dropped, duplicated or reordered *)
Theorem anchors_are_documents o d :
  map src_of (render_anchors o d) = doc_anchors d.
Proof.
  unfold render_anchors, raw_render.
  pose proof (anchs_render_doc o d 0%Z Break [] init_state) as H.
  unfold anchs in H. simpl in H. exact H.
Qed.

(* ---------------------------------------------------------------- the known defect *)

(* decidable form of text_at, by trying every split point *)
Fixpoint text_at_b (pre_rev rest : str) (line column : N) (text : str) : bool :=
  (starts_with text rest && (line =? line_after (rev pre_rev))
   && (column =? column_after (rev pre_rev)))
  || match rest with [] => false | c :: r => text_at_b (c :: pre_rev) r line column text end.

Lemma starts_with_app p post : starts_with p (p ++ post) = true.
Proof. induction p as [|a p IH]; simpl; auto. rewrite N.eqb_refl. exact IH. Qed.

Lemma text_at_b_spec rest : forall pre_rev line column text,
  text_at_b pre_rev rest line column text = true <->
  exists pre post, rest = pre ++ text ++ post /\ line = line_after (rev pre_rev ++ pre) /\
                   column = column_after (rev pre_rev ++ pre).
Proof.
  induction rest as [|c r IH]; intros pre_rev line column text; cbn [text_at_b].
  - rewrite orb_false_r. split.
    + intros H. apply andb_true_iff in H as [H Hc]. apply andb_true_iff in H as [Hs Hl].
      apply N.eqb_eq in Hc, Hl. apply starts_with_split in Hs.
      exists [], (skipn (length text) []). rewrite app_nil_r. auto.
    + intros (pre & post & E & Hl & Hc).
      destruct pre; [|discriminate]. destruct text; [|discriminate].
      rewrite app_nil_r in *. subst. simpl. rewrite !N.eqb_refl. reflexivity.
  - rewrite orb_true_iff, IH. split.
    + intros [H|(pre & post & E & Hl & Hc)].
      * apply andb_true_iff in H as [H Hc]. apply andb_true_iff in H as [Hs Hl].
        apply N.eqb_eq in Hc, Hl. apply starts_with_split in Hs.
        exists [], (skipn (length text) (c :: r)). rewrite app_nil_r. auto.
      * exists (c :: pre), post. simpl rev in Hl, Hc. rewrite <- app_assoc in Hl, Hc.
        simpl in *. subst r. auto.
    + intros (pre & post & E & Hl & Hc).
      destruct pre as [|c' pre].
      * left. rewrite app_nil_r in *. simpl in E. rewrite E, starts_with_app. subst.
        rewrite !N.eqb_refl. reflexivity.
      * right. simpl in E. injection E as -> E. exists pre, post.
        simpl rev. rewrite <- app_assoc. simpl. auto.
Qed.

Lemma text_at_b_iff output line column text :
  text_at_b [] output line column text = true <-> text_at output line column text.
Proof. rewrite text_at_b_spec. reflexivity. Qed.

(* regression witness: a token anchored after a block comment that spans lines, on the same
   output line.  Before the repair of render_comments (col was reset to 0) the recorded
   column was 2; the text is at 2:5. *)
Definition multiline_doc : doc :=
  Concat [Text [97]; Comments [mkComment [47;42;120;10;121;42;47] 0 false 0 0];
          Text [32]; Anchored [116;111;107] 1 1].
Definition multiline_opts : opts := mkOpts 80 4 [10] true.

Lemma anchor_after_multiline_comment_example :
  wf_pos multiline_doc = true /\
  map (fun a => (a_dl a, a_dc a)) (render_anchors multiline_opts multiline_doc) = [(2, 5)].
Proof. split; vm_compute; reflexivity. Qed.
