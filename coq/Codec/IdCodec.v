(* L8 Codec — model of the fragment id codec.
   crates/parser/src/fragment_codec.rs   : IdWindow::encode, IdRebase::decode, EncodeSession::encode_str/
                                           encode_path, DecodeSession::new / decode_str / decode_path
   crates/analyzer/src/fragment_codec.rs : encode_sentinel / decode_sentinel (SymbolId, DefinitionId)
   crates/parser/src/resource_table.rs   : GlobalTable::insert (interning, id = insertion index)
   Definitions only (they must still evaluate when a proof breaks); proofs in IdCodecProofs.v.
   usize / u64 are modelled as unbounded N: `base + local + 1` cannot overflow in the code because
   the range (base, base+count] has been reserved from a usize counter before decoding. *)
From Coq Require Import NArith List Bool.
Import ListNotations.
Open Scope N_scope.

Inductive res (A : Type) : Type := Ok (a : A) | Err.
Arguments Ok {A} a.
Arguments Err {A}.

Definition rbind {A B} (x : res A) (f : A -> res B) : res B :=
  match x with Ok a => f a | Err => Err end.

Fixpoint mapM {A B} (f : A -> res B) (l : list A) : res (list B) :=
  match l with
  | [] => Ok []
  | x :: t => rbind (f x) (fun y => rbind (mapM f t) (fun t' => Ok (y :: t')))
  end.

(* IdWindow { start, end }: the half-open window (start, end] of ids issued for one file *)
Record window := mkWin { w_start : N; w_end : N }.
(* IdRebase { base, count }: the freshly reserved range (base, base+count] *)
Record rebase := mkReb { r_base : N; r_count : N }.

Definition in_window (w : window) (id : N) : bool := (w_start w <? id) && (id <=? w_end w).

(* IdWindow::count *)
Definition win_count (w : window) : N := w_end w - w_start w.

(* IdWindow::encode *)
Definition encode (w : window) (id : N) : res N :=
  if in_window w id then Ok (id - w_start w - 1) else Err.

(* IdRebase::decode *)
Definition decode (r : rebase) (l : N) : res N :=
  if l <? r_count r then Ok (r_base r + l + 1) else Err.

(* analyzer fragment_codec::encode_sentinel / decode_sentinel: id 0 is the unresolved-reference
   sentinel, wire value 0 is reserved for it, real ids are shifted by one *)
Definition encode_sentinel (w : window) (id : N) : res N :=
  if id =? 0 then Ok 0 else rbind (encode w id) (fun v => Ok (v + 1)).

Definition decode_sentinel (r : rebase) (v : N) : res N :=
  if v =? 0 then Ok 0 else decode r (v - 1).

(* the rebase that restore() builds for a window captured earlier: same count, new base *)
Definition rebase_for (w : window) (base : N) : rebase := mkReb base (win_count w).

(* the id renaming realised by encode-then-decode *)
Definition shift (w : window) (base : N) (id : N) : N := base + (id - w_start w).

(* ---------------------------------------------------------------------------------------------
   Interning (resource_table::GlobalTable): a table is the list of interned values, the id of a
   value is its index; inserting an existing value returns its id. *)
Section Intern.
  Context {V : Type} (veq : V -> V -> bool).

  Fixpoint index_of (v : V) (tbl : list V) : option nat :=
    match tbl with
    | [] => None
    | x :: t => if veq x v then Some O else option_map S (index_of v t)
    end.

  Definition intern (tbl : list V) (v : V) : list V * nat :=
    match index_of v tbl with
    | Some i => (tbl, i)
    | None => (tbl ++ [v], length tbl)
    end.

  Fixpoint intern_all (tbl : list V) (vs : list V) : list V * list nat :=
    match vs with
    | [] => (tbl, [])
    | v :: t => let '(tbl1, i) := intern tbl v in
                let '(tbl2, is) := intern_all tbl1 t in (tbl2, i :: is)
    end.

  (* EncodeSession: str_map (id -> local, as an association list) and str_dict (first-use order) *)
  Record esess := mkES { es_map : list (nat * nat); es_dict : list V }.
  Definition es_empty : esess := mkES [] [].

  Fixpoint assoc (k : nat) (m : list (nat * nat)) : option nat :=
    match m with
    | [] => None
    | (a, b) :: t => if Nat.eqb a k then Some b else assoc k t
    end.

  (* EncodeSession::encode_str / encode_path against the live table [tbl] *)
  Definition encode_dict (tbl : list V) (s : esess) (id : nat) : esess * res nat :=
    match assoc id (es_map s) with
    | Some l => (s, Ok l)
    | None =>
        match nth_error tbl id with
        | None => (s, Err)
        | Some v => let l := length (es_dict s) in
                    (mkES ((id, l) :: es_map s) (es_dict s ++ [v]), Ok l)
        end
    end.

  Fixpoint encode_dict_all (tbl : list V) (s : esess) (ids : list nat) : esess * list (res nat) :=
    match ids with
    | [] => (s, [])
    | i :: t => let '(s1, r) := encode_dict tbl s i in
                let '(s2, rs) := encode_dict_all tbl s1 t in (s2, r :: rs)
    end.

  (* DecodeSession::new re-interns the dictionary into the live table, decode_str indexes it *)
  Definition decode_dict (strs : list nat) (l : nat) : res nat :=
    match nth_error strs l with Some i => Ok i | None => Err end.
End Intern.
