(* C24 — abstract analyzer with ids allocated in processing order (model; proofs in OrderProofs.v).
   Built on the Fragment model: a file's pass-1 contribution is a [delta] whose own ids are allocated
   sequentially from the counters; pass-1 contributions are id-closed (C06: they are exactly the
   cacheable ones; cross-file references are by NAME and are resolved in the post pass).
   crates/veryl/src/pipeline.rs::analyze processes `paths` in the given order. *)
From Coq Require Import NArith List Bool Permutation.
From VV Require Import Codec.IdCodec Codec.Fragment.
Import ListNotations.
Open Scope N_scope.

(* pass 1 over the files in processing order *)
Fixpoint analyze (l : list delta) (st : state) : state :=
  match l with
  | [] => st
  | d :: t => analyze t (pass1 d st)
  end.

Definition rename_state (r : kind -> N -> N) (st : state) : state :=
  mkState (s_ctr st) (map (ren_entry r) (s_keyed st)) (map (ren_pend r) (s_pending st)).

(* swapping two adjacent id blocks (b, b+s1] and (b+s1, b+s1+s2]: order-preserving inside each block *)
Definition swap_ren (b s1 s2 : ctrs) (k : kind) (n : N) : N :=
  if (cget b k <? n) && (n <=? cget b k + cget s1 k) then n + cget s2 k
  else if (cget b k + cget s1 k <? n) && (n <=? cget b k + cget s1 k + cget s2 k) then n - cget s1 k
  else n.

(* the renamings under which outputs must be invariant: finite compositions of adjacent block swaps
   = permutations of the files' id blocks that keep the order of ids inside every block *)
Inductive block_ren : (kind -> N -> N) -> Prop :=
| br_id : block_ren (fun _ n => n)
| br_swap b s1 s2 : block_ren (swap_ren b s1 s2)
| br_comp f g : block_ren f -> block_ren g -> block_ren (fun k n => g k (f k n)).

(* two states are the same up to a block renaming and the order in which table entries were inserted *)
Definition sim (r : kind -> N -> N) (st st' : state) : Prop :=
  s_ctr st = s_ctr st' /\
  Permutation (map (ren_entry r) (s_keyed st)) (s_keyed st') /\
  Permutation (map (ren_pend r) (s_pending st)) (s_pending st').

(* an output (emitted text, diagnostics ...) that does not look at id values or insertion order *)
Definition id_invariant {O : Type} (out : state -> O) : Prop :=
  forall r st st', block_ren r -> sim r st st' -> out st = out st'.

(* ---------------------------------------------------------------------------------------------
   name resolution where the first registered definition wins (symbol_table::insert refuses a second
   symbol of the same name in the same namespace; resolution finds the one that was inserted) *)
Record srcfile := mkSrc { f_id : N; f_defs : list N }.

Definition defines (f : srcfile) (x : N) : bool := existsb (N.eqb x) (f_defs f).

Fixpoint resolve (order : list srcfile) (x : N) : option N :=
  match order with
  | [] => None
  | f :: t => if defines f x then Some (f_id f) else resolve t x
  end.

(* no name is defined by two different files *)
Definition no_dup (l : list srcfile) : Prop :=
  forall f g x, In f l -> In g l -> defines f x = true -> defines g x = true -> f_id f = f_id g.

(* ---------------------------------------------------------------------------------------------
   Known finding (KNOWN_FINDINGS.txt, C24 key order:generic-instance-emission-order).
   The copies of a generic package / module are emitted in the order of `Symbol::generic_instances`,
   which is the order in which the using files registered the instances, i.e. it follows the
   processing order.  [uses] = per file (in processing order) the instances it mentions. *)
Fixpoint reg_order (uses : list (list N)) (seen : list N) : list N :=
  match uses with
  | [] => rev seen
  | f :: t => reg_order t (fold_left (fun acc x => if existsb (N.eqb x) acc then acc else x :: acc) f seen)
  end.
