(* L8 Codec — model of fragment capture / restore (crates/analyzer/src/fragment_cache.rs).

   The analyzer's global tables are abstracted to
     * four id counters (TokenId, TextId, SymbolId, DefinitionId),
     * keyed tables: entries (table tag, kind of the key id, key, body) — symbol table, literal
       table, namespace (token scope) table, definition table, text table, reference tables,
       attribute / unsafe ranges …: everything capture() selects by an id window or by file,
     * pending lists: append-only lists delimited by their length at the watermark — import / bind /
       msb / connect lists, reference / type-dag / generic-inference candidates.
   A body is the flat sequence of values serde visits; a value is either an id of one of the four
   counter kinds (every such field is serialised through the codec of its newtype) or anything else
   (ARaw: widths, line numbers, booleans, and StrId/PathId once replaced by the value they denote —
   justified by IdCodecProofs.dict_roundtrip).  SymbolId / DefinitionId use the sentinel codec.
   Definitions only; proofs in FragmentProofs.v. *)
From Coq Require Import NArith List Bool.
From VV Require Import Codec.IdCodec.
Import ListNotations.
Open Scope N_scope.

Inductive kind := KTok | KTxt | KSym | KDef.

Definition sentinel_kind (k : kind) : bool :=
  match k with KSym | KDef => true | _ => false end.

Record ctrs := mkC { c_tok : N; c_txt : N; c_sym : N; c_def : N }.

Definition cget (c : ctrs) (k : kind) : N :=
  match k with KTok => c_tok c | KTxt => c_txt c | KSym => c_sym c | KDef => c_def c end.

Definition cmap2 (f : N -> N -> N) (a b : ctrs) : ctrs :=
  mkC (f (c_tok a) (c_tok b)) (f (c_txt a) (c_txt b)) (f (c_sym a) (c_sym b)) (f (c_def a) (c_def b)).

Inductive atom := AId (k : kind) (n : N) | ARaw (n : N).

Record entry := mkEntry { e_tag : N; e_kind : kind; e_key : N; e_body : list atom }.
Record pend := mkPend { p_tag : N; p_body : list atom }.

Record state := mkState { s_ctr : ctrs; s_keyed : list entry; s_pending : list pend }.

(* FragmentWatermark: counter values and pending-list lengths before the file's parse + pass 1 *)
Record wmark := mkWm { wm_ctr : ctrs; wm_pending : nat }.

(* Fragment: counts of reserved ids + the id-normalised payload *)
Record fragment := mkFrag { f_counts : ctrs; f_keyed : list entry; f_pending : list pend }.

Definition watermark (st : state) : wmark := mkWm (s_ctr st) (length (s_pending st)).

(* the four IdWindows of capture(): (watermark counter, current counter] *)
Definition win (wm : wmark) (st : state) (k : kind) : window :=
  mkWin (cget (wm_ctr wm) k) (cget (s_ctr st) k).

Definition enc_id (w : kind -> window) (k : kind) (n : N) : res N :=
  if sentinel_kind k then encode_sentinel (w k) n else encode (w k) n.

Definition dec_id (r : kind -> rebase) (k : kind) (v : N) : res N :=
  if sentinel_kind k then decode_sentinel (r k) v else decode (r k) v.

Definition on_atom (f : kind -> N -> res N) (a : atom) : res atom :=
  match a with
  | AId k n => rbind (f k n) (fun v => Ok (AId k v))
  | ARaw n => Ok (ARaw n)
  end.

Definition on_entry (f : kind -> N -> res N) (e : entry) : res entry :=
  rbind (f (e_kind e) (e_key e)) (fun key =>
  rbind (mapM (on_atom f) (e_body e)) (fun body =>
  Ok (mkEntry (e_tag e) (e_kind e) key body))).

Definition on_pend (f : kind -> N -> res N) (p : pend) : res pend :=
  rbind (mapM (on_atom f) (p_body p)) (fun body => Ok (mkPend (p_tag p) body)).

(* an entry belongs to the file when its key was issued inside the file's window *)
Definition own (wm : wmark) (st : state) (e : entry) : bool :=
  in_window (win wm st (e_kind e)) (e_key e).

Definition added_keyed (wm : wmark) (st : state) : list entry := filter (own wm st) (s_keyed st).
Definition added_pending (wm : wmark) (st : state) : list pend := skipn (wm_pending wm) (s_pending st).

(* fragment_cache::capture *)
Definition capture (wm : wmark) (st : state) : res fragment :=
  rbind (mapM (on_entry (enc_id (win wm st))) (added_keyed wm st)) (fun ks =>
  rbind (mapM (on_pend (enc_id (win wm st))) (added_pending wm st)) (fun ps =>
  Ok (mkFrag (cmap2 N.sub (s_ctr st) (wm_ctr wm)) ks ps))).

(* the four IdRebases of restore(): freshly reserved ranges (counter, counter + count] *)
Definition reb (f : fragment) (st : state) (k : kind) : rebase :=
  mkReb (cget (s_ctr st) k) (cget (f_counts f) k).

(* fragment_cache::restore *)
Definition restore (f : fragment) (st : state) : res state :=
  rbind (mapM (on_entry (dec_id (reb f st))) (f_keyed f)) (fun ks =>
  rbind (mapM (on_pend (dec_id (reb f st))) (f_pending f)) (fun ps =>
  Ok (mkState (cmap2 N.add (s_ctr st) (f_counts f)) (s_keyed st ++ ks) (s_pending st ++ ps)))).

(* the id renaming between the capturing state and the restoring state: ids of the window are
   shifted by (base' - base), every other id (incl. the sentinel 0) is kept *)
Definition rho (wm : wmark) (st : state) (base' : ctrs) (k : kind) (n : N) : N :=
  if in_window (win wm st k) n then shift (win wm st k) (cget base' k) n else n.

Definition ren_atom (r : kind -> N -> N) (a : atom) : atom :=
  match a with AId k n => AId k (r k n) | ARaw n => ARaw n end.
Definition ren_entry (r : kind -> N -> N) (e : entry) : entry :=
  mkEntry (e_tag e) (e_kind e) (r (e_kind e) (e_key e)) (map (ren_atom r) (e_body e)).
Definition ren_pend (r : kind -> N -> N) (p : pend) : pend :=
  mkPend (p_tag p) (map (ren_atom r) (p_body p)).

(* closedness: every id of the captured sub-state is the sentinel or lies in the file's window *)
Definition id_ok (w : kind -> window) (k : kind) (n : N) : bool :=
  (sentinel_kind k && (n =? 0)) || in_window (w k) n.
Definition atom_ok (w : kind -> window) (a : atom) : bool :=
  match a with AId k n => id_ok w k n | ARaw _ => true end.
Definition ids_closed (wm : wmark) (st : state) : bool :=
  forallb (fun e => forallb (atom_ok (win wm st)) (e_body e)) (added_keyed wm st) &&
  forallb (fun p => forallb (atom_ok (win wm st)) (p_body p)) (added_pending wm st).

(* ---------------------------------------------------------------------------------------------
   pass 1 as the analyzer performs it: a file contributes a fixed set of additions whose own ids
   are allocated sequentially from the current counters (DRel k l = the (l+1)-th id of kind k the
   file allocates) and which may also mention ids that existed before (DAbs, e.g. a clock domain
   symbol of another file, or the sentinel 0). *)
Inductive datom := DRel (k : kind) (l : N) | DAbs (k : kind) (n : N) | DRaw (n : N).
Record dentry := mkDEntry { de_tag : N; de_kind : kind; de_key : N; de_body : list datom }.
Record dpend := mkDPend { dp_tag : N; dp_body : list datom }.
Record delta := mkDelta { d_counts : ctrs; d_keyed : list dentry; d_pending : list dpend }.

Definition inst_atom (base : ctrs) (a : datom) : atom :=
  match a with
  | DRel k l => AId k (cget base k + l + 1)
  | DAbs k n => AId k n
  | DRaw n => ARaw n
  end.
Definition inst_entry (base : ctrs) (e : dentry) : entry :=
  mkEntry (de_tag e) (de_kind e) (cget base (de_kind e) + de_key e + 1) (map (inst_atom base) (de_body e)).
Definition inst_pend (base : ctrs) (p : dpend) : pend :=
  mkPend (dp_tag p) (map (inst_atom base) (dp_body p)).

Definition pass1 (d : delta) (st : state) : state :=
  mkState (cmap2 N.add (s_ctr st) (d_counts d))
          (s_keyed st ++ map (inst_entry (s_ctr st)) (d_keyed d))
          (s_pending st ++ map (inst_pend (s_ctr st)) (d_pending d)).

(* the canonical (base-independent) fragment of a contribution *)
Definition wire_id (k : kind) (l : N) : N := if sentinel_kind k then l + 1 else l.
Definition frag_atom (a : datom) : atom :=
  match a with
  | DRel k l => AId k (wire_id k l)
  | DAbs k n => AId k n          (* only the sentinel survives capture: n = 0 *)
  | DRaw n => ARaw n
  end.
Definition frag_entry (e : dentry) : entry :=
  mkEntry (de_tag e) (de_kind e) (wire_id (de_kind e) (de_key e)) (map frag_atom (de_body e)).
Definition frag_pend (p : dpend) : pend := mkPend (dp_tag p) (map frag_atom (dp_body p)).
Definition frag_of (d : delta) : fragment :=
  mkFrag (d_counts d) (map frag_entry (d_keyed d)) (map frag_pend (d_pending d)).

Definition datom_wf (counts : ctrs) (a : datom) : bool :=
  match a with DRel k l => l <? cget counts k | _ => true end.
Definition delta_wf (d : delta) : bool :=
  forallb (fun e => (de_key e <? cget (d_counts d) (de_kind e)) && forallb (datom_wf (d_counts d)) (de_body e)) (d_keyed d) &&
  forallb (fun p => forallb (datom_wf (d_counts d)) (dp_body p)) (d_pending d).

Definition datom_closed (a : datom) : bool :=
  match a with DAbs k n => sentinel_kind k && (n =? 0) | _ => true end.
Definition delta_closed (d : delta) : bool :=
  forallb (fun e => forallb datom_closed (de_body e)) (d_keyed d) &&
  forallb (fun p => forallb datom_closed (dp_body p)) (d_pending d).

(* ids mentioned absolutely exist already *)
Definition datom_abs_ok (base : ctrs) (a : datom) : bool :=
  match a with DAbs k n => n <=? cget base k | _ => true end.
Definition delta_abs_ok (base : ctrs) (d : delta) : bool :=
  forallb (fun e => forallb (datom_abs_ok base) (de_body e)) (d_keyed d) &&
  forallb (fun p => forallb (datom_abs_ok base) (dp_body p)) (d_pending d).

(* state invariant: keys were issued by the counters *)
Definition state_wf (st : state) : bool :=
  forallb (fun e => (0 <? e_key e) && (e_key e <=? cget (s_ctr st) (e_kind e))) (s_keyed st).

(* example states used by the non-vacuity Examples of Props/C06.v *)
Definition ex_st0 : state :=
  mkState (mkC 10 1 4 1) [mkEntry 0 KSym 3 [AId KTok 7; ARaw 5]] [mkPend 1 [AId KSym 2]].
Definition ex_delta : delta :=
  mkDelta (mkC 5 1 2 1)
          [mkDEntry 0 KSym 0 [DRel KTok 0; DRel KSym 1; DAbs KSym 0; DRaw 32];
           mkDEntry 0 KSym 1 [DRel KTok 4; DRel KDef 0; DRel KTxt 0];
           mkDEntry 1 KTok 2 [DRaw 7]]
          [mkDPend 2 [DRel KTok 3; DRel KSym 0]].
Definition ex_delta_foreign : delta :=
  mkDelta (mkC 5 1 2 1) [mkDEntry 0 KSym 0 [DAbs KSym 3]] [].


(* ---------------------------------------------------------------------------------------------
   Known finding (KNOWN_FINDINGS.txt, C06 key restore:loop-variable-type-token).
   `Token::default()` is `Token::generate(StrId::default(), PathId::default())`, i.e. a token whose
   text / path ids are 0 = whatever string / path THIS PROCESS interned first.  Pass 1 stores such a
   placeholder in the implicit i32 type of a `for` loop variable
   (crates/analyzer/src/handlers/create_symbol_table.rs, for_statement).  The dictionary codec
   faithfully transports the VALUES those ids denote in the capturing process (dict_roundtrip), so the
   restored placeholder denotes the capturing process's first-interned values, whereas a fresh
   analysis yields the restoring process's.  A raw value that depends on the process is outside the
   [delta] model above (there ARaw values are fixed by the file). *)
Record process := mkProc { first_str : N; first_path : N }.
Definition fresh_placeholder (p : process) : N * N := (first_str p, first_path p).
Definition restored_placeholder (capturing restoring : process) : N * N := fresh_placeholder capturing.
