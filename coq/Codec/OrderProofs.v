(* Proofs for the processing-order model (Order.v). *)
From Coq Require Import NArith List Bool Lia Permutation.
From VV Require Import Codec.IdCodec Codec.IdCodecProofs Codec.Fragment Codec.FragmentProofs Codec.Order.
Import ListNotations.
Open Scope N_scope.

(* a renaming that leaves alone every id <= lo and every id > hi *)
Definition fixes_outside (r : kind -> N -> N) (lo hi : ctrs) : Prop :=
  forall k n, n <= cget lo k \/ cget hi k < n -> r k n = n.

Lemma swap_ren_fixes b s1 s2 :
  fixes_outside (swap_ren b s1 s2) b (cmap2 N.add (cmap2 N.add b s1) s2).
Proof.
  intros k n H. unfold swap_ren. rewrite !cget_add in H.
  destruct ((cget b k <? n) && (n <=? cget b k + cget s1 k)) eqn:E1.
  { apply andb_true_iff in E1 as [A B]. apply N.ltb_lt in A. apply N.leb_le in B. lia. }
  destruct ((cget b k + cget s1 k <? n) && (n <=? cget b k + cget s1 k + cget s2 k)) eqn:E2.
  { apply andb_true_iff in E2 as [A B]. apply N.ltb_lt in A. apply N.leb_le in B. lia. }
  reflexivity.
Qed.

(* instantiated contributions only mention ids above the base (or the sentinel) *)
Definition atom_above (base : ctrs) (a : atom) : Prop :=
  match a with AId k n => n = 0 \/ cget base k < n | ARaw _ => True end.

Lemma inst_atom_above base a : datom_closed a = true -> atom_above base (inst_atom base a).
Proof.
  destruct a as [k l|k n|n]; simpl; intros H; auto.
  - right. lia.
  - apply andb_true_iff in H as [_ H]. apply N.eqb_eq in H. now left.
Qed.

Lemma ren_atom_fixed r lo hi base a :
  fixes_outside r lo hi -> (forall k, cget hi k <= cget base k) ->
  atom_above base a -> ren_atom r a = a.
Proof.
  intros F Hb H. destruct a as [k n|n]; simpl; [|reflexivity]. f_equal. apply F.
  destruct H as [->|H]; [left; lia|]. right. specialize (Hb k). lia.
Qed.

Lemma map_id_on {A} (f : A -> A) l : (forall x, In x l -> f x = x) -> map f l = l.
Proof.
  induction l as [|x t IH]; simpl; intros H; [reflexivity|]. rewrite H by now left. f_equal. apply IH.
  intros y Hy. apply H. now right.
Qed.

Lemma ren_inst_entry r lo hi base e :
  fixes_outside r lo hi -> (forall k, cget hi k <= cget base k) ->
  forallb datom_closed (de_body e) = true ->
  ren_entry r (inst_entry base e) = inst_entry base e.
Proof.
  intros F Hb Hc. unfold ren_entry, inst_entry. simpl. f_equal.
  - apply F. right. specialize (Hb (de_kind e)). lia.
  - apply map_id_on. intros a Ha. apply in_map_iff in Ha as [da [<- Hda]].
    eapply ren_atom_fixed; eauto. apply inst_atom_above. rewrite forallb_forall in Hc. auto.
Qed.

Lemma ren_inst_pend r lo hi base p :
  fixes_outside r lo hi -> (forall k, cget hi k <= cget base k) ->
  forallb datom_closed (dp_body p) = true ->
  ren_pend r (inst_pend base p) = inst_pend base p.
Proof.
  intros F Hb Hc. unfold ren_pend, inst_pend. simpl. f_equal.
  apply map_id_on. intros a Ha. apply in_map_iff in Ha as [da [<- Hda]].
  eapply ren_atom_fixed; eauto. apply inst_atom_above. rewrite forallb_forall in Hc. auto.
Qed.

(* processing one more (closed) file keeps two simulated states simulated, by the same renaming *)
Lemma sim_pass1 r lo d st st' :
  fixes_outside r lo (s_ctr st) -> delta_closed d = true ->
  sim r st st' -> sim r (pass1 d st) (pass1 d st').
Proof.
  intros F Hc [Hctr [HK HP]]. unfold delta_closed in Hc. apply andb_true_iff in Hc as [HcK HcP].
  rewrite forallb_forall in HcK, HcP.
  unfold sim, pass1. simpl. rewrite <- Hctr. split; [reflexivity|]. split.
  - rewrite map_app. apply Permutation_app; [assumption|].
    rewrite map_map. erewrite map_ext_in; [apply Permutation_refl|].
    intros e He. eapply ren_inst_entry; eauto. intros k. lia.
  - rewrite map_app. apply Permutation_app; [assumption|].
    rewrite map_map. erewrite map_ext_in; [apply Permutation_refl|].
    intros p Hp. eapply ren_inst_pend; eauto. intros k. lia.
Qed.

Definition all_closed (l : list delta) : Prop := Forall (fun d => delta_closed d = true) l.

Lemma ctr_pass1 d st k : cget (s_ctr (pass1 d st)) k = cget (s_ctr st) k + cget (d_counts d) k.
Proof. unfold pass1. simpl. apply cget_add. Qed.

Lemma fixes_weaken r lo hi hi' :
  fixes_outside r lo hi -> (forall k, cget hi k <= cget hi' k) -> fixes_outside r lo hi'.
Proof. intros F H k n [A|B]; apply F; [now left|right; specialize (H k); lia]. Qed.

Lemma sim_analyze r lo l : forall st st',
  all_closed l -> fixes_outside r lo (s_ctr st) -> sim r st st' -> sim r (analyze l st) (analyze l st').
Proof.
  induction l as [|d t IH]; intros st st' Hc F S; simpl; [assumption|].
  inversion Hc as [|? ? Hd Ht]; subst. apply IH; [assumption| |].
  - eapply fixes_weaken; [exact F|]. intros k. rewrite ctr_pass1. lia.
  - eapply sim_pass1; eauto.
Qed.

Lemma sim_refl_id st : sim (fun _ n => n) st st.
Proof.
  assert (forall a, ren_atom (fun _ n => n) a = a) as HA by (intros [k n|n]; reflexivity).
  assert (forall l, map (ren_atom (fun _ n => n)) l = l) as HL by (intros l; apply map_id_on; auto).
  split; [reflexivity|]. split.
  - rewrite map_id_on; [apply Permutation_refl|]. intros [t k key b] _. unfold ren_entry. simpl. now rewrite HL.
  - rewrite map_id_on; [apply Permutation_refl|]. intros [t b] _. unfold ren_pend. simpl. now rewrite HL.
Qed.

Lemma ren_comp_entry f g e : ren_entry g (ren_entry f e) = ren_entry (fun k n => g k (f k n)) e.
Proof.
  unfold ren_entry. simpl. f_equal. rewrite map_map. apply map_ext. intros [k n|n]; reflexivity.
Qed.
Lemma ren_comp_pend f g p : ren_pend g (ren_pend f p) = ren_pend (fun k n => g k (f k n)) p.
Proof.
  unfold ren_pend. simpl. f_equal. rewrite map_map. apply map_ext. intros [k n|n]; reflexivity.
Qed.

Lemma sim_trans f g a b c : sim f a b -> sim g b c -> sim (fun k n => g k (f k n)) a c.
Proof.
  intros [C1 [K1 P1]] [C2 [K2 P2]]. split; [congruence|]. split.
  - eapply perm_trans; [|exact K2]. rewrite <- (map_ext _ _ (ren_comp_entry f g)), <- map_map.
    now apply Permutation_map.
  - eapply perm_trans; [|exact P2]. rewrite <- (map_ext _ _ (ren_comp_pend f g)), <- map_map.
    now apply Permutation_map.
Qed.

(* swapping two adjacent closed files = the adjacent block swap renaming *)
Lemma swap_ren_inst_atom b s1 s2 a :
  datom_wf s1 a = true -> datom_closed a = true ->
  ren_atom (swap_ren b s1 s2) (inst_atom b a) = inst_atom (cmap2 N.add b s2) a.
Proof.
  destruct a as [k l|k n|n]; simpl; intros Hw Hc; [| |reflexivity].
  - apply N.ltb_lt in Hw. f_equal. unfold swap_ren. rewrite cget_add.
    assert ((cget b k <? cget b k + l + 1) && (cget b k + l + 1 <=? cget b k + cget s1 k) = true) as ->.
    { rewrite andb_true_iff, N.ltb_lt, N.leb_le. lia. }
    lia.
  - apply andb_true_iff in Hc as [_ H]. apply N.eqb_eq in H. subst. f_equal.
    apply (swap_ren_fixes b s1 s2). left. lia.
Qed.

Lemma swap_ren_inst_atom2 b s1 s2 a :
  datom_wf s2 a = true -> datom_closed a = true ->
  ren_atom (swap_ren b s1 s2) (inst_atom (cmap2 N.add b s1) a) = inst_atom b a.
Proof.
  destruct a as [k l|k n|n]; simpl; intros Hw Hc; [| |reflexivity].
  - apply N.ltb_lt in Hw. f_equal. unfold swap_ren. rewrite cget_add.
    assert ((cget b k <? cget b k + cget s1 k + l + 1) && (cget b k + cget s1 k + l + 1 <=? cget b k + cget s1 k) = false) as ->.
    { rewrite andb_false_iff, N.ltb_ge, N.leb_gt. lia. }
    assert ((cget b k + cget s1 k <? cget b k + cget s1 k + l + 1) &&
            (cget b k + cget s1 k + l + 1 <=? cget b k + cget s1 k + cget s2 k) = true) as ->.
    { rewrite andb_true_iff, N.ltb_lt, N.leb_le. lia. }
    lia.
  - apply andb_true_iff in Hc as [_ H]. apply N.eqb_eq in H. subst. f_equal.
    apply (swap_ren_fixes b s1 s2). left. lia.
Qed.

Definition all_wf (l : list delta) : Prop := Forall (fun d => delta_wf d = true) l.

Lemma sim_swap x y st :
  delta_wf x = true -> delta_wf y = true -> delta_closed x = true -> delta_closed y = true ->
  (* existing entries only mention ids issued so far *)
  (forall e, In e (s_keyed st) -> ren_entry (swap_ren (s_ctr st) (d_counts x) (d_counts y)) e = e) ->
  (forall p, In p (s_pending st) -> ren_pend (swap_ren (s_ctr st) (d_counts x) (d_counts y)) p = p) ->
  sim (swap_ren (s_ctr st) (d_counts x) (d_counts y)) (pass1 y (pass1 x st)) (pass1 x (pass1 y st)).
Proof.
  intros Wx Wy Cx Cy HKold HPold.
  set (b := s_ctr st). set (r := swap_ren b (d_counts x) (d_counts y)).
  unfold delta_wf in Wx, Wy. apply andb_true_iff in Wx as [WxK WxP]. apply andb_true_iff in Wy as [WyK WyP].
  unfold delta_closed in Cx, Cy. apply andb_true_iff in Cx as [CxK CxP]. apply andb_true_iff in Cy as [CyK CyP].
  rewrite forallb_forall in WxK, WxP, WyK, WyP, CxK, CxP, CyK, CyP.
  assert (forall e, In e (d_keyed x) -> ren_entry r (inst_entry b e) = inst_entry (cmap2 N.add b (d_counts y)) e) as EX.
  { intros e He. specialize (WxK e He). apply andb_true_iff in WxK as [Hk Hb]. rewrite forallb_forall in Hb.
    specialize (CxK e He). rewrite forallb_forall in CxK.
    unfold ren_entry, inst_entry. simpl. f_equal.
    - pose proof (swap_ren_inst_atom b (d_counts x) (d_counts y) (DRel (de_kind e) (de_key e)) Hk eq_refl) as H.
      simpl in H. now injection H.
    - rewrite map_map. apply map_ext_in. intros a Ha. apply swap_ren_inst_atom; auto. }
  assert (forall e, In e (d_keyed y) -> ren_entry r (inst_entry (cmap2 N.add b (d_counts x)) e) = inst_entry b e) as EY.
  { intros e He. specialize (WyK e He). apply andb_true_iff in WyK as [Hk Hb]. rewrite forallb_forall in Hb.
    specialize (CyK e He). rewrite forallb_forall in CyK.
    unfold ren_entry, inst_entry. simpl. f_equal.
    - pose proof (swap_ren_inst_atom2 b (d_counts x) (d_counts y) (DRel (de_kind e) (de_key e)) Hk eq_refl) as H.
      simpl in H. now injection H.
    - rewrite map_map. apply map_ext_in. intros a Ha. apply swap_ren_inst_atom2; auto. }
  assert (forall p, In p (d_pending x) -> ren_pend r (inst_pend b p) = inst_pend (cmap2 N.add b (d_counts y)) p) as PX.
  { intros p Hp. specialize (WxP p Hp). rewrite forallb_forall in WxP. specialize (CxP p Hp). rewrite forallb_forall in CxP.
    unfold ren_pend, inst_pend. simpl. f_equal. rewrite map_map. apply map_ext_in. intros a Ha.
    apply swap_ren_inst_atom; auto. }
  assert (forall p, In p (d_pending y) -> ren_pend r (inst_pend (cmap2 N.add b (d_counts x)) p) = inst_pend b p) as PY.
  { intros p Hp. specialize (WyP p Hp). rewrite forallb_forall in WyP. specialize (CyP p Hp). rewrite forallb_forall in CyP.
    unfold ren_pend, inst_pend. simpl. f_equal. rewrite map_map. apply map_ext_in. intros a Ha.
    apply swap_ren_inst_atom2; auto. }
  unfold sim, pass1. simpl. fold b. split; [|split].
  - destruct b, (d_counts x), (d_counts y). unfold cmap2. simpl. f_equal; lia.
  - rewrite !map_app, !map_map. rewrite (map_id_on _ (s_keyed st)) by (intros e He; apply HKold; exact He).
    rewrite <- !app_assoc. apply Permutation_app_head.
    rewrite (map_ext_in _ _ _ EX), (map_ext_in _ _ _ EY). apply Permutation_app_comm.
  - rewrite !map_app, !map_map. rewrite (map_id_on _ (s_pending st)) by (intros p Hp; apply HPold; exact Hp).
    rewrite <- !app_assoc. apply Permutation_app_head.
    rewrite (map_ext_in _ _ _ PX), (map_ext_in _ _ _ PY). apply Permutation_app_comm.
Qed.

(* all ids of a state were issued by its counters *)
Definition atom_issued (c : ctrs) (a : atom) : Prop :=
  match a with AId k n => n <= cget c k | ARaw _ => True end.
Definition state_issued (st : state) : Prop :=
  (forall e, In e (s_keyed st) -> e_key e <= cget (s_ctr st) (e_kind e) /\ Forall (atom_issued (s_ctr st)) (e_body e)) /\
  (forall p, In p (s_pending st) -> Forall (atom_issued (s_ctr st)) (p_body p)).

Lemma ren_fixed_issued r lo hi c l :
  fixes_outside r lo hi -> (forall k, cget c k <= cget lo k) ->
  Forall (atom_issued c) l -> map (ren_atom r) l = l.
Proof.
  intros F Hc H. apply map_id_on. intros a Ha. rewrite Forall_forall in H. specialize (H a Ha).
  destruct a as [k n|n]; simpl in *; [|reflexivity]. f_equal. apply F. left. specialize (Hc k). lia.
Qed.

Lemma issued_mono c c' a : (forall k, cget c k <= cget c' k) -> atom_issued c a -> atom_issued c' a.
Proof. destruct a as [k n|n]; simpl; auto. intros H ?. specialize (H k). lia. Qed.

Lemma inst_atom_issued base counts a :
  datom_wf counts a = true -> datom_closed a = true -> atom_issued (cmap2 N.add base counts) (inst_atom base a).
Proof.
  destruct a as [k l|k n|n]; simpl; intros Hw Hc; auto.
  - apply N.ltb_lt in Hw. rewrite cget_add. lia.
  - apply andb_true_iff in Hc as [_ H]. apply N.eqb_eq in H. subst. lia.
Qed.

Lemma state_issued_pass1 d st :
  delta_wf d = true -> delta_closed d = true -> state_issued st -> state_issued (pass1 d st).
Proof.
  intros Wd Cd [HK HP].
  unfold delta_wf in Wd. apply andb_true_iff in Wd as [WK WP].
  unfold delta_closed in Cd. apply andb_true_iff in Cd as [CK CP].
  rewrite forallb_forall in WK, WP, CK, CP.
  assert (forall k, cget (s_ctr st) k <= cget (s_ctr (pass1 d st)) k) as Hm by (intros k; rewrite ctr_pass1; lia).
  split.
  - intros e He. unfold pass1 in He. simpl in He. apply in_app_or in He as [He|He].
    + destruct (HK e He) as [A B]. split; [specialize (Hm (e_kind e)); lia|].
      eapply Forall_impl; [|exact B]. intros a. now apply issued_mono.
    + apply in_map_iff in He as [de [<- Hde]]. specialize (WK de Hde). apply andb_true_iff in WK as [Hk Hb].
      apply N.ltb_lt in Hk. rewrite forallb_forall in Hb. specialize (CK de Hde). rewrite forallb_forall in CK.
      split; [rewrite ctr_pass1; simpl; lia|]. simpl. apply Forall_forall. intros a Ha.
      apply in_map_iff in Ha as [da [<- Hda]]. unfold pass1. simpl. apply inst_atom_issued; auto.
  - intros p Hp. unfold pass1 in Hp. simpl in Hp. apply in_app_or in Hp as [Hp|Hp].
    + eapply Forall_impl; [|exact (HP p Hp)]. intros a. now apply issued_mono.
    + apply in_map_iff in Hp as [dp [<- Hdp]]. specialize (WP dp Hdp). rewrite forallb_forall in WP.
      specialize (CP dp Hdp). rewrite forallb_forall in CP. simpl. apply Forall_forall. intros a Ha.
      apply in_map_iff in Ha as [da [<- Hda]]. unfold pass1. simpl. apply inst_atom_issued; auto.
Qed.

Lemma analyze_ctr_mono l : forall st k, cget (s_ctr st) k <= cget (s_ctr (analyze l st)) k.
Proof.
  induction l as [|d t IH]; intros st k; simpl; [lia|]. specialize (IH (pass1 d st) k). rewrite ctr_pass1 in IH. lia.
Qed.

(* Main structural lemma: two processing orders of the same closed files give states related by a
   block renaming (that moves no id issued before) and a permutation of the table entries. *)
Lemma analyze_perm l1 l2 :
  Permutation l1 l2 -> all_wf l1 -> all_closed l1 ->
  forall st, state_issued st ->
  exists r, block_ren r /\ fixes_outside r (s_ctr st) (s_ctr (analyze l1 st)) /\
            sim r (analyze l1 st) (analyze l2 st).
Proof.
  induction 1 as [|x l l' HP IH|x y l|l l' l'' H1 IH1 H2 IH2]; intros Hw Hc st Hst.
  - exists (fun _ n => n). split; [constructor|]. split; [intros k n _; reflexivity|apply sim_refl_id].
  - inversion Hw; inversion Hc; subst. simpl.
    destruct (IH ltac:(assumption) ltac:(assumption) (pass1 x st)) as [r [B [F S]]].
    { now apply state_issued_pass1. }
    exists r. split; [assumption|]. split; [|assumption].
    intros k n [A|A]; apply F; [left; rewrite ctr_pass1; lia|now right].
  - inversion Hw as [|? ? Wy Hw']; inversion Hw' as [|? ? Wx Hw'']; subst.
    inversion Hc as [|? ? Cy Hc']; inversion Hc' as [|? ? Cx Hc'']; subst. simpl.
    set (r := swap_ren (s_ctr st) (d_counts y) (d_counts x)).
    assert (fixes_outside r (s_ctr st) (s_ctr (pass1 x (pass1 y st)))) as F.
    { pose proof (swap_ren_fixes (s_ctr st) (d_counts y) (d_counts x)) as F0. intros k n H.
      apply F0. rewrite !cget_add. rewrite !ctr_pass1 in H. lia. }
    exists r. split; [constructor|]. split.
    + eapply fixes_weaken; [exact F|]. intros k. apply analyze_ctr_mono.
    + apply (sim_analyze r (s_ctr st)); [assumption|exact F|].
      destruct Hst as [HK HPd].
      apply sim_swap; auto.
      * intros e He. destruct (HK e He) as [A Bd]. unfold ren_entry. destruct e as [t k key body]. simpl in *. f_equal.
        -- apply (swap_ren_fixes (s_ctr st) (d_counts y) (d_counts x)). now left.
        -- eapply ren_fixed_issued; [apply swap_ren_fixes| |exact Bd]. intros k0. lia.
      * intros p Hp. unfold ren_pend. destruct p as [t body]. simpl. f_equal.
        eapply ren_fixed_issued; [apply swap_ren_fixes| |exact (HPd _ Hp)]. intros k0. lia.
  - assert (all_wf l') as Hw' by (unfold all_wf in *; rewrite Forall_forall in *; intros d Hd; apply Hw; eapply Permutation_in; [apply Permutation_sym; exact H1|exact Hd]).
    assert (all_closed l') as Hc' by (unfold all_closed in *; rewrite Forall_forall in *; intros d Hd; apply Hc; eapply Permutation_in; [apply Permutation_sym; exact H1|exact Hd]).
    destruct (IH1 Hw Hc st Hst) as [f [Bf [Ff Sf]]].
    destruct (IH2 Hw' Hc' st Hst) as [g [Bg [Fg Sg]]].
    exists (fun k n => g k (f k n)). split; [now constructor|]. split; [|eapply sim_trans; eauto].
    assert (s_ctr (analyze l st) = s_ctr (analyze l' st)) as E by (destruct Sf as [E _]; exact E).
    intros k n Hn. rewrite (Ff k n Hn). apply Fg. now rewrite <- E.
Qed.

(* C24: an output that does not depend on id values (up to block renamings) nor on the insertion
   order of table entries is the same for every processing order *)
Theorem id_renaming_invariance {O : Type} (out : state -> O) l1 l2 st :
  id_invariant out -> Permutation l1 l2 -> all_wf l1 -> all_closed l1 -> state_issued st ->
  out (analyze l1 st) = out (analyze l2 st).
Proof.
  intros Hinv HP Hw Hc Hst. destruct (analyze_perm l1 l2 HP Hw Hc st Hst) as [r [B [_ S]]].
  exact (Hinv r _ _ B S).
Qed.

(* ------------------------------------------------------------------------------------------- *)
(* first definition wins *)
Lemma resolve_some order x i :
  resolve order x = Some i -> exists f, In f order /\ defines f x = true /\ f_id f = i.
Proof.
  induction order as [|f t IH]; simpl; [discriminate|].
  destruct (defines f x) eqn:E.
  - intros [= <-]. exists f. auto.
  - intros H. destruct (IH H) as [g [A [B C]]]. exists g. auto.
Qed.

Lemma resolve_none order x : resolve order x = None -> forall f, In f order -> defines f x = false.
Proof.
  induction order as [|f t IH]; simpl; [intros _ g []|].
  destruct (defines f x) eqn:E; [discriminate|]. intros H g [<-|Hg]; auto.
Qed.

Lemma resolve_defined order x f : In f order -> defines f x = true -> resolve order x <> None.
Proof. intros Hf Hd Hn. rewrite (resolve_none order x Hn f Hf) in Hd. discriminate. Qed.

(* without duplicate definitions resolution does not depend on the processing order *)
Theorem no_dup_resolve_order_independent l1 l2 x :
  Permutation l1 l2 -> no_dup l1 -> resolve l1 x = resolve l2 x.
Proof.
  intros HP Hn. destruct (resolve l1 x) as [i|] eqn:E1; destruct (resolve l2 x) as [j|] eqn:E2; auto.
  - destruct (resolve_some _ _ _ E1) as [f [Af [Bf Cf]]]. destruct (resolve_some _ _ _ E2) as [g [Ag [Bg Cg]]].
    apply (Permutation_in _ (Permutation_sym HP)) in Ag. rewrite <- Cf, <- Cg. f_equal. eapply Hn; eauto.
  - destruct (resolve_some _ _ _ E1) as [f [Af [Bf _]]]. apply (Permutation_in _ HP) in Af.
    exfalso. eapply resolve_defined; eauto.
  - destruct (resolve_some _ _ _ E2) as [g [Ag [Bg _]]]. apply (Permutation_in _ (Permutation_sym HP)) in Ag.
    exfalso. eapply resolve_defined; eauto.
Qed.

(* ... and it does depend on the order exactly when two different files define the name *)
Theorem first_definition_wins_order_dependent_iff l x :
  (exists l', Permutation l l' /\ resolve l x <> resolve l' x) <->
  (exists f g, In f l /\ In g l /\ defines f x = true /\ defines g x = true /\ f_id f <> f_id g).
Proof.
  split.
  - intros [l' [HP Hne]].
    destruct (resolve l x) as [i|] eqn:E1; destruct (resolve l' x) as [j|] eqn:E2.
    + destruct (resolve_some _ _ _ E1) as [f [Af [Bf Cf]]]. destruct (resolve_some _ _ _ E2) as [g [Ag [Bg Cg]]].
      apply (Permutation_in _ (Permutation_sym HP)) in Ag. exists f, g. repeat split; auto. congruence.
    + destruct (resolve_some _ _ _ E1) as [f [Af [Bf _]]]. apply (Permutation_in _ HP) in Af.
      exfalso. eapply resolve_defined; eauto.
    + destruct (resolve_some _ _ _ E2) as [g [Ag [Bg _]]]. apply (Permutation_in _ (Permutation_sym HP)) in Ag.
      exfalso. eapply resolve_defined; eauto.
    + congruence.
  - intros [f [g [Af [Ag [Bf [Bg Hne]]]]]].
    (* move f to the front in one order and g to the front in the other *)
    destruct (in_split _ _ Af) as [a1 [a2 Ea]]. destruct (in_split _ _ Ag) as [b1 [b2 Eb]].
    assert (Permutation l (f :: a1 ++ a2)) as P1 by (rewrite Ea; apply Permutation_sym, Permutation_middle).
    assert (Permutation l (g :: b1 ++ b2)) as P2 by (rewrite Eb; apply Permutation_sym, Permutation_middle).
    assert (resolve (f :: a1 ++ a2) x = Some (f_id f)) as R1 by (simpl; now rewrite Bf).
    assert (resolve (g :: b1 ++ b2) x = Some (f_id g)) as R2 by (simpl; now rewrite Bg).
    destruct (resolve l x) as [i|] eqn:E.
    + destruct (N.eq_dec i (f_id f)) as [->|Hd].
      * exists (g :: b1 ++ b2). split; [assumption|]. rewrite R2. congruence.
      * exists (f :: a1 ++ a2). split; [assumption|]. rewrite R1. congruence.
    + exists (f :: a1 ++ a2). split; [assumption|]. rewrite R1. discriminate.
Qed.

(* the known finding: the registration order of generic instances is not order independent *)
Theorem generic_instance_emission_order_refuted :
  exists u1 u2, Permutation u1 u2 /\ reg_order u1 [] <> reg_order u2 [].
Proof.
  exists [[4]; [8]], [[8]; [4]]. split; [apply perm_swap|]. vm_compute. discriminate.
Qed.
