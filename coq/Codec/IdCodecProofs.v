(* Proofs about the id codec model (IdCodec.v). *)
From Coq Require Import NArith List Bool Lia Arith.
From VV Require Import Codec.IdCodec.
Import ListNotations.
Open Scope N_scope.

Lemma in_window_spec w id : in_window w id = true <-> w_start w < id <= w_end w.
Proof.
  unfold in_window. rewrite andb_true_iff, N.ltb_lt, N.leb_le. tauto.
Qed.

Lemma in_window_false w id : in_window w id = false <-> ~ (w_start w < id <= w_end w).
Proof.
  rewrite <- in_window_spec. destruct (in_window w id); split; intros H; congruence.
Qed.

(* encode then decode at another base: the window is mapped onto the reserved range by a shift *)
Lemma codec_roundtrip w base id :
  w_start w < id <= w_end w ->
  rbind (encode w id) (decode (rebase_for w base)) = Ok (base + (id - w_start w)).
Proof.
  intros H. unfold encode. apply in_window_spec in H as Hw. rewrite Hw. simpl.
  unfold decode, rebase_for, win_count. simpl.
  assert (id - w_start w - 1 <? w_end w - w_start w = true) as -> by (apply N.ltb_lt; lia).
  f_equal. lia.
Qed.

Lemma encode_refuses_outside w id :
  ~ (w_start w < id <= w_end w) -> encode w id = Err.
Proof.
  intros H. unfold encode. apply in_window_false in H. now rewrite H.
Qed.

Lemma encode_ok_iff w id : (exists v, encode w id = Ok v) <-> w_start w < id <= w_end w.
Proof.
  split.
  - intros [v H]. unfold encode in H. destruct (in_window w id) eqn:E; [|discriminate].
    now apply in_window_spec.
  - intros H. apply in_window_spec in H. unfold encode. rewrite H. eauto.
Qed.

Lemma encode_range w id v : encode w id = Ok v -> v < win_count w.
Proof.
  unfold encode. destruct (in_window w id) eqn:E; [|discriminate].
  apply in_window_spec in E. intros [= <-]. unfold win_count. lia.
Qed.

Lemma decode_refuses_outside r l : r_count r <= l -> decode r l = Err.
Proof.
  intros H. unfold decode. assert (l <? r_count r = false) as -> by (apply N.ltb_ge; lia). reflexivity.
Qed.

Lemma decode_range r l v : decode r l = Ok v -> r_base r < v <= r_base r + r_count r.
Proof.
  unfold decode. destruct (l <? r_count r) eqn:E; [|discriminate].
  apply N.ltb_lt in E. intros [= <-]. lia.
Qed.

(* the shift is an order-preserving bijection of the window onto the reserved range *)
Lemma shift_range w base id :
  w_start w < id <= w_end w -> base < shift w base id <= base + win_count w.
Proof. unfold shift, win_count. lia. Qed.

Lemma shift_monotone w base a b :
  w_start w < a -> w_start w < b -> (a < b <-> shift w base a < shift w base b).
Proof. unfold shift. lia. Qed.

Lemma shift_injective w base a b :
  w_start w < a -> w_start w < b -> shift w base a = shift w base b -> a = b.
Proof. unfold shift. lia. Qed.

Lemma shift_surjective w base t :
  w_start w <= w_end w -> base < t <= base + win_count w ->
  exists id, w_start w < id <= w_end w /\ shift w base id = t.
Proof.
  unfold shift, win_count. intros Hw H. exists (w_start w + (t - base)). lia.
Qed.

Lemma codec_bijection w base :
  (forall id, w_start w < id <= w_end w -> base < shift w base id <= base + win_count w) /\
  (forall a b, w_start w < a -> w_start w < b -> (a < b <-> shift w base a < shift w base b)) /\
  (forall t, w_start w <= w_end w -> base < t <= base + win_count w ->
             exists id, w_start w < id <= w_end w /\ shift w base id = t).
Proof.
  split; [|split].
  - exact (shift_range w base).
  - exact (shift_monotone w base).
  - exact (shift_surjective w base).
Qed.

(* decode then encode: the inverse direction (a fragment restored at [base] and captured again
   with the window (base, base+count] has the same wire ids) *)
Lemma codec_roundtrip_inverse r l :
  l < r_count r ->
  rbind (decode r l) (encode (mkWin (r_base r) (r_base r + r_count r))) = Ok l.
Proof.
  intros H. unfold decode. assert (l <? r_count r = true) as -> by now apply N.ltb_lt.
  simpl. unfold encode, in_window. simpl.
  assert ((r_base r <? r_base r + l + 1) && (r_base r + l + 1 <=? r_base r + r_count r) = true) as ->.
  { rewrite andb_true_iff, N.ltb_lt, N.leb_le. lia. }
  f_equal. lia.
Qed.

(* sentinel variants *)
Lemma sentinel_zero_roundtrip w r :
  encode_sentinel w 0 = Ok 0 /\ decode_sentinel r 0 = Ok 0.
Proof. split; reflexivity. Qed.

Lemma sentinel_roundtrip w base id :
  id = 0 \/ w_start w < id <= w_end w ->
  rbind (encode_sentinel w id) (decode_sentinel (rebase_for w base)) =
  Ok (if id =? 0 then 0 else base + (id - w_start w)).
Proof.
  intros [->|H]; [reflexivity|].
  unfold encode_sentinel. assert (id =? 0 = false) as -> by (apply N.eqb_neq; lia).
  pose proof (codec_roundtrip w base id H) as R.
  unfold encode in *. apply in_window_spec in H as Hw. rewrite Hw in *. simpl in *.
  unfold decode_sentinel. assert (id - w_start w - 1 + 1 =? 0 = false) as -> by (apply N.eqb_neq; lia).
  replace (id - w_start w - 1 + 1 - 1) with (id - w_start w - 1) by lia. exact R.
Qed.

Lemma sentinel_encode_ok_iff w id :
  (exists v, encode_sentinel w id = Ok v) <-> (id = 0 \/ w_start w < id <= w_end w).
Proof.
  unfold encode_sentinel. destruct (id =? 0) eqn:E.
  - apply N.eqb_eq in E. split; eauto.
  - apply N.eqb_neq in E. split.
    + intros [v H]. right. apply encode_ok_iff. destruct (encode w id); [eauto|discriminate].
    + intros [->|H]; [congruence|]. apply encode_ok_iff in H as [v ->]. simpl. eauto.
Qed.

Lemma sentinel_wire_zero_iff w id v :
  encode_sentinel w id = Ok v -> (v = 0 <-> id = 0).
Proof.
  unfold encode_sentinel. destruct (id =? 0) eqn:E.
  - apply N.eqb_eq in E. intros [= <-]. tauto.
  - apply N.eqb_neq in E. destruct (encode w id); simpl; [|discriminate]. intros [= <-]. lia.
Qed.

(* ------------------------------------------------------------------------------------------- *)
(* dictionaries *)
Lemma Forall2_imp {A B} (P Q : A -> B -> Prop) l1 l2 :
  (forall a b, P a b -> Q a b) -> Forall2 P l1 l2 -> Forall2 Q l1 l2.
Proof. intros H F. induction F; constructor; auto. Qed.

Section InternProofs.
  Context {V : Type} (veq : V -> V -> bool).
  Hypothesis veq_spec : forall a b, veq a b = true <-> a = b.

  Lemma index_of_some v tbl i : index_of veq v tbl = Some i -> nth_error tbl i = Some v.
  Proof.
    revert i. induction tbl as [|x t IH]; simpl; [discriminate|]. intros i.
    destruct (veq x v) eqn:E.
    - intros [= <-]. apply veq_spec in E. now subst.
    - destruct (index_of veq v t); simpl; [|discriminate]. intros [= <-]. simpl. now apply IH.
  Qed.

  Lemma index_of_none v tbl : index_of veq v tbl = None -> ~ In v tbl.
  Proof.
    induction tbl as [|x t IH]; simpl; [tauto|].
    destruct (veq x v) eqn:E; [discriminate|].
    destruct (index_of veq v t); simpl; [discriminate|]. intros _ [H|H].
    - subst. assert (veq v v = true) by now apply veq_spec. congruence.
    - now apply IH.
  Qed.

  (* interning returns an id that denotes the value, and never disturbs existing ids *)
  Lemma intern_value tbl v : let '(tbl', i) := intern veq tbl v in nth_error tbl' i = Some v.
  Proof.
    unfold intern. destruct (index_of veq v tbl) eqn:E.
    - now apply index_of_some.
    - rewrite nth_error_app2 by lia. now rewrite Nat.sub_diag.
  Qed.

  Lemma intern_extends tbl v : exists ext, fst (intern veq tbl v) = tbl ++ ext.
  Proof.
    unfold intern. destruct (index_of veq v tbl); simpl; [exists []; now rewrite app_nil_r | eauto].
  Qed.

  Lemma nth_error_ext {A} (l ext : list A) i x : nth_error l i = Some x -> nth_error (l ++ ext) i = Some x.
  Proof.
    intros H. rewrite nth_error_app1; auto. apply nth_error_Some. congruence.
  Qed.

  Lemma intern_all_extends tbl vs : exists ext, fst (intern_all veq tbl vs) = tbl ++ ext.
  Proof.
    revert tbl. induction vs as [|v t IH]; intros tbl; simpl.
    - exists []. now rewrite app_nil_r.
    - destruct (intern veq tbl v) as [tbl1 i] eqn:E1.
      destruct (intern_all veq tbl1 t) as [tbl2 is_] eqn:E2. simpl.
      destruct (intern_extends tbl v) as [e1 H1]. rewrite E1 in H1. simpl in H1.
      destruct (IH tbl1) as [e2 H2]. rewrite E2 in H2. simpl in H2.
      exists (e1 ++ e2). rewrite H2, H1. now rewrite app_assoc.
  Qed.

  Lemma intern_all_values tbl vs :
    let '(tbl', is_) := intern_all veq tbl vs in
    Forall2 (fun i v => nth_error tbl' i = Some v) is_ vs.
  Proof.
    revert tbl. induction vs as [|v t IH]; intros tbl; simpl; [constructor|].
    destruct (intern veq tbl v) as [tbl1 i] eqn:E1.
    destruct (intern_all veq tbl1 t) as [tbl2 is_] eqn:E2.
    constructor.
    - pose proof (intern_value tbl v) as H. rewrite E1 in H.
      destruct (intern_all_extends tbl1 t) as [e He]. rewrite E2 in He. simpl in He. subst tbl2.
      now apply nth_error_ext.
    - specialize (IH tbl1). now rewrite E2 in IH.
  Qed.

  (* invariant of an encode session against the live table *)
  Definition es_ok (tbl : list V) (s : esess) : Prop :=
    forall id l, assoc id (es_map s) = Some l ->
      exists v, nth_error tbl id = Some v /\ nth_error (es_dict s) l = Some v.

  Lemma es_empty_ok tbl : es_ok tbl es_empty.
  Proof. intros id l H. discriminate. Qed.

  Lemma encode_dict_ok tbl s id :
    es_ok tbl s ->
    let '(s', r) := encode_dict tbl s id in
    es_ok tbl s' /\ (exists ext, es_dict s' = es_dict s ++ ext) /\
    match r with
    | Ok l => exists v, nth_error tbl id = Some v /\ nth_error (es_dict s') l = Some v
    | Err => nth_error tbl id = None
    end.
  Proof.
    intros Hok. unfold encode_dict. destruct (assoc id (es_map s)) as [l|] eqn:EA.
    - split; [assumption|]. split; [exists []; now rewrite app_nil_r|]. now apply Hok.
    - destruct (nth_error tbl id) as [v|] eqn:EN.
      + split; [|split].
        * intros id' l' H. simpl in H. destruct (Nat.eqb id id') eqn:EE.
          -- apply Nat.eqb_eq in EE. subst id'. injection H as <-. exists v. split; [assumption|].
             simpl. rewrite nth_error_app2 by lia. now rewrite Nat.sub_diag.
          -- destruct (Hok _ _ H) as [v' [H1 H2]]. exists v'. split; [assumption|].
             simpl. now apply nth_error_ext.
        * simpl. eauto.
        * exists v. split; [reflexivity|]. simpl. rewrite nth_error_app2 by lia. now rewrite Nat.sub_diag.
      + split; [assumption|]. split; [exists []; now rewrite app_nil_r|reflexivity].
  Qed.

  Lemma encode_dict_all_ok tbl s ids :
    es_ok tbl s ->
    let '(s', rs) := encode_dict_all tbl s ids in
    es_ok tbl s' /\ (exists ext, es_dict s' = es_dict s ++ ext) /\
    Forall2 (fun id r => match r with
                         | Ok l => exists v, nth_error tbl id = Some v /\ nth_error (es_dict s') l = Some v
                         | Err => nth_error tbl id = None
                         end) ids rs.
  Proof.
    revert s. induction ids as [|i t IH]; intros s Hok; simpl.
    - split; [assumption|]. split; [exists []; now rewrite app_nil_r|constructor].
    - pose proof (encode_dict_ok tbl s i Hok) as H1.
      destruct (encode_dict tbl s i) as [s1 r] eqn:E1. destruct H1 as [Hok1 [[e1 He1] Hr]].
      pose proof (IH s1 Hok1) as H2.
      destruct (encode_dict_all tbl s1 t) as [s2 rs] eqn:E2. destruct H2 as [Hok2 [[e2 He2] Hrs]].
      split; [assumption|]. split; [exists (e1 ++ e2); rewrite He2, He1; now rewrite app_assoc|].
      constructor; [|assumption].
      destruct r as [l|]; [|assumption]. destruct Hr as [v [Ha Hb]]. exists v. split; [assumption|].
      rewrite He2. now apply nth_error_ext.
  Qed.

  (* Dictionary round trip.  Ids [ids] valid in the capturing table [tbl] are written through an
     encode session; the dictionary is re-interned into ANY other live table [tbl'] and the wire
     values decoded: every decoded id denotes, in the new table, the value the original id denoted
     in the old one.  An id unknown to the table is refused at encode time. *)
  Theorem dict_roundtrip tbl tbl' ids :
    let '(s, rs) := encode_dict_all tbl es_empty ids in
    let '(tbl'', strs) := intern_all veq tbl' (es_dict s) in
    Forall2 (fun id r =>
      match r with
      | Ok l => exists id' v, decode_dict strs l = Ok id' /\
                              nth_error tbl id = Some v /\ nth_error tbl'' id' = Some v
      | Err => nth_error tbl id = None
      end) ids rs.
  Proof.
    pose proof (encode_dict_all_ok tbl es_empty ids (es_empty_ok tbl)) as H.
    destruct (encode_dict_all tbl es_empty ids) as [s rs]. destruct H as [_ [_ HF]].
    pose proof (intern_all_values tbl' (es_dict s)) as HI.
    destruct (intern_all veq tbl' (es_dict s)) as [tbl'' strs].
    eapply Forall2_imp; [|exact HF]. intros id r Hr. destruct r as [l|]; [|assumption].
    destruct Hr as [v [Ha Hb]].
    assert (exists id', nth_error strs l = Some id' /\ nth_error tbl'' id' = Some v) as [id' [Hc Hd]].
    { clear - HI Hb. revert l Hb. induction HI as [|i x is_ xs Hix _ IH]; intros l Hb.
      - destruct l; discriminate.
      - destruct l; simpl in *.
        + injection Hb as <-. eauto.
        + now apply IH. }
    exists id', v. unfold decode_dict. rewrite Hc. auto.
  Qed.

  (* first-use order: the dictionary lists each distinct value once, in order of first use *)
  Lemma encode_dict_reuse (tbl : list V) (s : esess) id l :
    assoc id (es_map s) = Some l -> encode_dict tbl s id = (s, Ok l).
  Proof. intros H. unfold encode_dict. now rewrite H. Qed.

  Lemma encode_dict_fresh (tbl : list V) (s : esess) id v :
    assoc id (es_map s) = None -> nth_error tbl id = Some v ->
    encode_dict tbl s id = (mkES ((id, length (es_dict s)) :: es_map s) (es_dict s ++ [v]), Ok (length (es_dict s))).
  Proof. intros H1 H2. unfold encode_dict. now rewrite H1, H2. Qed.
End InternProofs.
