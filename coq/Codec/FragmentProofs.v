(* Proofs about fragment capture / restore (model: Fragment.v). *)
From Coq Require Import NArith List Bool Lia Arith.
From VV Require Import Codec.IdCodec Codec.IdCodecProofs Codec.Fragment.
Import ListNotations.
Open Scope N_scope.

(* ---- mapM ---- *)
Lemma mapM_ok_iff {A B} (f : A -> res B) l :
  (exists l', mapM f l = Ok l') <-> Forall (fun x => exists y, f x = Ok y) l.
Proof.
  induction l as [|x t IH]; simpl.
  - split; eauto.
  - split.
    + intros [l' H]. destruct (f x) eqn:E; simpl in H; [|discriminate].
      destruct (mapM f t) eqn:E2; simpl in H; [|discriminate].
      constructor; eauto. apply IH. eauto.
    + intros H. inversion H as [|? ? [y Hy] Ht]; subst. apply IH in Ht as [t' Ht'].
      rewrite Hy, Ht'. simpl. eauto.
Qed.

Lemma mapM_map {A B C} (f : B -> res C) (g : A -> B) (h : A -> C) l :
  Forall (fun x => f (g x) = Ok (h x)) l -> mapM f (map g l) = Ok (map h l).
Proof.
  induction 1 as [|x t Hx _ IH]; simpl; [reflexivity|]. now rewrite Hx, IH.
Qed.

Lemma mapM_then {A B C} (f : A -> res B) (g : B -> res C) (h : A -> C) l l' :
  mapM f l = Ok l' ->
  (forall x y, In x l -> f x = Ok y -> g y = Ok (h x)) ->
  mapM g l' = Ok (map h l).
Proof.
  revert l'. induction l as [|x t IH]; simpl; intros l' H Hg.
  - injection H as <-. reflexivity.
  - destruct (f x) as [y|] eqn:E; simpl in H; [|discriminate].
    destruct (mapM f t) as [t'|] eqn:E2; simpl in H; [|discriminate]. injection H as <-.
    simpl. rewrite (Hg x y); auto. rewrite (IH t'); auto.
Qed.

Lemma cget_add a b k : cget (cmap2 N.add a b) k = cget a k + cget b k.
Proof. destruct k; reflexivity. Qed.
Lemma cget_sub a b k : cget (cmap2 N.sub a b) k = cget a k - cget b k.
Proof. destruct k; reflexivity. Qed.

(* ---- one id ---- *)
Lemma id_ok_spec w k n :
  id_ok w k n = true <-> (sentinel_kind k = true /\ n = 0) \/ (w_start (w k) < n <= w_end (w k)).
Proof.
  unfold id_ok. rewrite orb_true_iff, andb_true_iff, N.eqb_eq, in_window_spec. tauto.
Qed.

Lemma enc_id_ok_iff w k n : (exists v, enc_id w k n = Ok v) <-> id_ok w k n = true.
Proof.
  rewrite id_ok_spec. unfold enc_id. destruct (sentinel_kind k) eqn:S.
  - rewrite sentinel_encode_ok_iff. intuition.
  - rewrite encode_ok_iff. intuition; discriminate.
Qed.

(* encode in window w, decode on the rebase of the same count at base b = the renaming *)
Lemma enc_dec_id w (b : kind -> N) k n v :
  enc_id w k n = Ok v ->
  dec_id (fun k => rebase_for (w k) (b k)) k v =
  Ok (if in_window (w k) n then shift (w k) (b k) n else n).
Proof.
  intros H. assert (id_ok w k n = true) as Hok by (apply enc_id_ok_iff; eauto).
  apply id_ok_spec in Hok. unfold enc_id, dec_id in *. destruct (sentinel_kind k) eqn:S.
  - assert (n = 0 \/ w_start (w k) < n <= w_end (w k)) as Hc by intuition.
    pose proof (sentinel_roundtrip (w k) (b k) n Hc) as R. rewrite H in R. simpl in R. rewrite R.
    destruct (n =? 0) eqn:E.
    + apply N.eqb_eq in E. subst. unfold in_window.
      assert (w_start (w k) <? 0 = false) as -> by (apply N.ltb_ge; lia). reflexivity.
    + apply N.eqb_neq in E. destruct Hc as [->|Hc]; [congruence|].
      apply in_window_spec in Hc. rewrite Hc. reflexivity.
  - destruct Hok as [[? _]|Hc]; [discriminate|].
    pose proof (codec_roundtrip (w k) (b k) n Hc) as R. rewrite H in R. simpl in R. rewrite R.
    apply in_window_spec in Hc. rewrite Hc. reflexivity.
Qed.

Lemma on_atom_ok_iff f a :
  (exists a', on_atom f a = Ok a') <-> match a with AId k n => exists v, f k n = Ok v | ARaw _ => True end.
Proof.
  destruct a as [k n|n]; simpl.
  - split.
    + intros [a' H]. destruct (f k n); [eauto|discriminate].
    + intros [v ->]. simpl. eauto.
  - split; eauto.
Qed.

Lemma on_atom_then f g (r : kind -> N -> N) a a' :
  on_atom f a = Ok a' ->
  (forall k n v, f k n = Ok v -> g k v = Ok (r k n)) ->
  on_atom g a' = Ok (ren_atom r a).
Proof.
  destruct a as [k n|n]; simpl; intros H Hg.
  - destruct (f k n) as [v|] eqn:E; simpl in H; [|discriminate]. injection H as <-. simpl.
    now rewrite (Hg _ _ _ E).
  - injection H as <-. reflexivity.
Qed.

Lemma on_body_then f g (r : kind -> N -> N) l l' :
  mapM (on_atom f) l = Ok l' ->
  (forall k n v, f k n = Ok v -> g k v = Ok (r k n)) ->
  mapM (on_atom g) l' = Ok (map (ren_atom r) l).
Proof.
  intros H Hg. eapply mapM_then; [exact H|]. intros x y _ Hx. eapply on_atom_then; eauto.
Qed.

Lemma on_entry_then f g (r : kind -> N -> N) e e' :
  on_entry f e = Ok e' ->
  (forall k n v, f k n = Ok v -> g k v = Ok (r k n)) ->
  on_entry g e' = Ok (ren_entry r e).
Proof.
  unfold on_entry. intros H Hg.
  destruct (f (e_kind e) (e_key e)) as [key|] eqn:E; simpl in H; [|discriminate].
  destruct (mapM (on_atom f) (e_body e)) as [body|] eqn:E2; simpl in H; [|discriminate].
  injection H as <-. simpl. rewrite (Hg _ _ _ E). simpl.
  rewrite (on_body_then f g r _ _ E2 Hg). reflexivity.
Qed.

Lemma on_pend_then f g (r : kind -> N -> N) p p' :
  on_pend f p = Ok p' ->
  (forall k n v, f k n = Ok v -> g k v = Ok (r k n)) ->
  on_pend g p' = Ok (ren_pend r p).
Proof.
  unfold on_pend. intros H Hg.
  destruct (mapM (on_atom f) (p_body p)) as [body|] eqn:E2; simpl in H; [|discriminate].
  injection H as <-. simpl. rewrite (on_body_then f g r _ _ E2 Hg). reflexivity.
Qed.

(* ---- capture followed by restore ---- *)
(* Restoring at ANY state st' a fragment captured from st yields st' extended with exactly the
   sub-state added since the watermark, renamed by rho (a shift of each id window onto the range
   reserved in st'); the counters advance by the window sizes. *)
Theorem restore_capture wm st st' f :
  capture wm st = Ok f ->
  restore f st' =
  Ok (mkState (cmap2 N.add (s_ctr st') (cmap2 N.sub (s_ctr st) (wm_ctr wm)))
              (s_keyed st' ++ map (ren_entry (rho wm st (s_ctr st'))) (added_keyed wm st))
              (s_pending st' ++ map (ren_pend (rho wm st (s_ctr st'))) (added_pending wm st))).
Proof.
  unfold capture. intros H.
  destruct (mapM (on_entry (enc_id (win wm st))) (added_keyed wm st)) as [ks|] eqn:EK; simpl in H; [|discriminate].
  destruct (mapM (on_pend (enc_id (win wm st))) (added_pending wm st)) as [ps|] eqn:EP; simpl in H; [|discriminate].
  injection H as <-. unfold restore. simpl.
  assert (forall k n v, enc_id (win wm st) k n = Ok v ->
            dec_id (reb (mkFrag (cmap2 N.sub (s_ctr st) (wm_ctr wm)) ks ps) st') k v =
            Ok (rho wm st (s_ctr st') k n)) as Hg.
  { intros k n v Hv. pose proof (enc_dec_id (win wm st) (cget (s_ctr st')) k n v Hv) as R.
    unfold rho. rewrite <- R. unfold dec_id, reb, rebase_for, win_count, win. simpl.
    rewrite cget_sub. reflexivity. }
  erewrite (mapM_then _ _ (ren_entry (rho wm st (s_ctr st'))) _ _ EK).
  2:{ intros x y _ Hx. eapply on_entry_then; eauto. }
  simpl. erewrite (mapM_then _ _ (ren_pend (rho wm st (s_ctr st'))) _ _ EP).
  2:{ intros x y _ Hx. eapply on_pend_then; eauto. }
  reflexivity.
Qed.

(* rho is the identity outside the window, fixes the sentinel, and is an order-preserving
   bijection of each window onto the reserved range *)
Lemma rho_window wm st base' k n :
  cget (wm_ctr wm) k < n <= cget (s_ctr st) k ->
  rho wm st base' k n = cget base' k + (n - cget (wm_ctr wm) k) /\
  cget base' k < rho wm st base' k n <= cget base' k + (cget (s_ctr st) k - cget (wm_ctr wm) k).
Proof.
  intros H. unfold rho. assert (in_window (win wm st k) n = true) as -> by (apply in_window_spec; exact H).
  unfold shift, win. simpl. lia.
Qed.

Lemma rho_outside wm st base' k n :
  ~ (cget (wm_ctr wm) k < n <= cget (s_ctr st) k) -> rho wm st base' k n = n.
Proof.
  intros H. unfold rho. assert (in_window (win wm st k) n = false) as -> by (apply in_window_false; exact H).
  reflexivity.
Qed.

Lemma rho_sentinel wm st base' k : rho wm st base' k 0 = 0.
Proof. apply rho_outside. lia. Qed.

Lemma rho_monotone wm st base' k a b :
  cget (wm_ctr wm) k < a <= cget (s_ctr st) k -> cget (wm_ctr wm) k < b <= cget (s_ctr st) k ->
  (a < b <-> rho wm st base' k a < rho wm st base' k b).
Proof.
  intros Ha Hb. destruct (rho_window wm st base' k a Ha) as [-> _].
  destruct (rho_window wm st base' k b Hb) as [-> _]. lia.
Qed.

Lemma rho_is_window_shift wm st base' k :
  (forall n, cget (wm_ctr wm) k < n <= cget (s_ctr st) k ->
     rho wm st base' k n = cget base' k + (n - cget (wm_ctr wm) k) /\
     cget base' k < rho wm st base' k n <= cget base' k + (cget (s_ctr st) k - cget (wm_ctr wm) k)) /\
  (forall n, ~ (cget (wm_ctr wm) k < n <= cget (s_ctr st) k) -> rho wm st base' k n = n) /\
  (forall a b, cget (wm_ctr wm) k < a <= cget (s_ctr st) k -> cget (wm_ctr wm) k < b <= cget (s_ctr st) k ->
     (a < b <-> rho wm st base' k a < rho wm st base' k b)).
Proof.
  split; [|split].
  - exact (rho_window wm st base' k).
  - exact (rho_outside wm st base' k).
  - exact (rho_monotone wm st base' k).
Qed.

(* restored keys land in the reserved ranges, hence collide with no key of a well-formed state *)
Lemma restore_keys_fresh wm st st' e :
  In e (added_keyed wm st) ->
  cget (s_ctr st') (e_kind e) < e_key (ren_entry (rho wm st (s_ctr st')) e).
Proof.
  unfold added_keyed. rewrite filter_In. intros [_ Ho]. unfold own in Ho.
  apply in_window_spec in Ho. unfold win in Ho. simpl in Ho.
  simpl. destruct (rho_window wm st (s_ctr st') (e_kind e) (e_key e) Ho) as [_ R]. lia.
Qed.

(* ---- capture is total exactly on closed sub-states ---- *)
Lemma forallb_Forall {A} (p : A -> bool) l : forallb p l = true <-> Forall (fun x => p x = true) l.
Proof. rewrite forallb_forall, Forall_forall. tauto. Qed.

Lemma body_ok_iff w l :
  (exists l', mapM (on_atom (enc_id w)) l = Ok l') <-> forallb (atom_ok w) l = true.
Proof.
  rewrite mapM_ok_iff, forallb_Forall. split; intros H; eapply Forall_impl; try exact H; intros a Ha.
  - apply on_atom_ok_iff in Ha. destruct a; simpl; [now apply enc_id_ok_iff|reflexivity].
  - apply on_atom_ok_iff. destruct a; simpl in *; [now apply enc_id_ok_iff|exact I].
Qed.

Theorem capture_total_iff_closed wm st :
  (exists f, capture wm st = Ok f) <-> ids_closed wm st = true.
Proof.
  unfold ids_closed, capture. rewrite andb_true_iff, !forallb_Forall. split.
  - intros [f H].
    destruct (mapM (on_entry (enc_id (win wm st))) (added_keyed wm st)) as [ks|] eqn:EK; simpl in H; [|discriminate].
    destruct (mapM (on_pend (enc_id (win wm st))) (added_pending wm st)) as [ps|] eqn:EP; simpl in H; [|discriminate].
    split.
    + assert (exists l', mapM (on_entry (enc_id (win wm st))) (added_keyed wm st) = Ok l') as HK by eauto.
      apply mapM_ok_iff in HK. eapply Forall_impl; [|exact HK]. intros e [e' He].
      apply body_ok_iff. unfold on_entry in He.
      destruct (enc_id (win wm st) (e_kind e) (e_key e)); simpl in He; [|discriminate].
      destruct (mapM (on_atom (enc_id (win wm st))) (e_body e)); [eauto|discriminate].
    + assert (exists l', mapM (on_pend (enc_id (win wm st))) (added_pending wm st) = Ok l') as HP by eauto.
      apply mapM_ok_iff in HP. eapply Forall_impl; [|exact HP]. intros p [p' Hp].
      apply body_ok_iff. unfold on_pend in Hp.
      destruct (mapM (on_atom (enc_id (win wm st))) (p_body p)); [eauto|discriminate].
  - intros [HK HP].
    assert (exists ks, mapM (on_entry (enc_id (win wm st))) (added_keyed wm st) = Ok ks) as [ks ->].
    { apply mapM_ok_iff. apply Forall_forall. intros e He.
      rewrite Forall_forall in HK. specialize (HK e He). apply body_ok_iff in HK as [b Hb].
      assert (exists v, enc_id (win wm st) (e_kind e) (e_key e) = Ok v) as [v Hv].
      { apply enc_id_ok_iff. unfold id_ok. unfold added_keyed in He. apply filter_In in He as [_ Ho].
        unfold own in Ho. rewrite Ho. apply orb_true_r. }
      unfold on_entry. rewrite Hv, Hb. simpl. eauto. }
    assert (exists ps, mapM (on_pend (enc_id (win wm st))) (added_pending wm st) = Ok ps) as [ps ->].
    { apply mapM_ok_iff. eapply Forall_impl; [|exact HP]. intros p Hp. apply body_ok_iff in Hp as [b Hb].
      unfold on_pend. rewrite Hb. simpl. eauto. }
    simpl. eauto.
Qed.

(* a fragment that cannot be represented is refused: one id outside its window (and not the
   sentinel) anywhere in the captured sub-state makes capture fail *)
Corollary capture_refuses_foreign_id wm st e k n :
  In e (added_keyed wm st) -> In (AId k n) (e_body e) -> id_ok (win wm st) k n = false ->
  capture wm st = Err.
Proof.
  intros He Ha Hn. destruct (capture wm st) as [f|] eqn:E; [|reflexivity]. exfalso.
  assert (ids_closed wm st = true) as C by (apply capture_total_iff_closed; eauto).
  unfold ids_closed in C. apply andb_true_iff in C as [C _]. rewrite forallb_forall in C.
  specialize (C e He). rewrite forallb_forall in C. specialize (C _ Ha). simpl in C. congruence.
Qed.

(* ---- pass 1 contributions ---- *)
Lemma filter_app_none {A} (p : A -> bool) l1 l2 :
  Forall (fun x => p x = false) l1 -> Forall (fun x => p x = true) l2 -> filter p (l1 ++ l2) = l2.
Proof.
  intros H1 H2. rewrite filter_app.
  assert (filter p l1 = []) as ->.
  { induction H1 as [|x t Hx _ IH]; simpl; [reflexivity|]. now rewrite Hx. }
  simpl. induction H2 as [|x t Hx _ IH]; simpl; [reflexivity|]. now rewrite Hx, IH.
Qed.

Lemma skipn_app_exact {A} (l1 l2 : list A) : skipn (length l1) (l1 ++ l2) = l2.
Proof. induction l1; simpl; auto. Qed.

Lemma added_keyed_pass1 d st :
  state_wf st = true -> delta_wf d = true ->
  added_keyed (watermark st) (pass1 d st) = map (inst_entry (s_ctr st)) (d_keyed d).
Proof.
  intros Hs Hd. unfold added_keyed, pass1. simpl. apply filter_app_none.
  - unfold state_wf in Hs. rewrite forallb_Forall in Hs. eapply Forall_impl; [|exact Hs].
    intros e He. apply andb_true_iff in He as [_ He]. apply N.leb_le in He.
    apply in_window_false. unfold win, watermark. simpl. lia.
  - unfold delta_wf in Hd. apply andb_true_iff in Hd as [Hd _]. rewrite forallb_Forall in Hd.
    apply Forall_forall. intros e He. apply in_map_iff in He as [de [<- Hde]].
    rewrite Forall_forall in Hd. specialize (Hd de Hde). apply andb_true_iff in Hd as [Hk _].
    apply N.ltb_lt in Hk. unfold own. apply in_window_spec. unfold win, watermark. simpl.
    rewrite cget_add. lia.
Qed.

Lemma added_pending_pass1 d st :
  added_pending (watermark st) (pass1 d st) = map (inst_pend (s_ctr st)) (d_pending d).
Proof. unfold added_pending, pass1, watermark. simpl. apply skipn_app_exact. Qed.

Lemma enc_inst_atom d st a :
  datom_wf (d_counts d) a = true -> datom_closed a = true ->
  on_atom (enc_id (win (watermark st) (pass1 d st))) (inst_atom (s_ctr st) a) = Ok (frag_atom a).
Proof.
  destruct a as [k l|k n|n]; simpl; intros Hw Hc; [| |reflexivity].
  - apply N.ltb_lt in Hw. unfold enc_id, wire_id. destruct (sentinel_kind k).
    + unfold encode_sentinel.
      assert (cget (s_ctr st) k + l + 1 =? 0 = false) as -> by (apply N.eqb_neq; lia).
      unfold encode, in_window, win. simpl. rewrite cget_add.
      assert ((cget (s_ctr st) k <? cget (s_ctr st) k + l + 1) &&
              (cget (s_ctr st) k + l + 1 <=? cget (s_ctr st) k + cget (d_counts d) k) = true) as ->.
      { rewrite andb_true_iff, N.ltb_lt, N.leb_le. lia. }
      simpl. do 3 f_equal. lia.
    + unfold encode, in_window, win. simpl. rewrite cget_add.
      assert ((cget (s_ctr st) k <? cget (s_ctr st) k + l + 1) &&
              (cget (s_ctr st) k + l + 1 <=? cget (s_ctr st) k + cget (d_counts d) k) = true) as ->.
      { rewrite andb_true_iff, N.ltb_lt, N.leb_le. lia. }
      simpl. do 3 f_equal. lia.
  - apply andb_true_iff in Hc as [Hs Hn]. apply N.eqb_eq in Hn. subst n.
    unfold enc_id. rewrite Hs. reflexivity.
Qed.

Lemma enc_inst_body d st l :
  forallb (datom_wf (d_counts d)) l = true -> forallb datom_closed l = true ->
  mapM (on_atom (enc_id (win (watermark st) (pass1 d st)))) (map (inst_atom (s_ctr st)) l) = Ok (map frag_atom l).
Proof.
  intros Hw Hc. apply mapM_map. apply Forall_forall. intros a Ha.
  rewrite forallb_forall in Hw, Hc. apply enc_inst_atom; auto.
Qed.

(* the fragment captured from a closed contribution does not depend on where it was captured *)
Theorem capture_pass1 d st :
  state_wf st = true -> delta_wf d = true -> delta_closed d = true ->
  capture (watermark st) (pass1 d st) = Ok (frag_of d).
Proof.
  intros Hs Hd Hc. unfold capture. rewrite added_keyed_pass1, added_pending_pass1 by assumption.
  unfold delta_wf in Hd. apply andb_true_iff in Hd as [HdK HdP].
  unfold delta_closed in Hc. apply andb_true_iff in Hc as [HcK HcP].
  rewrite forallb_forall in HdK, HdP, HcK, HcP.
  rewrite (mapM_map _ _ frag_entry).
  2:{ apply Forall_forall. intros e He. specialize (HdK e He). apply andb_true_iff in HdK as [Hk Hb].
      unfold on_entry. simpl.
      pose proof (enc_inst_atom d st (DRel (de_kind e) (de_key e)) Hk eq_refl) as K. simpl in K.
      destruct (enc_id (win (watermark st) (pass1 d st)) (de_kind e) (cget (s_ctr st) (de_kind e) + de_key e + 1)) as [v|]; simpl in K; [|discriminate].
      injection K as ->. simpl. rewrite (enc_inst_body d st _ Hb (HcK e He)). reflexivity. }
  simpl. rewrite (mapM_map _ _ frag_pend).
  2:{ apply Forall_forall. intros p Hp. unfold on_pend. simpl.
      rewrite (enc_inst_body d st _ (HdP p Hp) (HcP p Hp)). reflexivity. }
  simpl. unfold frag_of. f_equal. f_equal.
  unfold pass1, watermark. simpl. destruct (s_ctr st), (d_counts d). unfold cmap2. simpl.
  f_equal; lia.
Qed.

Lemma dec_frag_atom d st a :
  datom_wf (d_counts d) a = true -> datom_closed a = true ->
  on_atom (dec_id (reb (frag_of d) st)) (frag_atom a) = Ok (inst_atom (s_ctr st) a).
Proof.
  destruct a as [k l|k n|n]; simpl; intros Hw Hc; [| |reflexivity].
  - apply N.ltb_lt in Hw. unfold dec_id, wire_id, reb. simpl. destruct (sentinel_kind k).
    + unfold decode_sentinel. assert (l + 1 =? 0 = false) as -> by (apply N.eqb_neq; lia).
      replace (l + 1 - 1) with l by lia. unfold decode. simpl.
      assert (l <? cget (d_counts d) k = true) as -> by now apply N.ltb_lt. reflexivity.
    + unfold decode. simpl. assert (l <? cget (d_counts d) k = true) as -> by now apply N.ltb_lt. reflexivity.
  - apply andb_true_iff in Hc as [Hs Hn]. apply N.eqb_eq in Hn. subst n.
    unfold dec_id. rewrite Hs. reflexivity.
Qed.

(* restoring the canonical fragment IS pass 1 of the contribution at the restoring state *)
Theorem restore_frag_of d st :
  delta_wf d = true -> delta_closed d = true ->
  restore (frag_of d) st = Ok (pass1 d st).
Proof.
  intros Hd Hc. unfold restore.
  unfold delta_wf in Hd. apply andb_true_iff in Hd as [HdK HdP].
  unfold delta_closed in Hc. apply andb_true_iff in Hc as [HcK HcP].
  rewrite forallb_forall in HdK, HdP, HcK, HcP.
  assert (forall l, forallb (datom_wf (d_counts d)) l = true -> forallb datom_closed l = true ->
            mapM (on_atom (dec_id (reb (frag_of d) st))) (map frag_atom l) = Ok (map (inst_atom (s_ctr st)) l)) as HB.
  { intros l Hw Hcl. apply mapM_map. apply Forall_forall. intros a Ha.
    rewrite forallb_forall in Hw, Hcl. apply dec_frag_atom; auto. }
  simpl f_keyed. rewrite (mapM_map _ _ (inst_entry (s_ctr st))).
  2:{ apply Forall_forall. intros e He. specialize (HdK e He). apply andb_true_iff in HdK as [Hk Hb].
      unfold on_entry. simpl.
      pose proof (dec_frag_atom d st (DRel (de_kind e) (de_key e)) Hk eq_refl) as K. simpl in K.
      destruct (dec_id (reb (frag_of d) st) (de_kind e) (wire_id (de_kind e) (de_key e))) as [v|]; simpl in K; [|discriminate].
      injection K as ->. simpl. rewrite (HB _ Hb (HcK e He)). reflexivity. }
  simpl. rewrite (mapM_map _ _ (inst_pend (s_ctr st))).
  2:{ apply Forall_forall. intros p Hp. unfold on_pend. simpl. rewrite (HB _ (HdP p Hp) (HcP p Hp)). reflexivity. }
  reflexivity.
Qed.

(* The property: capture after pass 1 at st0, restore at ANY st0' = pass 1 at st0'. *)
Theorem restore_capture_iso d st0 st0' :
  state_wf st0 = true -> delta_wf d = true -> delta_closed d = true ->
  exists f, capture (watermark st0) (pass1 d st0) = Ok f /\ restore f st0' = Ok (pass1 d st0').
Proof.
  intros Hs Hd Hc. exists (frag_of d). split; [now apply capture_pass1|now apply restore_frag_of].
Qed.

(* ... and a contribution that mentions a pre-existing id (other than the sentinel) is refused *)
Lemma enc_abs_refused d st k n :
  n <= cget (s_ctr st) k -> sentinel_kind k && (n =? 0) = false ->
  id_ok (win (watermark st) (pass1 d st)) k n = false.
Proof.
  intros Hn Hs. unfold id_ok. rewrite Hs. simpl. apply in_window_false. unfold win, watermark. simpl. lia.
Qed.

Theorem capture_pass1_total_iff_closed d st :
  state_wf st = true -> delta_wf d = true -> delta_abs_ok (s_ctr st) d = true ->
  ((exists f, capture (watermark st) (pass1 d st) = Ok f) <-> delta_closed d = true).
Proof.
  intros Hs Hd Ha. split.
  - intros Hf. apply capture_total_iff_closed in Hf. unfold ids_closed in Hf.
    rewrite added_keyed_pass1, added_pending_pass1 in Hf by assumption.
    apply andb_true_iff in Hf as [HK HP]. rewrite forallb_forall in HK, HP.
    unfold delta_abs_ok in Ha. apply andb_true_iff in Ha as [HaK HaP]. rewrite forallb_forall in HaK, HaP.
    assert (forall l, forallb (atom_ok (win (watermark st) (pass1 d st))) (map (inst_atom (s_ctr st)) l) = true ->
                      forallb (datom_abs_ok (s_ctr st)) l = true -> forallb datom_closed l = true) as HB.
    { intros l H1 H2. rewrite forallb_forall in *. intros a Hin. specialize (H2 a Hin).
      specialize (H1 (inst_atom (s_ctr st) a) (in_map _ _ _ Hin)).
      destruct a as [k l0|k n|n]; simpl in *; try reflexivity.
      destruct (sentinel_kind k && (n =? 0)) eqn:E; [reflexivity|].
      apply N.leb_le in H2. rewrite (enc_abs_refused d st k n H2 E) in H1. discriminate. }
    unfold delta_closed. rewrite andb_true_iff, !forallb_forall. split.
    + intros e He. apply HB; [|now apply HaK]. exact (HK _ (in_map (inst_entry (s_ctr st)) _ _ He)).
    + intros p Hp. apply HB; [|now apply HaP]. exact (HP _ (in_map (inst_pend (s_ctr st)) _ _ Hp)).
  - intros Hc. exists (frag_of d). now apply capture_pass1.
Qed.

(* the known finding: the placeholder of Token::default() is not reproduced *)
Theorem default_token_placeholder_refuted :
  exists capturing restoring, restored_placeholder capturing restoring <> fresh_placeholder restoring.
Proof. exists (mkProc 0 1), (mkProc 0 2). vm_compute. discriminate. Qed.

(* ... and it is reproduced exactly when both processes interned the same values first *)
Theorem default_token_placeholder_iff capturing restoring :
  restored_placeholder capturing restoring = fresh_placeholder restoring <->
  first_str capturing = first_str restoring /\ first_path capturing = first_path restoring.
Proof.
  unfold restored_placeholder, fresh_placeholder. split.
  - intros [= A B]. auto.
  - intros [A B]. now rewrite A, B.
Qed.
