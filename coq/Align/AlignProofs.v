(* Proofs about the aligner model (coq/Align/AlignModel.v). *)
From VV Require Import Align.AlignModel.
Open Scope N_scope.

(* ------------------------------------------------------------------ PadKind::merge *)
Lemma pk_merge_comm a b : pk_merge a b = pk_merge b a.
Proof. destruct a, b; reflexivity. Qed.
Lemma pk_merge_assoc a b c : pk_merge (pk_merge a b) c = pk_merge a (pk_merge b c).
Proof. destruct a, b, c; reflexivity. Qed.
Lemma pk_merge_always a : pk_merge Always a = Always /\ pk_merge a Always = Always.
Proof. destruct a; split; reflexivity. Qed.

(* ------------------------------------------------------------------ max_width is exact *)
Lemma fold_max_ge ws : forall acc, acc <= fold_left N.max ws acc.
Proof. induction ws; simpl; intros; [lia|]. specialize (IHws (N.max acc a)). lia. Qed.
Lemma fold_max_in ws : forall acc w, In w ws -> w <= fold_left N.max ws acc.
Proof.
  induction ws; simpl; intros acc w H; [tauto|]. destruct H as [->|H].
  - pose proof (fold_max_ge ws (N.max acc w)). lia.
  - auto.
Qed.
Lemma maxw_in ws w : In w ws -> w <= maxw ws.
Proof. apply fold_max_in. Qed.
Lemma maxw_snoc ws w : maxw (ws ++ [w]) = N.max (maxw ws) w.
Proof. unfold maxw. rewrite fold_left_app. reflexivity. Qed.

Definition max_exact (a : align) : Prop := max_width a = maxw (widths (rest a)).

Lemma max_exact_default : max_exact align_default.
Proof. reflexivity. Qed.
Lemma max_exact_finish_group a : max_exact (finish_group a).
Proof. reflexivity. Qed.
Lemma max_exact_finish_item a : max_exact a -> max_exact (finish_item a).
Proof.
  unfold finish_item, max_exact. intros H.
  destruct (enable a); [|exact H]. destruct (last_loc a); [|exact H].
  cbn [no_auto line]. destruct (negb (no_auto a) && split_here (line a) (l_line l)); cbn.
  - reflexivity.
  - rewrite map_app. cbn [map]. fold (maxw (map (fun it : loc * N * padkind => snd (fst it)) (rest a) ++ [snd (fst (l, width a, pad_kind a))])).
    rewrite maxw_snoc. cbn [fst snd]. unfold widths in H. rewrite <- H. reflexivity.
Qed.
Lemma max_exact_start k a : max_exact a -> max_exact (start_item k a).
Proof. unfold start_item, max_exact. destruct (enable a); auto. Qed.
Lemma max_exact_note n a : max_exact a -> max_exact (note_statement_end n a).
Proof. unfold note_statement_end, max_exact. destruct (had_item a); auto. Qed.
Lemma max_exact_set_loc w l a : max_exact a -> max_exact (set_loc w l a).
Proof. unfold set_loc, max_exact. destruct (enable a); auto. Qed.
Lemma max_exact_add_width w a : max_exact a -> max_exact (a_add_width w a).
Proof. unfold a_add_width, max_exact. destruct (enable a); auto. Qed.
Lemma max_exact_clear a : max_exact a -> max_exact (clear_had a).
Proof. auto. Qed.
Lemma max_exact_no_auto b a : max_exact a -> max_exact (set_no_auto b a).
Proof. auto. Qed.

Lemma Forall_upd (P : align -> Prop) f k : (forall a, P a -> P (f a)) ->
  forall l, Forall P l -> Forall P (upd k f l).
Proof.
  intros Hf. induction k; intros l Hl; destruct l; simpl; auto; inversion Hl; subst;
    constructor; auto.
Qed.
Lemma Forall_map_pres (P : align -> Prop) f : (forall a, P a -> P (f a)) ->
  forall l, Forall P l -> Forall P (map f l).
Proof. intros Hf l Hl. induction Hl; simpl; constructor; auto. Qed.

Lemma step_max_exact g o : Forall max_exact (aligns g) -> Forall max_exact (aligns (step g o)).
Proof.
  intros H. destruct o; simpl;
    try (apply Forall_upd; [|exact H]); try (apply Forall_map_pres; [|exact H]); auto;
    intros a Ha;
    auto using max_exact_finish_group, max_exact_finish_item, max_exact_start, max_exact_note,
      max_exact_set_loc, max_exact_add_width.
  all: try (unfold a_token, a_dummy; apply max_exact_set_loc; exact Ha).
Qed.

Lemma run_max_exact_from ops : forall g, Forall max_exact (aligns g) ->
  Forall max_exact (aligns (fold_left step ops g)).
Proof. induction ops; simpl; intros; auto using step_max_exact. Qed.

(* In every state the public API can reach, each kind's max_width is exactly the maximum of the
   widths of the items of its open group ... *)
Theorem reachable_max_exact ops : Forall max_exact (aligns (run ops)).
Proof.
  apply run_max_exact_from. simpl. repeat constructor.
Qed.

(* ... hence the u32 subtraction [max_width - width] of finish_group never underflows. *)
Theorem rest_le_max ops a l w k :
  In a (aligns (run ops)) -> In (l, w, k) (rest a) -> w <= max_width a.
Proof.
  intros Ha Hin. pose proof (reachable_max_exact ops) as H.
  rewrite Forall_forall in H. rewrite (H a Ha). apply maxw_in.
  unfold widths. apply in_map_iff. exists (l, w, k). split; [reflexivity|exact Hin].
Qed.

(* ------------------------------------------------------------------ what a group gets *)
Definition group_entries (r : list (loc * N * padkind)) : amap :=
  map (fun it : loc * N * padkind => let '(l, w, k) := it in (l, (maxw (widths r) - w, k))) r.

Lemma fold_insert_map (f : loc * N * padkind -> loc * (N * padkind)) r : forall m,
  fold_left (fun m it => amap_insert (fst (f it)) (snd (f it)) m) r m =
  fold_left (fun m e => amap_insert (fst e) (snd e) m) (map f r) m.
Proof. induction r; simpl; intros; auto. Qed.

Theorem finish_group_spec a : max_exact a ->
  additions (finish_group a) =
  fold_left (fun m e => amap_insert (fst e) (snd e) m) (group_entries (rest a)) (additions a).
Proof.
  intros H. unfold finish_group, group_entries. cbn [additions].
  rewrite <- fold_insert_map. rewrite <- H.
  generalize (additions a). generalize (max_width a). intros M. 
  induction (rest a) as [|[[l w] k] r IH]; simpl; intros m; auto.
Qed.

(* ------------------------------------------------------------------ alignment is a projection *)
(* item widths after the computed padding has been applied *)
Definition padded (ws : list N) : list N := map (fun w => w + (maxw ws - w)) ws.

Lemma padded_const ws : padded ws = map (fun _ => maxw ws) ws.
Proof.
  unfold padded. apply map_ext_in. intros w Hw. pose proof (maxw_in ws w Hw). lia.
Qed.

Lemma maxw_const (ws : list N) M : ws <> [] -> maxw (map (fun _ => M) ws) = M.
Proof.
  unfold maxw. intros Hne. destruct ws as [|w r]; [congruence|]. simpl. clear.
  replace (N.max 0 M) with M by lia.
  induction r; simpl; auto. replace (N.max M M) with M by lia. exact IHr.
Qed.

(* every item of a group ends at the same offset: width + padding = group maximum *)
Theorem pads_uniform ws : Forall2 (fun w p => w + p = maxw ws) ws (pads ws).
Proof.
  unfold pads. assert (H : forall w, In w ws -> w <= maxw ws) by (apply maxw_in).
  revert H. generalize (maxw ws) as M. induction ws; simpl; intros; constructor.
  - specialize (H a (or_introl eq_refl)). lia.
  - apply IHws. intros; apply H; auto.
Qed.

(* align_fixpoint: items already padded to the group maximum get addition 0 on re-alignment *)
Theorem align_fixpoint ws : pads (padded ws) = map (fun _ => 0) ws.
Proof.
  destruct ws as [|w r]; [reflexivity|].
  rewrite padded_const. unfold pads. rewrite maxw_const by discriminate.
  rewrite map_map. apply map_ext. intros. lia.
Qed.

(* ------------------------------------------------------------------ lines matter only by gap class *)
Section GapClass.
  (* R relates the line numbers of two layouts of the same token sequence *)
  Variable R : N -> N -> Prop.
  Hypothesis Rlt : forall a a' b b', R a a' -> R b b' -> (a <? b) = (a' <? b').
  Hypothesis Rgap : forall a a' b b', R a a' -> R b b' -> (1 <? b - a) = (1 <? b' - a').

  Lemma Reqb a a' b b' : R a a' -> R b b' -> (a =? b) = (a' =? b').
  Proof.
    intros Ha Hb. pose proof (Rlt _ _ _ _ Ha Hb). pose proof (Rlt _ _ _ _ Hb Ha).
    destruct (N.eqb_spec a b), (N.eqb_spec a' b'); auto; exfalso.
    - subst. rewrite N.ltb_irrefl in *. destruct (N.ltb_spec a' b'), (N.ltb_spec b' a'); try discriminate; lia.
    - subst. rewrite N.ltb_irrefl in *. destruct (N.ltb_spec a b), (N.ltb_spec b a); try discriminate; lia.
  Qed.

  Definition Rloc (l l' : loc) : Prop :=
    R (l_line l) (l_line l') /\ l_col l = l_col l' /\ l_len l = l_len l' /\ l_dup l = l_dup l'.

  Lemma loc_eqb_rel a a' b b' : Rloc a a' -> Rloc b b' -> loc_eqb a b = loc_eqb a' b'.
  Proof.
    intros (H1 & H2 & H3 & H4) (G1 & G2 & G3 & G4). unfold loc_eqb.
    rewrite (Reqb _ _ _ _ H1 G1), H2, H3, H4, G2, G3, G4. reflexivity.
  Qed.

  Definition Rent (e e' : loc * (N * padkind)) : Prop := Rloc (fst e) (fst e') /\ snd e = snd e'.
  Definition Ramap : amap -> amap -> Prop := Forall2 Rent.
  Definition Ritem (i i' : loc * N * padkind) : Prop :=
    Rloc (fst (fst i)) (fst (fst i')) /\ snd (fst i) = snd (fst i') /\ snd i = snd i'.

  Lemma insert_rel k k' v m m' : Rloc k k' -> Ramap m m' ->
    Ramap (amap_insert k v m) (amap_insert k' v m').
  Proof.
    intros Hk Hm. induction Hm as [|[a va] [a' va'] m m' [Ha Hv] Hm IH]; simpl.
    - constructor; [split; auto|constructor].
    - simpl in Ha, Hv. subst va'. rewrite (loc_eqb_rel _ _ _ _ Hk Ha).
      destruct (loc_eqb k' a'); constructor; auto; split; auto.
  Qed.

  Lemma upsert_rel k k' v m m' : Rloc k k' -> Ramap m m' ->
    Ramap (amap_upsert k v m) (amap_upsert k' v m').
  Proof.
    intros Hk Hm. induction Hm as [|[a va] [a' va'] m m' [Ha Hv] Hm IH]; simpl.
    - constructor; [split; auto|constructor].
    - simpl in Ha, Hv. subst va'. rewrite (loc_eqb_rel _ _ _ _ Hk Ha).
      destruct (loc_eqb k' a'); constructor; auto; split; auto.
  Qed.

  Definition Ropt (o o' : option loc) : Prop :=
    match o, o' with Some l, Some l' => Rloc l l' | None, None => True | _, _ => False end.

  Record Ralign (a a' : align) : Prop := {
    r_enable : enable a = enable a';
    r_pk : pad_kind a = pad_kind a';
    r_mw : max_width a = max_width a';
    r_w : width a = width a';
    r_line : R (line a) (line a');
    r_had : had_item a = had_item a';
    r_rest : Forall2 Ritem (rest a) (rest a');
    r_add : Ramap (additions a) (additions a');
    r_na : no_auto a = no_auto a';
    r_last : Ropt (last_loc a) (last_loc a')
  }.

  Lemma finish_group_rel a a' : Ralign a a' -> Ralign (finish_group a) (finish_group a').
  Proof.
    intros [].
    constructor; cbn; auto.
    rewrite <- r_mw0. generalize (max_width a) as M. intros M.
    revert r_add0. generalize (additions a) (additions a').
    induction r_rest0 as [|[[l w] k] [[l' w'] k'] r r' (Hl & Hw & Hk) Hr IH]; simpl; intros m m' Hm; auto.
    simpl in Hl, Hw, Hk. subst w' k'. apply IH. apply insert_rel; auto.
  Qed.

  Lemma split_here_rel c c' l l' : R c c' -> R l l' -> split_here c l = split_here c' l'.
  Proof.
    intros Hc Hl. unfold split_here. rewrite (Rlt _ _ _ _ Hl Hc), (Rgap _ _ _ _ Hc Hl). reflexivity.
  Qed.

  Lemma finish_item_rel a a' : Ralign a a' -> Ralign (finish_item a) (finish_item a').
  Proof.
    intros H. pose proof H as [].
    unfold finish_item. rewrite <- r_enable0. destruct (enable a); [|exact H].
    unfold Ropt in r_last0. destruct (last_loc a) as [l|] eqn:E, (last_loc a') as [l'|] eqn:E'; try tauto.
    - cbn [no_auto line]. rewrite <- r_na0.
      destruct r_last0 as (Hline & Hrest).
      rewrite (split_here_rel _ _ _ _ r_line0 Hline).
      set (a1 := mkAlign false Always (max_width a) (width a) (line a) (had_item a) (rest a) (additions a) (no_auto a) (Some l)).
      set (a1' := mkAlign false Always (max_width a') (width a') (line a') (had_item a') (rest a') (additions a') (no_auto a) (Some l')).
      assert (H1 : Ralign a1 a1').
      { constructor; cbn; auto. split; auto. }
      destruct (negb (no_auto a) && split_here (line a') (l_line l')).
      + pose proof (finish_group_rel _ _ H1) as [].
        constructor; cbn in *; auto; try congruence.
        constructor; auto. repeat split; cbn; auto; tauto.
      + destruct H1. constructor; cbn in *; auto; try congruence.
        apply Forall2_app; auto. constructor; auto. repeat split; cbn; auto; tauto.
    - constructor; cbn; auto.
  Qed.

  Lemma start_item_rel k a a' : Ralign a a' -> Ralign (start_item k a) (start_item k a').
  Proof.
    intros H. pose proof H as []. unfold start_item. rewrite <- r_enable0.
    destruct (enable a); [exact H|]. constructor; cbn; auto.
  Qed.

  Lemma note_rel n n' a a' : R n n' -> Ralign a a' ->
    Ralign (note_statement_end n a) (note_statement_end n' a').
  Proof.
    intros Hn H. pose proof H as []. unfold note_statement_end. rewrite <- r_had0.
    destruct (had_item a); [|exact H]. constructor; cbn; auto.
    rewrite <- (Rlt _ _ _ _ r_line0 Hn). destruct (line a <? n); auto.
  Qed.

  Lemma set_loc_rel w l l' a a' : Rloc l l' -> Ralign a a' ->
    Ralign (set_loc w l a) (set_loc w l' a').
  Proof.
    intros Hl H. pose proof H as []. unfold set_loc. rewrite <- r_enable0.
    destruct (enable a); [|exact H]. constructor; cbn; auto. congruence.
  Qed.

  Lemma add_width_rel w a a' : Ralign a a' -> Ralign (a_add_width w a) (a_add_width w a').
  Proof.
    intros H. pose proof H as []. unfold a_add_width. rewrite <- r_enable0.
    destruct (enable a); [|exact H]. constructor; cbn; auto. congruence.
  Qed.

  Lemma clear_had_rel a a' : Ralign a a' -> Ralign (clear_had a) (clear_had a').
  Proof. intros []. constructor; cbn; auto. Qed.

  Lemma set_no_auto_rel b a a' : Ralign a a' -> Ralign (set_no_auto b a) (set_no_auto b a').
  Proof. intros []. constructor; cbn; auto. Qed.

  Record Raligner (g g' : aligner) : Prop := {
    rg_add : Ramap (g_additions g) (g_additions g');
    rg_aligns : Forall2 Ralign (aligns g) (aligns g');
    rg_latest : R (latest g) (latest g')
  }.

  Lemma Forall2_upd f f' k : (forall a a', Ralign a a' -> Ralign (f a) (f' a')) ->
    forall l l', Forall2 Ralign l l' -> Forall2 Ralign (upd k f l) (upd k f' l').
  Proof.
    intros Hf. induction k; intros l l' H; destruct H; simpl; constructor; auto.
  Qed.
  Lemma Forall2_map2 f f' : (forall a a', Ralign a a' -> Ralign (f a) (f' a')) ->
    forall l l', Forall2 Ralign l l' -> Forall2 Ralign (map f l) (map f' l').
  Proof. intros Hf l l' H. induction H; simpl; constructor; auto. Qed.

  (* two API calls of the same shape whose line arguments are related *)
  Inductive Rop : op -> op -> Prop :=
  | RToken ln ln' col len : R ln ln' -> Rop (OToken ln col len) (OToken ln' col len)
  | RDupToken ln ln' col len idx : R ln ln' ->
      Rop (ODupToken ln col len idx) (ODupToken ln' col len idx)
  | RDummyLoc k ln ln' col len : R ln ln' -> Rop (ODummyLoc k ln col len) (ODummyLoc k ln' col len)
  | ROther o : (match o with OToken _ _ _ | ODupToken _ _ _ _ | ODummyLoc _ _ _ _ => False
                | _ => True end) -> Rop o o.

  Lemma gather_rel g g' : Raligner g g' -> Raligner (gather_additions g) (gather_additions g').
  Proof.
    intros []. constructor; cbn; auto.
    revert rg_add0. generalize (g_additions g) (g_additions g').
    induction rg_aligns0 as [|a a' l l' Ha Hl IH]; simpl; intros m m' Hm; auto.
    apply IH. destruct Ha. clear - r_add0 Hm Rlt Rgap. revert m m' Hm.
    induction r_add0 as [|e e' r r' [He Hv] Hr IH]; simpl; intros; auto.
    apply IH. rewrite Hv. apply upsert_rel; auto.
  Qed.

  Lemma observe_rel ln ln' g g' : R ln ln' -> Raligner g g' ->
    Raligner (observe_line ln g) (observe_line ln' g').
  Proof.
    intros Hl []. constructor; cbn; auto.
    rewrite <- (Rlt _ _ _ _ rg_latest0 Hl). destruct (latest g <? ln); auto.
  Qed.

  Lemma all_rel f f' g g' : (forall a a', Ralign a a' -> Ralign (f a) (f' a')) ->
    Raligner g g' -> Raligner (all_aligns f g) (all_aligns f' g').
  Proof. intros Hf []. constructor; cbn; auto using Forall2_map2. Qed.
  Lemma one_rel k f f' g g' : (forall a a', Ralign a a' -> Ralign (f a) (f' a')) ->
    Raligner g g' -> Raligner (one_align k f g) (one_align k f' g').
  Proof. intros Hf []. constructor; cbn; auto using Forall2_upd. Qed.

  Lemma step_rel g g' o o' : Raligner g g' -> Rop o o' -> Raligner (step g o) (step g' o').
  Proof.
    intros Hg Ho. destruct Ho as [ln ln' col len Hl|ln ln' col len idx Hl|k ln ln' col len Hl|o Hshape].
    - simpl. apply all_rel; [|apply observe_rel; auto].
      intros. apply set_loc_rel; auto. repeat split; auto.
    - simpl. apply all_rel; [|apply observe_rel; auto].
      intros. apply set_loc_rel; auto. repeat split; auto.
    - simpl. apply one_rel; auto. intros. apply set_loc_rel; auto. repeat split; auto.
    - destruct o; try tauto; simpl;
        try (apply one_rel; auto); try (apply all_rel; auto);
        auto using start_item_rel, finish_item_rel, finish_group_rel, add_width_rel,
          clear_had_rel, set_no_auto_rel, gather_rel;
        intros a a' Ha.
      apply note_rel; auto. destruct Hg; auto.
  Qed.

  Hypothesis R00 : R 0 0.

  Lemma default_rel : Ralign align_default align_default.
  Proof. constructor; cbn; auto; constructor. Qed.

  Lemma new_rel : Raligner aligner_new aligner_new.
  Proof.
    constructor; cbn; auto; [constructor|].
    repeat (constructor; [exact default_rel|]). constructor.
  Qed.

  Lemma run_rel ops ops' : Forall2 Rop ops ops' -> Raligner (run ops) (run ops').
  Proof.
    unfold run. generalize new_rel. generalize aligner_new at 1 3. generalize aligner_new.
    intros g' g Hg H. revert g g' Hg.
    induction H; simpl; intros; auto using step_rel.
  Qed.
End GapClass.

(* align_groups_stable: if two call sequences differ only in line numbers, and the line numbers
   are related by a relation that preserves order and the "more than one line apart" test (the
   gap class), then the aligner computes the same paddings, entry for entry. *)
Theorem align_lines_only_by_gap_class (R : N -> N -> Prop) :
  (forall a a' b b', R a a' -> R b b' -> (a <? b) = (a' <? b')) ->
  (forall a a' b b', R a a' -> R b b' -> (1 <? b - a) = (1 <? b' - a')) ->
  R 0 0 ->
  forall ops ops', Forall2 (Rop R) ops ops' ->
  Forall2 (fun e e' : loc * (N * padkind) =>
             R (l_line (fst e)) (l_line (fst e')) /\ l_col (fst e) = l_col (fst e') /\
             l_len (fst e) = l_len (fst e') /\ l_dup (fst e) = l_dup (fst e') /\ snd e = snd e')
          (g_additions (run ops)) (g_additions (run ops')).
Proof.
  intros Hlt Hgap H0 ops ops' Hops.
  pose proof (run_rel R Hlt Hgap H0 ops ops' Hops) as [Hadd _ _].
  induction Hadd as [|e e' m m' [(H1 & H2 & H3 & H4) Hv] Hm IH]; constructor; auto.
Qed.

(* ------------------------------------------------------------------ non-vacuity witnesses *)
Definition example_R (a b : N) : Prop := In (a, b) [(0, 0); (1, 1); (2, 2); (5, 4); (9, 6)].
Lemma example_R_gap_class :
  (forall a a' b b', example_R a a' -> example_R b b' -> (a <? b) = (a' <? b')) /\
  (forall a a' b b', example_R a a' -> example_R b b' -> (1 <? b - a) = (1 <? b' - a')) /\
  example_R 0 0.
Proof.
  unfold example_R. repeat split; try (simpl; tauto); intros a a' b b' Ha Hb; simpl in Ha, Hb;
    repeat (destruct Ha as [Ha|Ha]; [inversion Ha; subst; clear Ha|]); try tauto;
    repeat (destruct Hb as [Hb|Hb]; [inversion Hb; subst; clear Hb; try reflexivity|]); tauto.
Qed.
Definition example_ops (ln : N) : list op :=
  [OStart 0 Always; OToken 1 1 3; OFinishItemK 0; OStart 0 Always; OToken ln 1 2; OFinishItemK 0;
   OFinishGroup; OGather].
Lemma example_Rop : Forall2 (Rop example_R) (example_ops 5) (example_ops 4).
Proof. repeat constructor; unfold example_R; simpl; tauto. Qed.
