(* Model of crates/aligner/src/lib.rs (veryl_aligner), transcribed method by method.
   Definitions only (no proofs), so the model still evaluates when a proof breaks.

   Deviations from the Rust text, all behaviour-preserving for the properties stated here:
   - u32 / usize are unbounded N (overflow of a width sum needs a > 4 GiB source line); the
     one subtraction that could underflow, [max_width - width] in finish_group, is modelled
     by truncated N subtraction and AlignProofs.rest_le_max shows it never truncates;
   - [Location.source] is dropped: every token of one file carries the same TokenSource;
   - [Align.index] is dropped: it is only ever incremented, never read;
   - HashMap<Location, (u32, PadKind)> is an association list with at most one entry per
     key (insertion replaces the value in place).  Iteration order of a HashMap is
     arbitrary; the only iteration, gather_additions, combines with + and PadKind::merge,
     which are commutative and associative (AlignProofs.pk_merge_comm / pk_merge_assoc), and
     the correspondence check compares the maps sorted by key. *)
From Coq Require Export List NArith Bool Lia.
Export ListNotations.
Open Scope N_scope.

Inductive padkind := Always | IfBreak | IfFlat.

(* PadKind::merge *)
Definition pk_merge (a b : padkind) : padkind :=
  match a, b with
  | Always, _ | _, Always => Always
  | IfBreak, IfBreak => IfBreak
  | IfFlat, IfFlat => IfFlat
  | IfBreak, IfFlat | IfFlat, IfBreak => Always
  end.

Record loc := mkLoc { l_line : N; l_col : N; l_len : N; l_dup : option N }.

Definition opt_eqb (a b : option N) : bool :=
  match a, b with
  | None, None => true
  | Some x, Some y => x =? y
  | _, _ => false
  end.

Definition loc_eqb (a b : loc) : bool :=
  (l_line a =? l_line b) && (l_col a =? l_col b) && (l_len a =? l_len b)
  && opt_eqb (l_dup a) (l_dup b).

Definition amap := list (loc * (N * padkind)).

(* HashMap::insert *)
Fixpoint amap_insert (k : loc) (v : N * padkind) (m : amap) : amap :=
  match m with
  | [] => [(k, v)]
  | (k', v') :: r => if loc_eqb k k' then (k, v) :: r else (k', v') :: amap_insert k v r
  end.

(* entry(k).and_modify(|(val, kd)| { *val += w; *kd = kd.merge(kind) }).or_insert((w, kind)) *)
Fixpoint amap_upsert (k : loc) (v : N * padkind) (m : amap) : amap :=
  match m with
  | [] => [(k, v)]
  | (k', v') :: r =>
      if loc_eqb k k' then (k', (fst v' + fst v, pk_merge (snd v') (snd v))) :: r
      else (k', v') :: amap_upsert k v r
  end.

Record align := mkAlign {
  enable : bool;
  pad_kind : padkind;
  max_width : N;
  width : N;
  line : N;
  had_item : bool;                       (* had_item_in_statement *)
  rest : list (loc * N * padkind);
  additions : amap;
  no_auto : bool;                        (* disable_auto_finish *)
  last_loc : option loc                  (* last_location *)
}.

Definition align_default : align := mkAlign false Always 0 0 0 false [] [] false None.

Definition finish_group (a : align) : align :=
  mkAlign (enable a) (pad_kind a) 0 (width a) (line a) (had_item a) []
          (fold_left (fun m (it : loc * N * padkind) =>
                        let '(l, w, k) := it in amap_insert l (max_width a - w, k) m)
                     (rest a) (additions a))
          (no_auto a) (last_loc a).

Definition clear_had (a : align) : align :=
  mkAlign (enable a) (pad_kind a) (max_width a) (width a) (line a) false (rest a) (additions a)
          (no_auto a) (last_loc a).

(* the group-split test of finish_item: self.line > loc.line || loc.line - self.line > 1 *)
Definition split_here (cur loc_line : N) : bool := (loc_line <? cur) || (1 <? loc_line - cur).

Definition finish_item (a : align) : align :=
  if enable a then
    let kind := pad_kind a in
    let a1 := mkAlign false Always (max_width a) (width a) (line a) (had_item a) (rest a)
                      (additions a) (no_auto a) (last_loc a) in
    match last_loc a with
    | Some l =>
        let a2 := if negb (no_auto a1) && split_here (line a1) (l_line l)
                  then finish_group a1 else a1 in
        mkAlign (enable a2) (pad_kind a2) (N.max (max_width a2) (width a2)) 0 (l_line l)
                (had_item a2) (rest a2 ++ [(l, width a2, kind)]) (additions a2) (no_auto a2)
                (last_loc a2)
    | None => a1
    end
  else a.

(* start_item / start_item_break_gated / start_item_flat_gated *)
Definition start_item (k : padkind) (a : align) : align :=
  if enable a then a
  else mkAlign true k (max_width a) 0 (line a) true (rest a) (additions a) (no_auto a)
               (last_loc a).

Definition note_statement_end (ln : N) (a : align) : align :=
  if had_item a then
    mkAlign (enable a) (pad_kind a) (max_width a) (width a)
            (if line a <? ln then ln else line a) false (rest a) (additions a) (no_auto a)
            (last_loc a)
  else a.

Definition set_loc (w : N) (l : loc) (a : align) : align :=
  if enable a then
    mkAlign (enable a) (pad_kind a) (max_width a) (width a + w) (line a) (had_item a) (rest a)
            (additions a) (no_auto a) (Some l)
  else a.

(* Align::token *)
Definition a_token (l : loc) (a : align) : align := set_loc (l_len l) l a.
(* Align::dummy_location / dummy_token *)
Definition a_dummy (l : loc) (a : align) : align := set_loc 0 l a.
(* Align::add_width / space *)
Definition a_add_width (w : N) (a : align) : align :=
  if enable a then
    mkAlign (enable a) (pad_kind a) (max_width a) (width a + w) (line a) (had_item a) (rest a)
            (additions a) (no_auto a) (last_loc a)
  else a.

Definition set_no_auto (b : bool) (a : align) : align :=
  mkAlign (enable a) (pad_kind a) (max_width a) (width a) (line a) (had_item a) (rest a)
          (additions a) b (last_loc a).

(* ------------------------------------------------------------------ Aligner *)

Definition COUNT : nat := 18.

Record aligner := mkAligner {
  g_additions : amap;
  aligns : list align;          (* length COUNT *)
  latest : N                    (* latest_observed_line *)
}.

Definition aligner_new : aligner := mkAligner [] (repeat align_default COUNT) 0.

Fixpoint upd (k : nat) (f : align -> align) (l : list align) : list align :=
  match l with
  | [] => []
  | x :: r => match k with O => f x :: r | S k' => x :: upd k' f r end
  end.

Definition all_aligns (f : align -> align) (g : aligner) : aligner :=
  mkAligner (g_additions g) (map f (aligns g)) (latest g).
Definition one_align (k : N) (f : align -> align) (g : aligner) : aligner :=
  mkAligner (g_additions g) (upd (N.to_nat k) f (aligns g)) (latest g).
Definition observe_line (ln : N) (g : aligner) : aligner :=
  mkAligner (g_additions g) (aligns g) (if latest g <? ln then ln else latest g).

Definition gather_additions (g : aligner) : aligner :=
  mkAligner (fold_left (fun m a => fold_left (fun m' (e : loc * (N * padkind)) =>
                                                amap_upsert (fst e) (snd e) m')
                                             (additions a) m)
                       (aligns g) (g_additions g))
            (aligns g) (latest g).

(* the public API, one constructor per callable method (per-kind calls go through the public
   field Aligner::aligns[kind]) *)
Inductive op :=
| OStart (k : N) (pk : padkind)
| OFinishItemK (k : N)
| OFinishItem
| OFinishGroup
| OFinishGroupFor (k : N)
| OToken (ln col len : N)
| ODupToken (ln col len idx : N)
| ODummyLoc (k : N) (ln col len : N)        (* dummy_location / dummy_token *)
| OAddWidth (k : N) (w : N)
| OSpace (n : N)
| ONoteEnd
| OClearHad
| OClearHadK (k : N)
| OSetNoAuto (b : bool)                     (* enable_auto_finish / disable_auto_finish *)
| OSetNoAutoK (k : N) (b : bool)
| OGather.

Definition step (g : aligner) (o : op) : aligner :=
  match o with
  | OStart k pk => one_align k (start_item pk) g
  | OFinishItemK k => one_align k finish_item g
  | OFinishItem => all_aligns finish_item g
  | OFinishGroup => all_aligns finish_group g
  | OFinishGroupFor k => one_align k (fun a => finish_group (finish_item a)) g
  | OToken ln col len =>
      all_aligns (a_token (mkLoc ln col len None)) (observe_line ln g)
  | ODupToken ln col len idx =>
      all_aligns (a_token (mkLoc ln col len (Some idx))) (observe_line ln g)
  | ODummyLoc k ln col len => one_align k (a_dummy (mkLoc ln col len None)) g
  | OAddWidth k w => one_align k (a_add_width w) g
  | OSpace n => all_aligns (a_add_width n) g
  | ONoteEnd => all_aligns (note_statement_end (latest g)) g
  | OClearHad => all_aligns clear_had g
  | OClearHadK k => one_align k clear_had g
  | OSetNoAuto b => all_aligns (set_no_auto b) g
  | OSetNoAutoK k b => one_align k (set_no_auto b) g
  | OGather => gather_additions g
  end.

Definition run (ops : list op) : aligner := fold_left step ops aligner_new.

(* observable result: Aligner::additions as (line, col, len, dup, width, kind) *)
Definition pk_code (k : padkind) : N := match k with Always => 0 | IfBreak => 1 | IfFlat => 2 end.
Definition show_additions (m : amap) : list (N * N * N * option N * N * N) :=
  map (fun e : loc * (N * padkind) =>
         let '(l, (w, k)) := e in (l_line l, l_col l, l_len l, l_dup l, w, pk_code k)) m.
Definition run_show (ops : list op) := show_additions (g_additions (run ops)).

(* ------------------------------------------------------------------ group arithmetic *)
(* what finish_group computes for one group, as a function of the item widths *)
Definition maxw (ws : list N) : N := fold_left N.max ws 0.
Definition pads (ws : list N) : list N := map (fun w => maxw ws - w) ws.
Definition widths (r : list (loc * N * padkind)) : list N := map (fun it => snd (fst it)) r.
