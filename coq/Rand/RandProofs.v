(* Proofs about random_table's range draws. *)
From Coq Require Import List NArith ZArith Bool Lia.
From VV Require Import Rand.Generated Rand.RandModel.
Import ListNotations.
Open Scope N_scope.

Lemma M64_eq : M64 = 2 ^ 64. Proof. reflexivity. Qed.

(* effective width: bits of the payload that the mask keeps *)
Definition ew (width : N) : N := N.min width 64.

Lemma mask_ones : forall w, mask w = N.ones (ew w).
Proof.
  intros w. unfold mask, ew. destruct (N.leb_spec 64 w).
  - rewrite N.min_r by auto. reflexivity.
  - rewrite N.min_l by lia. unfold N.ones. rewrite N.sub_1_r. reflexivity.
Qed.

Lemma land_mask : forall x w, N.land x (mask w) = x mod 2 ^ ew w.
Proof. intros. rewrite mask_ones. apply N.land_ones. Qed.

Lemma land_mask_lt : forall x w, N.land x (mask w) < 2 ^ ew w.
Proof. intros. rewrite land_mask. apply N.mod_lt, N.pow_nonzero. discriminate. Qed.

Lemma pow2_pos : forall k, 0 < 2 ^ k.
Proof. intros. apply N.neq_0_lt_0, N.pow_nonzero. discriminate. Qed.
Lemma zpow2_pos : forall k, (0 < 2 ^ Z.of_N k)%Z.
Proof. intros. apply Z.pow_pos_nonneg; lia. Qed.

Lemma pow2_split : forall a b, a <= b -> 2 ^ b = 2 ^ a * 2 ^ (b - a).
Proof. intros. rewrite <- N.pow_add_r. f_equal. lia. Qed.

Lemma as_i64_cases : forall x, x < M64 ->
  as_i64 x = if x <? 2 ^ 63 then Z.of_N x else (Z.of_N x - 2 ^ 64)%Z.
Proof. intros. unfold as_i64. reflexivity. Qed.

(* the value sign_extend computes for a payload already reduced to w bits *)
Definition sx (w raw : N) : Z :=
  if raw <? 2 ^ (w - 1) then Z.of_N raw else (Z.of_N raw - 2 ^ Z.of_N w)%Z.

Lemma sign_extend_small : forall w raw, 0 < w < 64 -> raw < 2 ^ w -> sign_extend raw w = sx w raw.
Proof.
  intros w raw Hw Hr. unfold sign_extend, sx.
  replace (w =? 0) with false by (symmetry; apply N.eqb_neq; lia).
  replace (64 <=? w) with false by (symmetry; apply N.leb_gt; lia).
  cbn [orb]. set (s := 64 - w).
  assert (E64 : 2 ^ 64 = 2 ^ w * 2 ^ s) by (unfold s; apply pow2_split; lia).
  assert (E63 : 2 ^ 63 = 2 ^ (w - 1) * 2 ^ s).
  { unfold s. rewrite <- N.pow_add_r. f_equal. lia. }
  pose proof (pow2_pos s) as Ps. pose proof (pow2_pos w) as Pw. pose proof (pow2_pos (w - 1)) as Pw1.
  rewrite N.shiftl_mul_pow2, M64_eq.
  rewrite N.mod_small by (rewrite E64; nia).
  rewrite as_i64_cases by (rewrite M64_eq, E64; nia).
  rewrite Z.shiftr_div_pow2 by lia.
  assert (Zs : (2 ^ Z.of_N s)%Z = Z.of_N (2 ^ s)) by (rewrite N2Z.inj_pow; reflexivity).
  assert (Zw : (2 ^ Z.of_N w)%Z = Z.of_N (2 ^ w)) by (rewrite N2Z.inj_pow; reflexivity).
  destruct (N.ltb_spec raw (2 ^ (w - 1))) as [L|L].
  - replace (raw * 2 ^ s <? 2 ^ 63) with true by (symmetry; apply N.ltb_lt; rewrite E63; nia).
    rewrite N2Z.inj_mul, Zs. apply Z.div_mul. lia.
  - replace (raw * 2 ^ s <? 2 ^ 63) with false by (symmetry; apply N.ltb_ge; rewrite E63; nia).
    rewrite Zs, Zw.
    replace (Z.of_N (raw * 2 ^ s) - 2 ^ 64)%Z with ((Z.of_N raw - Z.of_N (2 ^ w)) * Z.of_N (2 ^ s))%Z.
    apply Z.div_mul. lia.
    change (2 ^ 64)%Z with (Z.of_N (2 ^ 64)). rewrite E64. lia.
Qed.

(* the set of values a width-bit signed payload can denote *)
Definition in_range (w : N) (z : Z) : Prop :=
  if w =? 0 then z = 0%Z else (- 2 ^ Z.of_N (ew w - 1) <= z < 2 ^ Z.of_N (ew w - 1))%Z.

Lemma zpow_N : forall k, (2 ^ Z.of_N k)%Z = Z.of_N (2 ^ k).
Proof. intros. rewrite N2Z.inj_pow. reflexivity. Qed.

Lemma pow2_double : forall w, 0 < w -> 2 ^ w = 2 * 2 ^ (w - 1).
Proof. intros. rewrite <- N.pow_succ_r'. f_equal. lia. Qed.

Lemma sx_range : forall w raw, 0 < w -> raw < 2 ^ w ->
  (- 2 ^ Z.of_N (w - 1) <= sx w raw < 2 ^ Z.of_N (w - 1))%Z.
Proof.
  intros w raw Hw Hr. unfold sx. rewrite !zpow_N. pose proof (pow2_double w Hw).
  destruct (N.ltb_spec raw (2 ^ (w - 1))); lia.
Qed.

(* sign_extend of a masked payload, all widths *)
Lemma sign_extend_masked : forall w x, 0 < w ->
  sign_extend (N.land x (mask w)) w = sx (ew w) (N.land x (mask w)).
Proof.
  intros w x Hw. pose proof (land_mask_lt x w) as B.
  destruct (N.leb_spec 64 w) as [L|L].
  - unfold sign_extend. replace (64 <=? w) with true by (symmetry; apply N.leb_le; auto).
    rewrite orb_true_r. unfold ew in *. rewrite N.min_r in * by auto.
    rewrite as_i64_cases by (rewrite M64_eq; auto). unfold sx. reflexivity.
  - unfold ew in *. rewrite N.min_l in * by lia. apply sign_extend_small; auto; lia.
Qed.

Lemma sign_extend_in_range : forall w x, in_range w (sign_extend (N.land x (mask w)) w).
Proof.
  intros w x. unfold in_range. destruct (N.eqb_spec w 0) as [->|Hw].
  - change (mask 0) with 0. rewrite N.land_0_r. reflexivity.
  - rewrite sign_extend_masked by lia. apply sx_range. unfold ew; lia. apply land_mask_lt.
Qed.

(* truncating a value of the range to the payload and reading it back is the identity *)
Lemma sign_extend_roundtrip : forall w s, in_range w s ->
  sign_extend (N.land (as_u64 s) (mask w)) w = s.
Proof.
  intros w s R. unfold in_range in R. destruct (N.eqb_spec w 0) as [->|Hw].
  - subst s. reflexivity.
  - rewrite sign_extend_masked by lia. rewrite land_mask.
    set (k := ew w) in *. assert (Hk : 0 < k <= 64) by (unfold k, ew; lia).
    unfold as_u64.
    assert (E : Z.of_N (Z.to_N (s mod 18446744073709551616) mod 2 ^ k) = (s mod 2 ^ Z.of_N k)%Z).
    { rewrite N2Z.inj_mod, Z2N.id by (apply Z.mod_pos_bound; lia).
      rewrite <- zpow_N.
      change 18446744073709551616%Z with (2 ^ 64)%Z.
      replace (2 ^ 64)%Z with (2 ^ Z.of_N k * 2 ^ (64 - Z.of_N k))%Z
        by (rewrite <- Z.pow_add_r by lia; f_equal; lia).
      rewrite Z.rem_mul_r by (try apply Z.pow_pos_nonneg; try apply Z.pow_nonzero; lia).
      rewrite Z.mul_comm, Z.mod_add by (apply Z.pow_nonzero; lia).
      apply Z.mod_mod. apply Z.pow_nonzero; lia. }
    unfold sx.
    set (v := Z.to_N (s mod 18446744073709551616) mod 2 ^ k) in *.
    pose proof (pow2_double k ltac:(lia)) as D.
    assert (Dz : (2 ^ Z.of_N k = 2 * 2 ^ Z.of_N (k - 1))%Z) by (rewrite !zpow_N; lia).
    pose proof (zpow2_pos (k - 1)) as P1.
    destruct (Z.lt_ge_cases s 0) as [Neg|Pos].
    + assert (Ev : (s mod 2 ^ Z.of_N k = s + 2 ^ Z.of_N k)%Z).
      { symmetry. apply Z.mod_unique with (q := (-1)%Z); lia. }
      replace (v <? 2 ^ (k - 1)) with false.
      2:{ symmetry. apply N.ltb_ge. apply N2Z.inj_le. rewrite E, Ev, <- zpow_N. lia. }
      rewrite E, Ev. lia.
    + assert (Ev : (s mod 2 ^ Z.of_N k = s)%Z) by (apply Z.mod_small; lia).
      replace (v <? 2 ^ (k - 1)) with true.
      2:{ symmetry. apply N.ltb_lt. apply N2Z.inj_lt. rewrite E, Ev, <- zpow_N. lia. }
      rewrite E, Ev. reflexivity.
Qed.

Lemma in_range_convex : forall w lo hi s, in_range w lo -> in_range w hi -> (lo <= s <= hi)%Z -> in_range w s.
Proof. intros w lo hi s. unfold in_range. destruct (w =? 0); lia. Qed.

Section Bounds.
  Variable sample_u : N -> N -> N.
  Variable sample_i : Z -> Z -> Z.
  Hypothesis sample_u_ok : forall lo hi, lo <= hi -> lo <= sample_u lo hi <= hi.
  Hypothesis sample_i_ok : forall lo hi, (lo <= hi)%Z -> (lo <= sample_i lo hi <= hi)%Z.

  Theorem get_in_bounds : forall width, get sample_u width <= mask width.
  Proof. intros. unfold get. apply sample_u_ok. lia. Qed.

  (* every range draw, read back per signedness, lies between the two requested bounds
     (whichever order they were given in), and fits the width *)
  Theorem get_range_in_bounds : forall min max width signed,
    let v := get_range sample_u sample_i min max width signed in
    let a := interp signed width (N.land min (mask width)) in
    let b := interp signed width (N.land max (mask width)) in
    (Z.min a b <= interp signed width v <= Z.max a b)%Z /\ v <= mask width.
  Proof.
    intros min max width signed. cbv zeta. unfold get_range, interp. destruct signed.
    - set (a := sign_extend (N.land min (mask width)) width).
      set (b := sign_extend (N.land max (mask width)) width).
      pose proof (sign_extend_in_range width min) as Ra. fold a in Ra.
      pose proof (sign_extend_in_range width max) as Rb. fold b in Rb.
      assert (Hm : forall y, N.land y (mask width) <= mask width).
      { intros y. rewrite land_mask, mask_ones, N.ones_equiv.
        pose proof (N.mod_lt y (2 ^ ew width) ltac:(apply N.pow_nonzero; discriminate)). lia. }
      destruct (Z.leb_spec a b) as [L|L].
      + pose proof (sample_i_ok a b L) as S.
        rewrite sign_extend_roundtrip by (apply (in_range_convex width a b); auto). split; [lia | apply Hm].
      + pose proof (sample_i_ok b a ltac:(lia)) as S.
        rewrite sign_extend_roundtrip by (apply (in_range_convex width b a); auto).
        split; [lia | apply Hm].
    - set (a := N.land min (mask width)). set (b := N.land max (mask width)).
      assert (Ha : a <= mask width).
      { unfold a. rewrite land_mask, mask_ones, N.ones_equiv.
        pose proof (N.mod_lt min (2 ^ ew width) ltac:(apply N.pow_nonzero; discriminate)). lia. }
      assert (Hb : b <= mask width).
      { unfold b. rewrite land_mask, mask_ones, N.ones_equiv.
        pose proof (N.mod_lt max (2 ^ ew width) ltac:(apply N.pow_nonzero; discriminate)). lia. }
      destruct (N.leb_spec a b) as [L|L].
      + pose proof (sample_u_ok a b L). split; lia.
      + pose proof (sample_u_ok b a ltac:(lia)). split; lia.
  Qed.
End Bounds.

(* ------------------------------------------------------------------ seeds *)
(* instance_seed hashes base, test name and instance name as one byte string; derive_seed hashes
   base and handle name: both are functions of (base, names) only *)
Lemma fnv_app : forall p h x y, fnv p h (x ++ y) = fnv p (fnv p h x) y.
Proof. intros. unfold fnv. apply fold_left_app. Qed.

Lemma le_bytes8_length : forall x, length (le_bytes8 x) = 8%nat.
Proof. reflexivity. Qed.

Lemma le_bytes8_byte : forall x b, In b (le_bytes8 x) -> b < 256.
Proof.
  intros x b H. unfold le_bytes8 in H. apply in_map_iff in H. destruct H as [i [<- _]].
  apply N.mod_lt. discriminate.
Qed.

(* little-endian: the bytes rebuild the 64-bit seed *)
Lemma le_bytes8_value : forall x, x < M64 ->
  fold_right (fun b acc => b + 256 * acc) 0 (le_bytes8 x) = x.
Proof.
  intros x Hx. unfold le_bytes8. cbn [seq map fold_right].
  change (8 * N.of_nat 0) with 0. change (8 * N.of_nat 1) with 8. change (8 * N.of_nat 2) with 16.
  change (8 * N.of_nat 3) with 24. change (8 * N.of_nat 4) with 32. change (8 * N.of_nat 5) with 40.
  change (8 * N.of_nat 6) with 48. change (8 * N.of_nat 7) with 56.
  rewrite M64_eq in Hx.
  change (2 ^ 0) with 1. change (2 ^ 8) with 256. change (2 ^ 16) with (256 * 256).
  change (2 ^ 24) with (256 * 256 * 256). change (2 ^ 32) with (256 * 256 * 256 * 256).
  change (2 ^ 40) with (256 * 256 * 256 * 256 * 256). change (2 ^ 48) with (256 * 256 * 256 * 256 * 256 * 256).
  change (2 ^ 56) with (256 * 256 * 256 * 256 * 256 * 256 * 256).
  change (2 ^ 64) with (256 * 256 * 256 * 256 * 256 * 256 * 256 * 256) in Hx.
  rewrite N.div_1_r, N.mul_0_r, N.add_0_r.
  rewrite <- !N.div_div by discriminate.
  set (x1 := x / 256). set (x2 := x1 / 256). set (x3 := x2 / 256). set (x4 := x3 / 256).
  set (x5 := x4 / 256). set (x6 := x5 / 256). set (x7 := x6 / 256).
  pose proof (N.div_mod x 256 ltac:(discriminate)). pose proof (N.div_mod x1 256 ltac:(discriminate)).
  pose proof (N.div_mod x2 256 ltac:(discriminate)). pose proof (N.div_mod x3 256 ltac:(discriminate)).
  pose proof (N.div_mod x4 256 ltac:(discriminate)). pose proof (N.div_mod x5 256 ltac:(discriminate)).
  pose proof (N.div_mod x6 256 ltac:(discriminate)).
  assert (x7 < 256).
  { unfold x7, x6, x5, x4, x3, x2, x1. rewrite !N.div_div by discriminate.
    apply N.div_lt_upper_bound. discriminate. exact Hx. }
  rewrite (N.mod_small x7) by auto.
  lia.
Qed.

Lemma le_bytes8_spec : forall x, x < M64 ->
  length (le_bytes8 x) = 8%nat /\ fold_right (fun b acc => b + 256 * acc) 0 (le_bytes8 x) = x.
Proof. intros x H. split. apply le_bytes8_length. apply le_bytes8_value. exact H. Qed.
