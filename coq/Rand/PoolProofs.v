From Coq Require Import List NArith Bool Permutation Lia.
From VV Require Import Rand.PoolModel.
Import ListNotations.

Section PoolProofs.
  Variables test key proto result : Type.
  Variable key_eqb : key -> key -> bool.
  Variable key_of : test -> key.
  Variable build : test -> proto.
  Variable exec : test -> proto -> N -> result.
  Hypothesis key_eqb_eq : forall a b, key_eqb a b = true <-> a = b.
  (* the memo cache is transparent: what is stored under a key is what any test with that key
     would build (the proto depends on the top module only) *)
  Hypothesis build_by_key : forall t t', key_of t = key_of t' -> build t = build t'.

  Definition cache_ok (c : cache key proto) : Prop :=
    forall k p, lookup key proto key_eqb c k = Some p -> forall t, key_of t = k -> p = build t.

  Lemma run_one_solo : forall seed c t, cache_ok c ->
    snd (run_one test key proto result key_eqb key_of build exec seed c t) = exec t (build t) seed /\
    cache_ok (fst (run_one test key proto result key_eqb key_of build exec seed c t)).
  Proof.
    intros seed c t Hc. unfold run_one.
    destruct (lookup key proto key_eqb c (key_of t)) as [p|] eqn:E; cbn [fst snd].
    - split; auto. rewrite (Hc _ _ E t eq_refl). reflexivity.
    - split; auto. intros k p H t' Hk. cbn [lookup] in H.
      destruct (key_eqb (key_of t) k) eqn:Ek.
      + injection H as <-. apply key_eqb_eq in Ek. apply build_by_key. congruence.
      + eapply Hc; eauto.
  Qed.

  Lemma pool_run_solo : forall seed queue sched cs, (forall w, cache_ok (cs w)) ->
    pool_run test key proto result key_eqb key_of build exec seed cs queue sched =
    map (solo test proto result build exec seed) queue.
  Proof.
    induction queue as [|t q IH]; intros sched cs Hcs.
    - reflexivity.
    - cbn [pool_run map].
      destruct (run_one_solo seed (cs (hd O sched)) t (Hcs _)) as [Hr Hc'].
      destruct (run_one test key proto result key_eqb key_of build exec seed (cs (hd 0%nat sched)) t) as [c' r].
      cbn [fst snd] in *. unfold solo at 1. rewrite Hr. f_equal.
      apply IH. intros w. unfold set_cache. destruct (Nat.eqb w (hd 0%nat sched)); auto.
  Qed.

  (* Whatever the dispatch order (any permutation of the tests), the number of workers and the
     worker that takes each test, the collected reports are, as a multiset, one solo report per
     test. *)
  Theorem pool_schedule_independent : forall seed tests queue sched,
    Permutation queue tests ->
    Permutation
      (pool_run test key proto result key_eqb key_of build exec seed (fun _ => []) queue sched)
      (map (solo test proto result build exec seed) tests).
  Proof.
    intros seed tests queue sched P.
    rewrite pool_run_solo.
    - apply Permutation_map. exact P.
    - intros w k p H. discriminate.
  Qed.

  (* two runs with different dispatch orders / schedules report the same multiset *)
  Corollary pool_two_schedules : forall seed tests q1 s1 q2 s2,
    Permutation q1 tests -> Permutation q2 tests ->
    Permutation
      (pool_run test key proto result key_eqb key_of build exec seed (fun _ => []) q1 s1)
      (pool_run test key proto result key_eqb key_of build exec seed (fun _ => []) q2 s2).
  Proof.
    intros. eapply Permutation_trans. apply pool_schedule_independent; eauto.
    apply Permutation_sym. apply pool_schedule_independent; eauto.
  Qed.
End PoolProofs.
