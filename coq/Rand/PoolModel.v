(* Model of the `veryl test` worker pool (crates/veryl/src/cmd_test.rs, native tests):
   a shared queue in dispatch order (longest-first by the recorded timings = some permutation of
   the tests), k worker threads, each with a private memo cache (ProtoModuleCache keyed by the top
   module), one report per finished test pushed under a mutex.

   A schedule is the list of worker ids that take the successive queue heads; reports are
   collected in that order (the completion order is some further permutation, and the theorem is
   stated up to permutation).  Definitions only. *)
From Coq Require Import List NArith Bool.
Import ListNotations.

Section Pool.
  Variables test key proto result : Type.
  Variable key_eqb : key -> key -> bool.
  Variable key_of : test -> key.            (* the cache key of a test (its top module) *)
  Variable build : test -> proto.           (* prepare_native_test on a cache miss (Conv::conv) *)
  Variable exec : test -> proto -> N -> result.   (* run_native_testbench: verdict + captured output *)

  Definition cache := list (key * proto).

  Fixpoint lookup (c : cache) (k : key) : option proto :=
    match c with
    | [] => None
    | (k', p) :: c' => if key_eqb k' k then Some p else lookup c' k
    end.

  (* one worker takes test t: cache hit reuses the stored proto, a miss builds and stores it *)
  Definition run_one (seed : N) (c : cache) (t : test) : cache * result :=
    match lookup c (key_of t) with
    | Some p => (c, exec t p seed)
    | None => let p := build t in ((key_of t, p) :: c, exec t p seed)
    end.

  Definition caches := nat -> cache.
  Definition set_cache (cs : caches) (w : nat) (c : cache) : caches :=
    fun w' => if Nat.eqb w' w then c else cs w'.

  (* queue: tests in dispatch order; sched: which worker pops each of them *)
  Fixpoint pool_run (seed : N) (cs : caches) (queue : list test) (sched : list nat) : list (test * result) :=
    match queue with
    | [] => []
    | t :: q =>
        let w := hd O sched in
        let '(c', r) := run_one seed (cs w) t in
        (t, r) :: pool_run seed (set_cache cs w c') q (tl sched)
    end.

  (* what the test means on its own: built fresh, run with the seed *)
  Definition solo (seed : N) (t : test) : test * result := (t, exec t (build t) seed).
End Pool.
