(* Gallina transcription of crates/simulator/src/random_table.rs (mask, sign_extend, get,
   get_range, derive_seed) and of instance_seed in crates/simulator/src/component/runtime.rs.

   u64 / i64 arithmetic is explicit: a u64 is an N < 2^64, an i64 a Z in [-2^63, 2^63); casts
   (`as i64`, `as u64`), `<<` on u64 (drops the high bits) and `>>` on i64 (arithmetic) are
   written out.  The sampler `rng.random_range(lo..=hi)` is a Section variable: the theorems
   assume only that it returns a value in the closed interval it is asked for.
   The FNV constants come from Rand/Generated.v (written by the translator in vp/props/c32.py
   from the Rust source on every run).  Definitions only. *)
From Coq Require Import List NArith ZArith Bool.
From VV Require Import Rand.Generated.
Import ListNotations.
Open Scope N_scope.

Definition M64 : N := 18446744073709551616.       (* 2^64 *)

(* fn mask(width: u32) -> u64 *)
Definition mask (width : N) : N :=
  if 64 <=? width then M64 - 1 else N.shiftl 1 width - 1.

(* x as i64 *)
Definition as_i64 (x : N) : Z :=
  if x <? 9223372036854775808 then Z.of_N x else (Z.of_N x - 18446744073709551616)%Z.
(* s as u64 *)
Definition as_u64 (s : Z) : N := Z.to_N (s mod 18446744073709551616)%Z.

(* fn sign_extend(raw: u64, width: u32) -> i64 *)
Definition sign_extend (raw width : N) : Z :=
  if (width =? 0) || (64 <=? width) then as_i64 raw
  else
    let shift := 64 - width in
    Z.shiftr (as_i64 (N.shiftl raw shift mod M64)) (Z.of_N shift).

Section Sampler.
  (* rng.random_range(lo..=hi) for u64 and for i64 *)
  Variable sample_u : N -> N -> N.
  Variable sample_i : Z -> Z -> Z.

  (* pub fn get(key, width, signed): payload of the value *)
  Definition get (width : N) : N := sample_u 0 (mask width).

  (* pub fn get_range(key, min, max, width, signed): payload of the value *)
  Definition get_range (min max width : N) (signed : bool) : N :=
    let m := mask width in
    if signed then
      let a := sign_extend (N.land min m) width in
      let b := sign_extend (N.land max m) width in
      let '(lo, hi) := if (a <=? b)%Z then (a, b) else (b, a) in
      let sample := sample_i lo hi in
      N.land (as_u64 sample) m
    else
      let a := N.land min m in
      let b := N.land max m in
      let '(lo, hi) := if a <=? b then (a, b) else (b, a) in
      sample_u lo hi.
End Sampler.

(* how the testbench reads a width-bit payload back, per signedness *)
Definition interp (signed : bool) (width v : N) : Z :=
  if signed then sign_extend v width else Z.of_N v.

(* ------------------------------------------------------------------ seeds: FNV-1a *)
Definition fnv_step (prime h b : N) : N := (N.lxor h b * prime) mod M64.
Definition fnv (prime h : N) (bytes : list N) : N := fold_left (fnv_step prime) bytes h.
(* u64::to_le_bytes *)
Definition le_bytes8 (x : N) : list N := map (fun i => (x / 2 ^ (8 * N.of_nat i)) mod 256) (seq 0 8).

(* random_table::derive_seed(base, key): key's NAME bytes, never its interned id *)
Definition derive_seed (base : N) (name : list N) : N := fnv FNV_PRIME FNV_OFFSET (le_bytes8 base ++ name).
(* component::runtime::instance_seed(base, test_name, instance) *)
Definition instance_seed (base : N) (test_name instance : list N) : N :=
  fnv RT_FNV_PRIME RT_FNV_OFFSET (le_bytes8 base ++ test_name ++ instance).
