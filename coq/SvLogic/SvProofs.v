(* Proofs about the svLogicVecVal conversions and the waveform bit renderings (C36). *)
From VV Require Import BV.Ops1800 BV.BitLemmas Value.ValueModel Value.SpecGlue SvLogic.SvModel.
Open Scope N_scope.

(* payload and mask fit the width; a U64 holds at most 64 bits *)
Definition fits (v : value) : Prop :=
  pl v < 2 ^ wd v /\ mk v < 2 ^ wd v /\ (rp v = RU -> wd v <= 64).
(* every word is a pair of u32 *)
Definition words_ok (ws : list (N * N)) : Prop :=
  Forall (fun ab => fst ab < W32 /\ snd ab < W32) ws.

(* ------------------------------------------------------------------ digits *)
Lemma LOW32_ones : LOW32 = ones 32.
Proof. reflexivity. Qed.

Lemma tb_digit32 x i j : N.testbit (digit32 x i) j = (j <? 32) && N.testbit x (j + 32 * i).
Proof. unfold digit32, W32. rewrite tb_mod, N.shiftr_spec by apply N.le_0_l. reflexivity. Qed.

Lemma digit32_0 x : digit32 x 0 = N.land x LOW32.
Proof. unfold digit32, W32. rewrite N.mul_0_r, N.shiftr_0_r, LOW32_ones, land_ones. reflexivity. Qed.

Lemma digit32_succ x i : digit32 x (N.succ i) = digit32 (N.shiftr x 32) i.
Proof.
  unfold digit32. rewrite N.shiftr_shiftr. f_equal. f_equal. lia.
Qed.

Lemma digit32_lt x i : digit32 x i < W32.
Proof. unfold digit32, W32. apply N.mod_lt, N.pow_nonzero. discriminate. Qed.

(* ------------------------------------------------------------------ the two arms agree *)
Definition word_of (p m i : N) : N * N := (N.lxor (digit32 p i) (digit32 m i), digit32 m i).

Lemma to_sv_big_words n p m : to_sv_big n p m = map (fun i => word_of p m (N.of_nat i)) (seq 0 n).
Proof. reflexivity. Qed.

Theorem sv_arms_agree n : forall p m, to_sv_u64 n p m = to_sv_big n p m.
Proof.
  induction n as [|n IH]; intros p m; [reflexivity|].
  cbn [to_sv_u64]. rewrite IH. unfold to_sv_big. cbn [seq map]. change (N.of_nat 0) with 0.
  rewrite !digit32_0. f_equal.
  rewrite <- seq_shift, map_map. apply map_ext. intro i.
  rewrite Nat2N.inj_succ, !digit32_succ. reflexivity.
Qed.

Lemma to_sv_words v :
  to_sv v = map (fun i => word_of (pl v) (mk v) (N.of_nat i)) (seq 0 (N.to_nat (sv_words (wd v)))).
Proof. unfold to_sv. destruct (rp v); [rewrite sv_arms_agree|]; reflexivity. Qed.

(* ------------------------------------------------------------------ length *)
Theorem sv_length v : length (to_sv v) = N.to_nat (sv_words (wd v)).
Proof. rewrite to_sv_words, map_length, seq_length. reflexivity. Qed.

(* sv_words w = ceil (w / 32) *)
Theorem sv_words_ceil w : w <= 32 * sv_words w /\ 32 * sv_words w < w + 32.
Proof.
  unfold sv_words. pose proof (N.div_mod w 32 ltac:(discriminate)) as D.
  pose proof (N.mod_lt w 32 ltac:(discriminate)) as L.
  set (q := w / 32) in *; set (r := w mod 32) in *; clearbody q r; destruct (N.eqb_spec r 0); cbv beta iota; lia.
Qed.

Lemma sv_words_cover w k : k < w -> k / 32 < sv_words w.
Proof.
  intros H. destruct (sv_words_ceil w) as [C _].
  apply N.div_lt_upper_bound; [discriminate | lia].
Qed.

(* ------------------------------------------------------------------ Annex H, bit by bit *)
Lemma nth_map_seq {A} (f : nat -> A) n i d : (i < n)%nat -> nth i (map f (seq 0 n)) d = f i.
Proof.
  intros H. rewrite (nth_indep _ d (f O)) by (rewrite map_length, seq_length; assumption).
  rewrite map_nth, seq_nth by assumption. reflexivity.
Qed.

(* word i of the encoding, bit j: the Annex H code of bit 32 i + j of the value
   (bits at or above the width are 0 = (0,0), so the padding of the last word is zero) *)
Theorem annex_h_encoding v i j :
  (i < length (to_sv v))%nat -> j < 32 ->
  let '(a, b) := nth i (to_sv v) (0, 0) in
  (N.testbit a j, N.testbit b j) = annex_h (getbit (vecv v) (32 * N.of_nat i + j)).
Proof.
  intros Hi Hj. rewrite sv_length in Hi. rewrite to_sv_words, nth_map_seq by assumption.
  unfold word_of. rewrite N.lxor_spec, !tb_digit32.
  destruct (N.ltb_spec j 32); [|lia]. cbn [andb].
  replace (j + 32 * N.of_nat i) with (32 * N.of_nat i + j) by lia.
  unfold getbit, vecv. cbn [vp vm].
  destruct (N.testbit (mk v) _), (N.testbit (pl v) _); reflexivity.
Qed.

(* every bit of the value is in some word *)
Theorem annex_h_covers v k :
  k < wd v -> (N.to_nat (k / 32) < length (to_sv v))%nat /\ k mod 32 < 32 /\
              32 * N.of_nat (N.to_nat (k / 32)) + k mod 32 = k.
Proof.
  intros H. rewrite sv_length. pose proof (sv_words_cover _ _ H).
  repeat split; try lia.
  - apply N.mod_lt. discriminate.
  - rewrite N2Nat.id. symmetry. apply N.div_mod. discriminate.
Qed.

Lemma to_sv_words_ok v : words_ok (to_sv v).
Proof.
  rewrite to_sv_words. apply Forall_forall. intros ab H. apply in_map_iff in H.
  destruct H as (i & <- & _). unfold word_of. cbn [fst snd]. split.
  - unfold W32. apply lt_pow2_of_bits. intros k Hk. rewrite N.lxor_spec, !tb_digit32.
    destruct (N.ltb_spec k 32); [lia | reflexivity].
  - apply digit32_lt.
Qed.

(* ------------------------------------------------------------------ packing *)
Lemma lor_shift_mod P x n :
  x < W32 -> N.lor (N.shiftl (P mod 2 ^ (32 * n)) 32) x mod 2 ^ (32 * N.succ n)
             = N.lor (N.shiftl (P mod 2 ^ (32 * n)) 32) x.
Proof.
  intros Hx. apply mod_small_pow. apply lt_pow2_of_bits. intros k Hk.
  rewrite N.lor_spec, (tb_lt x 32 k Hx) by lia. rewrite N.shiftl_spec_high' by lia.
  rewrite tb_mod. destruct (N.ltb_spec (k - 32) (32 * n)); [lia | reflexivity].
Qed.

(* packing the words of (p, m) gives back p and m truncated to the words' bits *)
Lemma pack_to_sv n : forall p m,
  pack_big (to_sv_u64 n p m) = (p mod 2 ^ (32 * N.of_nat n), m mod 2 ^ (32 * N.of_nat n)).
Proof.
  induction n as [|n IH]; intros p m.
  - cbn. rewrite !N.mod_1_r. reflexivity.
  - cbn [to_sv_u64 pack_big fold_right]. fold (pack_big (to_sv_u64 n (N.shiftr p 32) (N.shiftr m 32))).
    rewrite IH. rewrite Nat2N.inj_succ.
    assert (X : forall q, N.lor (N.shiftl (N.shiftr q 32 mod 2 ^ (32 * N.of_nat n)) 32) (N.land q LOW32)
                          = q mod 2 ^ (32 * N.succ (N.of_nat n))).
    { intro q. apply N.bits_inj; intro k. rewrite N.lor_spec, LOW32_ones, land_ones, !tb_mod.
      destruct (N.ltb_spec k 32).
      - rewrite N.shiftl_spec_low by assumption.
        destruct (N.ltb_spec k (32 * N.succ (N.of_nat n))); [reflexivity | lia].
      - rewrite N.shiftl_spec_high' by assumption. rewrite tb_mod, N.shiftr_spec by apply N.le_0_l.
        replace (k - 32 + 32) with k by lia. rewrite Bool.orb_false_r.
        destruct (N.ltb_spec (k - 32) (32 * N.of_nat n)), (N.ltb_spec k (32 * N.succ (N.of_nat n)));
          try reflexivity; lia. }
    f_equal.
    + rewrite <- X. f_equal. rewrite N.lxor_assoc, N.lxor_nilpotent, N.lxor_0_r. reflexivity.
    + apply X.
Qed.

Lemma pack_u64_small ws : (length ws <= 2)%nat -> words_ok ws -> pack_u64 ws = pack_big ws.
Proof.
  intros L W. destruct ws as [|[a b] [|[c d] [|? ?]]]; cbn in L; try lia; try reflexivity.
  inversion W as [|? ? _ W2]. inversion W2 as [|? ? [Hc Hd] _]. cbn [fst snd] in *.
  cbn [pack_u64 pack_big fold_right]. rewrite !N.shiftl_0_l, !N.mod_0_l, !N.lor_0_l by discriminate.
  assert (S64 : forall q, q < W32 -> N.shiftl q 32 mod M64 = N.shiftl q 32).
  { intros q Hq. apply N.mod_small. rewrite N.shiftl_mul_pow2. unfold W32 in Hq. change M64 with (2 ^ 32 * 2 ^ 32).
    apply N.mul_lt_mono_pos_r; [reflexivity | assumption]. }
  rewrite !S64; try assumption; try reflexivity.
  unfold W32. apply lxor_lt; assumption.
Qed.

(* ------------------------------------------------------------------ round trips *)
Lemma words_nat w : N.of_nat (N.to_nat (sv_words w)) = sv_words w.
Proof. apply N2Nat.id. Qed.

(* value -> words -> value: payload and mask come back, the width is rounded up to a multiple
   of 32, the representation is the one the rounded width demands (= the original for canonical
   values), signed is dropped *)
Theorem sv_roundtrip_value v :
  fits v ->
  of_sv (to_sv v) = mkV (if 64 <? 32 * sv_words (wd v) then RB else RU) (pl v) (mk v) (32 * sv_words (wd v)) false.
Proof.
  intros (Hp & Hm & HU). unfold of_sv. rewrite sv_length, words_nat.
  replace (sv_words (wd v) * 32) with (32 * sv_words (wd v)) by lia.
  destruct (sv_words_ceil (wd v)) as [C1 C2].
  assert (Hp' : pl v < 2 ^ (32 * sv_words (wd v))) by (eapply N.lt_le_trans; [exact Hp | apply pow2_le; exact C1]).
  assert (Hm' : mk v < 2 ^ (32 * sv_words (wd v))) by (eapply N.lt_le_trans; [exact Hm | apply pow2_le; exact C1]).
  assert (PK : pack_big (to_sv v) = (pl v, mk v)).
  { unfold to_sv. destruct (rp v); [|rewrite <- sv_arms_agree];
      rewrite pack_to_sv, words_nat, !mod_small_pow by assumption; reflexivity. }
  destruct (N.ltb_spec 64 (32 * sv_words (wd v))).
  - rewrite PK. reflexivity.
  - rewrite pack_u64_small, PK; [reflexivity | | apply to_sv_words_ok].
    rewrite sv_length. lia.
Qed.

Lemma sv_words_mul n : sv_words (n * 32) = n.
Proof.
  unfold sv_words. rewrite N.mod_mul by discriminate. cbn [N.eqb]. apply N.div_mul. discriminate.
Qed.

(* words -> value -> words *)
Lemma unpack_pack ws : words_ok ws ->
  let '(p, m) := pack_big ws in to_sv_u64 (length ws) p m = ws.
Proof.
  induction ws as [|[a b] r IH]; intros W; [reflexivity|].
  inversion W as [|? ? [Ha Hb] Wr]. cbn [fst snd] in *. specialize (IH Wr).
  cbn [pack_big fold_right]. fold (pack_big r). destruct (pack_big r) as [P M].
  cbn [length to_sv_u64].
  assert (Hab : N.lxor a b < W32) by (unfold W32 in *; apply lxor_lt; assumption).
  assert (LO : forall Q z, z < W32 -> N.land (N.lor (N.shiftl Q 32) z) LOW32 = z).
  { intros Q z Hz. rewrite LOW32_ones, land_ones. apply N.bits_inj; intro k. rewrite tb_mod, N.lor_spec.
    destruct (N.ltb_spec k 32).
    - rewrite N.shiftl_spec_low by assumption. reflexivity.
    - rewrite (tb_lt z 32 k Hz) by assumption. reflexivity. }
  assert (HI : forall Q z, z < W32 -> N.shiftr (N.lor (N.shiftl Q 32) z) 32 = Q).
  { intros Q z Hz. apply N.bits_inj; intro k. rewrite N.shiftr_spec, N.lor_spec by apply N.le_0_l.
    rewrite N.shiftl_spec_high' by lia. rewrite (tb_lt z 32 (k + 32) Hz) by lia.
    replace (k + 32 - 32) with k by lia. apply Bool.orb_false_r. }
  rewrite !LO, !HI by assumption. rewrite IH. f_equal. f_equal.
  rewrite N.lxor_assoc, N.lxor_nilpotent, N.lxor_0_r. reflexivity.
Qed.

Theorem sv_roundtrip_words ws : words_ok ws -> to_sv (of_sv ws) = ws.
Proof.
  intros W. unfold of_sv. pose proof (unpack_pack ws W) as U.
  destruct (N.ltb_spec 64 (N.of_nat (length ws) * 32)).
  - destruct (pack_big ws) as [p m] eqn:E. unfold to_sv. cbn [rp pl mk wd].
    rewrite sv_words_mul, Nat2N.id, <- sv_arms_agree. exact U.
  - rewrite pack_u64_small by (try assumption; lia).
    destruct (pack_big ws) as [p m] eqn:E. unfold to_sv. cbn [rp pl mk wd].
    rewrite sv_words_mul, Nat2N.id. exact U.
Qed.

(* decoding is Annex H too: bit k of the decoded value is the 4-state bit whose code is
   (aval bit, bval bit) -- follows from the two round trips and annex_h_encoding; stated directly: *)
Theorem of_sv_fits ws : words_ok ws -> fits (of_sv ws).
Proof.
  intros W. pose proof (sv_roundtrip_words ws W) as R.
  unfold of_sv in *. destruct (N.ltb_spec 64 (N.of_nat (length ws) * 32)).
  - destruct (pack_big ws) as [p m] eqn:E. cbn [rp pl mk wd] in *.
    pose proof (pack_to_sv (length ws) p m) as PK. unfold to_sv in R. cbn [rp pl mk wd] in R.
    rewrite sv_words_mul, Nat2N.id, <- sv_arms_agree in R. rewrite R, E in PK.
    injection PK as Ep Em. replace (N.of_nat (length ws) * 32) with (32 * N.of_nat (length ws)) by lia.
    repeat split; cbn [rp pl mk wd]; try discriminate.
    + rewrite Ep. apply N.mod_lt, N.pow_nonzero. discriminate.
    + rewrite Em. apply N.mod_lt, N.pow_nonzero. discriminate.
  - rewrite pack_u64_small in * by (try assumption; lia).
    destruct (pack_big ws) as [p m] eqn:E. cbn [rp pl mk wd] in *.
    pose proof (pack_to_sv (length ws) p m) as PK. unfold to_sv in R. cbn [rp pl mk wd] in R.
    rewrite sv_words_mul, Nat2N.id in R. rewrite R, E in PK.
    injection PK as Ep Em. replace (N.of_nat (length ws) * 32) with (32 * N.of_nat (length ws)) in * by lia.
    repeat split; cbn [rp pl mk wd]; try (intros _; assumption).
    + rewrite Ep. apply N.mod_lt, N.pow_nonzero. discriminate.
    + rewrite Em. apply N.mod_lt, N.pow_nonzero. discriminate.
Qed.

Theorem sv_length_ceil v :
  length (to_sv v) = N.to_nat (sv_words (wd v)) /\
  wd v <= 32 * sv_words (wd v) /\ 32 * sv_words (wd v) < wd v + 32.
Proof. split; [apply sv_length | apply sv_words_ceil]. Qed.

Theorem sv_roundtrip_words_fits ws : words_ok ws -> to_sv (of_sv ws) = ws /\ fits (of_sv ws).
Proof. intros W. split; [apply sv_roundtrip_words | apply of_sv_fits]; assumption. Qed.

(* ------------------------------------------------------------------ waveform renderings *)
Theorem vcd_bit v i : to_vcd v i = vcd_code (getbit (vecv v) i).
Proof.
  unfold to_vcd, getbit, vecv. cbn [vp vm].
  destruct (N.testbit (mk v) i), (N.testbit (pl v) i); reflexivity.
Qed.

Lemma nth_rev_seq n k d : (k < n)%nat -> nth k (rev (seq 0 n)) d = (n - 1 - k)%nat.
Proof.
  intros H. rewrite rev_nth by (rewrite seq_length; assumption). rewrite seq_length, seq_nth by lia. lia.
Qed.

(* FST: one ASCII byte per bit, most significant bit first *)
Theorem fst_bits_msb_first v :
  length (to_fst_bits v) = N.to_nat (wd v) /\
  forall k, (k < N.to_nat (wd v))%nat ->
    nth k (to_fst_bits v) 0 = fst_char (getbit (vecv v) (N.of_nat (N.to_nat (wd v) - 1 - k))).
Proof.
  unfold to_fst_bits. split.
  - rewrite map_length, rev_length, seq_length. reflexivity.
  - intros k Hk. set (f := fun i : nat => match to_vcd v (N.of_nat i) with 0 => 48 | 1 => 49 | 2 => 120 | _ => 122 end).
    rewrite (nth_indep _ 0 (f O)) by (rewrite map_length, rev_length, seq_length; assumption).
    rewrite map_nth, nth_rev_seq by assumption. unfold f. rewrite vcd_bit.
    destruct (getbit (vecv v) _); reflexivity.
Qed.

(* VCD: the iterator handed to vcd::Writer::change_vector yields the bits most significant first *)
Theorem vcd_iter_msb_first v :
  length (vcd_iter v) = N.to_nat (wd v) /\
  forall k, (k < N.to_nat (wd v))%nat ->
    nth k (vcd_iter v) 0 = vcd_code (getbit (vecv v) (N.of_nat (N.to_nat (wd v) - 1 - k))).
Proof.
  unfold vcd_iter. split.
  - rewrite map_length, rev_length, seq_length. reflexivity.
  - intros k Hk. set (f := fun i : nat => to_vcd v (N.of_nat i)).
    rewrite (nth_indep _ 0 (f O)) by (rewrite map_length, rev_length, seq_length; assumption).
    rewrite map_nth, nth_rev_seq by assumption. unfold f. apply vcd_bit.
Qed.

(* ------------------------------------------------------------------ examples *)
Example ex_fits : fits (mkV RU 5 2 3 false) /\ fits (mkV RB (2 ^ 70 + 1) (2 ^ 64) 71 true).
Proof. unfold fits. cbn. repeat split; try lia; discriminate. Qed.
(* 4'b1z0x : payload 1100, mask 0101 -> aval 1001, bval 0101 *)
Example ex_annex_h : to_sv (mkV RU 12 5 4 false) = [(9, 5)].
Proof. reflexivity. Qed.
Example ex_words_ok : words_ok [(4294967295, 0); (0, 4294967295); (1, 1)].
Proof. unfold words_ok, W32. repeat constructor; cbn; lia. Qed.
Example ex_fst : to_fst_bits (mkV RU 12 5 4 false) = [49; 122; 48; 120].
Proof. reflexivity. Qed.
