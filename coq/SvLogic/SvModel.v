(* L8 (part): model of the DPI svLogicVecVal conversions of crates/analyzer/src/value.rs
   (`impl From<&Value> for Vec<SvLogicVecVal>`, `impl From<&[SvLogicVecVal]> for Value`), for both
   representations, branch for branch.  The waveform renderings (`to_vcd_value`, `to_fst_bits`,
   `VcdValueIter`) are in Value/ValueModel.v (`to_vcd`, `to_fst_bits`, `vcd_iter`).
   A word is a pair (aval, bval) of u32.  Definitions only. *)
From VV Require Export BV.Ops1800 Value.ValueModel.
Open Scope N_scope.

Definition W32 : N := 2 ^ 32.
Definition LOW32 : N := 4294967295.            (* 0xffffffff *)

(* number of words: width/32 rounded up *)
Definition sv_words (w : N) : N := if w mod 32 =? 0 then w / 32 else w / 32 + 1.

(* U64 arm: `len` times { word = payload & 0xffffffff; payload >>= 32 } *)
Fixpoint to_sv_u64 (n : nat) (p m : N) : list (N * N) :=
  match n with
  | O => []
  | S n' => let p32 := N.land p LOW32 in
            let m32 := N.land m LOW32 in
            (N.lxor p32 m32, m32) :: to_sv_u64 n' (N.shiftr p 32) (N.shiftr m 32)
  end.

(* BigUint arm: `to_u32_digits().get(i).unwrap_or(&0)` = i-th little-endian base-2^32 digit *)
Definition digit32 (x i : N) : N := N.shiftr x (32 * i) mod W32.
Definition to_sv_big (n : nat) (p m : N) : list (N * N) :=
  map (fun i => let pi := digit32 p (N.of_nat i) in
                let mi := digit32 m (N.of_nat i) in
                (N.lxor pi mi, mi)) (seq 0 n).

Definition to_sv (v : value) : list (N * N) :=
  let n := N.to_nat (sv_words (wd v)) in
  match rp v with
  | RU => to_sv_u64 n (pl v) (mk v)
  | RB => to_sv_big n (pl v) (mk v)
  end.

(* `for val in value.iter().rev() { payload <<= 32; payload |= val.aval ^ val.bval; ... }`:
   the last word is consumed first, i.e. a right fold over the slice.  The U64 arm shifts a u64
   (bits shifted out are dropped; never reached for <= 2 words), the BigUint arm is unbounded. *)
Definition pack_big (ws : list (N * N)) : N * N :=
  fold_right (fun (ab : N * N) (pm : N * N) =>
                let '(a, b) := ab in let '(p, m) := pm in
                (N.lor (N.shiftl p 32) (N.lxor a b), N.lor (N.shiftl m 32) b)) (0, 0) ws.
Definition pack_u64 (ws : list (N * N)) : N * N :=
  fold_right (fun (ab : N * N) (pm : N * N) =>
                let '(a, b) := ab in let '(p, m) := pm in
                (N.lor (N.shiftl p 32 mod M64) (N.lxor a b), N.lor (N.shiftl m 32 mod M64) b)) (0, 0) ws.

Definition of_sv (ws : list (N * N)) : value :=
  let width := N.of_nat (length ws) * 32 in
  if 64 <? width
  then let '(p, m) := pack_big ws in mkV RB p m width false
  else let '(p, m) := pack_u64 ws in mkV RU p m width false.

(* Annex H (IEEE 1800 H.10.1.2): encoding of one 4-state bit as (aval bit, bval bit) *)
Definition annex_h (b : bit4) : bool * bool :=
  match b with B0 => (false, false) | B1 => (true, false) | BZ => (false, true) | BX => (true, true) end.

(* code used by to_vcd (0,1,2=x,3=z) and the ASCII byte of to_fst_bits for a 4-state bit *)
Definition vcd_code (b : bit4) : N := match b with B0 => 0 | B1 => 1 | BX => 2 | BZ => 3 end.
Definition fst_char (b : bit4) : N := match b with B0 => 48 | B1 => 49 | BX => 120 | BZ => 122 end.
