(* C02 — All simulator engines produce identical traces.
   Category "other": the engines themselves (interpreter, Cranelift lowering, C emitter) are not
   modelled.  What is proved is about the REFERENCE semantics (coq/Rtl) every engine trace is compared
   with on every run: the reference trace is a function of program, mode and stimulus only — it does not
   depend on the order in which comb items are evaluated, as long as the order is a dependency order —
   so "equal to the reference" is a well-defined oracle no matter how an engine schedules its comb
   statements.  This file holds only statements. *)
From VV Require Import Rtl.Cycle Rtl.Frame Rtl.CombProofs Rtl.CycleProofs Rtl.ModeProofs.
From Coq Require Import Permutation.
Open Scope N_scope.

(* comb_order_irrelevant, abstract form: for any items obeying the two frame laws, any two
   topological orders of a single-driver item set settle to the same state *)
Theorem C02_comb_order_irrelevant :
  forall (V item : Type) (exec : item -> fstate V -> fstate V) (reads writes : item -> list N),
    (forall it s x, ~ In x (writes it) -> exec it s x = s x) ->
    (forall it s s', agree_on V (reads it) s s' -> forall x, In x (writes it) -> exec it s x = exec it s' x) ->
    forall l l', Permutation l l' -> single_driver item writes l ->
                 topo item reads writes l -> topo item reads writes l' ->
                 forall s, steq V (frun V item exec l s) (frun V item exec l' s).
Proof. exact comb_order_irrelevant. Qed.

(* ... and for the concrete µRTL comb items (assign, always_comb with if / case / part-select
   assignments over the full expression language), in both value modes *)
Theorem C02_settle_order_irrelevant :
  forall md D (l l' : list item),
    Permutation l l' -> single_driver_ok l = true -> topo_ok l = true -> topo_ok l' = true ->
    forall st x, settle md D l st x = settle md D l' st x.
Proof. exact settle_order_irrelevant_checked. Qed.

(* ref_sem_deterministic: the whole reference trace (every output after every clock / reset step)
   is independent of the comb order used *)
Theorem C02_ref_trace_order_irrelevant :
  forall md D (l l' ffs : list item) outs,
    Permutation l l' -> single_driver_ok l = true -> topo_ok l = true -> topo_ok l' = true ->
    forall stim st st', (forall x, st x = st' x) ->
                        run md D l ffs outs stim st = run md D l' ffs outs stim st'.
Proof. exact run_order_irrelevant. Qed.

(* ref_4state_refines_2state, PARTIAL: proved per expression evaluation (every right-hand side,
   condition and case match is one), not yet lifted to whole traces.  If the 4-state evaluation meets
   no x/z at any literal or operator result (clean), the 2-state evaluation gives the same value.
   Full statement (not proved): for a run in which every evaluated expression is clean and every
   variable read is known, run M2 = run M4. *)
Theorem C02_ref_4state_refines_2state_partial :
  forall D st e c, clean D st c e -> ev M2 D st c e = ev M4 D st c e.
Proof. exact ev_M2_eq_M4. Qed.

(* The hypothesis cannot be weakened to "no x/z in the RESULT": x that arises (division by zero) and
   is absorbed (by ==) makes the modes differ although neither result holds x/z ... *)
Theorem C02_absorbed_x_differs :
  let e := EBin BEq (EBin BDiv (EVar 0) (EVar 1)) (ELit 8 false 0 0) in
  ev M2 ex_D ex_st (mkCtx 1 false) e = mkVec 1 0 /\ ev M4 ex_D ex_st (mkCtx 1 false) e = mkVec 0 1.
Proof. exact absorbed_x_differs. Qed.
Example C02_clean_example :
  clean ex_D ex_st (mkCtx 9 false) (EBin BAdd (EVar 0) (EUn UBitNot (EVar 1))).
Proof. exact clean_example. Qed.

(* Non-vacuity: a three-item comb program (one always_comb with an if, two assigns), its two
   dependency orders are accepted by the executable side conditions and are permutations. *)
Definition ex_decls := decls_of [mkDecl 8 false false KIn; mkDecl 8 true false KIn;
                                 mkDecl 9 false false KVar; mkDecl 16 false false KOut; mkDecl 1 false false KOut].
Definition ex_i0 := IComb [SAssign 2 (ELit 9 false 0 0);
                           SIf (EBin BLt (EVar 0) (EVar 1)) [SAssign 2 (EBin BAdd (EVar 0) (EVar 1))] []].
Definition ex_i1 := IAssign 3 (EBin BMul (EVar 2) (EVar 2)).
Definition ex_i2 := IAssign 4 (EUn URXor (EVar 2)).
Example C02_example_orders :
  topo_ok [ex_i0; ex_i1; ex_i2] = true /\ topo_ok [ex_i0; ex_i2; ex_i1] = true /\
  single_driver_ok [ex_i0; ex_i1; ex_i2] = true /\ topo_ok [ex_i1; ex_i0; ex_i2] = false /\
  Permutation [ex_i0; ex_i1; ex_i2] [ex_i0; ex_i2; ex_i1].
Proof. repeat split; try reflexivity. apply perm_skip, perm_swap. Qed.

Print Assumptions C02_comb_order_irrelevant.
Print Assumptions C02_settle_order_irrelevant.
Print Assumptions C02_ref_trace_order_irrelevant.
Print Assumptions C02_ref_4state_refines_2state_partial.
Print Assumptions C02_absorbed_x_differs.
