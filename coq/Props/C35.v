(* C35 — User components see correct values and timing on every transport.
   Statements only; models in Component/{ComponentModel,StepModel,StepOrderGen}.v,
   proofs in Component/{ComponentProofs,StepProofs}.v. *)
From VV Require Import Component.ComponentModel Component.ComponentProofs.
From VV Require Import Component.StepModel Component.StepOrderGen Component.StepProofs.
Open Scope N_scope.

(* Every payload bit and every X/Z mask bit below the width survives
   variable -> staged input port -> hook (read, write back) -> output port -> variable,
   for ALL widths, both state modes and all three staging paths; bits >= width are zero. *)
Theorem marshal_roundtrip : forall (src : source) (four : bool) (v : svar),
  wf_svar v -> src_ok src (sv_width v) ->
  exists out, through_component src four (fun x => x) v (sv_width v) = Some out /\
    sv_width out = sv_width v /\
    (forall i, i < sv_width v ->
       N.testbit (sv_p out) i = N.testbit (sv_p v) i /\
       N.testbit (sv_m out) i = (four && N.testbit (sv_m v) i)%bool) /\
    (forall i, sv_width v <= i -> N.testbit (sv_p out) i = false /\ N.testbit (sv_m out) i = false).
Proof. exact marshal_roundtrip_bits_lemma. Qed.

Theorem marshal_roundtrip_value : forall (src : source) (four : bool) (v : svar),
  wf_svar v -> src_ok src (sv_width v) ->
  through_component src four (fun x => x) v (sv_width v) =
  Some (mkSV (sv_width v) (sv_p v) (if four then sv_m v else 0)).
Proof. exact marshal_roundtrip_lemma. Qed.

(* What the hook sees is the staged value itself (seen), and whatever value it writes arrives
   truncated / zero-extended to the destination width, payload and mask alike. *)
Theorem component_write_spec : forall (src : source) (four : bool) (f : cvalue -> cvalue) (v : svar) (qw : N),
  wf_svar v -> src_ok src (sv_width v) ->
  w64s (cv_words (f (seen four v))) -> w64s (cv_mask (f (seen four v))) ->
  through_component src four f v qw =
  Some (mkSV qw (bits_of (cv_words (f (seen four v))) mod 2 ^ qw)
             (if four then bits_of (cv_mask (f (seen four v))) mod 2 ^ qw else 0)).
Proof. exact through_component_spec. Qed.

(* The port buffers on both sides hold exactly words_for(width) words, the staged input buffers
   carry the variable's payload / mask, the written output buffers are below 2^width. *)
Theorem port_buffers_clean : forall (src : source) (four : bool) (v : svar) (qw : N) (f : cvalue -> cvalue),
  wf_svar v -> src_ok src (sv_width v) ->
  w64s (cv_words (f (seen four v))) -> w64s (cv_mask (f (seen four v))) ->
  exists pin pout,
    stage_input src four v (new_port (sv_width v)) = Some pin /\
    ctx_write four (new_port qw) (f (ctx_read four pin)) = Some pout /\
    length (p_words pin) = nwords (sv_width v) /\ length (p_mask pin) = nwords (sv_width v) /\
    bits_of (p_words pin) = sv_p v /\ bits_of (p_mask pin) = (if four then sv_m v else 0) /\
    length (p_words pout) = nwords qw /\ length (p_mask pout) = nwords qw /\
    bits_of (p_words pout) < 2 ^ qw /\ bits_of (p_mask pout) < 2 ^ qw /\ p_dirty pout = true.
Proof. exact port_buffers_clean_lemma. Qed.

Theorem write_u64_spec : forall (four : bool) (qw x : N),
  qw <= 64 -> x < W64 ->
  match ctx_write_u64 (new_port qw) x with
  | Some pout => apply_output four qw pout = mkSV qw (x mod 2 ^ qw) 0
  | None => False
  end.
Proof. exact write_u64_spec_lemma. Qed.

(* Parameters / method arguments / returns (HostValue): a value echoed by a method comes back
   unchanged up to 512 bits (the 8-word return slot); wider returns are refused, not truncated. *)
Theorem hostvalue_echo_roundtrip : forall v : svar,
  wf_svar v ->
  echo_native v = if (sv_width v <=? 512) then Some (mkSV (sv_width v) (sv_p v) 0) else None.
Proof. exact echo_roundtrip_lemma. Qed.

(* ---- wasm transport = native transport, on the model of wasm.rs's memory marshalling.
   (The wasm32 target is not installed: these clauses are covered by proof on the model and by
   driving the real wasm host imports with a hand-assembled guest; see design/C35.md.) *)
Theorem wasm_marshal_eq_native_read : forall (p : port) (m : mem) (wptr mptr : N),
  wf_port p ->
  let n := length (p_words p) in
  (mptr <> 0 -> wptr + N.of_nat (8 * n) <= mptr \/ mptr + N.of_nat (8 * n) <= wptr) ->
  let m' := wasm_read_input p m wptr mptr in
  load_words m' wptr n = fst (native_read_input p (negb (mptr =? 0))) /\
  match snd (native_read_input p (negb (mptr =? 0))) with
  | Some ms => load_words m' mptr n = ms
  | None => forall a, ~ (wptr <= a < wptr + N.of_nat (8 * n)) -> m' a = m a
  end.
Proof. exact wasm_read_input_eq_native_lemma. Qed.

Theorem wasm_marshal_eq_native_write : forall (p : port) (m : mem) (wptr mptr : N) (ws ms : list N),
  let n := length (p_words p) in
  w64s ws -> length ws = n -> mem_read m wptr (8 * n) = words_to_bytes ws ->
  (mptr <> 0 -> w64s ms /\ length ms = n /\ mem_read m mptr (8 * n) = words_to_bytes ms) ->
  wasm_write_output p m wptr mptr = svc_write_output p ws (if mptr =? 0 then None else Some ms).
Proof. exact wasm_write_output_eq_native_lemma. Qed.

(* the import as it stood before the repair (mask always read from guest memory, also through a
   null pointer) did NOT agree with the native adapter: finding, fixed in /repo *)
Theorem wasm_write_output_unrepaired_refuted :
  exists p m wptr ws,
    mem_read m wptr (8 * length (p_words p)) = words_to_bytes ws /\
    wasm_write_output_unrepaired p m wptr 0 <> svc_write_output p ws None.
Proof. exact wasm_write_output_unrepaired_refuted_lemma. Qed.

Theorem wasm_value32_roundtrip : forall v : v32, wf_v32 v -> v32_from_bytes (v32_to_bytes v) = v.
Proof. exact v32_roundtrip_lemma. Qed.

Theorem wasm_marshal_eq_native_arg : forall (h : hostvalue) (m : mem) (ptr : N),
  w64s (hv_words h) -> hv_width h < 2 ^ 32 -> ptr < 2 ^ 32 -> N.of_nat (length (hv_words h)) < 2 ^ 32 ->
  wasm_arg h m ptr = from_vrl_native h.
Proof. exact wasm_arg_eq_native_lemma. Qed.

Theorem wasm_marshal_eq_native_return : forall (v : cvalue) (m : mem) (ptr : N),
  w64s (cv_words v) -> cv_width v < 2 ^ 32 -> ptr < 2 ^ 32 ->
  wasm_method_return v m ptr = method_return_native v.
Proof. exact wasm_method_return_eq_native_lemma. Qed.

(* ---- staging order, for the phase order regenerated from simulator.rs *)
Theorem stage_sees_pre_edge :
  forall (S L C I O : Type) (sample : S -> I) (eval_event : S -> L -> L) (commit : S -> L -> S)
         (empty : L) (hook : C -> I -> C * option O) (apply_out : S -> option O -> S)
         (s : S) (i : I) (c : C),
  hook_saw _ _ _ _ (run S L C I O sample eval_event commit empty hook apply_out
                        (collapse step_event_inner_order) (start S L C I empty s i c)) = Some (sample s) /\
  hook_saw _ _ _ _ (run S L C I O sample eval_event commit empty hook apply_out
                        (collapse derived_master_order) (start S L C I empty s i c)) = Some (sample s).
Proof. exact stage_sees_pre_edge_lemma. Qed.

Theorem outputs_with_ff :
  forall (S L C I O : Type) (sample : S -> I) (eval_event : S -> L -> L) (commit : S -> L -> S)
         (empty : L) (hook : C -> I -> C * option O) (apply_out : S -> option O -> S)
         (s : S) (i : I) (c : C),
  let committed := commit s (eval_event s empty) in
  let r := hook c (sample s) in
  vars _ _ _ _ (run S L C I O sample eval_event commit empty hook apply_out
                    (collapse step_event_inner_order) (start S L C I empty s i c)) = apply_out committed (snd r) /\
  comp _ _ _ _ (run S L C I O sample eval_event commit empty hook apply_out
                    (collapse step_event_inner_order) (start S L C I empty s i c)) = fst r /\
  vars _ _ _ _ (run S L C I O sample eval_event commit empty hook apply_out
                    (collapse derived_master_order) (start S L C I empty s i c)) = apply_out committed (snd r).
Proof. exact outputs_with_ff_lemma. Qed.

(* with storage as a map and the log as a list of writes, the hook's outputs are exactly further
   non-blocking writes of the same commit: the component behaves like one more always_ff process *)
Theorem component_is_nba_process :
  forall (C I : Type) (sample : store -> I) (bodies : store -> writes)
         (hook : C -> I -> C * option writes) (s : store) (i : I) (c : C),
  let r := run store writes C I writes sample (fun s l => l ++ bodies s) apply_writes []
               hook apply_opt (collapse step_event_inner_order)
               (mkSt store writes C I s [] i c None) in
  vars _ _ _ _ r =
  apply_writes s (bodies s ++ match snd (hook c (sample s)) with Some o => o | None => [] end).
Proof. exact component_is_nba_process_lemma. Qed.

(* ---- non-vacuity *)
Example ex_wf_200 : wf_svar (mkSV 200 (2 ^ 199 + 2 ^ 64 + 5) (2 ^ 130 + 1)) /\ src_ok DirectWide 200.
Proof. split; [split; vm_compute; reflexivity|exact I]. Qed.
Example ex_roundtrip_65 :
  through_component ExprSrc true (fun x => x) (mkSV 65 (2 ^ 64 + 3) (2 ^ 64)) 65 = Some (mkSV 65 (2 ^ 64 + 3) (2 ^ 64)).
Proof. vm_compute. reflexivity. Qed.
Example ex_truncate_33 :
  through_component DirectScalar true (fun v => mkCV [2 ^ 64 - 1; 7] [2 ^ 40; 1] 128) (mkSV 8 1 0) 33
  = Some (mkSV 33 (2 ^ 33 - 1) 0).
Proof. vm_compute. reflexivity. Qed.
Example ex_wf_port : wf_port (mkPort 65 [5; 1] [0; 1] false).
Proof. repeat split; repeat constructor. Qed.
Example ex_wf_v32 : wf_v32 (mkV32 0 200 4096 4 0 0 0).
Proof. repeat split. Qed.
Example ex_late_staging : 
  hook_saw _ _ _ _ (run N N unit N N (fun s => s) (fun s _ => N.succ s) (fun _ l => l) 0
                        (fun c i => (c, Some i)) (fun s _ => s) [Eval; Commit; Stage; Fire]
                        (mkSt N N unit N 5 0 0 tt None)) = Some 6.
Proof. exact late_staging_sees_post_edge. Qed.

Print Assumptions marshal_roundtrip.
Print Assumptions marshal_roundtrip_value.
Print Assumptions component_write_spec.
Print Assumptions port_buffers_clean.
Print Assumptions write_u64_spec.
Print Assumptions hostvalue_echo_roundtrip.
Print Assumptions wasm_marshal_eq_native_read.
Print Assumptions wasm_marshal_eq_native_write.
Print Assumptions wasm_write_output_unrepaired_refuted.
Print Assumptions wasm_value32_roundtrip.
Print Assumptions wasm_marshal_eq_native_arg.
Print Assumptions wasm_marshal_eq_native_return.
Print Assumptions stage_sees_pre_edge.
Print Assumptions outputs_with_ff.
Print Assumptions component_is_nba_process.
