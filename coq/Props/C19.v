(* C19 — Synthesized netlists behave like the RTL.
   Only property theorems (statement + exact) and their assumptions.  The conversion passes of
   crates/synthesizer/src/conv (13k lines) are NOT transcribed: what is proved here is (a) the
   semantics of the gate-level IR the per-netlist validation runs on is well defined (cell
   functions = documented formulas, the result is independent of the evaluation order), and (b) the
   arithmetic / restructuring building blocks the passes emit are correct for every width.  The
   end-to-end claim (netlist = RTL, cycle by cycle) is validated per run with the extracted
   gate_cycle (vp/props/c19.py); hence the suffix _partial on the file's scope, category "other". *)
From Coq Require Import List NArith Bool Permutation.
From VV Require Import GateSim.GeneratedCells GateSim.GateModel GateSim.GateProofs GateSim.GateArith.
Import ListNotations.
Open Scope bool_scope.

(* Every CellKind (list regenerated from ir.rs) computes the Boolean formula documented for it,
   on exactly arity-many inputs. *)
Theorem C19_cell_fn_matches_doc :
  forall k a b c d, cell_fn k (firstn (arity k) [a; b; c; d]) = doc_formula k a b c d.
Proof. exact cell_fn_matches_doc. Qed.

Theorem C19_cell_fn_ignores_extra_inputs :
  forall k x, cell_fn k x = cell_fn k (firstn (arity k) x).
Proof. exact cell_fn_arity_irrelevant. Qed.

(* Evaluation-order irrelevance: two topological orders of the same combinational nodes (cells and
   asynchronous RAM reads) give every net the same value. *)
Theorem C19_eval_order_irrelevant :
  forall ms l1 l2 e0, Permutation l1 l2 -> topo_ok l1 -> topo_ok l2 ->
  forall n, get (gate_eval ms l1 e0) n = get (gate_eval ms l2 e0) n.
Proof. exact eval_order_irrelevant. Qed.

(* Evaluating in a topological order yields a solution of the netlist equations, and that solution
   is unique. *)
Theorem C19_eval_is_the_solution :
  forall ms l e0, topo_ok l ->
  is_sol ms l e0 (gate_eval ms l e0) /\
  forall e, is_sol ms l e0 e -> forall n, get e n = get (gate_eval ms l e0) n.
Proof. exact eval_is_the_solution. Qed.

(* A whole run (outputs of every cycle) does not depend on the order either; check_netlist, which the
   extracted evaluator runs first, establishes topo_ok. *)
Theorem C19_run_order_irrelevant :
  forall nl1 nl2 clks stim o1 o2, same_but_order nl1 nl2 ->
  simulate nl1 clks stim = RunOk o1 -> simulate nl2 clks stim = RunOk o2 -> o1 = o2.
Proof. exact simulate_order_irrelevant. Qed.

Theorem C19_check_netlist_sound :
  forall nl, check_netlist nl = true ->
  topo_ok (nl_nodes nl) /\
  (forall n, In n (base_nets nl) -> ~ In n (outs_of (nl_nodes nl))) /\
  (forall c, In (NCell c) (nl_nodes nl) -> length (c_ins c) = arity (c_kind c)).
Proof. exact check_netlist_sound_full. Qed.

(* arith.rs: the ripple-carry adder computes a + b + cin modulo 2^width — all widths. *)
Theorem C19_ripple_add_correct :
  forall a b cin, length a = length b ->
  bits_to_N (ripple_add a b cin) = ((bits_to_N a + bits_to_N b + b2n cin) mod 2 ^ N.of_nat (length a))%N.
Proof. exact ripple_add_correct. Qed.

(* arith.rs: the Kogge-Stone prefix adder (used for widths >= 4) equals the ripple adder — all widths. *)
Theorem C19_prefix_adder_is_ripple :
  forall a b cin, length a = length b -> ks_add a b cin = ripple_add a b cin.
Proof. exact ks_add_is_ripple. Qed.

(* prefix.rs: the Sklansky network computes the linear scan, for any associative operator and any
   chain length (instances: And2, Or2, Xor2 = is_assoc). *)
Theorem C19_sklansky_is_scan :
  forall (A : Type) (op : A -> A -> A), (forall x y z, op x (op y z) = op (op x y) z) ->
  forall l, sklansky op (length l) l = scan op l.
Proof. exact sklansky_is_scan_len. Qed.

Theorem C19_sklansky_cells :
  (forall l, sklansky and2 (length l) l = scan and2 l) /\
  (forall l, sklansky or2 (length l) l = scan or2 l) /\
  (forall l, sklansky xor2 (length l) l = scan xor2 l).
Proof. exact sklansky_cells. Qed.

(* balance.rs: any two trees of And2 / Or2 / Xor2 cells over the same multiset of leaves agree. *)
Theorem C19_balance_preserves :
  (forall t1 t2 : tree bool, Permutation (leaves t1) (leaves t2) -> tree_eval and2 t1 = tree_eval and2 t2) /\
  (forall t1 t2 : tree bool, Permutation (leaves t1) (leaves t2) -> tree_eval or2 t1 = tree_eval or2 t2) /\
  (forall t1 t2 : tree bool, Permutation (leaves t1) (leaves t2) -> tree_eval xor2 t1 = tree_eval xor2 t2).
Proof. exact balance_preserves. Qed.

(* mux decoding: the log-stage Mux2 tree returns element number (sel); an if/else-if/case chain
   returns the first arm whose condition holds. *)
Theorem C19_mux_tree_decodes :
  forall sel l, nthb (mux_tree sel l) 0 = nthb l (N.to_nat (bits_to_N sel)).
Proof. exact mux_tree_decodes. Qed.

Theorem C19_mux_chain_first :
  forall arms d, mux_chain arms d = match find (fun a => fst a) arms with Some a => snd a | None => d end.
Proof. exact mux_chain_first. Qed.

(* counter.rs: seed + popcount(conditions) mod 2^W = the serial conditional-increment chain. *)
Theorem C19_count_rebuild_correct :
  forall w conds seed, (seed < 2 ^ w)%N -> serial_count w seed conds = rebuilt_count w seed conds.
Proof. exact rebuilt_count_correct. Qed.

(* Non-vacuity. *)
Example C19_adder_example :
  ks_add [true; false; true; true; false] [true; true; false; true; false] true
  = [true; false; false; true; true]
  /\ bits_to_N [true; false; false; true; true] = ((13 + 11 + 1) mod 2 ^ 5)%N.
Proof. exact adder_example. Qed.

(* a 2-cell netlist listed in both possible orders: only the topological one passes the check;
   the good order satisfies topo_ok and is a permutation of the other *)
Example C19_check_example :
  check_netlist (ex_nl ex_cells_good) = true /\ check_netlist (ex_nl ex_cells_bad) = false /\
  simulate (ex_nl ex_cells_good) [] [[[true]; [true]]; [[true]; [false]]] = RunOk [[[false]]; [[true]]].
Proof. exact check_example. Qed.

Example C19_topo_example : topo_ok ex_cells_good /\ Permutation ex_cells_good ex_cells_bad.
Proof. exact topo_example. Qed.

Example C19_order_example :
  same_but_order (ex_nl2 ex_indep_1) (ex_nl2 ex_indep_2) /\
  simulate (ex_nl2 ex_indep_1) [] [[[true]; [true]]; [[true]; [false]]] = RunOk [[[true; false]]; [[false; true]]] /\
  simulate (ex_nl2 ex_indep_2) [] [[[true]; [true]]; [[true]; [false]]] = RunOk [[[true; false]]; [[false; true]]].
Proof. exact order_example. Qed.

Example C19_count_example : (5 < 2 ^ 3)%N /\ serial_count 3 5 [true; true; false; true; true] = 1%N.
Proof. exact count_example. Qed.

Example C19_balance_example :
  Permutation (leaves (Node (Node (Leaf true) (Leaf false)) (Leaf true)))
              (leaves (Node (Leaf false) (Node (Leaf true) (Leaf true)))).
Proof. exact balance_example. Qed.

Print Assumptions C19_cell_fn_matches_doc.
Print Assumptions C19_cell_fn_ignores_extra_inputs.
Print Assumptions C19_eval_order_irrelevant.
Print Assumptions C19_eval_is_the_solution.
Print Assumptions C19_run_order_irrelevant.
Print Assumptions C19_check_netlist_sound.
Print Assumptions C19_ripple_add_correct.
Print Assumptions C19_prefix_adder_is_ripple.
Print Assumptions C19_sklansky_is_scan.
Print Assumptions C19_sklansky_cells.
Print Assumptions C19_balance_preserves.
Print Assumptions C19_mux_tree_decodes.
Print Assumptions C19_mux_chain_first.
Print Assumptions C19_count_rebuild_correct.
