(* C06 — Restoring a cached fragment reproduces the analyzer state exactly; unrepresentable
   fragments are refused at capture.  Statements only; models in Codec/IdCodec.v, Codec/Fragment.v. *)
From Coq Require Import NArith List Bool.
From VV Require Import Codec.IdCodec Codec.IdCodecProofs Codec.Fragment Codec.FragmentProofs.
Import ListNotations.
Open Scope N_scope.

(* IdWindow::encode followed by IdRebase::decode on a range of the same size reserved at ANY base:
   every id of the window (start, end] goes to base + (id - start) ... *)
Theorem C06_codec_roundtrip :
  forall w base id, w_start w < id <= w_end w ->
  rbind (encode w id) (decode (rebase_for w base)) = Ok (base + (id - w_start w)).
Proof. exact codec_roundtrip. Qed.

(* ... which is an order-preserving bijection of the window onto the reserved range (base, base+count] *)
Theorem C06_codec_bijection :
  forall w base,
  (forall id, w_start w < id <= w_end w -> base < shift w base id <= base + win_count w) /\
  (forall a b, w_start w < a -> w_start w < b -> (a < b <-> shift w base a < shift w base b)) /\
  (forall t, w_start w <= w_end w -> base < t <= base + win_count w ->
             exists id, w_start w < id <= w_end w /\ shift w base id = t).
Proof. exact codec_bijection. Qed.

(* decode followed by encode over the reserved range is the identity on wire values: a restored
   fragment captured again carries the same wire ids *)
Theorem C06_codec_roundtrip_inverse :
  forall r l, l < r_count r ->
  rbind (decode r l) (encode (mkWin (r_base r) (r_base r + r_count r))) = Ok l.
Proof. exact codec_roundtrip_inverse. Qed.

(* an id outside the window is refused by encode; a wire value outside the count by decode *)
Theorem C06_encode_refuses_outside :
  forall w id, ~ (w_start w < id <= w_end w) -> encode w id = Err.
Proof. exact encode_refuses_outside. Qed.

Theorem C06_decode_refuses_outside :
  forall r l, r_count r <= l -> decode r l = Err.
Proof. exact decode_refuses_outside. Qed.

(* SymbolId / DefinitionId: 0 (unresolved reference) travels as 0, window ids are shifted like above,
   everything else is refused *)
Theorem C06_sentinel_roundtrip :
  forall w base id, id = 0 \/ w_start w < id <= w_end w ->
  rbind (encode_sentinel w id) (decode_sentinel (rebase_for w base)) =
  Ok (if id =? 0 then 0 else base + (id - w_start w)).
Proof. exact sentinel_roundtrip. Qed.

Theorem C06_sentinel_encode_ok_iff :
  forall w id, (exists v, encode_sentinel w id = Ok v) <-> (id = 0 \/ w_start w < id <= w_end w).
Proof. exact sentinel_encode_ok_iff. Qed.

(* StrId / PathId: whatever was interned before on either side, every id written through an encode
   session and read back through the re-interned dictionary denotes the same value; ids unknown to
   the capturing table are refused *)
Theorem C06_dict_roundtrip :
  forall (V : Type) (veq : V -> V -> bool), (forall a b, veq a b = true <-> a = b) ->
  forall (tbl tbl' : list V) (ids : list nat),
  let '(s, rs) := encode_dict_all tbl es_empty ids in
  let '(tbl'', strs) := intern_all veq tbl' (es_dict s) in
  Forall2 (fun id r =>
    match r with
    | Ok l => exists id' v, decode_dict strs l = Ok id' /\
                            nth_error tbl id = Some v /\ nth_error tbl'' id' = Some v
    | Err => nth_error tbl id = None
    end) ids rs.
Proof. exact @dict_roundtrip. Qed.

(* capture at (wm, st) then restore at ANY st': st' extended by exactly the sub-state added since the
   watermark, every id renamed by rho = shift of its window onto the range reserved in st' *)
Theorem C06_restore_capture :
  forall wm st st' f, capture wm st = Ok f ->
  restore f st' =
  Ok (mkState (cmap2 N.add (s_ctr st') (cmap2 N.sub (s_ctr st) (wm_ctr wm)))
              (s_keyed st' ++ map (ren_entry (rho wm st (s_ctr st'))) (added_keyed wm st))
              (s_pending st' ++ map (ren_pend (rho wm st (s_ctr st'))) (added_pending wm st))).
Proof. exact restore_capture. Qed.

Theorem C06_rho_is_window_shift :
  forall wm st base' k,
  (forall n, cget (wm_ctr wm) k < n <= cget (s_ctr st) k ->
     rho wm st base' k n = cget base' k + (n - cget (wm_ctr wm) k) /\
     cget base' k < rho wm st base' k n <= cget base' k + (cget (s_ctr st) k - cget (wm_ctr wm) k)) /\
  (forall n, ~ (cget (wm_ctr wm) k < n <= cget (s_ctr st) k) -> rho wm st base' k n = n) /\
  (forall a b, cget (wm_ctr wm) k < a <= cget (s_ctr st) k -> cget (wm_ctr wm) k < b <= cget (s_ctr st) k ->
     (a < b <-> rho wm st base' k a < rho wm st base' k b)).
Proof. exact rho_is_window_shift. Qed.

(* capture succeeds exactly on sub-states all of whose ids are in the window or the sentinel *)
Theorem C06_capture_total_iff_closed :
  forall wm st, (exists f, capture wm st = Ok f) <-> ids_closed wm st = true.
Proof. exact capture_total_iff_closed. Qed.

(* the property: pass 1 of a file allocates its ids from the counters; capturing it after pass 1 at
   st0 and restoring at ANY st0' gives the state pass 1 itself produces at st0' *)
Theorem C06_restore_capture_iso :
  forall d st0 st0', state_wf st0 = true -> delta_wf d = true -> delta_closed d = true ->
  exists f, capture (watermark st0) (pass1 d st0) = Ok f /\ restore f st0' = Ok (pass1 d st0').
Proof. exact restore_capture_iso. Qed.

(* a contribution mentioning an id of another file (not the sentinel) is refused at capture *)
Theorem C06_capture_pass1_total_iff_closed :
  forall d st, state_wf st = true -> delta_wf d = true -> delta_abs_ok (s_ctr st) d = true ->
  ((exists f, capture (watermark st) (pass1 d st) = Ok f) <-> delta_closed d = true).
Proof. exact capture_pass1_total_iff_closed. Qed.

(* Known finding (key restore:loop-variable-type-token): a Token::default() placeholder stored by pass 1
   denotes process-dependent values; the restored one denotes the capturing process's.  The theorems
   above hold outside this class (contributions whose raw values are fixed by the file). *)
Theorem C06_default_token_placeholder_refuted :
  exists capturing restoring, restored_placeholder capturing restoring <> fresh_placeholder restoring.
Proof. exact default_token_placeholder_refuted. Qed.

Theorem C06_default_token_placeholder_iff :
  forall capturing restoring,
  restored_placeholder capturing restoring = fresh_placeholder restoring <->
  first_str capturing = first_str restoring /\ first_path capturing = first_path restoring.
Proof. exact default_token_placeholder_iff. Qed.

(* Non-vacuity *)
Example C06_hypotheses_met :
  state_wf ex_st0 = true /\ delta_wf ex_delta = true /\ delta_closed ex_delta = true /\
  delta_abs_ok (s_ctr ex_st0) ex_delta_foreign = true /\ delta_closed ex_delta_foreign = false /\
  capture (watermark ex_st0) (pass1 ex_delta_foreign ex_st0) = Err.
Proof. repeat split. Qed.

Example C06_iso_example :
  restore (frag_of ex_delta) (mkState (mkC 100 7 50 9) [] []) =
  Ok (pass1 ex_delta (mkState (mkC 100 7 50 9) [] [])) /\
  capture (watermark ex_st0) (pass1 ex_delta ex_st0) = Ok (frag_of ex_delta).
Proof. split; reflexivity. Qed.

Example C06_window_example :
  rbind (encode (mkWin 10 15) 13) (decode (rebase_for (mkWin 10 15) 100)) = Ok 103 /\
  encode (mkWin 10 15) 10 = Err /\ encode (mkWin 10 15) 16 = Err /\
  rbind (encode_sentinel (mkWin 10 15) 0) (decode_sentinel (rebase_for (mkWin 10 15) 100)) = Ok 0.
Proof. repeat split. Qed.

Print Assumptions C06_codec_roundtrip.
Print Assumptions C06_codec_bijection.
Print Assumptions C06_codec_roundtrip_inverse.
Print Assumptions C06_encode_refuses_outside.
Print Assumptions C06_decode_refuses_outside.
Print Assumptions C06_sentinel_roundtrip.
Print Assumptions C06_sentinel_encode_ok_iff.
Print Assumptions C06_dict_roundtrip.
Print Assumptions C06_restore_capture.
Print Assumptions C06_rho_is_window_shift.
Print Assumptions C06_capture_total_iff_closed.
Print Assumptions C06_restore_capture_iso.
Print Assumptions C06_capture_pass1_total_iff_closed.
Print Assumptions C06_default_token_placeholder_refuted.
Print Assumptions C06_default_token_placeholder_iff.
