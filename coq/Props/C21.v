(* C21 — AIG rewriting preserves every output function.
   This file holds only the property theorems (statement + exact) and their assumptions.
   Models: Gate/Npn4Model.v (aig/npn4.rs), Gate/AigModel.v (aig/graph.rs + aig/rewrite.rs);
   tables ALL_PERMS / VAR_TT / IDENTITY / MAX_* come from Gate/GeneratedNpn.v (translator). *)
From Coq Require Import NArith List Bool.
Import ListNotations.
From VV Require Import Gate.GeneratedNpn Gate.Npn4Model Gate.Npn4Proofs Gate.AigModel Gate.AigProofs.

(* NPN canonicalisation returns, for EVERY 4-input truth table, a transform mapping it to the
   returned canonical form. *)
Theorem C21_canonical_reaches :
  forall tt, (tt < 65536)%N -> apply_t (snd (npn_canonical tt)) tt = fst (npn_canonical tt).
Proof. exact canonical_reaches. Qed.

(* ... and that form is the least truth table over all 768 (perm, in_neg, out_neg) transforms *)
Theorem C21_canonical_least :
  forall tt t, In t all_transforms -> (fst (npn_canonical tt) <= apply_t t tt)%N.
Proof. exact canonical_least. Qed.

(* the 768 transforms are closed under composition and inverse (so "the NPN class" is an orbit) *)
Theorem C21_transforms_closed :
  forall t1 t2 tt, In t1 all_transforms -> In t2 all_transforms ->
  In (compose t1 t2) all_transforms /\ apply_t t2 (apply_t t1 tt) = apply_t (compose t1 t2) tt.
Proof. intros t1 t2 tt H1 H2. split; [exact (compose_in t1 t2 H1 H2)|exact (apply_compose t1 t2 tt H1 H2)]. Qed.

Theorem C21_transforms_inverse :
  forall t tt, In t all_transforms -> (tt < 65536)%N ->
  In (inverse t) all_transforms /\ apply_t (inverse t) (apply_t t tt) = tt.
Proof. intros t tt H Htt. split; [exact (inverse_in t H)|exact (apply_inverse t tt H Htt)]. Qed.

(* ALL_PERMS lists 24 pairwise different permutations of {0,1,2,3}: the transform set is the whole
   NPN group (24 x 16 x 2 = 768) *)
Theorem C21_all_perms_complete :
  length ALL_PERMS = 24%nat /\ forallb is_perm4 ALL_PERMS = true /\ nodup_perms ALL_PERMS = true /\
  length all_transforms = 768%nat.
Proof. exact all_perms_complete. Qed.

(* the canonical form is the same for every member of the NPN class, hence the least of the class *)
Theorem C21_canonical_class_invariant :
  forall tt s, (tt < 65536)%N -> In s all_transforms ->
  fst (npn_canonical (apply_t s tt)) = fst (npn_canonical tt).
Proof. exact canonical_class_invariant. Qed.

(* transform_pattern(p, t) computes t.apply(p.tt()) *)
Theorem C21_transform_pattern_correct :
  forall p t, In t all_transforms -> pat_tt (transform_pattern p t) = apply_t t (pat_tt p).
Proof. exact transform_pattern_correct. Qed.

(* every library entry computes its recorded truth table, and the key is NPN-canonical — for the
   library built from ANY list of enumerated patterns, the second pass visiting the first-pass map
   in ANY order (HashMap iteration order) *)
Theorem C21_library_sound :
  forall (pats : list pattern) (entries : lib),
  (forall kp, In kp entries -> In kp (by_tt_of pats)) ->
  forall k p, In (k, p) (canon_pass entries) -> pat_tt p = k /\ fst (npn_canonical k) = k.
Proof. exact library_sound. Qed.

(* rewrite (cut enumeration + NPN-matched pattern replacement + compact) leaves the Boolean
   function of every sink (output port bit / FF D input) unchanged, for every topologically ordered
   AIG, every input assignment and every library whose entries compute their keys *)
Theorem C21_rewrite_preserves :
  forall library a a', lib_ok library -> wf_aig a = true -> rewrite library a = Some a' ->
  forall env, sink_vals env a' = sink_vals env a.
Proof. exact rewrite_preserves. Qed.

(* ... and rewrite does return on every topologically ordered AIG (none of its `expect`s / index
   accesses can fail) *)
Theorem C21_rewrite_total :
  forall library a, lib_ok library -> wf_aig a = true -> exists a', rewrite library a = Some a'.
Proof. exact rewrite_total. Qed.

(* the cut-replacement step on its own: every candidate kept by try_library_rewrite evaluates to
   the old root in the new graph *)
Theorem C21_cut_replacement :
  forall canon library, canon_ok canon -> lib_ok library ->
  forall old root new_edge nn cuts,
  wf_nodes old -> length new_edge = root -> good nn -> edges_ok old nn new_edge ->
  Forall (cut_ok old root) cuts ->
  let r := try_library_rewrite canon library nn old root cuts new_edge in
  good (fst r) /\ extends nn (fst r) /\
  match snd r with
  | Some e => in_range (fst r) e /\
              forall env, edge_val (eval_nodes env (fst r)) e = nth root (eval_nodes env old) false
  | None => True
  end.
Proof. exact try_library_rewrite_spec. Qed.

(* non-vacuity *)
Example C21_identity_is_transform : In IDENTITY all_transforms.
Proof. exact identity_in_all. Qed.
Example C21_lib_ok_instance : forall pats, lib_ok (canon_pass (by_tt_of pats)).
Proof. exact library_lib_ok. Qed.
Example C21_canon_ok_instance : canon_ok npn_canonical.
Proof. exact npn_canonical_ok. Qed.
Example C21_wf_example :
  wf_aig (mkAig [NConst; NInput 10; NInput 11; NAnd (1%nat, false) (2%nat, true); NAnd (1%nat, true) (2%nat, false);
                 NAnd (3%nat, true) (4%nat, true)] [(20%N, (5%nat, true))]) = true.
Proof. reflexivity. Qed.
Example C21_rewrite_example :
  exists a', rewrite [] (mkAig [NConst; NInput 10; NInput 11; NAnd (1%nat, false) (2%nat, false)] [(20%N, (3%nat, false))]) = Some a'.
Proof. eexists. vm_compute. reflexivity. Qed.

Print Assumptions C21_canonical_reaches.
Print Assumptions C21_canonical_least.
Print Assumptions C21_transforms_closed.
Print Assumptions C21_transforms_inverse.
Print Assumptions C21_all_perms_complete.
Print Assumptions C21_canonical_class_invariant.
Print Assumptions C21_transform_pattern_correct.
Print Assumptions C21_library_sound.
Print Assumptions C21_rewrite_preserves.
Print Assumptions C21_rewrite_total.
Print Assumptions C21_cut_replacement.
