(* C29 — The cache store behaves like a versioned key-value map.
   Only the property theorems (statement + exact), non-vacuity examples and their assumptions.
   Model: Store/StoreModel.v (crates/cache/src/lib.rs).  `name`/`H` = blob file names / content hash;
   the two hypotheses are decidable equality of names and collision-freedom of the hash. *)
Require Import NArith List Bool.
From VV Require Import Store.AMap Store.StoreConsts Store.StoreModel Store.StoreProofs.
Import ListNotations.
Open Scope N_scope.

(* For EVERY operation sequence (open/try_open, put, set_diagnostics, keep, invalidate,
   set_dependents, set_tests, save, drop, and external deletion / schema rewrite of the manifest at
   any time) and every source path, what the open store returns (entry fields, load, load_diagnostics)
   is what the abstract versioned map returns, at every point of the history. *)
Theorem C29_store_refines_map :
  forall (name : Type) (name_eqb : name -> name -> bool) (H : list N -> name),
  (forall a b, name_eqb a b = true <-> a = b) ->
  (forall a b, H a = H b -> a = b) ->
  forall ops p,
    obs name_eqb H (run name name_eqb H ops init) p = aobs (arun true ops ainit) p.
Proof. exact store_refines_map. Qed.

(* The skipped manifest write of an identical re-scan loses nothing: when the manifest is tampered
   with only while no store is open, the specification that skips and the one that commits on every
   save are observationally equal ... *)
Theorem C29_skip_save_loses_nothing :
  forall ops p, disciplined false ops = true ->
    aobs (arun true ops ainit) p = aobs (arun false ops ainit) p.
Proof. exact skip_save_loses_nothing. Qed.

(* ... hence the store refines the always-committing map. *)
Theorem C29_store_refines_pure_map :
  forall (name : Type) (name_eqb : name -> name -> bool) (H : list N -> name),
  (forall a b, name_eqb a b = true <-> a = b) ->
  (forall a b, H a = H b -> a = b) ->
  forall ops p, disciplined false ops = true ->
    obs name_eqb H (run name name_eqb H ops init) p = aobs (arun false ops ainit) p.
Proof. exact store_refines_pure_map. Qed.

(* Reopening with the same key returns, for each source path, exactly the entry and the blob /
   diagnostics bytes of the last saved build (= the pending map of the specification at the save). *)
Theorem C29_reopen_returns_last_saved_build :
  forall (name : Type) (name_eqb : name -> name -> bool) (H : list N -> name),
  (forall a b, name_eqb a b = true <-> a = b) ->
  (forall a b, H a = H b -> a = b) ->
  forall ops ah p, disciplined false ops = true ->
    a_h (arun false ops ainit) = Some ah ->
    obs name_eqb H (run name name_eqb H (ops ++ [Save; Drop; Open (ah_key ah)]) init) p =
    omap (fun e => (a_hash e, a_deps e, a_tests e, a_frag e, a_diag e)) (lookup p (ah_pend ah)).
Proof. exact reopen_returns_last_saved_build. Qed.

(* Reopening with a different key returns no entries ... *)
Theorem C29_reopen_other_key_empty :
  forall (name : Type) (name_eqb : name -> name -> bool) (H : list N -> name),
  (forall a b, name_eqb a b = true <-> a = b) ->
  (forall a b, H a = H b -> a = b) ->
  forall ops ah k' p, disciplined false ops = true ->
    a_h (arun false ops ainit) = Some ah -> k' <> ah_key ah ->
    obs name_eqb H (run name name_eqb H (ops ++ [Save; Drop; Open k']) init) p = None.
Proof. exact reopen_other_key_empty. Qed.

(* ... and so does any open that finds a manifest of another key or schema on disk (no hypothesis
   on the hash needed). *)
Theorem C29_other_key_or_schema_empty :
  forall (name : Type) (name_eqb : name -> name -> bool) (H : list N -> name) ops k p,
    match d_man (fst (run name name_eqb H ops init)) with
    | Some (sc, k', _) => sc <> SCHEMA \/ k' <> k
    | None => True
    end ->
    obs name_eqb H (step name name_eqb H (Open k) (run name name_eqb H ops init)) p = None.
Proof. exact other_key_or_schema_empty. Qed.

(* Saving never deletes (or alters) a blob that the manifest it leaves on disk references, and every
   such blob is a file holding a well-formed frame. *)
Theorem C29_save_keeps_referenced :
  forall (name : Type) (name_eqb : name -> name -> bool) (H : list N -> name),
  (forall a b, name_eqb a b = true <-> a = b) ->
  (forall a b, H a = H b -> a = b) ->
  forall ops sc k f n,
    let s := run name name_eqb H ops init in
    let s' := step name name_eqb H Save s in
    d_man (fst s') = Some (sc, k, f) -> In n (refs name f) ->
    blob_lookup name name_eqb n (d_blobs (fst s')) = blob_lookup name name_eqb n (d_blobs (fst s)) /\
    exists payload, blob_lookup name name_eqb n (d_blobs (fst s')) = Some (frame payload).
Proof. exact save_keeps_referenced. Qed.

Theorem C29_manifest_blobs_present :
  forall (name : Type) (name_eqb : name -> name -> bool) (H : list N -> name),
  (forall a b, name_eqb a b = true <-> a = b) ->
  (forall a b, H a = H b -> a = b) ->
  forall ops sc k f n,
    d_man (fst (run name name_eqb H ops init)) = Some (sc, k, f) -> In n (refs name f) ->
    exists payload,
      blob_lookup name name_eqb n (d_blobs (fst (run name name_eqb H ops init))) = Some (frame payload) /\
      read_blob name name_eqb H (d_blobs (fst (run name name_eqb H ops init))) n = Some payload.
Proof. exact manifest_blobs_present. Qed.

(* ---- non-vacuity *)
(* the hypotheses are satisfiable: names = the bytes themselves, H = identity *)
Example C29_instance_ok :
  (forall a b, bytes_eqb a b = true <-> a = b) /\ (forall a b : list N, (fun d => d) a = (fun d => d) b -> a = b).
Proof. split; [exact bytes_eqb_spec | auto]. Qed.

(* the unit test `roundtrip_and_gc` of crates/cache as a model run *)
Definition ut_build := [Open 1; Put 0 1 (Some [98;108;111;98]); Put 1 2 None; SetDeps 0 [1]; Save; Drop].
Example C29_disciplined_example : disciplined false (ut_build ++ [Open 1]) = true.
Proof. reflexivity. Qed.
Example C29_roundtrip_example :
  obs bytes_eqb (fun d => d) (run_id (ut_build ++ [Open 1])) 0 = Some (1, [1], [], Some [98;108;111;98], None) /\
  obs bytes_eqb (fun d => d) (run_id (ut_build ++ [Open 1])) 1 = Some (2, [], [], None, None) /\
  obs bytes_eqb (fun d => d) (run_id (ut_build ++ [Open 2])) 0 = None /\
  d_blobs (fst (run_id (ut_build ++ [Open 2; Save; Drop; Open 1]))) = [] /\
  obs bytes_eqb (fun d => d) (run_id (ut_build ++ [Open 2; Save; Drop; Open 1])) 0 = None.
Proof. vm_compute. repeat split. Qed.

(* the unit test `unchanged_rescan_skips_manifest_write`: the manifest is deleted behind an open
   store's back (NOT disciplined); the identical re-scan skips the write, the manifest stays absent,
   the live handle still answers, a reopened store sees nothing. *)
Definition ut_skip := [Open 1; Put 0 1 (Some [98]); Save; ExtRm; Keep 0; Save].
Example C29_skip_save_after_external_delete :
  disciplined false ut_skip = false /\
  d_man (fst (run_id ut_skip)) = None /\
  obs bytes_eqb (fun d => d) (run_id ut_skip) 0 = Some (1, [], [], Some [98], None) /\
  obs bytes_eqb (fun d => d) (run_id (ut_skip ++ [Drop; Open 1])) 0 = None /\
  aobs (arun true (ut_skip ++ [Drop; Open 1]) ainit) 0 = None /\
  aobs (arun false (ut_skip ++ [Drop; Open 1]) ainit) 0 = Some (1, [], [], Some [98], None).
Proof. vm_compute. repeat split. Qed.

Print Assumptions C29_store_refines_map.
Print Assumptions C29_skip_save_loses_nothing.
Print Assumptions C29_store_refines_pure_map.
Print Assumptions C29_reopen_returns_last_saved_build.
Print Assumptions C29_reopen_other_key_empty.
Print Assumptions C29_other_key_or_schema_empty.
Print Assumptions C29_save_keeps_referenced.
Print Assumptions C29_manifest_blobs_present.
