(* C20 — Synthesized netlists are well-formed and the area/depth reports match them.
   Only the property theorems (statement + exact) and their assumptions.
   Model: Gate/NetlistModel.v (ir.rs GateModule + the checker / area / longest-path functions);
   cell kinds, arities and library tables: Gate/GeneratedCells.v (translators/cells.py). *)
From Coq Require Import NArith List Bool Permutation.
Import ListNotations.
From VV Require Import Gate.GeneratedCells Gate.NetlistModel Gate.NetlistProofs.
Open Scope N_scope.

(* the checker that is run on every real netlist accepts EXACTLY the netlists in which every net
   reference is in range, every cell has arity(kind) inputs, no net has two drivers, every net that is
   read has exactly one driver, and the combinational nodes (cells, asynchronous RAM read ports) can be
   put in an order in which every node only reads nets that are undriven or driven by an earlier node *)
Theorem C20_wf_check_sound_and_complete : forall nl, wf_check nl = true <-> wf nl.
Proof. exact wf_check_correct. Qed.

(* the cycle check on its own: accepted iff a topological order exists *)
Theorem C20_cycle_check_sound : forall all m, longest all = Some m -> acyclic (map fst all).
Proof. exact longest_some_acyclic. Qed.
Theorem C20_cycle_check_complete : forall all, acyclic (map fst all) -> exists m, longest all = Some m.
Proof. exact acyclic_longest_some. Qed.

(* the levelised computation = maximum over all paths, attained by a witness path *)
Theorem C20_longest_is_max_over_paths :
  forall all, NoDup (flat_map (fun nw => cn_outs (fst nw)) all) ->
  forall m, longest all = Some m ->
  forall x, (forall p, chain all x p -> weight p <= val_of m x) /\ (exists p, chain all x p /\ weight p = val_of m x).
Proof. intros all ND m H x. split; [intros p Hc; exact (longest_upper all ND m H p x Hc)|exact (longest_witness all ND m H x)]. Qed.

(* reports of a well-formed netlist *)
Theorem C20_reports_defined : forall l nl, wf nl ->
  (exists m, arrivals l nl = Some m) /\ (exists m, depths nl = Some m).
Proof. exact wf_reports_defined. Qed.

Theorem C20_critical_delay_is_longest_path : forall l nl D, wf nl -> critical_delay l nl = Some D ->
  (forall e p, In e (endpoints nl) -> chain (delay_nodes l nl) e p -> weight p <= D) /\
  ((endpoints nl = [] /\ D = 0) \/ exists e p, In e (endpoints nl) /\ chain (delay_nodes l nl) e p /\ weight p = D).
Proof. exact critical_delay_is_longest_path. Qed.

Theorem C20_depth_is_longest_path : forall nl m x, wf nl -> depths nl = Some m ->
  (forall p, chain (level_nodes nl) x p -> weight p <= val_of m x) /\
  (exists p, chain (level_nodes nl) x p /\ weight p = val_of m x).
Proof. exact depth_is_longest_path. Qed.

(* area = sum of the library areas of cells, flip-flops and RAM bits (scaled by 10^12), additive *)
Theorem C20_area_def : forall l nl,
  total_area l nl =
  sumN (map (fun c => cell_area l (c_kind c)) (n_cells nl)) * SCALE
  + N.of_nat (length (n_ffs nl)) * ff_area l * SCALE
  + sumN (map (fun m => m_depth m * m_width m) (n_rams nl)) * (ff_area l * SRAM_BIT_AREA_FACTOR).
Proof. exact area_def. Qed.
Theorem C20_area_additive : forall l n p c1 c2 f1 f2 r1 r2,
  total_area l (mkNl n p (c1 ++ c2) (f1 ++ f2) (r1 ++ r2)) =
  total_area l (mkNl n p c1 f1 r1) + total_area l (mkNl n p c2 f2 r2).
Proof. exact area_additive. Qed.

(* non-vacuity: a small netlist with a FF, a mux and an inverter is well-formed; a loop is rejected *)
Definition ex_nl : netlist :=
  mkNl 8 [(PIn, [2; 3]); (POut, [6])]
       [mkCell Not [2] 4; mkCell Mux2 [3; 4; 7] 5; mkCell Buf [5] 6]
       [mkFf 2 5 7 None] [].
Example C20_example_wf : wf_check ex_nl = true.
Proof. vm_compute. reflexivity. Qed.
Example C20_example_report :
  critical_delay LibSky130 ex_nl = Some (cell_delay LibSky130 Not + cell_delay LibSky130 Mux2 + cell_delay LibSky130 Buf)
  /\ max_depth ex_nl = Some 2.
Proof. vm_compute. split; reflexivity. Qed.
Example C20_example_loop_rejected :
  wf_diag (mkNl 6 [(PIn, [2]); (POut, [4])] [mkCell And2 [2; 4] 3; mkCell Not [3] 4] [] []) = 5.
Proof. vm_compute. reflexivity. Qed.
Example C20_example_double_driver_rejected :
  wf_diag (mkNl 6 [(PIn, [2]); (POut, [4])] [mkCell Not [2] 4; mkCell Buf [2] 4] [] []) = 3.
Proof. vm_compute. reflexivity. Qed.

Print Assumptions C20_wf_check_sound_and_complete.
Print Assumptions C20_cycle_check_sound.
Print Assumptions C20_cycle_check_complete.
Print Assumptions C20_longest_is_max_over_paths.
Print Assumptions C20_reports_defined.
Print Assumptions C20_critical_delay_is_longest_path.
Print Assumptions C20_depth_is_longest_path.
Print Assumptions C20_area_def.
Print Assumptions C20_area_additive.
