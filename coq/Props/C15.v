(* C15 — Driver, latch and read-before-assign checks are exact.
   This file holds only the property theorems (statement + exact) and their assumptions.
   Model: Analysis/AssignMaskModel.v — AssignTableEntry::{new, add, merge_by_or},
   AssignTable::{merge_by_or_from, check_uncoverd, check_uncoverd_n_way, check_refered},
   Module::eval_assign's unassigned rule, and the statement walk of ir/statement.rs, on N masks
   (one array element). *)
From Coq Require Import NArith List Bool.
From VV Require Import Analysis.AssignMaskModel Analysis.AssignMaskProofs.
Import ListNotations.
Open Scope N_scope.

(* the bit-level reading of every `a & b != 0` test in assign_table.rs *)
Theorem C15_land_nonzero_shared_bit : forall a b,
  N.land a b <> 0 <-> exists i, N.testbit a i = true /\ N.testbit b i = true.
Proof. exact land_nonzero_shared_bit. Qed.

(* Multiple assignment.  Two processes writing at constant positions conflict iff they share a bit ... *)
Theorem C15_conflict_const_exact : forall a b,
  merge_conflict (const_proc a) (const_proc b) = true <->
  exists i, N.testbit a i = true /\ N.testbit b i = true.
Proof. exact conflict_const_exact. Qed.

(* ... for arbitrary table entries without dynamic writes: iff the definite masks share a bit ... *)
Theorem C15_conflict_definite_exact : forall x v, e_dynamic x = 0 -> e_dynamic v = 0 ->
  (merge_conflict x v = true <->
   exists i, N.testbit (e_definite x) i = true /\ N.testbit (e_definite v) i = true).
Proof. exact conflict_definite_exact. Qed.

(* ... and with dynamic writes in two driving processes: additionally when a dynamic range of
   one meets anything the other may write. *)
Theorem C15_conflict_dynamic : forall x v, e_pw x = true -> e_pw v = true ->
  (merge_conflict x v = true <->
   (exists i, N.testbit (e_dynamic x) i = true /\ N.testbit (e_mask v) i = true) \/
   (exists i, N.testbit (e_dynamic v) i = true /\ N.testbit (e_mask x) i = true) \/
   (exists i, N.testbit (e_definite x) i = true /\ N.testbit (e_definite v) i = true)).
Proof. exact conflict_dynamic. Qed.

(* The module-level loop (one fresh table per declaration, merged in order with conflict check)
   reports a multiple assignment of v iff two different processes may write a common bit. *)
Theorem C15_multi_model_is_spec : forall procs v, multi_model procs v = multi_spec procs v.
Proof. exact multi_model_is_spec. Qed.

Theorem C15_multi_assign_exact : forall procs v,
  multi_model procs v = true <->
  exists i j p q bit, (i < j)%nat /\ nth_error procs i = Some p /\ nth_error procs j = Some q /\
    N.testbit (may_write p v) bit = true /\ N.testbit (may_write q v) bit = true.
Proof. exact multi_assign_exact. Qed.

(* Uncovered branch, one `if`: reported iff some bit not written before the `if` is written on
   exactly one side. *)
Theorem C15_uncovered2_exact : forall src tgt base,
  uncovered2 src tgt base = true <->
  exists i, N.testbit base i = false /\ N.testbit src i <> N.testbit tgt i.
Proof. exact uncovered2_exact'. Qed.

(* n-way (case): reported iff some bit is covered in one branch and not in another; the n-way and
   the two-way check agree. *)
Theorem C15_uncovered_n_exact : forall bs base, (2 <= length bs)%nat ->
  (uncovered_n bs base = true <->
   exists i b1 b2, In b1 bs /\ In b2 bs /\
     (N.testbit b1 i || N.testbit base i) = true /\ (N.testbit b2 i || N.testbit base i) = false).
Proof. exact uncovered_n_exact. Qed.

Theorem C15_n_way_eq_pairwise : forall bs base, (2 <= length bs)%nat ->
  (uncovered_n bs base = true <->
   exists b1 b2, In b1 bs /\ In b2 bs /\ uncovered2 b1 b2 base = true).
Proof. exact n_way_eq_pairwise. Qed.

Theorem C15_n_way_two_is_two_way : forall a b base, uncovered_n [a; b] base = uncovered2 a b base.
Proof. exact n_way_two_is_two_way. Qed.

(* Read before assign (check_refered): never a false alarm; exact when none of the read bits that
   are assigned now was assigned before; NOT exact in general (finding rba-masks). *)
Theorem C15_check_refered_sound : forall r a m,
  check_refered r a m = true ->
  exists i, N.testbit m i = true /\ N.testbit r i = true /\ N.testbit a i = false.
Proof. exact check_refered_sound_bits. Qed.

Theorem C15_check_refered_exact_outside_partial : forall r a m,
  N.land (N.land r m) a = 0 ->
  (check_refered r a m = true <->
   exists i, N.testbit m i = true /\ N.testbit r i = true /\ N.testbit a i = false).
Proof. exact check_refered_exact_outside_bits. Qed.

Theorem C15_check_refered_refuted :
  exists r a m, read_before_assign r a m = true /\ check_refered r a m = false.
Proof. exact check_refered_refuted. Qed.

(* Module-level unassigned rule: reported iff some bit is never assigned and (the variable is an
   output, or nothing at all is assigned, or a never-assigned bit is read). *)
Theorem C15_unassigned_exact : forall w o a r, N.land (gen_mask w) a = a ->
  (unassigned_report w o a r = true <->
   (exists i, i < w /\ N.testbit a i = false) /\
   (o = true \/ a = 0 \/ exists i, i < w /\ N.testbit a i = false /\ N.testbit r i = true)).
Proof. exact unassigned_exact. Qed.

(* Statement walk vs path semantics: the three places where they differ (findings), each replayed
   on the analyzer by the check (corpus/C15). *)
Theorem C15_uncovered_later_assign_refuted :
  let b := [SIf [SWrite 0 1] []; SWrite 0 1] in
  s_unc (run_comb b) = [0] /\ uncovered_spec b 0 = false.
Proof. exact uncovered_later_assign_refuted. Qed.

Theorem C15_rba_branch_refuted :
  let b := [SIf [SWrite 0 1] [SRead 0 1; SWrite 1 1; SWrite 0 1]] in
  s_rba (run_comb b) = [] /\ rba_spec b 0 = true.
Proof. exact rba_branch_refuted. Qed.

Theorem C15_rba_partial_refuted :
  let b := [SWrite 0 1; SRead 0 3; SWrite 0 3] in
  s_rba (run_comb b) = [] /\ rba_spec b 0 = true.
Proof. exact rba_partial_refuted. Qed.

(* Non-vacuity *)
Example C15_ex_conflict_bit128 :
  merge_conflict (const_proc (mask_range 128 0)) (const_proc (mask_range 129 128)) = true /\
  merge_conflict (const_proc (mask_range 127 0)) (const_proc (mask_range 129 128)) = false.
Proof. split; reflexivity. Qed.
Example C15_ex_dynamic_hyp :
  e_pw (mark_process true (entry_new 3 true true)) = true.
Proof. reflexivity. Qed.
Example C15_ex_uncovered_n_len : (2 <= length [1; 3; 2])%nat /\ uncovered_n [1; 3; 2] 0 = true /\ uncovered_n [1; 3; 2] 3 = false.
Proof. repeat split; repeat constructor. Qed.
Example C15_ex_refered_hyp : N.land (N.land 6 6) 1 = 0 /\ check_refered 6 1 6 = true.
Proof. split; reflexivity. Qed.
Example C15_ex_unassigned_hyp :
  N.land (gen_mask 4) 3 = 3 /\ unassigned_report 4 false 3 4 = true /\ unassigned_report 4 false 3 1 = false
  /\ unassigned_report 4 true 3 0 = true.
Proof. repeat split. Qed.
Example C15_ex_blocks :
  s_unc (run_comb [SWrite 0 1; SIf [SWrite 0 1] []]) = [] /\
  s_unc (run_comb [SIf [SWrite 0 1] []]) = [0] /\
  s_rba (run_comb [SRead 0 3; SWrite 1 3; SWrite 0 3]) = [0].
Proof. repeat split. Qed.

Print Assumptions C15_land_nonzero_shared_bit.
Print Assumptions C15_conflict_const_exact.
Print Assumptions C15_conflict_definite_exact.
Print Assumptions C15_conflict_dynamic.
Print Assumptions C15_multi_model_is_spec.
Print Assumptions C15_multi_assign_exact.
Print Assumptions C15_uncovered2_exact.
Print Assumptions C15_uncovered_n_exact.
Print Assumptions C15_n_way_eq_pairwise.
Print Assumptions C15_n_way_two_is_two_way.
Print Assumptions C15_check_refered_sound.
Print Assumptions C15_check_refered_exact_outside_partial.
Print Assumptions C15_check_refered_refuted.
Print Assumptions C15_unassigned_exact.
Print Assumptions C15_uncovered_later_assign_refuted.
Print Assumptions C15_rba_branch_refuted.
Print Assumptions C15_rba_partial_refuted.
