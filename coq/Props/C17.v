(* C17 — Compile-time evaluation follows IEEE 1800 operator semantics. (theorems added below) *)
From VV Require Import Value.SpecGlue.
