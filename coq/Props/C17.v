(* C17 — Compile-time evaluation follows IEEE 1800 operator semantics.
   Statements only; models in Value/ValueModel.v (transcription of value.rs / op.rs),
   reference in BV/Ops1800.v, calling convention in Value/SpecGlue.v, proofs in Value/ValueProofs*.v
   and Value/ValueTheorems.v.

   agrees r sp w  :=  exists v, r = Some v /\ sp = Some (payload, mask of v) /\ width v = w /\ v fits w.
   (r = Some _ also says: no panic / unreachable arm in the model.) *)
From VV Require Import BV.Ops1800 Value.ValueModel Value.SpecGlue Value.ValueProofs
  Value.ValueProofsBits Value.ValueProofsCmp Value.ValueProofsRed Value.ValueProofsDiv Value.ValueProofsPow Value.ValueTheorems.
Open Scope N_scope.

(* Every unary operator of eval_value_unary (+ - ~ & ~& | ~| ^ ~^ !), both representations,
   every width: the model's result is the IEEE 1800 value. *)
Theorem C17_unary_follows_ieee1800 :
  forall o x w s, pre_unary o x w -> agrees (eval_unary o x w s) (spec_unary o x w s) w.
Proof. exact eval_unary_spec. Qed.

(* Every binary operator of eval_value_binary: + - * / % ** & | ^ ~^ << <<< >> >>> < <= > >= == !=
   ==? !=? && ||, both representations (incl. mixed U64/BigUint operands), every width, signed and
   unsigned, 2- and 4-state operands.  == != && ** hold outside their known deviation classes
   (hypotheses eq_known_dev / land_known_dev / pow_*_dev = false inside pre_binary; each class is
   refuted below), ** additionally with the context signedness = that of its left operand. *)
Theorem C17_binary_follows_ieee1800 :
  forall o x y w s, pre_binary o x y w s -> agrees (eval_binary o x y w s) (spec_binary o x y w s) w.
Proof. exact eval_binary_spec. Qed.

(* The preconditions are met by every pair of canonical values (U64 iff width <= 64, payload and
   mask below 2^width) whose widths do not exceed the context width. *)
Theorem C17_canonical_operands_admissible :
  forall o x y w s, wfv x -> wfv y -> wd x <= w -> wd y <= w -> w < 2 ^ 32 ->
  match o with
  | As | BitNand | BitNor | BitNot | LogicNot => True
  | Eq | Ne => eq_known_dev x y = false -> pre_binary o x y w s
  | LogicAnd => land_known_dev x y = false -> pre_binary o x y w s
  | Pow => s = sg x -> pow_xz_sign_dev y = false -> pow_big_exp_dev y = false -> pre_binary o x y w s
  | _ => pre_binary o x y w s
  end.
Proof. exact pre_binary_canonical. Qed.

Theorem C17_canonical_operand_admissible_unary :
  forall o x w, wfv x -> wd x <= w ->
  match o with
  | Add | Sub | BitNot | BitAnd | BitNand | BitOr | BitNor | BitXor | BitXnor | LogicNot => pre_unary o x w
  | _ => True
  end.
Proof. exact pre_unary_canonical. Qed.

(* The U64 and the BigUint code paths agree on every value they can both hold. *)
Theorem C17_representations_agree :
  forall o x y x' y' w s,
  pre_binary o x y w s -> pre_binary o x' y' w s -> num x = num x' -> num y = num y' ->
  exists v v', eval_binary o x y w s = Some v /\ eval_binary o x' y' w s = Some v' /\
               pl v = pl v' /\ mk v = mk v' /\ wd v = wd v'.
Proof. exact repr_agree_binary. Qed.

Theorem C17_representations_agree_unary :
  forall o x x' w s,
  pre_unary o x w -> pre_unary o x' w -> num x = num x' ->
  exists v v', eval_unary o x w s = Some v /\ eval_unary o x' w s = Some v' /\
               pl v = pl v' /\ mk v = mk v' /\ wd v = wd v'.
Proof. exact repr_agree_unary. Qed.

(* No panic (checked u64 arithmetic, width-1 underflow, unreachable!()) on admissible operands. *)
Theorem C17_no_panic_binary :
  forall o x y w s, pre_binary o x y w s -> eval_binary o x y w s <> None.
Proof. exact eval_binary_no_panic. Qed.
Theorem C17_no_panic_unary :
  forall o x w s, pre_unary o x w -> eval_unary o x w s <> None.
Proof. exact eval_unary_no_panic. Qed.

(* The oracle evaluated by the check (amounts clipped so that vm_compute terminates) is the
   reference itself. *)
Theorem C17_executable_oracle_is_reference :
  forall o x y w s, spec_binary_exec o x y w s = spec_binary o x y w s.
Proof. exact spec_binary_exec_eq. Qed.

(* Known deviations of the unchanged code (KNOWN_FINDINGS.txt), as facts about the model. *)
Theorem C17_eq_refuted :
  exists x y, wfv x /\ wfv y /\ eq_known_dev x y = true /\
    option_map vecv (eval_binary Eq x y 1 false) = Some (mkVec 0 0) /\
    spec_binary Eq x y 1 false = Some (mkVec 0 1).
Proof. exact eval_eq_refuted. Qed.
Theorem C17_ne_refuted :
  exists x y, wfv x /\ wfv y /\ eq_known_dev x y = true /\
    option_map vecv (eval_binary Ne x y 1 false) = Some (mkVec 1 0) /\
    spec_binary Ne x y 1 false = Some (mkVec 0 1).
Proof. exact eval_ne_refuted. Qed.
Theorem C17_logicand_refuted :
  exists x y, wfv x /\ wfv y /\ land_known_dev x y = true /\
    option_map vecv (eval_binary LogicAnd x y 1 false) = Some (mkVec 0 1) /\
    spec_binary LogicAnd x y 1 false = Some (mkVec 0 0).
Proof. exact eval_logicand_refuted. Qed.
Theorem C17_pow_xz_exponent_refuted :
  exists x y, wfv x /\ wfv y /\ pow_xz_sign_dev y = true /\
    option_map vecv (eval_binary Pow x y 1 false) = Some (mkVec 1 0) /\
    spec_binary Pow x y 1 false = Some (mkVec 0 1).
Proof. exact eval_pow_refuted. Qed.

Theorem C17_pow_big_exponent_refuted :
  let x := mkV RB 3 0 100 false in let y := mkV RB (2 ^ 64) 0 65 false in
  pow_big_exp_dev y = true /\
  option_map vecv (eval_binary Pow x y 100 false) = Some (mkVec 82794860378804020239867226795 0) /\
  spec_binary Pow x y 100 false = Some (mkVec 248384581136412060719601680385 0).
Proof. exact eval_pow_big_exponent_refuted. Qed.

(* Non-vacuity of the hypotheses. *)
Example C17_ex_canonical_u64 : wfv (mkV RU 200 0 8 false) /\ wfv (mkV RU 5 2 3 true).
Proof. exact ex_canonical_u64. Qed.
Example C17_ex_canonical_big : wfv (mkV RB (2 ^ 99 + 1) (2 ^ 64) 100 true).
Proof. exact ex_canonical_big. Qed.
Example C17_ex_mixed_operands :
  pre_binary Add (mkV RU 5 2 3 true) (mkV RB (2 ^ 99 + 1) (2 ^ 64) 100 true) 100 true.
Proof. exact ex_pre_add_mixed. Qed.
Example C17_ex_both_representations :
  pre_binary Mul (mkV RU 200 0 8 false) (mkV RU 77 0 8 false) 8 false /\
  pre_binary Mul (as_big (mkV RU 200 0 8 false)) (as_big (mkV RU 77 0 8 false)) 8 false.
Proof. exact ex_pre_both_reps. Qed.
Example C17_ex_pow_admissible : pre_binary Pow (mkV RU 253 0 8 true) (mkV RU 5 0 4 false) 8 true.
Proof. exact ex_pre_pow. Qed.
Example C17_ex_outside_deviation_classes :
  eq_known_dev (mkV RU 2 1 2 false) (mkV RU 1 0 2 false) = false /\
  land_known_dev (mkV RU 2 1 2 false) (mkV RU 1 0 2 false) = false.
Proof. exact ex_not_in_dev_class. Qed.

Print Assumptions C17_unary_follows_ieee1800.
Print Assumptions C17_binary_follows_ieee1800.
Print Assumptions C17_canonical_operands_admissible.
Print Assumptions C17_canonical_operand_admissible_unary.
Print Assumptions C17_representations_agree.
Print Assumptions C17_representations_agree_unary.
Print Assumptions C17_no_panic_binary.
Print Assumptions C17_no_panic_unary.
Print Assumptions C17_executable_oracle_is_reference.
Print Assumptions C17_eq_refuted.
Print Assumptions C17_ne_refuted.
Print Assumptions C17_logicand_refuted.
Print Assumptions C17_pow_xz_exponent_refuted.
Print Assumptions C17_pow_big_exponent_refuted.
