(* C01 — Emitted SystemVerilog behaves exactly like the Veryl design.
   This file holds only the property theorems (statement + exact), non-vacuity examples and assumptions.

   sv_run     event semantics of the emitted µSV text (Sv/Sem.v: OUR reading of IEEE 1800 — trusted)
   emit       model of the emitter for the µRTL core (Sv/Emit.v; compared with the real emitter on every run)
   drive      the testbench convention: per cycle, inputs change with the clock at its inactive level and
              the reset deasserted; then the active clock edge and/or the reset assertion in one time step
   veryl_run  veryl's own meaning under a configuration (Rtl/Cycle.v pieces + the simulator's tables)

   FULL STATEMENT of the property on the core (emit_preserves):
       forall md c D comb ffs outs stim st,
         forallb (item_ok D) comb = true -> forallb (item_ok D) ffs = true ->
         topo_ok comb = true -> single_driver_ok comb = true ->
         sv_run md D (map (emit_item c) comb) (map (emit_item c) ffs) outs (drive c stim) (env_idle c) st
         = veryl_run md c D comb ffs outs stim st.
   PROVED below: the same with the additional hypothesis settle_idem (settling a settled state changes
   nothing) — C01_emit_preserves_partial — and outright for comb networks in which no item reads back a
   variable it writes — C01_emit_preserves_noself.  THE GAP: settle_idem for always_comb blocks that read
   their own targets after assigning them (it is checked at run time on every state the check visits). *)
From VV Require Import Rtl.CycleProofs Sv.Emit Sv.Proofs Sv.Examples.
Open Scope N_scope.

(* The emitter's lowering arms and the simulator's interpretation arms (both regenerated from the Rust source
   by translators/clockreset.py) give every ClockType / ResetType and every declared port kind the meaning of
   its name: same edge, same polarity, same synchronicity; an explicit sensitivity list prints its separator
   exactly when it prints the reset entry. *)
Theorem C01_clock_reset_tables_agree :
  clock_tables_ok && reset_emitter_tables_ok && reset_simulator_tables_ok = true /\
  (forall c, em_list_wellformed c = true).
Proof. exact (conj tables_agree all_lists_wellformed). Qed.

(* (i) clock / reset lemma, for every configuration (2 clock types x 4 reset types x 3 declared clock kinds x
   5 declared reset kinds x implicit/explicit list) and every kind of step: at the sampling time step of
   `drive` the emitted always_ff puts into the NBA queue exactly what veryl's reset-then-else lowering puts
   into its write log; the time step that returns to the idle levels wakes no process. *)
Theorem C01_clock_reset_skeleton :
  forall md c D k pre it log, item_ok D it = true ->
    sv_ff_item md (env_idle c) (env_sample c k) D pre (emit_item c it) log = vff_item md c D k pre it log.
Proof. exact ff_item_sample. Qed.
Theorem C01_idle_step_wakes_nothing :
  forall md c D e pre it log, env_prev_ok c e ->
    sv_ff_item md e (env_idle c) D pre (emit_item c it) log = log.
Proof. exact ff_item_idle. Qed.

(* (ii) the emitted expression has the same IEEE-1800 value as the Veryl expression in every context, for
   every expression on which veryl's typing coincides with the standard's (expr_okc = expr_ok of the expression as
   printed, i.e. after the emitter's brace removal `canon`) *)
Theorem C01_emit_expr_preserves :
  forall md env D st e, expr_okc D e = true ->
    forall c, sv_ev md env D st c (emit_expr e) = ev md D st c e.
Proof. exact ev_emit. Qed.

(* ... and where only the width and the value of an operand matter (conditions, operands of ! && || and of the
   reductions, shift amounts, concatenation items, $signed/$unsigned arguments) also for a comparison of two
   signed operands, which veryl types as signed and the standard as unsigned (expr_okwc) *)
Theorem C01_emit_expr_preserves_selfdetermined :
  forall md env D st e, expr_okwc D e = true ->
    sv_ev md env D st (sv_gather D (emit_expr e)) (emit_expr e) = ev md D st (gather D e) e.
Proof. exact ev_emit_weak. Qed.

(* the emitter's brace removal (`{{a, b}}` prints `{a, b}`, `{x, {a repeat n}}` prints `{x, {n{a}}}`) changes neither
   the self-determined type nor the value *)
Theorem C01_brace_removal_preserves :
  forall md D st e, gather D (canon e) = gather D e /\ forall c, ev md D st c (canon e) = ev md D st c e.
Proof. exact canon_sound. Qed.

(* (iii) statements: an emitted always_comb body run with blocking assignments is exec_list; an emitted
   always_ff body run against the pre-edge state leaves the state alone and appends to the NBA queue exactly
   the write log of Rtl/Cycle.v *)
Theorem C01_emit_body_preserves :
  forall md env D nb l p, forallb (stmt_ok D) l = true ->
    sv_exec_list md env D (map (emit_stmt nb) l) p = vsem_list md D nb l p.
Proof. exact body_emit. Qed.

Theorem C01_emit_preserves_partial :
  forall md c D comb ffs outs,
    forallb (item_ok D) comb = true -> forallb (item_ok D) ffs = true -> settle_idem md D comb ->
    forall stim e st st', env_prev_ok c e -> peq st st' ->
      sv_run md D (map (emit_item c) comb) (map (emit_item c) ffs) outs (drive c stim) e st
      = veryl_run md c D comb ffs outs stim st'.
Proof. exact run_emit. Qed.

Theorem C01_settle_idem_noself :
  forall md D comb, topo_ok comb = true -> single_driver_ok comb = true -> forallb noself comb = true ->
    settle_idem md D comb.
Proof. exact settle_idem_noself. Qed.

Theorem C01_emit_preserves_noself :
  forall md c D comb ffs outs stim st,
    forallb (item_ok D) comb = true -> forallb (item_ok D) ffs = true ->
    topo_ok comb = true -> single_driver_ok comb = true -> forallb noself comb = true ->
    sv_run md D (map (emit_item c) comb) (map (emit_item c) ffs) outs (drive c stim) (env_idle c) st
    = veryl_run md c D comb ffs outs stim st.
Proof. exact run_emit_noself. Qed.

(* the configuration-generalised veryl step is the step of the shared reference Rtl/Cycle.v, whatever the
   configuration (the simulator is clock-edge agnostic and reads every reset kind consistently) *)
Theorem C01_veryl_step_is_rtl_step :
  forall md c D comb ffs (r : bool) ins st,
    veryl_step md c D comb ffs (if r then KClkRst else KClk) ins st = step md D comb ffs r ins st.
Proof. exact veryl_step_is_rtl_step. Qed.

(* FINDING (KNOWN_FINDINGS key relational-signedness): outside expr_ok the property fails — veryl types
   `sa <: sb` (both signed) as signed, IEEE 1800 as unsigned, and the emitter prints it operator for operator *)
Theorem C01_relational_signedness_refuted :
  exists D e st env, sv_ev M4 env D st (sv_actx D 16 (emit_expr e)) (emit_expr e) <> ev M4 D st (actx D 16 e) e.
Proof. exact relational_signedness_refuted. Qed.

(* Non-vacuity: a register with if_reset / if / case / part-select assignment, a signed >>>, a 65-bit add *)
Example C01_example_in_core :
  forallb (item_ok ex_D) ex_comb = true /\ forallb (item_ok ex_D) ex_ffs = true /\
  topo_ok ex_comb = true /\ single_driver_ok ex_comb = true /\ forallb noself ex_comb = true.
Proof. exact ex_in_core. Qed.
Example C01_example_signed_comparison_as_condition :
  stmt_ok rs_D (SIf (EBin BLt (EVar 0) (EVar 1)) [SAssign 3 (EBin BAdd (ECat [(EBin BGe (EVar 0) (EVar 1), 1)]) (EVar 2))] []) = true /\
  expr_okc rs_D rs_e = false.
Proof. split; reflexivity. Qed.
Example C01_example_brace_removal :
  emit_expr (ECat [(EVar 0, 1); (ECat [(EVar 1, 2)], 1)]) = XCat [(XVar 0, 1); (XVar 1, 2)] /\
  emit_expr (ECat [(ECat [(EVar 0, 1); (EVar 1, 1)], 1)]) = XCat [(XVar 0, 1); (XVar 1, 1)] /\
  emit_expr (ECat [(EBin BLt (EVar 0) (EVar 1), 1)]) = XCat [(XBin BLt (XVar 0) (XVar 1), 1)].
Proof. repeat split. Qed.
Example C01_example_emitted_async_low :
  emit_item async_low_cfg ex_counter =
  VFf [(Pos, SClk); (Neg, SRst)]
      [VIf (XUn ULogNot (XSig SRst)) [VNb 1 (XLit 8 false 5 0)]
           [VIf (XSel 0 0 0) [VNb 1 (XBin BAdd (XVar 1) (XVar 0))]
                [VCase false (XSel 0 2 1) [([XLit 2 false 1 0], [VNb 1 (XLit 8 false 0 0)])]
                       [VNbSel 1 7 4 (XSel 0 3 0)]]]].
Proof. exact ex_emitted_async_low. Qed.
Example C01_example_trace_async_low :
  map (map vp) (ex_sv_trace async_low_cfg) =
  [[5; 0; 1443977668760046091]; [8; 1; 2310364270016073745]; [7; 0; 2021568736264064527]; [199; 496; 20576823069230731151];
   [5; 0; 1443977668760046091]; [8; 1; 2310364270016073745]].
Proof. exact ex_trace_async_low. Qed.
Example C01_example_trace_sync_high_negedge :
  map (map vp) (ex_sv_trace sync_high_neg_cfg) =
  [[5; 0; 1443977668760046091]; [8; 1; 2310364270016073745]; [7; 0; 2021568736264064527]; [199; 496; 20576823069230731151];
   [199; 496; 20576823069230731151]; [202; 497; 21443209670486758805]].
Proof. exact ex_trace_sync_high_neg. Qed.

Print Assumptions C01_clock_reset_tables_agree.
Print Assumptions C01_clock_reset_skeleton.
Print Assumptions C01_idle_step_wakes_nothing.
Print Assumptions C01_emit_expr_preserves.
Print Assumptions C01_emit_expr_preserves_selfdetermined.
Print Assumptions C01_brace_removal_preserves.
Print Assumptions C01_emit_body_preserves.
Print Assumptions C01_emit_preserves_partial.
Print Assumptions C01_settle_idem_noself.
Print Assumptions C01_emit_preserves_noself.
Print Assumptions C01_veryl_step_is_rtl_step.
Print Assumptions C01_relational_signedness_refuted.
