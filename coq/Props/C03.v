(* C03 — Simulator optimisations never change observable behaviour.
   Category "other": the pass algorithms (crates/simulator/src/ir/opt/*.rs) are not modelled.  Proved
   here are the CONTRACTS a pass must stay within, over the statement-list model with read/write sets
   (Rtl/Frame.v), and that the reference semantics' comb items obey the model's two frame laws
   (Rtl/CombProofs.v) — so each contract holds for µRTL programs.  The passes themselves are tested
   end to end against the reference under every toggle set.  This file holds only statements. *)
From VV Require Import Rtl.Cycle Rtl.Frame Rtl.CombProofs.
Open Scope N_scope.

Section Contracts.
  Variables (V item : Type) (exec : item -> fstate V -> fstate V) (reads writes : item -> list N).
  Hypothesis frame_write : forall it s x, ~ In x (writes it) -> exec it s x = s x.
  Hypothesis frame_read : forall it s s', agree_on V (reads it) s s' ->
                                         forall x, In x (writes it) -> exec it s x = exec it s' x.
  Let run := frun V item exec.

  (* reordering: exchanging adjacent statements that have no RAW / WAR / WAW conflict, any number of
     times, preserves the whole state (comb fusion's sinking, comb layout, lane grouping) *)
  Theorem C03_reorder_preserves :
    forall l l', reorder item reads writes l l' -> forall s, steq V (run l s) (run l' s).
  Proof. exact (reorder_preserves V item exec reads writes frame_write frame_read). Qed.

  (* dead-write removal: a statement whose writes nobody reads afterwards can be dropped; every
     variable it does not write — in particular every observable — keeps its value (dead_var_dce) *)
  Theorem C03_dce_preserves :
    forall l1 d l2 (obs : list N),
      (forall b, In b l2 -> disjoint (writes d) (reads b)) -> disjoint obs (writes d) ->
      forall s, agree_on V obs (run (l1 ++ d :: l2) s) (run (l1 ++ l2) s).
  Proof. exact (dce_preserves_observables V item exec reads writes frame_write frame_read). Qed.

  (* duplicate / overwritten assignment: a write that a later statement overwrites completely
     before anyone reads it can be dropped without changing ANY variable (dup_assign_dce) *)
  Theorem C03_overwritten_write_dead :
    forall l1 d m o l2,
      (forall b, In b m -> disjoint (writes d) (reads b)) -> disjoint (writes d) (reads o) ->
      (forall x, In x (writes d) -> In x (writes o)) ->
      forall s, steq V (run (l1 ++ d :: m ++ o :: l2) s) (run (l1 ++ m ++ o :: l2) s).
  Proof. exact (overwritten_write_dead V item exec reads writes frame_write frame_read). Qed.

  (* cone gating: a cone that was evaluated in s0 (result s1), is idempotent on its own result, and
     none of whose inputs or outputs changed since, may be skipped *)
  Theorem C03_cone_gate_preserves :
    forall C s0 s,
      steq V (run C (run C s0)) (run C s0) ->
      agree_on V (reads_all item reads C) s (run C s0) ->
      agree_on V (writes_all item writes C) s (run C s0) ->
      steq V (run C s) s.
  Proof. exact (cone_gate_preserves V item exec reads writes frame_write frame_read). Qed.

  (* ... and an acyclic single-driver cone of idempotent statements is idempotent *)
  Theorem C03_cone_idempotent :
    forall C, topo item reads writes C -> single_driver item writes C ->
              (forall a, In a C -> idem V item exec a) ->
              forall s, steq V (run C (run C s)) (run C s).
  Proof. exact (run_idem V item exec reads writes frame_write frame_read). Qed.
End Contracts.

(* the reference semantics' comb items obey the two frame laws, in both value modes *)
Theorem C03_items_frame_write :
  forall md D it st x, ~ In x (iwrites it) -> exec_item md D it st x = st x.
Proof. exact item_frame_write. Qed.
Theorem C03_items_frame_read :
  forall md D it st st', agree_on vec (ireads it) st st' ->
                         forall x, In x (iwrites it) -> exec_item md D it st x = exec_item md D it st' x.
Proof. exact item_frame_read. Qed.

(* Non-vacuity: two µRTL items with disjoint read/write sets are independent and can be exchanged *)
Example C03_example_indep :
  indep item ireads iwrites (IAssign 3 (EBin BAdd (EVar 0) (EVar 1))) (IAssign 4 (EUn URXor (EVar 0))).
Proof. repeat split; intros x Hx Hy; simpl in *; intuition congruence. Qed.

Print Assumptions C03_reorder_preserves.
Print Assumptions C03_dce_preserves.
Print Assumptions C03_overwritten_write_dead.
Print Assumptions C03_cone_gate_preserves.
Print Assumptions C03_cone_idempotent.
Print Assumptions C03_items_frame_write.
Print Assumptions C03_items_frame_read.
