(* C30 — Concurrent veryl processes never corrupt each other.
   Only the property theorems (statement + exact) and their assumptions.

   Semantics: Proto/Procs.v (every interleaving of the processes' file-system primitives).
   Programs: Proto/Programs.v, GENERATED from the Rust sources (order of primitives) on every run.
   Systems:  Proto/Systems.v (which processes run together; what a complete file is).
   Each statement quantifies over ALL reachable states = all interleavings of the named finite
   system; it is established by a certificate check verified in Coq (ProcsProofs.closed_sound).
   This is a proof about the protocol skeleton (lock / exists / write / rename order), not about
   the Rust code that surrounds it. *)
Require Import NArith List Bool.
From VV Require Import Proto.Procs Proto.ProcsProofs Proto.Programs Proto.Systems Proto.ProtoProofs.
Import ListNotations.
Open Scope N_scope.

(* soundness of the method: a set of states that contains the initial state, is closed under every
   step of every process and satisfies `safe` covers every reachable state *)
Theorem C30_certificate_sound : forall safe init M,
  closed_check safe init M = true -> forall s, reachable init s -> safe s = true.
Proof. intros safe init M C s R. exact (proj2 (closed_sound safe init M C s R)). Qed.

(* two processes replace the manifest with atomic_write while a third reads it twice: every read
   returns the old contents or one of the two complete new contents — never a strict prefix *)
Theorem C30_atomic_write_no_torn_read : forall s, reachable aw_system s ->
  forall pr c, In pr (snd s) -> In (man, Some c) (p_log pr) ->
  c = OLD \/ c = [10; 11] \/ c = [20; 21].
Proof. exact atomic_write_no_torn_read. Qed.

(* non-vacuity of the model: with a plain in-place write the reader does see a strict prefix *)
Theorem C30_in_place_write_torn : exists s pr,
  reachable ip_system s /\ In pr (snd s) /\ In (man, Some [10]) (p_log pr).
Proof. exact in_place_write_torn. Qed.

(* two builds of one project: for all interleavings, the store (.build/cache) is read and written
   only by the holder of the store lock and of the .build lock, outputs are written only by the
   holder of the .build lock, manifest/blob reads are complete *)
Theorem C30_two_builds_safe : forall s, reachable builds_system s -> builds_safe s = true.
Proof. exact two_builds_safe. Qed.

(* ... hence mutual exclusion: two processes about to touch the store (or the outputs) are one *)
Theorem C30_store_mutex : forall s, reachable builds_system s ->
  forall pr1 pr2 i1 i2, In pr1 (snd s) -> In pr2 (snd s) ->
  next_instr pr1 = Some i1 -> next_instr pr2 = Some i2 ->
  (touches_dir build_store_dir i1 = true /\ touches_dir build_store_dir i2 = true) \/
  (touches_dir D_OUT i1 = true /\ touches_dir D_OUT i2 = true) ->
  p_id pr1 = p_id pr2.
Proof. exact store_mutex. Qed.

(* the store used although its lock could not be taken (LockResult::Unavailable): two unlocked
   store sections; manifest and blob reads are still complete because the writes are atomic *)
Theorem C30_store_without_lock_reads_complete :
  forall s, reachable nolock_system s -> nolock_safe s = true.
Proof. exact store_without_lock_reads_complete. Qed.

(* the language-server program contains no blocking lock step ... *)
Theorem C30_ls_no_blocking_lock : forall pid m1 m2, no_blocking_lock (ls_prog pid m1 m2) = true.
Proof. exact ls_no_blocking_lock. Qed.

(* ... next to a build it is never blocked (position 1), its store is mutually exclusive and its
   reads complete; the same for two language servers on one project (positions 0 and 1) *)
Theorem C30_build_and_ls_safe : forall s, reachable ls_system_build s -> ls_safe [1%nat] s = true.
Proof. exact build_and_ls_safe. Qed.

Theorem C30_two_ls_safe : forall s, reachable ls_system_two s -> ls_safe [0%nat; 1%nat] s = true.
Proof. exact two_ls_safe. Qed.

(* standard-library expansion (program generated from veryl_std::expand): two / three processes
   expand and then read both files; every read returns the complete file.  Also when an interrupted
   earlier expansion left a partial scratch directory. *)
Theorem C30_std_expand_safe_2 : forall s, reachable std_system2 s ->
  forall pr f r, In pr (snd s) -> In ((D_STD, f), r) (p_log pr) -> r = Some (if f =? 1 then F1 else F2).
Proof. exact std_expand_safe_2. Qed.

Theorem C30_std_expand_safe_3 : forall s, reachable std_system3 s ->
  forall pr f r, In pr (snd s) -> In ((D_STD, f), r) (p_log pr) -> r = Some (if f =? 1 then F1 else F2).
Proof. exact std_expand_safe_3. Qed.

Theorem C30_std_expand_safe_stale : forall s, reachable std_system_stale s ->
  forall pr f r, In pr (snd s) -> In ((D_STD, f), r) (p_log pr) -> r = Some (if f =? 1 then F1 else F2).
Proof. exact std_expand_safe_stale. Qed.

(* the protocol as it was before the repair (existence test before the lock, in-place writes):
   a second process reads a half-written file and misses the other one *)
Theorem C30_std_expand_orig_refuted : exists s pr,
  reachable std_system_orig s /\ In pr (snd s) /\
  In ((D_STD, 1), Some [1]) (p_log pr) /\ In ((D_STD, 2), None) (p_log pr).
Proof. exact std_expand_orig_refuted. Qed.

(* dependency checkout: three processes; the checkout is written only under the `dependencies`
   lock and every process reads the complete Veryl.toml of the dependency *)
Theorem C30_dep_checkout_safe : forall s, reachable dep_system s ->
  (forall pr r, In pr (snd s) -> In ((D_CO, 1), r) (p_log pr) -> r = Some T1) /\
  guarded_writes D_CO D_DEPS s = true.
Proof. exact dep_checkout_safe. Qed.

(* non-vacuity: the systems do run to completion with logged reads *)
Example C30_std_run_example :
  exists s, run_sched (repeat 0%nat 17 ++ repeat 1%nat 3) std_system2 = Some s /\
            map p_log (snd s) = [[((D_STD, 1), Some F1); ((D_STD, 2), Some F2)];
                                 [((D_STD, 1), Some F1); ((D_STD, 2), Some F2)]].
Proof. eexists. split; vm_compute; reflexivity. Qed.

Print Assumptions C30_certificate_sound.
Print Assumptions C30_atomic_write_no_torn_read.
Print Assumptions C30_in_place_write_torn.
Print Assumptions C30_two_builds_safe.
Print Assumptions C30_store_mutex.
Print Assumptions C30_store_without_lock_reads_complete.
Print Assumptions C30_ls_no_blocking_lock.
Print Assumptions C30_build_and_ls_safe.
Print Assumptions C30_two_ls_safe.
Print Assumptions C30_std_expand_safe_2.
Print Assumptions C30_std_expand_safe_3.
Print Assumptions C30_std_expand_safe_stale.
Print Assumptions C30_std_expand_orig_refuted.
Print Assumptions C30_dep_checkout_safe.
