(* C23 — Migration yields valid current-syntax code with the same tokens.
   Only the property theorems (statement + exact), non-vacuity examples, assumptions.

   Model: VV.Pos.MigrateModel ([push_token] = Migrator::push_token, [walk] = what the
   migrator's walker pushes: every token except the `: Type` of an old for statement, and
   every comment; [migrate] = the fold).  Columns are character counts. *)
From VV Require Import Pos.PosModel Pos.MigrateModel Pos.MigrateProofs.
Open Scope N_scope.

(* The migrated text is exactly the pushed texts in order, each preceded by a separator that
   consists only of newline strings and blanks: no token or comment is lost, altered,
   duplicated or reordered — for every token list, every position data, every newline string. *)
Theorem C23_migrate_content :
  forall nl vts,
  exists ss, length ss = length (walk vts) /\ Forall (is_sep nl) ss /\
             out_bytes (migrate nl vts) = interleave ss (walk vts).
Proof. exact migrate_content. Qed.

(* What is pushed: all tokens except the dropped for-index type tokens, and all comments (also
   the ones attached to dropped tokens), in source order. *)
Theorem C23_walk_texts :
  forall vts,
  map m_text (walk vts) =
  flat_map (fun v => (if v_dropped v then [] else [m_text (v_tok v)]) ++ map m_text (v_comments v)) vts.
Proof. exact walk_texts. Qed.

(* Separation: if the pushed items carry their true 1-based (line, character column) and come
   in source order, then any two consecutive items that are apart in the source (a later line,
   or a larger column than the end of the previous item) are written with a non-empty
   separator between them — also after multi-byte text. *)
Theorem C23_migrate_separation :
  forall nl l, nl <> [] -> Forall valid l -> chain l -> seps_ok nl init_ms None l.
Proof. exact migrate_separation. Qed.

(* The arithmetic before the repair (column advanced by the BYTE length of the text) is
   refuted: in "/* é */a b" the tokens a and b were written without a separator. *)
Theorem C23_old_separation_refuted :
  exists nl l, nl <> [] /\ Forall valid l /\ chain l /\
    exists a b st, gap a b /\ st = fold_left (push_token_old nl) [nth 0 l a; a] init_ms /\
                   sep_for nl st b = [].
Proof. exact old_separation_refuted. Qed.

(* Non-vacuity: the items of "/* é */a b" satisfy the hypotheses of the separation theorem;
   the repaired arithmetic writes "/* é */a b", the old one wrote "/* é */ab". *)
Example C23_example_hyps : Forall valid ex_items /\ chain ex_items.
Proof. exact ex_items_chain. Qed.
Example C23_example_new :
  out_bytes (fold_left (push_token [10]) ex_items init_ms) = [47;42;32;195;169;32;42;47;97;32;98].
Proof. exact new_output_example. Qed.
Example C23_example_old :
  out_bytes (fold_left (push_token_old [10]) ex_items init_ms) = [47;42;32;195;169;32;42;47;97;98].
Proof. exact old_output_example. Qed.

Print Assumptions C23_migrate_content.
Print Assumptions C23_walk_texts.
Print Assumptions C23_migrate_separation.
Print Assumptions C23_old_separation_refuted.
