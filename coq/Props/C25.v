(* C25 — Filelists are complete, dependency-ordered and collision-free.
   Only the property theorems (statement + exact), non-vacuity examples and their assumptions.
   Model: coq/Meta/FilelistModel.v (CmdBuild::sort_filelist, Metadata::paths, Lockfile::paths),
   proofs: coq/Meta/FilelistProofs.v. *)
From Coq Require Import String NArith List.
From VV Require Import Meta.FilelistModel Meta.FilelistProofs.
Import ListNotations.
Local Open Scope list_scope.

(* The filelist lists every used file exactly once: no duplicates, and f is listed iff f is one of
   `paths` and holds a candidate symbol (a symbol of a component rooted in the project namespace,
   or one of the project's tests). *)
Theorem C25_filelist_nodup_complete : forall paths comps topo tests,
  NoDup (sort_filelist paths comps topo tests) /\
  forall f, In f (sort_filelist paths comps topo tests) <->
            (In f paths /\ In f (files_of (candidates comps tests))).
Proof. exact filelist_nodup_complete. Qed.

(* Whenever the references between the listed files are acyclic (some rank strictly decreases along
   every dependency), each listed file comes after every listed file it depends on. *)
Theorem C25_filelist_respects_deps : forall paths comps topo tests (rank : N -> nat),
  let l := first_symbol_order paths comps topo tests in
  (forall u d, In u l -> In d (depends_of l comps u) -> (rank d < rank u)%nat) ->
  forall u d, In u l -> In d (depends_of l comps u) ->
  before (sort_filelist paths comps topo tests) d u.
Proof. exact filelist_respects_deps. Qed.

(* The same on the analyzer's data: a component s :: rest says "s depends on every symbol of rest";
   the file defining a symbol of rest precedes the file of s. *)
Theorem C25_filelist_definition_before_user : forall paths comps topo tests (rank : N -> nat),
  let l := first_symbol_order paths comps topo tests in
  (forall u d, In u l -> In d (depends_of l comps u) -> (rank d < rank u)%nat) ->
  forall s rest t u p,
    In (s :: rest) comps -> s_file s = Some u -> In t rest -> s_file t = Some p -> p <> u ->
    In u l -> In p l ->
    before (sort_filelist paths comps topo tests) p u.
Proof. exact filelist_definition_before_user. Qed.

(* multi_symbol_file_refuted: placing each file at the first of its symbols in the toposort (the
   whole algorithm before the repair; still the first phase) lists f1 = {A uses E, B uses C} before
   f0 = {E} although the file references are acyclic; the dependency pass puts it right. *)
Theorem C25_multi_symbol_file_refuted :
  first_symbol_order [0; 1; 2]%N ms_comps ms_topo [] = [2; 1; 0]%N /\
  In 0%N (depends_of [2; 1; 0]%N ms_comps 1%N) /\
  (forall u d, In u [2; 1; 0]%N -> In d (depends_of [2; 1; 0]%N ms_comps u) -> (ms_rank d < ms_rank u)%nat) /\
  sort_filelist [0; 1; 2]%N ms_comps ms_topo [] = [2; 0; 1]%N.
Proof. exact multi_symbol_file_witness. Qed.

(* Path mapping: two different source files of one source directory never share an output path
   or a source-map path, whatever target / sourcemap_target / --out-dir. *)
Theorem C25_dst_injective_same_root : forall L root root_rel rel1 stem1 rel2 stem2,
  dst_of L root root_rel rel1 stem1 = dst_of L root root_rel rel2 stem2 -> rel1 = rel2 /\ stem1 = stem2.
Proof. exact dst_injective_same_root. Qed.

Theorem C25_map_injective_same_root : forall L root root_rel rel1 stem1 rel2 stem2,
  map_of L root root_rel rel1 stem1 = map_of L root root_rel rel2 stem2 -> rel1 = rel2 /\ stem1 = stem2.
Proof. exact map_injective_same_root. Qed.

Theorem C25_dep_dst_injective : forall base n1 rel1 s1 n2 rel2 s2,
  dep_dst base n1 rel1 s1 = dep_dst base n2 rel2 s2 -> n1 = n2 /\ rel1 = rel2 /\ s1 = s2.
Proof. exact dep_dst_injective. Qed.

(* FINDING dst-collision-two-source-roots: src/a.veryl and rtl/a.veryl get the same output and the
   same source map under a directory target. *)
Theorem C25_dst_two_roots_refuted :
  let L := mkLayout ["prj"%string] false (TDirectory ["target"%string]) MTarget in
  dst_of L ["prj"; "src"]%string ["src"%string] [] "a" = dst_of L ["prj"; "rtl"]%string ["rtl"%string] [] "a" /\
  map_of L ["prj"; "src"]%string ["src"%string] [] "a" = map_of L ["prj"; "rtl"]%string ["rtl"%string] [] "a".
Proof. exact dst_two_roots_witness. Qed.

(* non-vacuity: the acyclicity hypothesis is met by the multi-symbol project (second and third
   conjunct of C25_multi_symbol_file_refuted) and the conclusion is not trivial there *)
Example C25_respects_deps_nonvacuous :
  before (sort_filelist [0; 1; 2]%N ms_comps ms_topo []) 0%N 1%N.
Proof. exists [2%N], [], []. reflexivity. Qed.

Print Assumptions C25_filelist_nodup_complete.
Print Assumptions C25_filelist_respects_deps.
Print Assumptions C25_filelist_definition_before_user.
Print Assumptions C25_multi_symbol_file_refuted.
Print Assumptions C25_dst_injective_same_root.
Print Assumptions C25_map_injective_same_root.
Print Assumptions C25_dep_dst_injective.
Print Assumptions C25_dst_two_roots_refuted.
