(* C09 — Formatting only changes layout.   (partial: the renderer half is proved for all
   documents; that formatter.rs feeds every token and comment exactly once and in order into the
   document is the premise of C09_walk_render_tokens and is attacked by the end-to-end search of
   vp/props/c09.py.)
   This file holds only the property theorems (statement + exact) and their assumptions. *)
From VV Require Import Fmt.LayoutModel Fmt.LayoutProofs.
Open Scope N_scope.

(* For every document and option set whose newline is whitespace, the rendered text is, up to
   whitespace, every mandatory fragment of the document (Text, Anchored, comment texts) exactly
   once and in document order, plus a sub-selection of the optional fragments (soft-line
   separators, IfBreak texts such as the trailing ",") at their places.  The renderer cannot
   lose, duplicate, merge or reorder what the Doc builder put in. *)
Theorem C09_render_is_selection :
  forall o d, nl_ok o ->
  exists s, Sel (frags d) s /\ nonws (render_text o d) = nonws s.
Proof. exact render_is_selection. Qed.

(* With whitespace-only optional fragments the output is exactly the mandatory fragments. *)
Theorem C09_render_mandatory_exact :
  forall o d, nl_ok o ->
  Forall (fun t => nonws t = []) (opts_of (frags d)) ->
  nonws (render_text o d) = nonws (concat (mand (frags d))).
Proof. exact render_mandatory_exact. Qed.

(* Walker lemma: a syntax-directed walker that visits each child of every node exactly once and
   in order, and adds only whitespace documents of its own, builds a document whose mandatory
   content is the token and comment texts of the tree in order ... *)
Theorem C09_walk_preserves_tokens :
  forall acts pad t, in_order_once acts -> adds_only_layout acts ->
  nonws (concat (mand (frags (walk acts pad t)))) = nonws (concat (tree_texts t)).
Proof. exact walk_preserves_tokens. Qed.

(* ... and rendering it yields exactly the tree's tokens and comments, up to whitespace. *)
Theorem C09_walk_render_tokens :
  forall o acts pad t, nl_ok o -> in_order_once acts -> adds_only_layout acts ->
  Forall (fun s => nonws s = []) (opts_of (frags (walk acts pad t))) ->
  nonws (render_text o (walk acts pad t)) = nonws (concat (tree_texts t)).
Proof. exact walk_render_tokens. Qed.

(* ---- non-vacuity: `a = b ; // c` as a two-level tree (LayoutProofs.example_tree), walker =
   every child followed by a soft line; all premises hold, the conclusion is a concrete text *)
Example C09_acts_in_order : in_order_once example_acts.
Proof. exact example_acts_in_order. Qed.
Example C09_acts_layout : adds_only_layout example_acts.
Proof. exact example_acts_layout. Qed.
Example C09_opts_ws :
  Forall (fun s => nonws s = []) (opts_of (frags (walk example_acts (fun _ => 0) example_tree))).
Proof. repeat constructor. Qed.
Example C09_rendered :
  render_text (mkOpts 80 4 [10] true) (walk example_acts (fun _ => 0) example_tree)
  = [97;10;61;10;98;10;10;59;32;47;47;99;10].
Proof. vm_compute. reflexivity. Qed.

Print Assumptions C09_render_is_selection.
Print Assumptions C09_render_mandatory_exact.
Print Assumptions C09_walk_preserves_tokens.
Print Assumptions C09_walk_render_tokens.
