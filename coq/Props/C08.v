(* C08 — Formatting is idempotent.   (partial: aligner + renderer proved; the per-production Doc
   builder of formatter.rs is the named premise of C08_idempotent_if_observation_stable_partial
   and is attacked by the end-to-end search of vp/props/c08.py.)
   This file holds only the property theorems (statement + exact) and their assumptions. *)
From VV Require Import Fmt.LayoutModel Fmt.LayoutProofs Align.AlignModel Align.AlignProofs.
Open Scope N_scope.

(* ---- aligner (crates/aligner/src/lib.rs, complete model) *)

(* In every state the public Aligner API can reach, no item of an open group is wider than the
   group's max_width: the u32 subtraction max_width - width in finish_group never underflows. *)
Theorem C08_align_no_underflow :
  forall ops a l w k, In a (aligns (run ops)) -> In (l, w, k) (rest a) -> w <= AlignModel.max_width a.
Proof. exact rest_le_max. Qed.

(* finish_group gives every item of the group the padding (group maximum - own width) *)
Theorem C08_finish_group_spec :
  forall a, max_exact a ->
  additions (finish_group a) =
  fold_left (fun m e => amap_insert (fst e) (snd e) m) (group_entries (rest a)) (additions a).
Proof. exact finish_group_spec. Qed.

(* so all items of a group end at the same offset ... *)
Theorem C08_pads_uniform :
  forall ws, Forall2 (fun w p => w + p = maxw ws) ws (pads ws).
Proof. exact pads_uniform. Qed.

(* ... and items already padded to the group maximum get addition 0 on re-alignment. *)
Theorem C08_align_fixpoint :
  forall ws, pads (padded ws) = map (fun _ => 0) ws.
Proof. exact align_fixpoint. Qed.

(* The paddings depend on line numbers only through their order and the "more than one line
   apart" test: two call sequences that differ only in line numbers related by a gap-class
   preserving relation R produce the same Aligner::additions, entry for entry. *)
Theorem C08_align_groups_stable :
  forall R : N -> N -> Prop,
  (forall a a' b b', R a a' -> R b b' -> (a <? b) = (a' <? b')) ->
  (forall a a' b b', R a a' -> R b b' -> (1 <? b - a) = (1 <? b' - a')) ->
  R 0 0 ->
  forall ops ops', Forall2 (Rop R) ops ops' ->
  Forall2 (fun e e' : loc * (N * padkind) =>
             R (l_line (fst e)) (l_line (fst e')) /\ l_col (fst e) = l_col (fst e') /\
             l_len (fst e) = l_len (fst e') /\ l_dup (fst e) = l_dup (fst e') /\ snd e = snd e')
          (g_additions (run ops)) (g_additions (run ops')).
Proof. exact align_lines_only_by_gap_class. Qed.

(* PadKind::merge is commutative and associative: gather_additions does not depend on the
   iteration order of the per-kind hash maps. *)
Theorem C08_pad_merge_comm_assoc :
  (forall a b, pk_merge a b = pk_merge b a) /\
  (forall a b c, pk_merge (pk_merge a b) c = pk_merge a (pk_merge b c)).
Proof. exact (conj pk_merge_comm pk_merge_assoc). Qed.

(* ---- renderer gap classes (crates/pretty/src/render.rs, model VV.Pretty.Render) *)

(* One break node advances the output by exactly one line in the broken layout (none right after
   a line comment, whose newline is already out) and by none in the flat layout: a soft or hard
   break alone never creates a blank line. *)
Theorem C08_break_node_gap :
  forall o i m d k st, is_break_node d = true ->
  cur_line (render_doc o i m d k st) =
  cur_line st + match m with Flat => 0 | Break => if swallow st then 0 else 1 end.
Proof. exact break_node_gap. Qed.

(* A comment list moves the end of the text down by exactly the sum of the comments'
   leading_newlines and interior newlines: each comment lands at the line distance the formatter
   computed from the source, so re-parsing the output yields the same leading_newlines. *)
Theorem C08_comments_reproduce_source_gaps :
  forall o i cs st,
  (at_text_end st /\ comments_wf false cs = true) \/
  (after_line_comment st /\ comments_wf true cs = true) ->
  end_line (render_comments o i cs st) = end_line st + comment_lines cs.
Proof. exact comments_reproduce_source_gaps. Qed.

(* ---- the conditional statement (premises = what is NOT proved about formatter.rs) *)

(* For any lexer, observation function, Doc builder and renderer: if the formatted text re-lexes
   to the same token/comment sequence (C09) and shows the builder the same observations (gap
   classes after newline helpers, comment distances, aligner split bits, newline style), a second
   formatting changes nothing. *)
Theorem C08_idempotent_if_observation_stable_partial :
  forall (text tok obs document cfg : Type)
         (lex : text -> list tok) (observe : text -> obs)
         (build : cfg -> list tok -> obs -> document) (render : cfg -> document -> text)
         (c : cfg) (x : text),
  lex (fmt _ _ _ _ _ lex observe build render c x) = lex x ->
  observe (fmt _ _ _ _ _ lex observe build render c x) = observe x ->
  fmt _ _ _ _ _ lex observe build render c (fmt _ _ _ _ _ lex observe build render c x)
  = fmt _ _ _ _ _ lex observe build render c x.
Proof. exact idempotent_if_observation_stable. Qed.

(* ---- non-vacuity *)

(* a call sequence with two groups (blank line between them): widths 3,5 | 2 -> paddings 2,0 | 0 *)
Example C08_align_example :
  run_show [OStart 0 Always; OToken 1 1 3; OFinishItemK 0;
            OStart 0 Always; OToken 2 1 5; OFinishItemK 0;
            OStart 0 IfBreak; OToken 5 1 2; OFinishItemK 0;
            OFinishGroup; OGather]
  = [(1, 1, 3, None, 2, 0); (2, 1, 5, None, 0, 0); (5, 1, 2, None, 0, 1)].
Proof. vm_compute. reflexivity. Qed.

(* the same tokens laid out with other line numbers of the same gap classes: same paddings *)
Example C08_R_gap_class :
  (forall a a' b b', example_R a a' -> example_R b b' -> (a <? b) = (a' <? b')) /\
  (forall a a' b b', example_R a a' -> example_R b b' -> (1 <? b - a) = (1 <? b' - a')) /\
  example_R 0 0.
Proof. exact example_R_gap_class. Qed.
Example C08_Rop_example : Forall2 (Rop example_R) (example_ops 5) (example_ops 4).
Proof. exact example_Rop. Qed.

Example C08_padded_example : padded [3; 5; 2] = [5; 5; 5] /\ pads [3; 5; 2] = [2; 0; 3].
Proof. split; reflexivity. Qed.

(* a block comment then a line comment two lines further down, then another line comment *)
Example C08_comments_example :
  let cs := [mkComment [47;42;10;42;47] 0 false 0 0; mkComment [47;47;97] 2 true 0 0;
             mkComment [47;47;98] 1 true 0 0] in
  let st := put_text [120] init_state in
  at_text_end st /\ comments_wf false cs = true /\
  end_line (render_comments (mkOpts 80 4 [10] true) 0 cs st) = 1 + 4.
Proof. repeat split. Qed.

Example C08_break_example : is_break_node (Line [32]) = true /\ is_break_node Hardline = true.
Proof. split; reflexivity. Qed.

Print Assumptions C08_align_no_underflow.
Print Assumptions C08_finish_group_spec.
Print Assumptions C08_pads_uniform.
Print Assumptions C08_align_fixpoint.
Print Assumptions C08_align_groups_stable.
Print Assumptions C08_pad_merge_comm_assoc.
Print Assumptions C08_break_node_gap.
Print Assumptions C08_comments_reproduce_source_gaps.
Print Assumptions C08_idempotent_if_observation_stable_partial.
