(* C24 — Build results do not depend on file order or the run (partial: abstract reason + oracle).
   Statements only; model in Codec/Order.v (on top of the fragment model of C06). *)
From Coq Require Import NArith List Bool Permutation.
From VV Require Import Codec.IdCodec Codec.Fragment Codec.Order Codec.OrderProofs.
Import ListNotations.
Open Scope N_scope.

(* Files processed in two different orders allocate their ids in different blocks.  Every output
   that is invariant under (a) permutations of the files' id blocks that keep the order of ids
   inside each block and (b) the order in which table entries were inserted, is the same for both
   orders.  (Pass-1 contributions are id-closed and well formed: the C06 model.) *)
Theorem C24_id_renaming_invariance_partial :
  forall (O : Type) (out : state -> O) l1 l2 st,
  id_invariant out -> Permutation l1 l2 -> all_wf l1 -> all_closed l1 -> state_issued st ->
  out (analyze l1 st) = out (analyze l2 st).
Proof. exact @id_renaming_invariance. Qed.
(* partial: that the real emitter / diagnostics ARE id_invariant (no output-affecting iteration over
   id-keyed hash maps, no comparison of ids across files) is not proved; it is what the end-to-end
   permutation oracle of vp/props/c24.py tests.  Full statement wanted:
     forall project, error_free project -> forall order1 order2 of its files,
       emitted order1 = emitted order2 /\ maps order1 = maps order2 /\ diagnostics order1 ~ diagnostics order2. *)

(* the structural fact behind it: the two states differ by such a renaming and a permutation *)
Theorem C24_states_differ_by_block_renaming :
  forall l1 l2, Permutation l1 l2 -> all_wf l1 -> all_closed l1 ->
  forall st, state_issued st ->
  exists r, block_ren r /\ fixes_outside r (s_ctr st) (s_ctr (analyze l1 st)) /\
            sim r (analyze l1 st) (analyze l2 st).
Proof. exact analyze_perm. Qed.

(* first-definition-wins name resolution is order independent when no name is defined twice ... *)
Theorem C24_no_dup_resolve_order_independent :
  forall l1 l2 x, Permutation l1 l2 -> no_dup l1 -> resolve l1 x = resolve l2 x.
Proof. exact no_dup_resolve_order_independent. Qed.

(* ... and order dependent exactly when two different files define the same visible name (which
   the analyzer must therefore reject: an error-free project has no such pair) *)
Theorem C24_first_definition_wins_order_dependent_iff :
  forall l x,
  (exists l', Permutation l l' /\ resolve l x <> resolve l' x) <->
  (exists f g, In f l /\ In g l /\ defines f x = true /\ defines g x = true /\ f_id f <> f_id g).
Proof. exact first_definition_wins_order_dependent_iff. Qed.

(* Known finding (key order:generic-instance-emission-order): the order in which generic instances are
   registered - and their copies emitted - follows the processing order of the using files, so the
   emitted text is NOT an id_invariant output in the sense above *)
Theorem C24_generic_instance_emission_order_refuted :
  exists u1 u2, Permutation u1 u2 /\ reg_order u1 [] <> reg_order u2 [].
Proof. exact generic_instance_emission_order_refuted. Qed.

(* Non-vacuity *)
Example C24_hypotheses_met :
  all_wf [ex_delta; ex_delta] /\ all_closed [ex_delta; ex_delta] /\
  state_issued (mkState (mkC 3 1 2 1) [mkEntry 0 KSym 2 [AId KTok 3; ARaw 9]] [mkPend 1 [AId KSym 0]]).
Proof.
  split; [repeat constructor|]. split; [repeat constructor|].
  split.
  - intros e [<-|[]]. split; [vm_compute; discriminate|]. repeat constructor; vm_compute; discriminate.
  - intros p [<-|[]]. repeat constructor; vm_compute; discriminate.
Qed.

Example C24_invariant_output_exists :
  id_invariant (fun st => (s_ctr st, length (s_keyed st), length (s_pending st))).
Proof.
  intros r st st' _ [C [K P]]. apply Permutation_length in K. apply Permutation_length in P.
  rewrite map_length in K, P. now rewrite C, K, P.
Qed.

Example C24_dup_example :
  resolve [mkSrc 1 [7]; mkSrc 2 [7]] 7 = Some 1 /\ resolve [mkSrc 2 [7]; mkSrc 1 [7]] 7 = Some 2 /\
  no_dup [mkSrc 1 [7]; mkSrc 2 [8]].
Proof.
  split; [reflexivity|]. split; [reflexivity|].
  intros f g x [<-|[<-|[]]] [<-|[<-|[]]]; simpl; try reflexivity;
    intros H1 H2; apply orb_true_iff in H1 as [H1|H1]; try discriminate;
    apply orb_true_iff in H2 as [H2|H2]; try discriminate;
    apply N.eqb_eq in H1, H2; congruence.
Qed.

Print Assumptions C24_id_renaming_invariance_partial.
Print Assumptions C24_states_differ_by_block_renaming.
Print Assumptions C24_no_dup_resolve_order_independent.
Print Assumptions C24_first_definition_wins_order_dependent_iff.
Print Assumptions C24_generic_instance_emission_order_refuted.
