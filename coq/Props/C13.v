(* C13 — Source maps point at matching text on both sides.
   Only the property theorems (statement + exact), non-vacuity examples, assumptions.

   Model: the renderer VV.Pretty.Render (property C28) + VV.Pos.SourceMapModel
   ([sm_add] = SourceMap::add with checked u32 decrement, [source_map] = the loop of
   Emitter::emit over the renderer's anchors).  Hypotheses as in C28: newline is LF or CRLF
   (nl_pos), Line/IfBreak texts hold no newline and anchored texts are non-empty and do not end
   in a space (wf_pos); wf_src: anchored fragments carry 1-based source positions. *)
From VV Require Import Pretty.Render Pretty.RenderContent Pretty.RenderAnchors
                       Pos.SourceMapModel Pos.SourceMapProofs.
Open Scope N_scope.

(* SourceMap::add never underflows: the map is the list of 0-based entries, one per anchor. *)
Theorem C13_add_no_underflow :
  forall o d, nl_pos o -> wf_pos d = true -> wf_src d = true ->
  source_map o d = map Some (source_map_entries o d).
Proof. exact add_no_underflow. Qed.

(* Every entry's (0-based) output line / character column is where its name text starts in
   the rendered text. *)
Theorem C13_map_dst_correct :
  forall o d, nl_pos o -> wf_pos d = true ->
  forall e, In e (source_map_entries o d) ->
  text_at0 (rev (rout (raw_render o d))) (e_dl e) (e_dc e) (e_name e).
Proof. exact map_dst_correct. Qed.

(* Entries are ordered by output position (line, then column), for every document and
   option set — including documents with DedentHardline truncation. *)
Theorem C13_entries_sorted :
  forall o d, nl_pos o -> wf_pos d = true -> entries_asc (source_map_entries o d).
Proof. exact entries_sorted. Qed.

(* One entry per anchored fragment / positioned comment of the document, in document order,
   with its source position and text: nothing the emitter anchors is left unmapped (so every
   output line on which an anchored text starts has an entry, by C13_map_dst_correct). *)
Theorem C13_entries_are_documents :
  forall o d,
  map (fun e => (e_sl e + 1, e_sc e + 1, e_name e)) (source_map_entries o d) =
  map (fun x => (fst (fst x) - 1 + 1, snd (fst x) - 1 + 1, snd x)) (doc_anchors d).
Proof. exact entries_are_documents. Qed.

(* Non-vacuity: a document with groups, comments (one spanning lines), a DedentHardline and
   anchors satisfies the hypotheses; its map is computed. *)
Definition c13_doc : doc :=
  Group (Indent 1 (Concat [Anchored [109;111;100] 1 1; Text [32]; Anchored [97] 1 8; Hardline;
           Comments [mkComment [47;42;120;10;121;42;47] 0 false 2 3]; Text [32];
           Anchored [98] 3 5; Text [32;32;32;32]; DedentHardline 1; Anchored [101;110;100] 4 1])).
Definition c13_opts : opts := mkOpts 80 4 [10] false.

Example C13_example_hyps : nl_pos c13_opts /\ wf_pos c13_doc = true /\ wf_src c13_doc = true.
Proof. repeat split. Qed.
Example C13_example_map :
  map (fun e => (e_dl e, e_dc e, e_sl e, e_sc e)) (source_map_entries c13_opts c13_doc)
  = [(0, 0, 0, 0); (0, 4, 0, 7); (1, 4, 1, 2); (2, 4, 2, 4); (3, 4, 3, 0)].
Proof. reflexivity. Qed.

Print Assumptions C13_add_no_underflow.
Print Assumptions C13_map_dst_correct.
Print Assumptions C13_entries_sorted.
Print Assumptions C13_entries_are_documents.
