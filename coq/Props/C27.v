(* C27 — Check modes agree with write modes.
   Only the property theorems (statement + exact) and their assumptions.
   Model: VV.Incr.CheckModel (control flow of crates/veryl/src/cmd_fmt.rs and of the emit loop /
   gen_filelist / check_bundle of crates/veryl/src/cmd_build.rs over an abstract file system). *)
From Coq Require Import List NArith Bool.
From VV Require Import Incr.CheckModel Incr.CheckProofs.
Import ListNotations.
Open Scope N_scope.

(* `veryl fmt --check` passes exactly when `veryl fmt` completes and leaves every file
   unchanged — for every formatter, every file system state and every list of distinct paths. *)
Theorem C27_fmt_check_iff_noop :
  forall (text : Type) (text_eqb : text -> text -> bool),
  text -> (text -> text -> text) ->
  forall format : text -> option text,
  (forall a b : text, text_eqb a b = true <-> a = b) ->
  forall (ps : list path) (fs : fsys text),
  NoDup ps ->
  fmt_check text text_eqb format fs ps true = Pass <->
  snd (fmt_write text text_eqb format fs ps) = Pass /\
  (forall q : path, fst (fmt_write text text_eqb format fs ps) q = fs q).
Proof. exact fmt_check_iff_noop. Qed.

(* `veryl build --check`, directory / source target.  One direction holds in full: if `veryl
   build` would change no file then --check passes. *)
Theorem C27_build_noop_check_passes :
  forall (text : Type) (text_eqb : text -> text -> bool) (empty : text),
  (text -> text -> text) -> (text -> option text) ->
  (forall a b : text, text_eqb a b = true <-> a = b) ->
  forall (mapon : bool) (fs : fsys text) (us : list (unit_out text)) (fl : path) (flt : text),
  distinct text mapon us fl flt ->
  (forall q : path, build_write_dir text text_eqb mapon fs us fl flt q = fs q) ->
  build_check_dir text text_eqb empty fs us = true.
Proof. exact build_noop_check_passes. Qed.

(* The other direction holds only for the project's own, existing .sv files (partial: the full
   statement "check passes -> build changes nothing" is refuted below). *)
Theorem C27_build_check_iff_noop_partial :
  forall (text : Type) (text_eqb : text -> text -> bool) (empty : text),
  (text -> text -> text) -> (text -> option text) ->
  (forall a b : text, text_eqb a b = true <-> a = b) ->
  forall (mapon : bool) (fs : fsys text) (us : list (unit_out text)) (fl : path) (flt : text),
  distinct text mapon us fl flt ->
  build_check_dir text text_eqb empty fs us = true ->
  forall u : unit_out text, In u us -> u_std text u = false -> fs (u_dst text u) <> None ->
  build_write_dir text text_eqb mapon fs us fl flt (u_dst text u) = fs (u_dst text u).
Proof. exact build_check_pass_sv_unchanged. Qed.

(* Bundle target: --check passes exactly when the existing bundle file is unchanged by build. *)
Theorem C27_bundle_check_iff_bundle_unchanged :
  forall (text : Type) (text_eqb : text -> text -> bool) (empty : text) (append : text -> text -> text),
  (forall a b : text, text_eqb a b = true <-> a = b) ->
  forall (fs : path -> option text) (us : list (unit_out text)) (bundle fl : path) (flt : text),
  bundle <> fl -> fs bundle <> None ->
  build_check_bundle text text_eqb empty append fs us bundle = true <->
  build_write_bundle text text_eqb empty append fs us bundle fl flt bundle = fs bundle.
Proof. exact bundle_check_iff_bundle_unchanged. Qed.

(* Refutations of "check passes -> build changes nothing" (each replayed on the CLI; recorded in
   KNOWN_FINDINGS.txt): source maps, the filelist, a missing output with empty emitted text,
   $std outputs, and the filelist of a bundle target are never compared. *)
Theorem C27_build_check_map_refuted :
  exists fs us fl flt,
    build_check_dir N N.eqb 0 fs us = true /\ changes (build_write_dir N N.eqb true fs us fl flt) fs.
Proof. exact build_check_map_refuted. Qed.

Theorem C27_build_check_filelist_refuted :
  exists fs us fl flt,
    build_check_dir N N.eqb 0 fs us = true /\ changes (build_write_dir N N.eqb true fs us fl flt) fs.
Proof. exact build_check_filelist_refuted. Qed.

Theorem C27_build_check_missing_refuted :
  exists fs us fl flt,
    build_check_dir N N.eqb 0 fs us = true /\ changes (build_write_dir N N.eqb false fs us fl flt) fs.
Proof. exact build_check_missing_refuted. Qed.

Theorem C27_build_check_std_refuted :
  exists fs us fl flt,
    build_check_dir N N.eqb 0 fs us = true /\ changes (build_write_dir N N.eqb false fs us fl flt) fs.
Proof. exact build_check_std_refuted. Qed.

Theorem C27_build_check_bundle_filelist_refuted :
  exists fs us bundle fl flt,
    build_check_bundle N N.eqb 0 N.add fs us bundle = true
    /\ changes (build_write_bundle N N.eqb 0 N.add fs us bundle fl flt) fs.
Proof. exact build_check_bundle_filelist_refuted. Qed.

(* Non-vacuity: two units with maps and a filelist have pairwise distinct write paths. *)
Example C27_distinct_example :
  distinct N true [mkUnit N 1 2 10 20 false; mkUnit N 4 5 11 21 false] 3 30.
Proof. exact distinct_example. Qed.

Print Assumptions C27_fmt_check_iff_noop.
Print Assumptions C27_build_noop_check_passes.
Print Assumptions C27_build_check_iff_noop_partial.
Print Assumptions C27_bundle_check_iff_bundle_unchanged.
Print Assumptions C27_build_check_map_refuted.
Print Assumptions C27_build_check_filelist_refuted.
Print Assumptions C27_build_check_missing_refuted.
Print Assumptions C27_build_check_std_refuted.
Print Assumptions C27_build_check_bundle_filelist_refuted.
