(* C12 — Every token and comment reports where it really is in the source.
   Only the property theorems (statement + exact), non-vacuity examples, assumptions.

   Model: VV.Pos.PosModel (bytes; [chars] = chars().count(); [line_of]/[col_of] = the lexer's
   position of a byte offset; [located src t] = text at [pos,pos+len), line and character
   column of pos; [split_comments] = veryl_token.rs split_comment_token with COMMENT_REGEX as
   a scanner; [end_line]/[end_column] = Token::end_line/end_column). *)
From VV Require Import Pos.PosModel Pos.PosProofs Pos.LexPosModel Pos.LexPosProofs.

(* Every comment token cut out of a comment run is located in the source, provided the run
   token (whose position comes from the lexer) is: text at [pos, pos+len), line, character
   column — for every source, every run text (any bytes), every position. *)
Theorem C12_split_located :
  forall src run, located src run -> Forall (located src) (split_comments run).
Proof. exact split_located. Qed.

(* The comment tokens are non-empty, in source order, do not overlap, and lie inside the run. *)
Theorem C12_split_ordered :
  forall run, t_len run = N.of_nat (length (t_text run)) ->
  ordered_within (t_pos run) (t_pos run + t_len run)%N (split_comments run).
Proof. exact split_ordered. Qed.

(* Every comment token's text starts with "//" or "/*". *)
Theorem C12_split_texts_are_comments :
  forall run, Forall (fun c => starts_comment (t_text c) = true) (split_comments run).
Proof. exact split_texts_are_comments. Qed.

(* end_line / end_column of a located token (ordinary token or comment, any text incl.
   multi-line and multi-byte) denote the position just past its last byte:
   end_line = line of offset pos+len, end_column + 1 = character column of offset pos+len. *)
Theorem C12_end_position_correct :
  forall src t, located src t ->
  let e := N.to_nat (t_pos t) + N.to_nat (t_len t) in
  end_line t = N.of_nat (line_of src e) /\ (end_column t + 1)%N = N.of_nat (col_of src e).
Proof. exact end_position_correct. Qed.

(* The lexer's rule for ordinary tokens (scnr2 CharIterWithPosition::next, third party): when
   the iterator only advances, the i-th character gets line = 1 + newlines before it and
   column = 1 + characters since the last newline — for every text. *)
Theorem C12_lexer_positions_correct :
  forall cs, lexer_positions cs = map (cpos cs) (seq 0 (length cs)).
Proof. exact lexer_positions_correct. Qed.

(* KNOWN FINDING (KNOWN_FINDINGS.txt lexer-slash-after-comment-newline): restore_state does not
   restore last_char, so after the scanner looked ahead over a character and went back, a
   character that follows a newline gets a wrong position ("c\n/1", state saved before '/'). *)
Theorem C12_restore_position_refuted :
  exists cs i, forall it, it = ci_restore (take 1 (ci_save (take i (ci_new cs)))) ->
    exists p it', ci_next it = Some (p, it') /\ p <> cpos cs i.
Proof. exact restore_position_refuted. Qed.

(* What the code computed before the repair (fixed: see KNOWN_FINDINGS.txt): the old
   arithmetic is refuted on "/* é */ /* b */\n". *)
Theorem C12_old_split_pos_refuted :
  exists src run, located src run /\ ~ Forall (located src) (split_comments_old run).
Proof. exact old_split_pos_refuted. Qed.

Theorem C12_old_split_column_utf8_refuted :
  exists src run, located src run /\
    exists c, In c (split_comments_old run) /\
      N.of_nat (col_of src (N.to_nat (t_pos c) - N.to_nat (t_len c))) <> t_col c.
Proof. exact old_split_column_utf8_refuted. Qed.

(* Non-vacuity: two comment runs of a source with multi-byte text, several comments per line
   and a multi-line block comment satisfy the hypothesis, and the split gives the true
   positions. *)
Example C12_run1_located : located ex_src ex_run1.
Proof. exact ex_run1_located. Qed.
Example C12_run2_located : located ex_src ex_run2.
Proof. exact ex_run2_located. Qed.
Example C12_split_example1 :
  map (fun c => (t_line c, t_col c, t_pos c, t_len c)) (split_comments ex_run1)
  = [(1, 1, 0, 8); (1, 9, 9, 7)]%N.
Proof. exact ex_split1. Qed.
Example C12_split_example2 :
  map (fun c => (t_line c, t_col c, t_pos c, t_len c)) (split_comments ex_run2)
  = [(2, 12, 28, 7); (3, 2, 36, 10); (4, 7, 47, 7)]%N.
Proof. exact ex_split2. Qed.

Print Assumptions C12_split_located.
Print Assumptions C12_split_ordered.
Print Assumptions C12_split_texts_are_comments.
Print Assumptions C12_end_position_correct.
Print Assumptions C12_lexer_positions_correct.
Print Assumptions C12_restore_position_refuted.
Print Assumptions C12_old_split_pos_refuted.
Print Assumptions C12_old_split_column_utf8_refuted.
