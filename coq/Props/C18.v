(* C18 — Run-time operator evaluation matches the reference at every width.
   Proof target: the wide_ops helper layer (crates/simulator/src/wide_ops.rs, transcribed in
   VV.Wide.WideModel).  Only statements, non-vacuity examples and assumption audits here.

   Conventions: a value is a list of 64-bit limbs (wf: every limb < 2^64), least significant
   first, limbs_val its number; Wn n = 2^(64 n); v2 x = the 2-state IEEE vector (payload x, no
   x/z); pack_nb_width (8n) w is the packed (byte count, width) argument of the helpers. *)
From VV Require Import Wide.WideProofs Wide.ExprEval Wide.ExprEvalProofs.
Open Scope N_scope.

(* ---------------------------------------------------------------- arithmetic mod 2^(64n) *)
Theorem C18_add : forall n a b, length a = n -> length b = n -> wf a -> wf b ->
  limbs_val (wide_add n a b) = (limbs_val a + limbs_val b) mod Wn n.
Proof. exact wide_add_spec. Qed.

Theorem C18_sub : forall n a b, length a = n -> length b = n -> wf a -> wf b ->
  limbs_val (wide_sub n a b) = (limbs_val a + (Wn n - limbs_val b)) mod Wn n.
Proof. exact wide_sub_spec. Qed.

Theorem C18_negate : forall n a, length a = n -> wf a ->
  limbs_val (wide_negate n a) = (Wn n - limbs_val a) mod Wn n.
Proof. exact wide_negate_spec. Qed.

Theorem C18_mul : forall n a b, length a = n -> length b = n -> wf a -> wf b ->
  limbs_val (wide_mul n a b) = (limbs_val a * limbs_val b) mod Wn n /\
  wf (wide_mul n a b) /\ length (wide_mul n a b) = n.
Proof. exact wide_mul_spec. Qed.

(* the u128 accumulator `ai*b[j] + dst[i+j] + carry` of wide_mul stays below 2^128 *)
Theorem C18_mul_no_overflow : forall ai b d c, ai < W -> wf b -> wf d -> c < W ->
  mul_inner_prods_ok ai b d c.
Proof. exact mul_inner_no_overflow. Qed.

(* ---------------------------------------------------------------- bitwise *)
Theorem C18_band : forall n a b, length a = n -> length b = n -> wf a -> wf b ->
  limbs_val (wide_band n a b) = N.land (limbs_val a) (limbs_val b).
Proof. exact wide_band_spec. Qed.
Theorem C18_bor : forall n a b, length a = n -> length b = n -> wf a -> wf b ->
  limbs_val (wide_bor n a b) = N.lor (limbs_val a) (limbs_val b).
Proof. exact wide_bor_spec. Qed.
Theorem C18_bxor : forall n a b, length a = n -> length b = n -> wf a -> wf b ->
  limbs_val (wide_bxor n a b) = N.lxor (limbs_val a) (limbs_val b).
Proof. exact wide_bxor_spec. Qed.
Theorem C18_bxor_not : forall n a b, length a = n -> length b = n -> wf a -> wf b ->
  limbs_val (wide_bxor_not n a b) = N.lnot (N.lxor (limbs_val a) (limbs_val b)) (64 * N.of_nat n).
Proof. exact wide_bxor_not_spec. Qed.
Theorem C18_band_not : forall n a b, length a = n -> length b = n -> wf a -> wf b ->
  limbs_val (wide_band_not n a b) = N.ldiff (limbs_val a) (limbs_val b).
Proof. exact wide_band_not_spec. Qed.
Theorem C18_bnot : forall n a, length a = n -> wf a ->
  limbs_val (wide_bnot n a) = N.lnot (limbs_val a) (64 * N.of_nat n).
Proof. exact wide_bnot_spec'. Qed.
Theorem C18_copy : forall n a, length a = n -> wide_copy n a = a.
Proof. exact wide_copy_spec. Qed.

(* ---------------------------------------------------------------- shifts, every amount *)
Theorem C18_shl : forall n a amount, length a = n -> wf a ->
  limbs_val (wide_shl n a amount) = N.shiftl (limbs_val a) amount mod Wn n /\
  wf (wide_shl n a amount) /\ length (wide_shl n a amount) = n.
Proof. exact wide_shl_spec. Qed.
Theorem C18_lshr : forall n a amount, length a = n -> wf a ->
  limbs_val (wide_lshr n a amount) = N.shiftr (limbs_val a) amount /\
  wf (wide_lshr n a amount) /\ length (wide_lshr n a amount) = n.
Proof. exact wide_lshr_spec. Qed.
(* arithmetic shift right of the w-bit signed value (sign fill of bits [max(0,w-amount), w)) *)
Theorem C18_ashr : forall n w a dst0 amount, length a = n -> wf a ->
  0 < N.of_nat n < 8192 -> 0 < w < 65536 -> w <= 64 * N.of_nat n -> limbs_val a < 2 ^ w ->
  limbs_val (wide_ashr dst0 a amount (pack_nb_width (8 * N.of_nat n) w)) =
  vp (s_ashr true w (mkVec (limbs_val a) 0) (Some amount)).
Proof. exact wide_ashr_spec. Qed.

(* ---------------------------------------------------------------- resize: zero / sign extension *)
(* bit k of the result: below 64*dst_n; the source bit below src_w, the sign (if signed) above *)
Theorem C18_resize_bits : forall src info dst_nb, wf src -> forall k,
  N.testbit (limbs_val (wide_resize src info dst_nb)) k =
  (k <? 64 * N.of_nat (nw dst_nb)) &&
  resize_bit (limbs_val src) (unpack_width (info mod U32))
    ((N.land (N.shiftr info 32) 1 =? 1) && (0 <? unpack_width (info mod U32)) &&
     N.testbit (limbs_val src) (unpack_width (info mod U32) - 1)) k.
Proof. exact wide_resize_bits. Qed.
(* never depends on limbs at or above ceil(src_w / 64): the narrower operand is not over-read *)
Theorem C18_resize_in_bounds : forall src info dst_nb junk,
  (N.to_nat ((unpack_width (info mod U32) + 63) / 64) <= length src)%nat ->
  wide_resize (src ++ junk) info dst_nb = wide_resize src info dst_nb.
Proof. exact wide_resize_ignores_above. Qed.

(* ---------------------------------------------------------------- comparisons *)
Theorem C18_pack_unpack : forall nb w, nb < 65536 -> w < 65536 ->
  unpack_nb (pack_nb_width nb w) = nb /\ unpack_width (pack_nb_width nb w) = w.
Proof. exact unpack_pack. Qed.
Theorem C18_eq : forall n a b, length a = n -> length b = n -> wf a -> wf b ->
  wide_eq n a b = (if limbs_val a =? limbs_val b then 1%Z else 0%Z).
Proof. exact wide_eq_spec. Qed.
Theorem C18_ne : forall n a b, length a = n -> length b = n -> wf a -> wf b ->
  wide_ne n a b = (if limbs_val a =? limbs_val b then 0%Z else 1%Z).
Proof. exact wide_ne_spec. Qed.
Theorem C18_is_nonzero : forall n a, length a = n ->
  wide_is_nonzero n a = (if limbs_val a =? 0 then 0%Z else 1%Z).
Proof. exact wide_is_nonzero_spec. Qed.
Theorem C18_ucmp : forall n a b, length a = n -> length b = n -> wf a -> wf b ->
  wide_ucmp n a b = cmpZ (limbs_val a ?= limbs_val b).
Proof. exact wide_ucmp_spec. Qed.
Theorem C18_scmp : forall n w a b, length a = n -> length b = n -> wf a -> wf b ->
  0 < N.of_nat n < 8192 -> 0 < w < 65536 -> limbs_val a < 2 ^ w -> limbs_val b < 2 ^ w ->
  wide_scmp a b (pack_nb_width (8 * N.of_nat n) w) =
  cmpZ (sval w (limbs_val a) ?= sval w (limbs_val b))%Z.
Proof. exact wide_scmp_spec. Qed.

(* operands of different value widths aw, bw (buffers of na, nb limbs): each is sign extended from
   its own width; limbs at or above the width are never looked at (the value is taken mod 2^w) *)
Theorem C18_scmp_asym : forall na nb aw bw a b,
  wf a -> wf b -> 0 < N.of_nat na < 8192 -> 0 < N.of_nat nb < 8192 -> 0 < aw < 65536 -> 0 < bw < 65536 ->
  aw <= 64 * N.of_nat (Nat.max na nb) -> bw <= 64 * N.of_nat (Nat.max na nb) ->
  wide_scmp_asym a b (pack_nb_width (8 * N.of_nat na) aw) (pack_nb_width (8 * N.of_nat nb) bw) =
  cmpZ (sval aw (limbs_val a mod 2 ^ aw) ?= sval bw (limbs_val b mod 2 ^ bw))%Z.
Proof. exact wide_scmp_asym_spec. Qed.

(* ---------------------------------------------------------------- masks *)
Theorem C18_apply_mask : forall n w dst, length dst = n -> wf dst ->
  0 < N.of_nat n < 8192 -> 0 < w < 65536 ->
  limbs_val (wide_apply_mask dst (pack_nb_width (8 * N.of_nat n) w)) = limbs_val dst mod 2 ^ w.
Proof. exact wide_apply_mask_spec. Qed.
Theorem C18_fill_ones : forall n w dst, length dst = n -> wf dst ->
  0 < N.of_nat n < 8192 -> 0 < w < 65536 ->
  limbs_val (wide_fill_ones dst (pack_nb_width (8 * N.of_nat n) w)) = N.ones (N.min w (64 * N.of_nat n)).
Proof. exact wide_fill_ones_spec. Qed.

(* ---------------------------------------------------------------- IEEE 1800 meaning at width w
   (2-state operands, result masked to w by apply_mask) *)
Theorem C18_add_is_1800 : forall n w a b, length a = n -> length b = n -> wf a -> wf b ->
  0 < N.of_nat n < 8192 -> 0 < w < 65536 -> w <= 64 * N.of_nat n ->
  v2 (limbs_val (wide_apply_mask (wide_add n a b) (pack_nb_width (8 * N.of_nat n) w))) =
  s_add w (v2 (limbs_val a)) (v2 (limbs_val b)).
Proof. exact wide_add_is_1800. Qed.
Theorem C18_sub_is_1800 : forall n w a b, length a = n -> length b = n -> wf a -> wf b ->
  0 < N.of_nat n < 8192 -> 0 < w < 65536 -> w <= 64 * N.of_nat n ->
  v2 (limbs_val (wide_apply_mask (wide_sub n a b) (pack_nb_width (8 * N.of_nat n) w))) =
  s_sub w (v2 (limbs_val a)) (v2 (limbs_val b)).
Proof. exact wide_sub_is_1800. Qed.
Theorem C18_mul_is_1800 : forall n w a b, length a = n -> length b = n -> wf a -> wf b ->
  0 < N.of_nat n < 8192 -> 0 < w < 65536 -> w <= 64 * N.of_nat n ->
  v2 (limbs_val (wide_apply_mask (wide_mul n a b) (pack_nb_width (8 * N.of_nat n) w))) =
  s_mul w (v2 (limbs_val a)) (v2 (limbs_val b)).
Proof. exact wide_mul_is_1800. Qed.
Theorem C18_negate_is_1800 : forall n w a, length a = n -> wf a ->
  0 < N.of_nat n < 8192 -> 0 < w < 65536 -> w <= 64 * N.of_nat n ->
  v2 (limbs_val (wide_apply_mask (wide_negate n a) (pack_nb_width (8 * N.of_nat n) w))) =
  s_neg w (v2 (limbs_val a)).
Proof. exact wide_negate_is_1800. Qed.
Theorem C18_shl_is_1800 : forall n w a, length a = n -> wf a ->
  0 < N.of_nat n < 8192 -> 0 < w < 65536 -> w <= 64 * N.of_nat n -> forall amount,
  v2 (limbs_val (wide_apply_mask (wide_shl n a amount) (pack_nb_width (8 * N.of_nat n) w))) =
  s_shl w (v2 (limbs_val a)) (Some amount).
Proof. exact wide_shl_is_1800. Qed.
Theorem C18_lshr_is_1800 : forall n w a amount, length a = n -> wf a ->
  0 < N.of_nat n < 8192 -> 0 < w < 65536 -> w <= 64 * N.of_nat n -> limbs_val a < 2 ^ w ->
  v2 (limbs_val (wide_apply_mask (wide_lshr n a amount) (pack_nb_width (8 * N.of_nat n) w))) =
  s_shr w (v2 (limbs_val a)) (Some amount).
Proof. exact wide_lshr_is_1800'. Qed.
Theorem C18_ashr_is_1800 : forall n w a dst0 amount, length a = n -> wf a ->
  0 < N.of_nat n < 8192 -> 0 < w < 65536 -> w <= 64 * N.of_nat n -> limbs_val a < 2 ^ w ->
  v2 (limbs_val (wide_ashr dst0 a amount (pack_nb_width (8 * N.of_nat n) w))) =
  s_ashr true w (v2 (limbs_val a)) (Some amount).
Proof. exact wide_ashr_is_1800'. Qed.
Theorem C18_band_is_1800 : forall n w a b, length a = n -> length b = n -> wf a -> wf b ->
  0 < N.of_nat n < 8192 -> 0 < w < 65536 ->
  v2 (limbs_val (wide_apply_mask (wide_band n a b) (pack_nb_width (8 * N.of_nat n) w))) =
  s_and w (v2 (limbs_val a)) (v2 (limbs_val b)).
Proof. exact wide_band_is_1800. Qed.
Theorem C18_bor_is_1800 : forall n w a b, length a = n -> length b = n -> wf a -> wf b ->
  0 < N.of_nat n < 8192 -> 0 < w < 65536 ->
  v2 (limbs_val (wide_apply_mask (wide_bor n a b) (pack_nb_width (8 * N.of_nat n) w))) =
  s_or w (v2 (limbs_val a)) (v2 (limbs_val b)).
Proof. exact wide_bor_is_1800. Qed.
Theorem C18_bxor_is_1800 : forall n w a b, length a = n -> length b = n -> wf a -> wf b ->
  0 < N.of_nat n < 8192 -> 0 < w < 65536 ->
  v2 (limbs_val (wide_apply_mask (wide_bxor n a b) (pack_nb_width (8 * N.of_nat n) w))) =
  s_xor w (v2 (limbs_val a)) (v2 (limbs_val b)).
Proof. exact wide_bxor_is_1800. Qed.
Theorem C18_bxor_not_is_1800 : forall n w a b, length a = n -> length b = n -> wf a -> wf b ->
  0 < N.of_nat n < 8192 -> 0 < w < 65536 -> w <= 64 * N.of_nat n ->
  v2 (limbs_val (wide_apply_mask (wide_bxor_not n a b) (pack_nb_width (8 * N.of_nat n) w))) =
  s_xnor w (v2 (limbs_val a)) (v2 (limbs_val b)).
Proof. exact wide_bxor_not_is_1800. Qed.
(* relational operators <, <=, >, >= read off the three-way comparison result *)
Theorem C18_ucmp_is_1800 : forall n w a b fz, length a = n -> length b = n -> wf a -> wf b ->
  fz = Z.ltb \/ fz = Z.leb \/ fz = Z.gtb \/ fz = Z.geb ->
  s_rel false w (v2 (limbs_val a)) (v2 (limbs_val b)) fz = v2 (if rel_of fz (wide_ucmp n a b) then 1 else 0).
Proof. exact wide_ucmp_is_1800'. Qed.
Theorem C18_scmp_is_1800 : forall n w a b fz, length a = n -> length b = n -> wf a -> wf b ->
  0 < N.of_nat n < 8192 -> 0 < w < 65536 -> limbs_val a < 2 ^ w -> limbs_val b < 2 ^ w ->
  fz = Z.ltb \/ fz = Z.leb \/ fz = Z.gtb \/ fz = Z.geb ->
  s_rel true w (v2 (limbs_val a)) (v2 (limbs_val b)) fz =
  v2 (if rel_of fz (wide_scmp a b (pack_nb_width (8 * N.of_nat n) w)) then 1 else 0).
Proof. exact wide_scmp_is_1800'. Qed.
Theorem C18_eq_ne_is_1800 : forall n a b, length a = n -> length b = n -> wf a -> wf b ->
  s_eq (v2 (limbs_val a)) (v2 (limbs_val b)) = v2 (Z.to_N (wide_eq n a b)) /\
  s_ne (v2 (limbs_val a)) (v2 (limbs_val b)) = v2 (Z.to_N (wide_ne n a b)).
Proof. exact wide_eq_is_1800'. Qed.
Theorem C18_is_nonzero_is_truth : forall n a, length a = n ->
  truth (v2 (limbs_val a)) = (if (wide_is_nonzero n a =? 1)%Z then TT else TF).
Proof. exact wide_is_nonzero_is_truth. Qed.

(* ---------------------------------------------------------------- the reference evaluator
   (engines stream): its one executable shortcut, clamping a shift amount to the context width,
   does not change the IEEE result *)
Theorem C18_ref_shift_clamp : forall sg w a s,
  s_shl w a (Some s) = s_shl w a (Some (N.min s w)) /\
  s_shr w a (Some s) = s_shr w a (Some (N.min s w)) /\
  s_ashr sg w a (Some s) = s_ashr sg w a (Some (N.min s w)).
Proof. exact shift_clamp_all. Qed.

(* ---------------------------------------------------------------- non-vacuity *)
(* a 130-bit operand pair in 3 limbs meets every hypothesis above; carries cross both limb
   boundaries, the sign bit (129) is set *)
Example C18_hyps_met :
  let a := [MAXW; MAXW; 2] in let b := [1; 0; 3] in
  length a = 3%nat /\ length b = 3%nat /\ wf a /\ wf b /\ 0 < N.of_nat 3 < 8192 /\ 0 < 130 < 65536 /\
  130 <= 64 * N.of_nat 3 /\ limbs_val a < 2 ^ 130 /\ limbs_val b < 2 ^ 130.
Proof. cbv zeta. repeat split; try reflexivity; try discriminate; repeat (constructor; try reflexivity). Qed.
Example C18_add_example : wide_add 3 [MAXW; MAXW; 2] [1; 0; 3] = [0; 0; 6].
Proof. reflexivity. Qed.
Example C18_ashr_example :
  wide_ashr [] [0; 0; 2] 1 (pack_nb_width 24 130) = [0; 0; 3] /\
  wide_ashr [] [0; 0; 2] 200 (pack_nb_width 24 130) = [MAXW; MAXW; 3].
Proof. split; reflexivity. Qed.
Example C18_scmp_example :
  wide_scmp [1; 0; 2] [5; 0; 0] (pack_nb_width 24 130) = (-1)%Z /\
  wide_ucmp 3 [1; 0; 2] [5; 0; 0] = 1%Z.
Proof. split; reflexivity. Qed.
Example C18_scmp_asym_example :
  (* -1 as a 3-bit value against 5 as a 70-bit value *)
  wide_scmp_asym [7; 0] [5; 0] (pack_nb_width 16 3) (pack_nb_width 16 70) = (-1)%Z.
Proof. reflexivity. Qed.
Example C18_resize_example :
  (* 65-bit value with the sign bit set, sign extended into 3 limbs / zero extended *)
  wide_resize [7; 1] (pack_nb_width 16 65 + 4294967296) 24 = [7; MAXW; MAXW] /\
  wide_resize [7; 1] (pack_nb_width 16 65) 24 = [7; 1; 0].
Proof. split; reflexivity. Qed.
Example C18_rel_instances : Z.ltb = Z.ltb \/ Z.ltb = Z.leb \/ Z.ltb = Z.gtb \/ Z.ltb = Z.geb.
Proof. left. reflexivity. Qed.

Print Assumptions C18_ref_shift_clamp.
Print Assumptions C18_add.
Print Assumptions C18_sub.
Print Assumptions C18_negate.
Print Assumptions C18_mul.
Print Assumptions C18_mul_no_overflow.
Print Assumptions C18_band.
Print Assumptions C18_bor.
Print Assumptions C18_bxor.
Print Assumptions C18_bxor_not.
Print Assumptions C18_band_not.
Print Assumptions C18_bnot.
Print Assumptions C18_copy.
Print Assumptions C18_shl.
Print Assumptions C18_lshr.
Print Assumptions C18_ashr.
Print Assumptions C18_resize_bits.
Print Assumptions C18_resize_in_bounds.
Print Assumptions C18_pack_unpack.
Print Assumptions C18_eq.
Print Assumptions C18_ne.
Print Assumptions C18_is_nonzero.
Print Assumptions C18_ucmp.
Print Assumptions C18_scmp.
Print Assumptions C18_scmp_asym.
Print Assumptions C18_apply_mask.
Print Assumptions C18_fill_ones.
Print Assumptions C18_add_is_1800.
Print Assumptions C18_sub_is_1800.
Print Assumptions C18_mul_is_1800.
Print Assumptions C18_negate_is_1800.
Print Assumptions C18_shl_is_1800.
Print Assumptions C18_lshr_is_1800.
Print Assumptions C18_ashr_is_1800.
Print Assumptions C18_band_is_1800.
Print Assumptions C18_bor_is_1800.
Print Assumptions C18_bxor_is_1800.
Print Assumptions C18_bxor_not_is_1800.
Print Assumptions C18_ucmp_is_1800.
Print Assumptions C18_scmp_is_1800.
Print Assumptions C18_eq_ne_is_1800.
Print Assumptions C18_is_nonzero_is_truth.
