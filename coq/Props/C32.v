(* C32 — Test results do not depend on scheduling; $tb random draws are reproducible and every
   range draw lies within its bounds.  Statements, non-vacuity examples and audits only. *)
From Coq Require Import List NArith ZArith Bool Permutation.
From VV Require Import Rand.Generated Rand.RandModel Rand.RandProofs Rand.PoolModel Rand.PoolProofs.
Import ListNotations.
Open Scope N_scope.

(* get(): the sampled payload fits the width, for every width (0, 63, 64, > 64 included) *)
Theorem C32_get_in_bounds : forall (sample_u : N -> N -> N),
  (forall lo hi, lo <= hi -> lo <= sample_u lo hi <= hi) ->
  forall width, get sample_u width <= mask width.
Proof. exact get_in_bounds. Qed.

(* get_range(): for every sampler that answers inside the closed interval it is asked for, every
   width, signedness and pair of bounds (equal, swapped, extreme, wider than the width): the
   result, read back per signedness, lies between the two bounds as the testbench reads them,
   and fits the width *)
Theorem C32_get_range_in_bounds : forall (sample_u : N -> N -> N) (sample_i : Z -> Z -> Z),
  (forall lo hi, lo <= hi -> lo <= sample_u lo hi <= hi) ->
  (forall lo hi, (lo <= hi)%Z -> (lo <= sample_i lo hi <= hi)%Z) ->
  forall min max width signed,
  let v := get_range sample_u sample_i min max width signed in
  let a := interp signed width (N.land min (mask width)) in
  let b := interp signed width (N.land max (mask width)) in
  (Z.min a b <= interp signed width v <= Z.max a b)%Z /\ v <= mask width.
Proof. exact get_range_in_bounds. Qed.

(* the `(sample as u64) & m` re-truncation loses nothing: reading it back gives the sample *)
Theorem C32_truncation_lossless : forall w s, in_range w s ->
  sign_extend (N.land (as_u64 s) (mask w)) w = s.
Proof. exact sign_extend_roundtrip. Qed.

(* base.to_le_bytes(): eight bytes, least significant first *)
Theorem C32_seed_bytes_little_endian : forall x, x < M64 ->
  length (le_bytes8 x) = 8%nat /\ fold_right (fun b acc => b + 256 * acc) 0 (le_bytes8 x) = x.
Proof. exact le_bytes8_spec. Qed.

(* Worker pool: if a test's report is a function of (test, seed) and the per-worker memo cache is
   transparent (a proto depends only on its key), then for every dispatch order (permutation of
   the tests), every number of workers and every assignment of tests to workers, the reports are,
   as a multiset, one solo report per test. *)
Theorem C32_pool_schedule_independent :
  forall (test key proto result : Type) (key_eqb : key -> key -> bool) (key_of : test -> key)
         (build : test -> proto) (exec : test -> proto -> N -> result),
  (forall a b, key_eqb a b = true <-> a = b) ->
  (forall t t', key_of t = key_of t' -> build t = build t') ->
  forall seed tests queue sched,
  Permutation queue tests ->
  Permutation
    (pool_run test key proto result key_eqb key_of build exec seed (fun _ => []) queue sched)
    (map (solo test proto result build exec seed) tests).
Proof. exact pool_schedule_independent. Qed.

Theorem C32_pool_two_schedules :
  forall (test key proto result : Type) (key_eqb : key -> key -> bool) (key_of : test -> key)
         (build : test -> proto) (exec : test -> proto -> N -> result),
  (forall a b, key_eqb a b = true <-> a = b) ->
  (forall t t', key_of t = key_of t' -> build t = build t') ->
  forall seed tests q1 s1 q2 s2,
  Permutation q1 tests -> Permutation q2 tests ->
  Permutation
    (pool_run test key proto result key_eqb key_of build exec seed (fun _ => []) q1 s1)
    (pool_run test key proto result key_eqb key_of build exec seed (fun _ => []) q2 s2).
Proof. exact pool_two_schedules. Qed.

(* ---------------------------------------------------------------- non-vacuity *)
(* a sampler that always answers the lower (resp. upper) bound meets the hypotheses *)
Example C32_sampler_exists :
  (forall lo hi, lo <= hi -> lo <= (fun lo _ : N => lo) lo hi <= hi) /\
  (forall lo hi, (lo <= hi)%Z -> (lo <= (fun _ hi : Z => hi) lo hi <= hi)%Z).
Proof. split; intros; split; auto; apply N.le_refl || apply Z.le_refl. Qed.
(* signed 8-bit draw between 0x80 (-128) and 0x7f (127), bounds given in swapped order; signed
   64-bit extremes; width 0 *)
Example C32_get_range_examples :
  get_range (fun lo _ => lo) (fun lo _ => lo) 127 128 8 true = 128 /\
  get_range (fun _ hi => hi) (fun _ hi => hi) 127 128 8 true = 127 /\
  get_range (fun lo _ => lo) (fun lo _ => lo) 9223372036854775807 9223372036854775808 64 true = 9223372036854775808 /\
  get_range (fun _ hi => hi) (fun _ hi => hi) 5 300 8 false = 44 /\
  get_range (fun _ hi => hi) (fun _ hi => hi) 5 7 0 true = 0.
Proof. repeat split. Qed.
Example C32_in_range_example : in_range 8 (-128)%Z /\ in_range 64 (-9223372036854775808)%Z /\ in_range 0 0%Z.
Proof. unfold in_range; cbn; repeat split; discriminate || reflexivity. Qed.
(* a two-test pool with a shared cache key: any schedule gives the solo reports *)
Example C32_pool_example :
  pool_run nat nat nat (nat * N) Nat.eqb (fun t => 0%nat) (fun t => 7%nat) (fun t p s => ((t + p)%nat, s)) 5
           (fun _ => []) [2%nat; 1%nat] [1%nat; 1%nat] =
  [(2%nat, (9%nat, 5)); (1%nat, (8%nat, 5))].
Proof. reflexivity. Qed.
(* FNV-1a as transcribed, on the standard test vector "a" -> 0xaf63dc4c8601ec8c (holds for the
   constants currently in the source; informational) *)
Example C32_fnv_known_answer : fnv 1099511628211 14695981039346656037 [97] = 12638187200555641996.
Proof. reflexivity. Qed.

Print Assumptions C32_get_in_bounds.
Print Assumptions C32_get_range_in_bounds.
Print Assumptions C32_truncation_lossless.
Print Assumptions C32_seed_bytes_little_endian.
Print Assumptions C32_pool_schedule_independent.
Print Assumptions C32_pool_two_schedules.
