(* C10 — The parser terminates without crashing on every input.
   Partial by nature: stack consumption, the generated LL(k) tables and parol_runtime's loop are
   runtime facts that no Gallina model exhibits; they are searched by vp/props/c10.py.
   This file holds what a proof carries: span arithmetic of the newline-terminated buffer and the
   production-depth accounting behind MAX_PARSING_DEPTH. *)
From Coq Require Import List NArith Bool.
From VV Require Import Robust.ParseModel Robust.ParseProofs Robust.GenDepth Robust.GenDepthProofs.
Import ListNotations.
Open Scope N_scope.

(* (i) spans.  A lexer location inside the parsed buffer becomes a span that ends inside it … *)
Theorem C10_span_in_buffer :
  forall buf l, loc_in buf l -> span_end (span_of_loc l) <= blen buf.
Proof. exact span_in_buffer_l. Qed.

(* … hence at most one byte past the user's input, and inside it when the input ends in "\n". *)
Theorem C10_span_in_input_partial :
  forall i l, loc_in (parse_buf i) l ->
    span_end (span_of_loc l) <= blen i + 1 /\
    (ends_with_nl i = true -> span_end (span_of_loc l) <= blen i).
Proof. exact span_in_input_l. Qed.

(* A span that leaves the input does so by exactly the appended newline: the input had no final
   newline, the span ends at |input|+1 and byte |input| of the buffer is the appended "\n". *)
Theorem C10_span_outside_only_newline :
  forall i l, loc_in (parse_buf i) l -> blen i < span_end (span_of_loc l) ->
    ends_with_nl i = false /\
    span_end (span_of_loc l) = blen i + 1 /\
    parse_buf i = i ++ [NL] /\
    nth (length i) (parse_buf i) 0 = NL.
Proof. exact span_outside_only_newline_l. Qed.

(* FINDING (key span-eof-behind-appended-newline): the literal statement "the span lies inside the
   input" does not hold — witness: input "m", end-of-input location (2,2) of the buffer "m\n". *)
Theorem C10_span_inside_input_refuted :
  exists i l, loc_in (parse_buf i) l /\ ends_with_nl i = false /\
              span_of_loc l = (blen i + 1, 0) /\ ~ span_end (span_of_loc l) <= blen i.
Proof. exact span_inside_input_refuted_l. Qed.

(* … and it holds outside that class. *)
Theorem C10_span_inside_input_outside_known_class :
  forall i l, loc_in (parse_buf i) l ->
    (ends_with_nl i = true \/ (l_start l <= blen i /\ l_end l <= blen i)) ->
    span_end (span_of_loc l) <= blen i.
Proof. exact span_inside_input_outside_known_class_l. Qed.

(* The error location veryl reports (last unexpected token, else parol's error location). *)
Theorem C10_error_location_in_buffer :
  forall buf us el, Forall (loc_in buf) us -> loc_in buf el ->
    span_end (pick_error_location us el) <= blen buf.
Proof. exact pick_in_buffer_l. Qed.

(* (ii) depth accounting.  The push-down loop with its E(p) markers accepts a derivation tree under
   cap D exactly when no path holds more than D non-push productions … *)
Theorem C10_depth_counter_exact :
  forall D t, parse_accepts D t = Accept <-> ndepth t <= D.
Proof. exact machine_accepts_iff_ndepth_l. Qed.

(* … and otherwise stops with MaxParsingDepthExceeded{D+1}; it never runs out of fuel. *)
Theorem C10_depth_reject_reports_cap_plus_one :
  forall D t, D < ndepth t -> parse_accepts D t = DepthErr (D + 1).
Proof. exact machine_rejects_with_cap_plus_one_l. Qed.

Theorem C10_depth_loop_total :
  forall D t, parse_accepts D t = Accept \/ parse_accepts D t = DepthErr (D + 1).
Proof. exact machine_total_l. Qed.

(* accepted under cap D  =>  a structurally recursive walker / Drop over the syntax tree that spends
   at most k frames per struct recurses at most k*((P+1)*D+P) frames, P bounding directly stacked
   list levels (GenDepth.list_nest_bound for veryl's grammar). *)
Theorem C10_walker_frames_bounded :
  forall k P D t, maxnest t <= P -> parse_accepts D t = Accept ->
    wframes k t <= k * ((P + 1) * D + P).
Proof. exact walker_bound_l. Qed.

(* nesting families: the production depth of the n-fold nested input is affine in n … *)
Theorem C10_family_depth_exact :
  forall f n, family_ok f = true ->
    ndepth (family_tree f n) = family_depth f (N.of_nat n).
Proof. exact family_depth_exact_l. Qed.

(* … so acceptance under the cap is decided by family_accepts (what the correspondence compares
   with the real parser at depths around the cap). *)
Theorem C10_family_accept_iff :
  forall D f n, family_ok f = true ->
    (parse_accepts D (family_tree f n) = Accept <-> family_accepts D f (N.of_nat n) = true).
Proof. exact family_accepts_iff_l. Qed.

(* facts about the definitions the translator regenerates from build.rs / veryl_parser.rs on every
   run: the two caps agree, every extracted family satisfies family_ok, and every nesting family
   really is bounded by the cap (its per-level cost is positive). *)
Theorem C10_generated_caps_agree : cap_generated_parser = Some cap_build_rs /\ cap = cap_build_rs.
Proof. exact gen_caps_agree. Qed.

Theorem C10_generated_lists_are_push : forallb snd recursive_production_flags = true.
Proof. exact gen_recursive_productions_push. Qed.

Theorem C10_generated_families_ok : forallb family_ok all_families = true.
Proof. exact gen_families_ok. Qed.

Theorem C10_generated_nesting_bounded :
  forall f, In f nesting_families ->
    forall n, parse_accepts cap (family_tree f n) = Accept -> N.of_nat n <= cap.
Proof. exact gen_nesting_bounded. Qed.

(* non-vacuity *)
Example C10_buffer_example :
  parse_buf [109; 111] = [109; 111; 10] /\ parse_buf [109; 10] = [109; 10] /\ parse_buf [] = [10].
Proof. repeat split. Qed.
Example C10_span_example :
  loc_in (parse_buf [109; 111]) (mkLoc 2 3) /\ span_of_loc (mkLoc 2 3) = (2, 1) /\
  span_of_loc (mkLoc 3 2) = (3, 0).
Proof. unfold loc_in, blen. simpl. repeat split; discriminate. Qed.
Example C10_machine_example :
  let t := Node 1 0 false [Node 2 1 true [Leaf 0; Node 2 1 true [Node 3 2 false [Leaf 0]]]] in
  ndepth t = 2 /\ parse_accepts 2 t = Accept /\ parse_accepts 1 t = DepthErr 2 /\
  wframes 3 t = 9 /\ maxnest t = 1.
Proof. vm_compute. repeat split. Qed.
Example C10_family_example :
  exists f, In f nesting_families /\ family_ok f = true /\ 0 < cost (f_rep f).
Proof. exact gen_family_example. Qed.

Print Assumptions C10_span_in_buffer.
Print Assumptions C10_span_in_input_partial.
Print Assumptions C10_span_outside_only_newline.
Print Assumptions C10_span_inside_input_refuted.
Print Assumptions C10_span_inside_input_outside_known_class.
Print Assumptions C10_error_location_in_buffer.
Print Assumptions C10_depth_counter_exact.
Print Assumptions C10_depth_reject_reports_cap_plus_one.
Print Assumptions C10_depth_loop_total.
Print Assumptions C10_walker_frames_bounded.
Print Assumptions C10_family_depth_exact.
Print Assumptions C10_family_accept_iff.
Print Assumptions C10_generated_caps_agree.
Print Assumptions C10_generated_lists_are_push.
Print Assumptions C10_generated_families_ok.
Print Assumptions C10_generated_nesting_bounded.
