(* C22 — SystemVerilog translation preserves behaviour (partial: the always_ff / reset idiom and
   the carried expression spellings of the µSV core; everything else is differential validation,
   see design/C22.md).  Statements only; model Translate/TranslateModel.v, proofs
   Translate/TranslateProofs.v; the µSV / µVeryl semantics is coq/Rtl (shared with C01..C03). *)
From VV Require Import Translate.TranslateModel Translate.TranslateProofs.
Open Scope N_scope.

(* the textual test of convert.rs::emit_if accepts exactly the six spellings of the reset *)
Theorem reset_text_test : forall c rst : string,
  is_reset_text c rst = match shape_of_text c rst with Some _ => true | None => false end.
Proof. exact is_reset_text_shape. Qed.

Theorem reset_text_spellings : forall (s : shape) (rst : string), is_reset_text (shape_text s rst) rst = true.
Proof. exact shape_text_recognised. Qed.

(* which `if (...) A else B` become `if_reset`: reset named in the sensitivity list, a single
   condition with an else branch, and one of the six spellings *)
Theorem reset_idiom_recognition : forall (rv : N) (f : sv_ff),
  (exists r b, translate_ff rv f = IFf (Some r) b) <->
  (f_sens_rst f = true /\ f_simple f = true /\ exists s, f_cond f = CShape s).
Proof. exact reset_idiom_recognition_lemma. Qed.

(* semantic preservation of all always_ff blocks of a module at a clock edge, under the same
   pre-edge state, for a known reset level: the write log of the translated blocks (Veryl
   semantics, reset kind k) equals the write log of the SystemVerilog blocks, PROVIDED every block
   that became `if_reset` tests the polarity that k has. *)
Theorem translate_preserves_ffs_partial :
  forall (md : mode) (D : decls) (pre : state) (rv : N) (k : rkind) (level : bool) (ffs : list sv_ff),
  D rv = mkDecl 1 false false KIn -> pre rv = level_vec level ->
  forallb (polarity_ok k) ffs = true ->
  veryl_ff_log md D rv k level pre ffs = sv_ff_log md D rv pre ffs.
Proof. exact translate_preserves_ffs_lemma. Qed.

(* the proviso is necessary: the translator drops the polarity, so an active-high SystemVerilog
   reset translated into a module whose reset is (by default) active low behaves differently *)
Theorem polarity_mismatch_refuted :
  exists f level,
    recognised f = true /\
    veryl_ff_log M4 demo_D 0 AsyncLow level (demo_pre level) [f] <> sv_ff_log M4 demo_D 0 (demo_pre level) [f].
Proof. exact polarity_mismatch_refuted_lemma. Qed.

(* expressions: the translator copies the text; for the spellings that mean the same in both
   languages (carried) the value under every context is unchanged.  Partial: `<` `>`, `?:` and
   replication are copied as well but are not Veryl (tr_expr = None), see KNOWN_FINDINGS. *)
Theorem tr_expr_preserves_partial : forall e e' : expr,
  tr_expr e = Some e' -> forall md D st c, ev md D st c e' = ev md D st c e.
Proof. exact tr_expr_preserves_lemma. Qed.

(* ---- non-vacuity *)
Example ex_recognised :
  exists r b, translate_ff 0 (mkSvFf true true (CShape ShBang) [SAssign 1 (ELit 8 false 0 0)] []) = IFf (Some r) b.
Proof. eexists; eexists; reflexivity. Qed.
Example ex_not_recognised_sync :
  translate_ff 0 (mkSvFf false true (CShape ShBang) [] []) = IFf None [SIf (EUn ULogNot (EVar 0)) [] []].
Proof. reflexivity. Qed.
Example ex_polarity_ok : forallb (polarity_ok AsyncLow) [mkSvFf true true (CShape ShBang) [] []; mkSvFf false true (CShape ShName) [] []] = true.
Proof. reflexivity. Qed.
Example ex_text : is_reset_text "(!rst_n)" "rst_n" = true /\ is_reset_text "! rst_n" "rst_n" = false /\ is_reset_text "rst_n == 1'b0" "rst_n" = false.
Proof. repeat split. Qed.
Example ex_carried : tr_expr (EBin BAdd (EVar 1) (ECast 8 (EVar 2))) = Some (EBin BAdd (EVar 1) (ECast 8 (EVar 2))) /\ tr_expr (ETern (EVar 0) (EVar 1) (EVar 2)) = None.
Proof. split; reflexivity. Qed.

Print Assumptions reset_text_test.
Print Assumptions reset_text_spellings.
Print Assumptions reset_idiom_recognition.
Print Assumptions translate_preserves_ffs_partial.
Print Assumptions polarity_mismatch_refuted.
Print Assumptions tr_expr_preserves_partial.
