(* C16 — Clock-domain crossings are always caught.
   This file holds only the property theorems (statement + exact) and their assumptions.
   Model: Analysis/ClockDomainModel.v (transcription of ClockDomain::{compatible, merge},
   check_clock_domain and of where the expression evaluator / assignment / instance code calls
   them); Analysis/GeneratedClockDomain.v is regenerated from symbol.rs on every run. *)
From Coq Require Import NArith List Bool.
From VV Require Import Analysis.ClockDomainModel Analysis.GeneratedClockDomain
                       Analysis.ClockDomainProofs Analysis.ClockDomainTie.
Import ListNotations.
Open Scope N_scope.

(* The algebra the theorems talk about is the one in symbol.rs now. *)
Theorem C16_generated_is_model :
  (forall d, gen_domain_id d = domain_id d) /\
  (forall a b, gen_compatible a b = compatible a b) /\
  (forall a b, gen_merge a b = merge a b).
Proof. exact generated_is_model. Qed.

(* compatible = "not in different domains": two domains are incompatible exactly when both
   signals have a domain ('_ or a named one) and the two differ. *)
Theorem C16_incompatible_iff_differ : forall a b, compatible a b = false <-> differ a b.
Proof. exact incompatible_differ. Qed.

(* Explicit and Inferred annotations are treated alike: by the algebra ... *)
Theorem C16_explicit_inferred_alike_algebra : forall a b,
  compatible (erase a) (erase b) = compatible a b /\
  merge (erase a) (erase b) = erase (merge a b) /\
  compatible (Explicit 0) (Inferred 0) = true /\
  (forall i j, compatible (Explicit i) (Inferred j) = compatible (Explicit i) (Explicit j)
            /\ compatible (Inferred i) (Explicit j) = compatible (Explicit i) (Explicit j)
            /\ compatible (Inferred i) (Inferred j) = compatible (Explicit i) (Explicit j)).
Proof. exact explicit_inferred_alike_algebra. Qed.

(* ... and by the whole expression walk: same number of errors, same result domain. *)
Theorem C16_explicit_inferred_alike : forall e,
  walk (erase_expr e) = (erase (fst (walk e)), snd (walk e)).
Proof. exact explicit_inferred_alike. Qed.

(* None (constants) is neutral. *)
Theorem C16_none_neutral : forall d,
  compatible DNone d = true /\ compatible d DNone = true /\ merge DNone d = d /\ merge d DNone = d.
Proof. exact none_neutral. Qed.

(* Walking an expression with a pairwise check at every operator and merge for the result reports
   an error iff two leaves are in different clock domains. *)
Theorem C16_check_sound_complete : forall e, walk_err e = true <-> crossing (leaves e).
Proof. exact check_sound_complete. Qed.

(* No laundering: without an error, the result carries the domain of every leaf that has one. *)
Theorem C16_walk_no_laundering : forall e, walk_err e = false ->
  forall d, In d (leaves e) -> cls d <> None -> cls (walk_dom e) = cls d.
Proof. exact walk_no_laundering. Qed.

(* An assignment (destination vs right-hand side, vs the always_ff clock, vs every statement
   condition in force; plus the errors inside the right-hand side and the conditions) reports an
   error iff two of the participating signals are in different domains. *)
Theorem C16_assign_exact : forall dst rhs clock conds, cls dst <> None ->
  (assign_total dst rhs clock conds <> 0 <-> crossing (assign_parts dst rhs clock conds)).
Proof. exact assign_exact. Qed.

(* the hypothesis is necessary (a destination without domain would miss rhs-vs-condition) *)
Theorem C16_assign_domainless_dst_misses :
  assign_total DNone (Leaf (Explicit 1)) None [Leaf (Explicit 2)] = 0 /\
  crossing (assign_parts DNone (Leaf (Explicit 1)) None [Leaf (Explicit 2)]).
Proof. exact assign_domainless_dst_misses. Qed.

(* Module instance: connections to child ports of one child domain, checked against the first
   connection that carries a domain, report an error iff two of them differ ... *)
Theorem C16_group_exact : forall ds, group_errors DNone ds <> 0 <-> crossing ds.
Proof. exact group_exact. Qed.

(* ... which the algorithm before the fix (first connection is the representative, whatever it
   is) did not achieve. *)
Theorem C16_group_first_refuted : exists ds, group_errors_first ds = 0 /\ crossing ds.
Proof. exact group_first_refuted. Qed.

(* $sv instance: each connected variable is checked against the previous one. *)
Theorem C16_chain_exact : forall ds, Forall (fun d => cls d <> None) ds ->
  (chain_errors None ds <> 0 <-> crossing ds).
Proof. exact chain_exact. Qed.

(* unsafe (cdc): a check reports iff it is not guarded and the domains differ. *)
Theorem C16_check_guard : forall g a b, check g a b = true <-> (g = false /\ differ a b).
Proof. exact check_guard. Qed.

(* the executable specification used by the end-to-end reference is the specification *)
Theorem C16_crossingb_spec : forall ds, crossingb ds = true <-> crossing ds.
Proof. exact crossingb_spec. Qed.

(* Non-vacuity *)
Example C16_ex_crossing :
  walk_err (Bin (Leaf (Explicit 1)) (Tern (Leaf DNone) (Leaf (Inferred 1)) (Fold [Leaf DNone; Leaf (Explicit 2)]))) = true.
Proof. reflexivity. Qed.
Example C16_ex_clean :
  walk (Bin (Leaf (Explicit 1)) (Tern (Leaf DNone) (Leaf (Inferred 1)) (Fold [Leaf DNone; Leaf (Explicit 1)]))) = (Explicit 1, 0).
Proof. reflexivity. Qed.
Example C16_ex_implicit_vs_named : walk_err (Bin (Leaf Implicit) (Leaf (Explicit 1))) = true.
Proof. reflexivity. Qed.
Example C16_ex_assign_hyp : cls Implicit <> None /\ cls (Inferred 3) <> None.
Proof. split; discriminate. Qed.
Example C16_ex_assign :
  assign_total (Explicit 1) (Leaf (Explicit 1)) (Some (Explicit 1)) [Leaf (Explicit 2)] = 1.
Proof. reflexivity. Qed.
Example C16_ex_chain_hyp : Forall (fun d => cls d <> None) [Explicit 1; Implicit; Inferred 2].
Proof. repeat constructor; discriminate. Qed.

Print Assumptions C16_generated_is_model.
Print Assumptions C16_incompatible_iff_differ.
Print Assumptions C16_explicit_inferred_alike_algebra.
Print Assumptions C16_explicit_inferred_alike.
Print Assumptions C16_none_neutral.
Print Assumptions C16_check_sound_complete.
Print Assumptions C16_walk_no_laundering.
Print Assumptions C16_assign_exact.
Print Assumptions C16_assign_domainless_dst_misses.
Print Assumptions C16_group_exact.
Print Assumptions C16_group_first_refuted.
Print Assumptions C16_chain_exact.
Print Assumptions C16_check_guard.
Print Assumptions C16_crossingb_spec.
