(* C26 — Presentation-only build options never change behaviour.
   This file holds only the property theorems (statement + exact) and their assumptions.
   Models/proofs: Pretty/RenderOptsNewline.v, Pretty/RenderOptsContent.v (on the C28 renderer
   model Pretty/Render.v), Inside/InsideModel.v, Inside/InsideProofs.v (on BV/Ops1800.v). *)
From VV Require Import Pretty.Render Pretty.RenderContent Pretty.RenderOptsNewline
  Pretty.RenderOptsContent Inside.InsideModel Inside.InsideProofs.
Open Scope N_scope.

(* 1. newline_style.  Two option sets with the same max_width and indent_width whose newline
   strings are non-empty and hold no space (LF, CRLF): there is ONE abstract output (characters
   and NEWLINE markers) of which both raw renderings are the instantiations with their own
   newline string; anchors, final line and column are equal.  (Raw output = what the emitter
   uses: strip_trailing_whitespace is off there.) *)
Theorem C26_newline_only_line_endings :
  forall o1 o2 d, same_layout o1 o2 -> nl_good (newline o1) -> nl_good (newline o2) ->
  exists a : list atom,
    raw_text o1 d = inst (newline o1) a /\
    raw_text o2 d = inst (newline o2) a /\
    render_anchors o1 d = render_anchors o2 d /\
    cur_line (raw_render o1 d) = cur_line (raw_render o2 d) /\
    col (raw_render o1 d) = col (raw_render o2 d).
Proof. exact newline_abstract_output. Qed.

(* the oracle's form: CRLF and LF renderings are equal once every CR is deleted *)
Theorem C26_newline_crlf_lf_normalised :
  forall mw iw sb1 sb2 d,
  del_cr (raw_text (mkOpts mw iw [13; 10] sb1) d) = del_cr (raw_text (mkOpts mw iw [10] sb2) d).
Proof. exact newline_crlf_lf_normalised. Qed.

(* NOT through strip_trailing_whitespace (not used by the emitter): a text with an embedded LF *)
Theorem C26_newline_strip_refuted :
  let d := Text [97; 32; 10; 98] in
  del_cr (render_text (mkOpts 80 4 [13; 10] true) d) <> del_cr (render_text (mkOpts 80 4 [10] true) d).
Proof. exact newline_strip_refuted. Qed.

(* 2. widths / indent.  For any two option sets both renderings are labelled contents of the
   same document; they hold the same Fixed fragments (Text, Anchored) and the same comments,
   which are functions of the document; only Cond fragments (Line separators of flat groups,
   IfBreak texts of broken groups) can differ. *)
Theorem C26_render_opts_content :
  forall o1 o2 d, nl_ok o1 -> nl_ok o2 ->
  exists l1 l2,
    LContents Break d l1 /\ LContents Break d l2 /\
    nonws (render_text o1 d) = nonws (flat l1) /\
    nonws (render_text o2 d) = nonws (flat l2) /\
    only Fixed l1 = only Fixed l2 /\ only Com l1 = only Com l2 /\
    only Fixed l1 = doc_fixed d /\ only Com l1 = doc_comments d.
Proof. exact render_opts_content. Qed.

(* when no Line separator / IfBreak text carries a visible character the visible text is the
   same under every option set *)
Theorem C26_render_opts_same_visible :
  forall o1 o2 d, nl_ok o1 -> nl_ok o2 -> cond_blank d = true ->
  nonws (render_text o1 d) = nonws (render_text o2 d).
Proof. exact render_opts_same_visible. Qed.

(* 3. strip_comments, modelled as: the document without its Comments nodes.  The stripped
   rendering has no comment fragment and exactly the Fixed fragments of the unstripped one
   (any two option sets); removing the comment fragments from a labelled content of d gives a
   labelled content of the stripped document with the same group decisions. *)
Theorem C26_strip_comments_content :
  forall o1 o2 d, nl_ok o1 -> nl_ok o2 ->
  exists l l',
    LContents Break d l /\ LContents Break (strip_doc d) l' /\
    nonws (render_text o1 d) = nonws (flat l) /\
    nonws (render_text o2 (strip_doc d)) = nonws (flat l') /\
    only Fixed l' = only Fixed l /\ only Com l' = [] /\ only Com l = doc_comments d.
Proof. exact strip_comments_content. Qed.

Theorem C26_strip_comments_same_decisions :
  forall m d l, LContents m d l -> LContents m (strip_doc d) (without Com l).
Proof. exact strip_comments_same_decisions. Qed.

(* 4. expand_inside_operation.  For all typed 4-state operands (any widths, signedness,
   x/z bits) the printed expansion  e1 || e2 || ... || en  with
   ei = (x) ==? (a)  |  ((x) >= (lo)) && ((x) <= (hi))  evaluates to the reference value of
   x inside {m1, ..., mn} (IEEE 1800 11.4.13); same for outside = !inside. *)
Theorem C26_expand_inside_equiv :
  forall x m ms, inside_exp x m ms = vec_of_tri (inside_ref x (m :: ms)).
Proof. exact inside_expand_equiv. Qed.

Theorem C26_expand_outside_equiv :
  forall x m ms, outside_exp x m ms = vec_of_tri (outside_ref x (m :: ms)).
Proof. exact outside_expand_equiv. Qed.

(* case (x) inside arm  vs  case (1'b1) with expanded items: the same arm matches *)
Theorem C26_case_arm_expand_equiv :
  forall x ms, arm_exp x ms = arm_ref x ms.
Proof. exact case_arm_expand_equiv. Qed.

(* plain case with a 2-state item: x === a  iff  ((x) ==? (a)) === 1'b1 *)
Theorem C26_simple_case_item_equiv :
  forall X A, known A = true -> simple_item_exp X A = simple_item_ref X A.
Proof. exact simple_case_item_equiv. Qed.

(* exclusive range lo..hi: [lo:(hi)-1] and (x >= lo) && (x < hi) have the same upper-bound test
   unless hi is known and is the smallest value of the comparison type (hi - 1 wraps) ... *)
Theorem C26_exclusive_upper_equiv :
  forall S W X C, 0 < W -> vp X < 2 ^ W -> vp C < 2 ^ W ->
  (known C = true -> vp C <> min_val S W) ->
  upper_normal S W X C = upper_expanded S W X C.
Proof. exact exclusive_upper_equiv. Qed.

(* ... and there they differ (x inside {0..0}, 32-bit unsigned: [0:(0)-1] contains 0). *)
Theorem C26_exclusive_upper_refuted :
  exists S W X C, 0 < W /\ vp X < 2 ^ W /\ vp C < 2 ^ W /\ known C = true /\
    vp C = min_val S W /\ upper_normal S W X C <> upper_expanded S W X C.
Proof. exact exclusive_upper_refuted. Qed.

(* the comparison context width is irrelevant for well-formed operands (relational: any
   signedness; ==?: unsigned comparison), so a reading of 11.4.13 that extends every member to
   one common width gives the same results as the pairwise reading for these *)
Theorem C26_rel_context_irrelevant :
  forall W f a b, wf_tv a -> wf_tv b -> ctx_w a b <= W -> rel_at W f a b = sv_rel f a b.
Proof. exact rel_context_irrelevant. Qed.

Theorem C26_weq_context_irrelevant_unsigned :
  forall W a b, ctx_s a b = false -> weq_at W a b = sv_weq a b.
Proof. exact weq_context_irrelevant_unsigned. Qed.

(* Non-vacuity *)
Example C26_wf_tv_example : wf_tv (mkTv 8 true (mkVec 255 0)) /\ ctx_w (mkTv 8 true (mkVec 255 0)) (mkTv 4 true (mkVec 3 0)) <= 32.
Proof. repeat split; discriminate. Qed.
Example C26_lf_crlf_good : nl_good [10] /\ nl_good [13; 10] /\ same_layout (mkOpts 80 4 [10] false) (mkOpts 80 4 [13; 10] true).
Proof. repeat split; discriminate. Qed.
Example C26_nl_ok_example : nl_ok (mkOpts 20 2 [13; 10] false) /\ nl_ok (mkOpts 120 8 [10] false).
Proof. split; reflexivity. Qed.
Example C26_cond_blank_example :
  cond_blank (Group (Concat [Text [97]; Line [32]; Comments [mkComment [47;47;120] 0 true 1 1]; IfBreak []; Text [98]])) = true.
Proof. reflexivity. Qed.
(* a group that breaks at width 3 and fits at width 80: the Cond fragment "," differs *)
Example C26_cond_fragment_differs :
  let d := Group (Concat [Text [97; 97]; Line [44]; Text [98; 98]]) in
  nonws (render_text (mkOpts 3 1 [10] false) d) = [97; 97; 98; 98] /\
  nonws (render_text (mkOpts 80 1 [10] false) d) = [97; 97; 44; 98; 98].
Proof. split; reflexivity. Qed.
Example C26_inside_example :
  (* 4'b1x01 inside {4'b1?01 written as p=1101 m=0100 ... } : wildcard in the member matches *)
  inside_exp (mkTv 4 false (mkVec 9 4)) (MVal (mkTv 4 false (mkVec 9 4)))
             [MRange (mkTv 4 false (mkVec 2 0)) (mkTv 4 false (mkVec 3 0))] = mkVec 1 0 /\
  inside_exp (mkTv 4 false (mkVec 9 4)) (MVal (mkTv 4 false (mkVec 9 0)))
             [MRange (mkTv 4 false (mkVec 2 0)) (mkTv 4 false (mkVec 3 0))] = mkVec 0 1.
Proof. split; reflexivity. Qed.
Example C26_exclusive_hyp_example :
  (known (mkVec 10 0) = true -> vp (mkVec 10 0) <> min_val false 32) /\ vp (mkVec 10 0) < 2 ^ 32.
Proof. split; [intros _; discriminate | reflexivity]. Qed.

Print Assumptions C26_newline_only_line_endings.
Print Assumptions C26_newline_crlf_lf_normalised.
Print Assumptions C26_newline_strip_refuted.
Print Assumptions C26_render_opts_content.
Print Assumptions C26_render_opts_same_visible.
Print Assumptions C26_strip_comments_content.
Print Assumptions C26_strip_comments_same_decisions.
Print Assumptions C26_expand_inside_equiv.
Print Assumptions C26_expand_outside_equiv.
Print Assumptions C26_case_arm_expand_equiv.
Print Assumptions C26_simple_case_item_equiv.
Print Assumptions C26_exclusive_upper_equiv.
Print Assumptions C26_exclusive_upper_refuted.
Print Assumptions C26_rel_context_irrelevant.
Print Assumptions C26_weq_context_irrelevant_unsigned.
