(* C04 — Incremental builds produce exactly what a clean build produces.
   Only the property theorems (statement + exact), non-vacuity examples and their assumptions.
   Model: VV.Incr.IncrModel (transcription of crates/veryl/src/incremental.rs and the
   restore-or-emit decision of pipeline.rs / cmd_build.rs / cmd_check.rs). *)
From Coq Require Import List NArith Bool Permutation.
From VV Require Import Incr.GeneratedKeyParts Incr.IncrModel Incr.IncrProofs Incr.IncrExamples.
Import ListNotations.
Open Scope N_scope.

(* (K) tied to the source: every configuration section read by Emitter::new / Analyzer::new
   (regenerated from the Rust text into GeneratedKeyParts.v on every run) is one of the parts
   hashed by global_key; hence equal keys give equal sections read. *)
Theorem C04_key_covers_sections : key_covers = true.
Proof. exact key_covers_sections. Qed.

Theorem C04_key_eq_sections_eq : forall c c', key_of c = key_of c' -> secs_of c = secs_of c'.
Proof. exact key_eq_secs_eq. Qed.

(* Warning replay (CheckError::append_cached + drop_cached_duplicates): when the diagnostics
   re-derived for a restored file are among its cached ones, the report is the cached set,
   each diagnostic once. *)
Theorem C04_replay_each_once :
  forall (dg : Type) (dg_eqb : dg -> dg -> bool),
  (forall a b : dg, dg_eqb a b = true <-> a = b) ->
  forall cached fresh : list dg,
  NoDup cached -> NoDup fresh -> incl fresh cached ->
  Permutation (replay dg dg_eqb cached fresh) cached.
Proof. exact replay_perm. Qed.

(* The property.  For every analysis/emission (uninterpreted) satisfying
     (H) hash injective, (D) locality, (E) dependencies of an error-free file are present,
     (W) re-derived diagnostics are among the full ones, each once,
   for every initial project, configuration and every history h of steps
     Edit | EditKeep | Touch | Delete | SetCfg | DelOut | DelMap | Build | Check
   that meets the side conditions [safe] (no hand-damaged output; at each command the previous
   dependencies of restored files still exist; a check re-analyses only files with a stale
   output in their closure), the state s reached is such that `build` (resp. `check`) gives
   the same status, the same target tree, the same source maps and per file the same
   diagnostics (as multisets) as the same command on the state with `.build` removed. *)
Theorem C04_incr_eq_clean :
  forall (content : Type) (hash : content -> hashv) (out dg : Type) (dg_eqb : dg -> dg -> bool)
         (deps : list (file * content) -> file -> list file)
         (emit : list (file * content) -> list N -> file -> out)
         (diags rederived : list (file * content) -> list N -> file -> list dg)
         (cacheable has_error : list (file * content) -> list N -> file -> bool)
         (map_needed : list N -> bool),
  (forall a b : content, hash a = hash b -> a = b) ->
  (forall a b : dg, dg_eqb a b = true <-> a = b) ->
  (forall (P P' : list (file * content)) (sec : list N) (f : file),
      agree_on content deps P P' f ->
      deps P' f = deps P f /\ emit P' sec f = emit P sec f /\ diags P' sec f = diags P sec f /\
      rederived P' sec f = rederived P sec f /\ cacheable P' sec f = cacheable P sec f /\
      has_error P' sec f = has_error P sec f) ->
  (forall (P : proj content) (sec : list N) (f : file),
      In f (dom content P) -> has_error P sec f = false -> incl (deps P f) (dom content P)) ->
  (forall (P : list (file * content)) (sec : list N) (f : file), incl (rederived P sec f) (diags P sec f)) ->
  (forall (P : list (file * content)) (sec : list N) (f : file), NoDup (diags P sec f)) ->
  (forall (P : list (file * content)) (sec : list N) (f : file), NoDup (rederived P sec f)) ->
  forall (P : proj content) (c : config) (h : list (step content out)),
  NoDup (dom content P) ->
  safe content hash out dg dg_eqb deps emit diags rederived cacheable has_error map_needed
       (init content out dg P c) h ->
  let s := run content hash out dg dg_eqb deps emit diags rederived cacheable has_error map_needed
               (init content out dg P c) h in
  (deps_present content hash out dg deps map_needed true s ->
   res_equiv content out dg (s_src content out dg s)
     (snd (build content hash out dg dg_eqb deps emit diags rederived cacheable has_error map_needed s))
     (snd (build content hash out dg dg_eqb deps emit diags rederived cacheable has_error map_needed
                 (forget content out dg s)))) /\
  (deps_present content hash out dg deps map_needed false s ->
   res_equiv content out dg (s_src content out dg s)
     (snd (check content hash out dg dg_eqb deps diags rederived cacheable has_error map_needed s))
     (snd (check content hash out dg dg_eqb deps diags rederived cacheable has_error map_needed
                 (forget content out dg s)))).
Proof. exact incr_eq_clean. Qed.

(* Non-vacuity: a concrete analysis (file 2 depends on file 1; content 7 carries a warning)
   satisfies every hypothesis, and a 10-step history with an edit of a dependency, checks, a
   [format] change and an output deletion satisfies [safe]; its last build restores a file. *)
Example C04_hypotheses_satisfiable :
  forall P c h, NoDup (map fst P) ->
  safe N (fun c => c) tout N N.eqb tdeps temit tdiags tredo tcacheable terror tmapneeded (init N tout N P c) h ->
  let s := run N (fun c => c) tout N N.eqb tdeps temit tdiags tredo tcacheable terror tmapneeded (init N tout N P c) h in
  (deps_present N (fun c => c) tout N tdeps tmapneeded true s ->
   res_equiv N tout N (s_src _ _ _ s)
     (snd (build N (fun c => c) tout N N.eqb tdeps temit tdiags tredo tcacheable terror tmapneeded s))
     (snd (build N (fun c => c) tout N N.eqb tdeps temit tdiags tredo tcacheable terror tmapneeded (forget N tout N s))))
  /\ (deps_present N (fun c => c) tout N tdeps tmapneeded false s ->
   res_equiv N tout N (s_src _ _ _ s)
     (snd (check N (fun c => c) tout N N.eqb tdeps tdiags tredo tcacheable terror tmapneeded s))
     (snd (check N (fun c => c) tout N N.eqb tdeps tdiags tredo tcacheable terror tmapneeded (forget N tout N s)))).
Proof. exact toy_incr_eq_clean. Qed.

Example C04_safe_history_exists :
  safe N (fun c => c) tout N N.eqb tdeps temit tdiags tredo tcacheable terror tmapneeded
       (init N tout N P12 cfgA) good_history.
Proof. exact good_history_safe. Qed.

(* Outside the side conditions the statement fails; each witness is replayed on the real CLI
   by ./check C04 and recorded in KNOWN_FINDINGS.txt. *)

(* configuration change; veryl check; veryl build: the build keeps the output of the old
   configuration (key check-refreshes-cache) *)
Theorem C04_check_then_build_refuted :
  exists h, let s := run N (fun c => c) tout N N.eqb tdeps temit tdiags tredo tcacheable terror tmapneeded
                         (init N tout N [(1, 10)] cfgA) h in
  r_out _ _ (snd (build N (fun c => c) tout N N.eqb tdeps temit tdiags tredo tcacheable terror tmapneeded s)) 1 <>
  r_out _ _ (snd (build N (fun c => c) tout N N.eqb tdeps temit tdiags tredo tcacheable terror tmapneeded (forget N tout N s))) 1.
Proof. exact check_then_build_refuted. Qed.

(* an output damaged in place is kept (key output-content-not-verified) *)
Theorem C04_tampered_output_refuted :
  exists h, let s := run N (fun c => c) tout N N.eqb tdeps temit tdiags tredo tcacheable terror tmapneeded
                         (init N tout N [(1, 10)] cfgA) h in
  r_out _ _ (snd (build N (fun c => c) tout N N.eqb tdeps temit tdiags tredo tcacheable terror tmapneeded s)) 1 <>
  r_out _ _ (snd (build N (fun c => c) tout N N.eqb tdeps temit tdiags tredo tcacheable terror tmapneeded (forget N tout N s))) 1.
Proof. exact tampered_output_refuted. Qed.

(* hypothesis (D) is necessary: an emission that also depends on a file outside deps (a generic
   definition specialised by its users) leaves a stale output (key generic-definition-restored) *)
Theorem C04_reverse_dependency_refuted :
  exists h, let s := run N (fun c => c) tout N N.eqb tdeps gemit tdiags tredo tcacheable terror tmapneeded
                         (init N tout N P12 cfgA) h in
  r_out _ _ (snd (build N (fun c => c) tout N N.eqb tdeps gemit tdiags tredo tcacheable terror tmapneeded s)) 1 <>
  r_out _ _ (snd (build N (fun c => c) tout N N.eqb tdeps gemit tdiags tredo tcacheable terror tmapneeded (forget N tout N s))) 1.
Proof. exact reverse_dependency_refuted. Qed.

Print Assumptions C04_key_covers_sections.
Print Assumptions C04_key_eq_sections_eq.
Print Assumptions C04_replay_each_once.
Print Assumptions C04_incr_eq_clean.
Print Assumptions C04_check_then_build_refuted.
Print Assumptions C04_tampered_output_refuted.
Print Assumptions C04_reverse_dependency_refuted.
