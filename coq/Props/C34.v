(* C34 — Reusing converted modules across tests is invisible.
   This file holds only the property theorems (statement + exact) and their assumptions.
   Scope (partial): the theorems are about the cache / relocation models of Memo/*.v; the
   conversion itself (Conv::conv, ~14 kLoC) is a parameter.  The end-to-end claim is validated by
   vp/props/c34.py on the real CLI and the in-process harness. *)
From Coq Require Import List String ZArith.
From VV Require Import Memo.MemoModel Memo.MemoProofs Memo.RelocModel Memo.RelocProofs
                       Memo.GeneratedKey Memo.KeyReview.
Import ListNotations.

(* ProtoModuleCache / build_ir_cached: for EVERY sequence of requests, the cached converter
   answers what the uncached one would, provided a stored proto serves every request with the
   same key (key_sufficient); in particular when the key determines the conversion. *)
Theorem C34_memo_transparent :
  forall (Req K V R : Type) (key : Req -> K) (keqb : K -> K -> bool)
         (conv : Req -> option V) (finish : Req -> V -> R),
    (forall a b, keqb a b = true <-> a = b) ->
    forall rs, key_sufficient key conv finish ->
    fst (run key keqb conv finish [] rs) = map (uncached conv finish) rs.
Proof. exact memo_transparent. Qed.

Theorem C34_memo_transparent_inj :
  forall (Req K V R : Type) (key : Req -> K) (keqb : K -> K -> bool)
         (conv : Req -> option V) (finish : Req -> V -> R),
    (forall a b, keqb a b = true <-> a = b) ->
    forall rs, key_determines_conv key conv ->
    fst (run key keqb conv finish [] rs) = map (uncached conv finish) rs.
Proof. exact memo_transparent_inj. Qed.

(* the condition on the key is exact ... *)
Theorem C34_memo_transparent_iff :
  forall (Req K V R : Type) (key : Req -> K) (keqb : K -> K -> bool)
         (conv : Req -> option V) (finish : Req -> V -> R),
    (forall a b, keqb a b = true <-> a = b) ->
    ((forall rs, fst (run key keqb conv finish [] rs) = map (uncached conv finish) rs)
     <-> key_sufficient key conv finish).
Proof. exact memo_transparent_iff. Qed.

(* ... and a dependency of the conversion that the key does not reflect gives a 2-request
   sequence whose second answer is wrong *)
Theorem C34_memo_witness :
  forall (Req K V R : Type) (key : Req -> K) (keqb : K -> K -> bool)
         (conv : Req -> option V) (finish : Req -> V -> R),
    (forall a b, keqb a b = true <-> a = b) ->
    forall x y vx, key x = key y -> conv x = Some vx ->
    uncached conv finish y <> Some (finish y vx) ->
    fst (run key keqb conv finish [] [x; y]) <> map (uncached conv finish) [x; y].
Proof. exact memo_witness. Qed.

(* tie to the source: with the inputs / key fields the translator extracted from
   build_ir_cached and the reviewed per-process constants {ir, config}, any conversion that
   reads only those inputs is served transparently for all request sequences of one process *)
Theorem C34_proto_cache_transparent :
  forall (Val V R : Type) (conv : env Val -> option V) (finish_cfg : env Val -> V -> R)
         (veqb : list Val -> list Val -> bool),
    (forall a b, veqb a b = true <-> a = b) ->
    (forall x y, (forall n, In n proto_conv_inputs -> x n = y n) -> conv x = conv y) ->
    forall (c0 : env Val) rs,
      Forall (in_process Val proto_reviewed_constant_inputs c0) rs ->
      fst (run (nkey Val proto_key_fields) veqb conv finish_cfg [] rs) = map (uncached conv finish_cfg) rs.
Proof. exact proto_cache_transparent. Qed.

(* every key / relocation obligation over the lists regenerated from the Rust source holds *)
Theorem C34_key_obligations : key_obligations = true.
Proof. exact key_obligations_hold. Qed.

(* cross-test DUT reuse (GLOBAL_STMT_CACHE): relocating reuse is invisible for every sequence of
   instance conversions when the conversion is position-equivariant *)
Theorem C34_reuse_transparent :
  forall (Comp P : Type) (ceqb : Comp -> Comp -> bool) (convat : Comp -> Z * Z -> option P)
         (reloc : Z * Z -> P -> P) (dut_reuse : bool),
    (forall a b, ceqb a b = true <-> a = b) ->
    forall rs, equivariant convat reloc ->
    fst (reuse_run ceqb convat reloc dut_reuse [] rs) = map (from_scratch convat) rs.
Proof. exact reuse_transparent_empty. Qed.

Theorem C34_reuse_witness :
  forall (Comp P : Type) (ceqb : Comp -> Comp -> bool) (convat : Comp -> Z * Z -> option P)
         (reloc : Z * Z -> P -> P) (dut_reuse : bool),
    (forall a b, ceqb a b = true <-> a = b) ->
    forall cmp s s' p, dut_reuse = true ->
    convat cmp s = Some p -> convat cmp s' <> Some (reloc (delta s' s) p) ->
    fst (reuse_run ceqb convat reloc dut_reuse [] [mkRReq cmp s false; mkRReq cmp s' false])
      <> map (from_scratch convat) [mkRReq cmp s false; mkRReq cmp s' false].
Proof. exact reuse_witness. Qed.

(* relocation arithmetic: binding the relocated statements to buffers at base b addresses
   exactly the cells the original addresses at base b + delta — 64-bit wrapping arithmetic,
   every delta (negative and wrapping included) *)
Theorem C34_reloc_sound :
  forall bf bc fd cd s, flat s = true ->
  bind_stmt bf bc (reloc_stmts fd cd s) = bind_stmt (ptr bf fd) (ptr bc cd) s.
Proof. exact reloc_sound. Qed.

Theorem C34_relocate_sound :
  forall bf bc fd cd t, flat_subtree t = true ->
  bind_subtree (bf, bc) (relocate (fd, cd) t) = bind_subtree (ptr bf fd, ptr bc cd) t.
Proof. exact relocate_sound. Qed.

Theorem C34_reloc_compose :
  forall f1 c1 f2 c2 s,
  reloc_stmts f2 c2 (reloc_stmts f1 c1 s) = reloc_stmts (iadd f1 f2) (iadd c1 c2) s.
Proof. exact reloc_compose. Qed.

Theorem C34_ptr_iadd : forall b o d, ptr b (iadd o d) = ptr (ptr b d) o.
Proof. exact ptr_iadd. Qed.

(* Non-vacuity. *)
(* a key that determines the conversion: key = identity on (top) with conv reading only top *)
Example C34_memo_example :
  let conv := fun r : nat * nat => Some (fst r * 2)%nat in
  key_determines_conv (fun r : nat * nat => fst r) conv /\
  fst (run (fun r : nat * nat => fst r) Nat.eqb conv (fun r v => (v + snd r)%nat) [] [(1, 10); (2, 0); (1, 7)]%nat)
    = [Some 12; Some 4; Some 9]%nat.
Proof. split; [intros [a b] [c d] H; simpl in *; subst; reflexivity | reflexivity]. Qed.
(* a dropped dependency (conv also reads the parameter, key does not): the wrong third answer *)
Example C34_memo_dropped_dependency :
  let conv := fun r : nat * nat => Some (fst r * 2 + snd r)%nat in
  fst (run (fun r : nat * nat => fst r) Nat.eqb conv (fun r v => v) [] [(1, 10); (1, 7)]%nat)
    = [Some 12; Some 12]%nat
  /\ map (uncached conv (fun r v => v)) [(1, 10); (1, 7)]%nat = [Some 12; Some 9]%nat.
Proof. split; reflexivity. Qed.
Example C34_reloc_negative_and_wrapping_delta :
  let s := SSeq (SAssign (Ff 16) 24 (EBin 1 (EVar (Comb 8)) (EVarSel (Ff 32) (EVar (Comb 12)))))
           (SSeq (SCompiled 3 0 0 [Comb 8] [Ff 16] [16] (SAssign (Ff 16) 24 (EVar (Comb 8)))) SSkip) in
  flat s = true /\
  bind_stmt 1000 2000 (reloc_stmts (-16) (-8) s) = bind_stmt 984 1992 s /\
  bind_stmt 8 0 (reloc_stmts (-16) (2 ^ 63 - 1) s) = bind_stmt (2 ^ 64 - 8) (2 ^ 63 - 1) s.
Proof. exact reloc_example_negative. Qed.
Example C34_reloc_needs_flat :
  let s := SIf (EVal 1) (SCompiled 7 0 0 [] [] [] SSkip) SSkip in
  flat s = false /\
  bind_stmt 4096 8192 (reloc_stmts 64 128 s) <> bind_stmt (ptr 4096 64) (ptr 8192 128) s.
Proof. exact reloc_needs_flat. Qed.
Example C34_inputs_listed :
  proto_conv_inputs = ["ir"; "top"; "config"]%string /\ proto_key_fields = ["top"]%string
  /\ proto_uncovered = [] /\ stmt_uncovered = [] /\ pipeline_uncovered = [].
Proof. vm_compute. repeat split. Qed.
(* an equivariant conversion: a subtree whose offsets are start + constant *)
Example C34_equivariant_example :
  let convat := fun (c : nat) (s : Z * Z) =>
      Some (SAssign (Ff (fst s + 8)) (fst s + 8) (EVar (Comb (snd s + 4)))) in
  forall s s', (-1000 <= fst s <= 1000 /\ -1000 <= snd s <= 1000 /\
                -1000 <= fst s' <= 1000 /\ -1000 <= snd s' <= 1000)%Z ->
  convat 0%nat s' = Some (reloc_stmts (fst s' - fst s) (snd s' - snd s)
                        (SAssign (Ff (fst s + 8)) (fst s + 8) (EVar (Comb (snd s + 4))))).
Proof. exact equivariant_example. Qed.

Print Assumptions C34_memo_transparent.
Print Assumptions C34_memo_transparent_inj.
Print Assumptions C34_memo_transparent_iff.
Print Assumptions C34_memo_witness.
Print Assumptions C34_proto_cache_transparent.
Print Assumptions C34_key_obligations.
Print Assumptions C34_reuse_transparent.
Print Assumptions C34_reuse_witness.
Print Assumptions C34_reloc_sound.
Print Assumptions C34_relocate_sound.
Print Assumptions C34_reloc_compose.
Print Assumptions C34_ptr_iadd.
