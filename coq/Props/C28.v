(* C28 — The pretty printer keeps content and records true anchors.
   This file holds only the property theorems (statement + exact) and their assumptions. *)
From VV Require Import Pretty.Render Pretty.RenderContent Pretty.RenderAnchors.
Open Scope N_scope.

(* Content: for every document and every option set whose newline string is whitespace, the
   non-whitespace characters of the rendered (and stripped) text are exactly those of the
   document's fragments in document order, conditional fragments following the one decision
   of their enclosing group (relation Contents). *)
Theorem C28_render_content :
  forall o d, nl_ok o ->
  exists s, Contents Break d s /\ nonws (render_text o d) = nonws s.
Proof. exact render_content. Qed.

(* Anchors are exactly the anchored fragments / positioned comments, in order. *)
Theorem C28_anchors_are_documents :
  forall o d, map src_of (render_anchors o d) = doc_anchors d.
Proof. exact anchors_are_documents. Qed.

(* Every recorded anchor points at its text in the raw output, for every document whose
   Line separators / IfBreak texts hold no newline and whose anchored texts are non-empty and
   do not end in a space (wf_pos), newline = LF or CRLF (nl_pos). *)
Theorem C28_anchor_points_at_text_raw :
  forall o d, nl_pos o -> wf_pos d = true ->
  forall a, In a (render_anchors o d) ->
  text_at (rev (rout (raw_render o d))) (a_dl a) (a_dc a) (a_text a).
Proof. exact anchor_points_at_text_raw. Qed.

Theorem C28_line_col_exact :
  forall o d, nl_pos o -> wf_pos d = true ->
  let st := raw_render o d in
  cur_line st = line_after (rev (rout st)) /\ col st + 1 = column_after (rev (rout st)).
Proof. exact line_col_exact. Qed.

(* Non-vacuity: both newline settings satisfy the hypotheses; a document with nested groups,
   comments and anchors satisfies wf_pos. *)
Example C28_nl_lf_ok : nl_ok (mkOpts 80 4 [10] true) /\ nl_pos (mkOpts 80 4 [10] true).
Proof. repeat split. Qed.
Example C28_nl_crlf_ok : nl_ok (mkOpts 80 4 [13;10] true) /\ nl_pos (mkOpts 80 4 [13;10] true).
Proof. repeat split. Qed.
Example C28_multiline_comment_example :
  wf_pos multiline_doc = true /\
  map (fun a => (a_dl a, a_dc a)) (render_anchors multiline_opts multiline_doc) = [(2, 5)].
Proof. exact anchor_after_multiline_comment_example. Qed.
Example C28_wf_example :
  wf_pos (Group (Indent 1 (Concat [Anchored [97] 1 1; Line [32];
            Comments [mkComment [47;47;120] 1 true 2 3]; IfBreak [44]; Hardline;
            Group (Concat [Anchored [98;99] 3 1; Line []; Text [100]])]))) = true.
Proof. reflexivity. Qed.

Print Assumptions C28_render_content.
Print Assumptions C28_anchors_are_documents.
Print Assumptions C28_anchor_points_at_text_raw.
Print Assumptions C28_line_col_exact.
