(* C14 — Combinational loop detection is exact.
   This file holds only the property theorems (statement + exact) and their assumptions.

   What is proved: the REFERENCE is right and the partition primitive is right.
     - has_cycle (the decision the detector's verdict is compared with on every generated design)
       answers exactly "some bit depends on itself through a non-empty chain of dependencies";
     - atomic_ranges (transcribed from comb_loop_detect.rs, tied by direct correspondence)
       partitions the accessed bits: atoms ascending, disjoint, inside spans, covering every span,
       split at every span boundary and requested endpoint;
     - a partition whose classes are related uniformly by the bit edges loses nothing:
       the class graph has a cycle iff the bit graph has one (and it never hides a cycle);
     - a read in an always_comb block sees the latest preceding write, else the entry value.
   The detector itself (4.5 k lines) is not transcribed: category "other". *)
From Coq Require Import List NArith ZArith.
From VV Require Import CombLoop.BitGraph CombLoop.BitGraphProofs.
From VV Require Import CombLoop.CombLoopModel CombLoop.CombLoopProofs.
Import ListNotations.
Open Scope N_scope.

Theorem C14_has_cycle_correct : forall g : graph,
  has_cycle g = true <-> exists n, path g n n.
Proof. exact has_cycle_correct. Qed.

Theorem C14_quotient_sound : forall cls g,
  has_cycle g = true -> has_cycle (quotient cls g) = true.
Proof. exact quotient_sound. Qed.

Theorem C14_quotient_exact : forall cls g, uniform cls g ->
  (has_cycle (quotient cls g) = true <-> has_cycle g = true).
Proof. exact quotient_exact. Qed.

Theorem C14_ssa_order : forall rdm call ctl pre base len e post st n,
  In n (nodes_from base len) ->
  Forall (leaves n) post ->
  rd (exec_block rdm call (pre ++ SAssign base len e :: post) ctl st) n =
  union ctl (vbit (eval rdm call (exec_block rdm call pre ctl st) e) (N.to_nat (n - base))).
Proof. exact ssa_order. Qed.

Theorem C14_ssa_entry : forall rdm call ctl body st n,
  Forall (leaves n) body -> rd (exec_block rdm call body ctl st) n = rd st n.
Proof. exact ssa_entry. Qed.

(* the merge at the end of an if / case (model of SsaStore::merge) *)
Theorem C14_merge_written : forall st outs n,
  In n (flat_map (delta st) outs) ->
  lookup n (merge st outs) = Some (merged outs n).
Proof. exact merge_written. Qed.

Theorem C14_merge_unwritten : forall st outs n,
  ~ In n (flat_map (delta st) outs) ->
  lookup n (merge st outs) = lookup n st.
Proof. exact merge_unwritten. Qed.

Theorem C14_atoms_sorted : forall spans eps,
  asorted (atomic_ranges spans eps) /\ Forall (fun a => s_len a <> 0) (atomic_ranges spans eps).
Proof. exact atoms_sorted. Qed.

Theorem C14_atoms_disjoint : forall spans eps l1 a l2 b l3,
  atomic_ranges spans eps = l1 ++ a :: l2 ++ b :: l3 -> s_end a <= s_start b.
Proof. exact atoms_disjoint. Qed.

Theorem C14_atoms_inside : forall spans eps, Forall valid spans ->
  forall a, In a (atomic_ranges spans eps) -> exists s, In s spans /\ inside a s.
Proof. exact atoms_inside. Qed.

Theorem C14_atoms_cover : forall spans eps, Forall valid spans ->
  forall s x, In s spans -> covers s x ->
  exists a, In a (atomic_ranges spans eps) /\ covers a x /\ inside a s.
Proof. exact atoms_cover. Qed.

Theorem C14_atoms_split : forall spans eps, Forall valid spans ->
  forall a, In a (atomic_ranges spans eps) ->
  (forall s, In s spans -> ~ (s_start a < s_start s < s_end a) /\ ~ (s_start a < s_end s < s_end a)) /\
  (forall e, In e eps -> ~ (s_start a < e < s_end a)).
Proof. exact atoms_split. Qed.

(* PackedSpan algebra: overlaps / intersection / translated mean what interval arithmetic says *)
Theorem C14_overlaps_spec : forall a b, valid a -> valid b ->
  (span_overlaps a b = true <-> exists x, covers a x /\ covers b x).
Proof. exact overlaps_spec. Qed.

Theorem C14_intersection_spec : forall a b, valid a -> valid b ->
  match span_intersection a b with
  | Some c => valid c /\ forall x, covers c x <-> covers a x /\ covers b x
  | None => forall x, ~ (covers a x /\ covers b x)
  end.
Proof. exact intersection_spec. Qed.

Theorem C14_translated_spec : forall s from to c,
  span_translated s from to = Some c ->
  s_len c = s_len s /\ s_start c + from = s_start s + to.
Proof. exact translated_spec. Qed.

(* Non-vacuity *)
Example C14_seq_reassign : (* x = a; x = x + 1 is not a loop, x = x + 1 alone is *)
  design_has_cycle [] [IComb [SAssign 0 4 (DRef 4 4); SAssign 0 4 (DFull 4 [DRef 0 4; DConst 4])]] = false
  /\ design_has_cycle [] [IComb [SAssign 0 4 (DFull 4 [DRef 0 4; DConst 4])]] = true.
Proof. exact (proj2 seq_reassign_no_loop). Qed.

Example C14_valid_spans : Forall valid [mkSpan 0 4; mkSpan 2 6; mkSpan 10 1] /\
  atomic_ranges [mkSpan 0 4; mkSpan 2 6; mkSpan 10 1] [3] =
    [mkSpan 0 2; mkSpan 2 1; mkSpan 3 1; mkSpan 4 4; mkSpan 10 1].
Proof. exact atomic_ranges_example. Qed.

Example C14_uniform_rotation : uniform rot_cls rot_graph /\ has_cycle rot_graph = true.
Proof. exact uniform_rotation_example. Qed.

(* a partition that is NOT closed under the shift: the class graph reports a cycle the bits do not
   have — the shape of the detector's known false positives on long shift chains *)
Example C14_nonuniform_shift_chain :
  has_cycle chain_graph = false /\ has_cycle (quotient chain_cls chain_graph) = true.
Proof. exact nonuniform_chain_example. Qed.

Print Assumptions C14_has_cycle_correct.
Print Assumptions C14_quotient_sound.
Print Assumptions C14_quotient_exact.
Print Assumptions C14_ssa_order.
Print Assumptions C14_ssa_entry.
Print Assumptions C14_merge_written.
Print Assumptions C14_merge_unwritten.
Print Assumptions C14_atoms_sorted.
Print Assumptions C14_atoms_disjoint.
Print Assumptions C14_atoms_inside.
Print Assumptions C14_atoms_cover.
Print Assumptions C14_atoms_split.
Print Assumptions C14_overlaps_spec.
Print Assumptions C14_intersection_spec.
Print Assumptions C14_translated_spec.
