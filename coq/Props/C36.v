(* C36 — Value encodings at external boundaries are lossless and standard.
   Statements only; model in SvLogic/SvModel.v (svLogicVecVal conversions, both representations)
   and Value/ValueModel.v (to_vcd, to_fst_bits, vcd_iter); proofs in SvLogic/SvProofs.v.
   A word is (aval, bval); a 4-state bit of a value is getbit (vecv v) i
   (veryl: 0 = payload 0 mask 0, 1 = (1,0), X = (0,1), Z = (1,1)). *)
From VV Require Import BV.Ops1800 Value.ValueModel Value.SpecGlue SvLogic.SvModel SvLogic.SvProofs.
Open Scope N_scope.

(* IEEE 1800 Annex H: bit j of word i encodes bit 32 i + j of the value as
   0 = (0,0), 1 = (1,0), Z = (0,1), X = (1,1) (aval bit, bval bit) -- every word, every bit,
   both representations, every width; padding bits above the width are (0,0) for values that fit. *)
Theorem C36_annex_h_encoding :
  forall v i j, (i < length (to_sv v))%nat -> j < 32 ->
  let '(a, b) := nth i (to_sv v) (0, 0) in
  (N.testbit a j, N.testbit b j) = annex_h (getbit (vecv v) (32 * N.of_nat i + j)).
Proof. exact annex_h_encoding. Qed.

(* every bit of the value lies in a word of the encoding *)
Theorem C36_every_bit_encoded :
  forall v k, k < wd v ->
  (N.to_nat (k / 32) < length (to_sv v))%nat /\ k mod 32 < 32 /\
  32 * N.of_nat (N.to_nat (k / 32)) + k mod 32 = k.
Proof. exact annex_h_covers. Qed.

(* number of words = ceil (width / 32) *)
Theorem C36_length :
  forall v, length (to_sv v) = N.to_nat (sv_words (wd v)) /\
            wd v <= 32 * sv_words (wd v) /\ 32 * sv_words (wd v) < wd v + 32.
Proof. exact sv_length_ceil. Qed.

(* value -> words -> value returns payload and mask unchanged; the width is rounded up to a
   multiple of 32, signed is dropped *)
Theorem C36_roundtrip_value :
  forall v, fits v ->
  of_sv (to_sv v) =
  mkV (if 64 <? 32 * sv_words (wd v) then RB else RU) (pl v) (mk v) (32 * sv_words (wd v)) false.
Proof. exact sv_roundtrip_value. Qed.

(* words -> value -> words is the identity on u32 words; the decoded value fits its width *)
Theorem C36_roundtrip_words :
  forall ws, words_ok ws -> to_sv (of_sv ws) = ws /\ fits (of_sv ws).
Proof. exact sv_roundtrip_words_fits. Qed.

(* the U64 arm (shift by 32) and the BigUint arm (u32 digits) produce the same words *)
Theorem C36_representations_agree :
  forall n p m, to_sv_u64 n p m = to_sv_big n p m.
Proof. exact sv_arms_agree. Qed.

(* waveforms: to_vcd_value i is the 4-state bit i; the VCD iterator and the FST byte string list
   the bits most significant first, one per bit of the width *)
Theorem C36_vcd_bit : forall v i, to_vcd v i = vcd_code (getbit (vecv v) i).
Proof. exact vcd_bit. Qed.
Theorem C36_vcd_vector_msb_first :
  forall v, length (vcd_iter v) = N.to_nat (wd v) /\
  forall k, (k < N.to_nat (wd v))%nat ->
    nth k (vcd_iter v) 0 = vcd_code (getbit (vecv v) (N.of_nat (N.to_nat (wd v) - 1 - k))).
Proof. exact vcd_iter_msb_first. Qed.
Theorem C36_fst_bits_msb_first :
  forall v, length (to_fst_bits v) = N.to_nat (wd v) /\
  forall k, (k < N.to_nat (wd v))%nat ->
    nth k (to_fst_bits v) 0 = fst_char (getbit (vecv v) (N.of_nat (N.to_nat (wd v) - 1 - k))).
Proof. exact fst_bits_msb_first. Qed.

(* Non-vacuity. *)
Example C36_ex_fits : fits (mkV RU 5 2 3 false) /\ fits (mkV RB (2 ^ 70 + 1) (2 ^ 64) 71 true).
Proof. exact ex_fits. Qed.
Example C36_ex_annex_h : to_sv (mkV RU 12 5 4 false) = [(9, 5)].     (* 4'b1z0x *)
Proof. exact ex_annex_h. Qed.
Example C36_ex_words_ok : words_ok [(4294967295, 0); (0, 4294967295); (1, 1)].
Proof. exact ex_words_ok. Qed.
Example C36_ex_fst : to_fst_bits (mkV RU 12 5 4 false) = [49; 122; 48; 120].   (* "1z0x" *)
Proof. exact ex_fst. Qed.

Print Assumptions C36_annex_h_encoding.
Print Assumptions C36_every_bit_encoded.
Print Assumptions C36_length.
Print Assumptions C36_roundtrip_value.
Print Assumptions C36_roundtrip_words.
Print Assumptions C36_representations_agree.
Print Assumptions C36_vcd_bit.
Print Assumptions C36_vcd_vector_msb_first.
Print Assumptions C36_fst_bits_msb_first.
