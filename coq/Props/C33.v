(* C33 — Switching to the compiled C backend mid-run is invisible.
   Category "other": neither engine is modelled.  Proved is the swap theorem that says which contract
   between the two engines makes the swap point irrelevant (a state relation preserved by both, not
   mere per-step agreement of observables), plus a counterexample showing the weaker contract is not
   enough.  The real swap is forced at chosen points by a cfg(veryl_verif) hook and every trace is
   compared with the others and with the reference.  This file holds only statements. *)
From VV Require Import Rtl.Swap.
From Coq Require Import List.
Import ListNotations.

Theorem C33_swap_invisible :
  forall (St Inp Ob : Type) (stepA stepB : St -> Inp -> St) (obs : St -> Ob) (R : St -> St -> Prop),
    (forall s, R s s) ->
    (forall s s' i, R s s' -> R (stepA s i) (stepB s' i) /\ obs (stepA s i) = obs (stepB s' i)) ->
    forall n ins s, run_swapped St Inp Ob stepA stepB obs n ins s = runA St Inp Ob stepA obs ins s.
Proof. exact swap_invisible. Qed.

Theorem C33_swap_point_irrelevant :
  forall (St Inp Ob : Type) (stepA stepB : St -> Inp -> St) (obs : St -> Ob) (R : St -> St -> Prop),
    (forall s, R s s) ->
    (forall s s' i, R s s' -> R (stepA s i) (stepB s' i) /\ obs (stepA s i) = obs (stepB s' i)) ->
    forall n m ins s, run_swapped St Inp Ob stepA stepB obs n ins s = run_swapped St Inp Ob stepA stepB obs m ins s.
Proof. exact swap_point_irrelevant. Qed.

(* per-step agreement of observables (from equal states) does NOT suffice *)
Theorem C33_observable_agreement_not_enough :
  (forall s u, fst s = snd s ->
               SwapCounterexample.obsAB (SwapCounterexample.stepA s u) = SwapCounterexample.obsAB (SwapCounterexample.stepB s u)) /\
  run_swapped _ _ _ SwapCounterexample.stepA SwapCounterexample.stepB SwapCounterexample.obsAB 2 [tt; tt; tt; tt] (0, 0)
  <> runA _ _ _ SwapCounterexample.stepA SwapCounterexample.obsAB [tt; tt; tt; tt] (0, 0).
Proof. split; [exact SwapCounterexample.one_step_agree | exact SwapCounterexample.swap_visible]. Qed.

(* Non-vacuity: two different engines related by a relation that is not equality *)
Example C33_example :
  forall n ins s, run_swapped _ _ _ SwapExample.stepA SwapExample.stepB SwapExample.obs n ins s
                  = runA _ _ _ SwapExample.stepA SwapExample.obs ins s.
Proof. exact SwapExample.example. Qed.

Print Assumptions C33_swap_invisible.
Print Assumptions C33_swap_point_irrelevant.
Print Assumptions C33_observable_agreement_not_enough.
