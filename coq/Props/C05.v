(* C05 — Crashes and cache damage never leave a build wrong.
   Only the property theorems (statement + exact) and their assumptions.
   Models: VV.Incr.IncrModel (incremental build), VV.Incr.CrashModel (order of the writes of one
   build; a crash leaves a prefix of them). *)
From Coq Require Import List NArith Bool Permutation.
From VV Require Import Incr.GeneratedKeyParts Incr.IncrModel Incr.IncrProofs Incr.CrashModel Incr.CrashProofs
                       Incr.IncrExamples.
Import ListNotations.
Open Scope N_scope.

(* Crash recovery.  For every analysis/emission satisfying the hypotheses of C04 ((H) hash
   injective, (D) locality, (E) dependencies present, (W) re-derived diagnostics), every state s
   reached with the build invariant, and EVERY crash point cp of a build of s that respects the
   order of the write sequence (maps after their .sv, manifest after all outputs, info.toml after
   the manifest; outputs replaced atomically), the state left behind is such that the next build
   gives the same status, outputs, source maps and diagnostics as a clean build, and (when it
   succeeds) re-establishes the invariant, so that every later history is covered by C04. *)
Theorem C05_recovery_after_crash :
  forall (content : Type) (hash : content -> hashv) (out dg : Type) (dg_eqb : dg -> dg -> bool)
         (deps : list (file * content) -> file -> list file)
         (emit : list (file * content) -> list N -> file -> out)
         (diags rederived : list (file * content) -> list N -> file -> list dg)
         (cacheable has_error : list (file * content) -> list N -> file -> bool)
         (map_needed : list N -> bool),
  (forall a b : content, hash a = hash b -> a = b) ->
  (forall a b : dg, dg_eqb a b = true <-> a = b) ->
  (forall (P P' : list (file * content)) (sec : list N) (f : file),
      agree_on content deps P P' f ->
      deps P' f = deps P f /\ emit P' sec f = emit P sec f /\ diags P' sec f = diags P sec f /\
      rederived P' sec f = rederived P sec f /\ cacheable P' sec f = cacheable P sec f /\
      has_error P' sec f = has_error P sec f) ->
  (forall (P : list (file * content)) (sec : list N) (f : file),
      In f (dom content P) -> has_error P sec f = false -> incl (deps P f) (dom content P)) ->
  (forall (P : list (file * content)) (sec : list N) (f : file), incl (rederived P sec f) (diags P sec f)) ->
  (forall (P : list (file * content)) (sec : list N) (f : file), NoDup (diags P sec f)) ->
  (forall (P : list (file * content)) (sec : list N) (f : file), NoDup (rederived P sec f)) ->
  forall (s : state content out dg) (cp : crash_point),
  Inv content hash out dg deps emit diags cacheable has_error map_needed s ->
  deps_present content hash out dg deps map_needed true s ->
  existsb (has_error (s_src content out dg s) (secs_of (s_cfg content out dg s)))
          (an_list content hash out dg map_needed s) = false ->
  cp_wf content hash out dg map_needed s cp ->
  let s' := crashed content hash out dg deps emit diags cacheable map_needed s cp in
  deps_present content hash out dg deps map_needed true s' ->
  res_equiv content out dg (s_src content out dg s')
    (snd (build content hash out dg dg_eqb deps emit diags rederived cacheable has_error map_needed s'))
    (snd (build content hash out dg dg_eqb deps emit diags rederived cacheable has_error map_needed
                (forget content out dg s')))
  /\ (r_status out dg (snd (build content hash out dg dg_eqb deps emit diags rederived cacheable has_error map_needed s')) = Done ->
      Inv content hash out dg deps emit diags cacheable has_error map_needed
          (fst (build content hash out dg dg_eqb deps emit diags rederived cacheable has_error map_needed s'))).
Proof. exact recovery_after_crash. Qed.

(* With in-place outputs (truncate, then write — the pinned write_file_if_changed) the statement
   is false: build; delete 1.sv; a build dying right after truncating 1.sv; build — file 1 is
   restored and its output stays empty.  Replayed on the CLI with hook H1. *)
Theorem C05_recovery_in_place_refuted :
  exists h cp empty,
    let s := run N (fun c => c) tout N N.eqb tdeps temit tdiags tredo tcacheable terror tmapneeded (init N tout N [(1, 10)] cfgA) h in
    cp_wf N (fun c => c) tout N tmapneeded s cp /\
    let s' := crashed_inplace N (fun c => c) tout N tdeps temit tdiags tcacheable tmapneeded empty s cp in
    r_out _ _ (snd (build N (fun c => c) tout N N.eqb tdeps temit tdiags tredo tcacheable terror tmapneeded s')) 1 <>
    r_out _ _ (snd (build N (fun c => c) tout N N.eqb tdeps temit tdiags tredo tcacheable terror tmapneeded (forget N tout N s'))) 1.
Proof. exact recovery_in_place_refuted. Qed.

(* Damaged cache data that the store can detect is a miss (partial: damage inside a payload that
   still decodes is outside this statement — Store::read_blob checks magic and schema only). *)
Theorem C05_bad_blob_is_miss : forall co mn m ps p,
  In p ps -> p_blob_ok p = false -> In (p_file p) (analysed_files co mn m ps).
Proof. exact bad_blob_is_analysed. Qed.

Theorem C05_no_manifest_all_miss : forall co mn ps p,
  In p ps -> In (p_file p) (analysed_files co mn [] ps).
Proof. exact no_manifest_all_analysed. Qed.

Theorem C05_no_info_all_emitted : forall mn m ps p,
  In p ps -> p_gen p = None -> p_example p = false -> In (p_file p) (emitted_files mn m ps).
Proof. exact no_info_all_emitted. Qed.

(* Non-vacuity: the crash point of the refutation is well-formed for atomic outputs too, and
   there the recovery holds. *)
Example C05_recovery_atomic_same_point :
  let s := run N (fun c => c) tout N N.eqb tdeps temit tdiags tredo tcacheable terror tmapneeded (init N tout N [(1, 10)] cfgA) [Build _ _; DelOut _ _ 1] in
  let s' := crashed N (fun c => c) tout N tdeps temit tdiags tcacheable tmapneeded s (mkCP 0 0 false InfoOld) in
  r_out _ _ (snd (build N (fun c => c) tout N N.eqb tdeps temit tdiags tredo tcacheable terror tmapneeded s')) 1 =
  r_out _ _ (snd (build N (fun c => c) tout N N.eqb tdeps temit tdiags tredo tcacheable terror tmapneeded (forget N tout N s'))) 1.
Proof. exact recovery_atomic_same_point. Qed.

Print Assumptions C05_recovery_after_crash.
Print Assumptions C05_recovery_in_place_refuted.
Print Assumptions C05_bad_blob_is_miss.
Print Assumptions C05_no_manifest_all_miss.
Print Assumptions C05_no_info_all_emitted.
