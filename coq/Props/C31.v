(* C31 — Dependency resolution is deterministic and picks the best version.
   Only the property theorems (statement + exact), non-vacuity examples and their assumptions.
   Model: coq/Meta/ResolveModel.v (crates/metadata/src/lockfile.rs), proofs: Meta/ResolveProofs.v.
   `version`/`req`/`vleb`/`matches` are arbitrary (semver is outside); where an order is needed the
   hypotheses are exactly "vleb is total and transitive". *)
From Coq Require Import String NArith List Sorting.Sorted.
From VV Require Import Meta.ResolveModel Meta.ResolveProofs Meta.ReachProofs.
Import ListNotations.
Local Open Scope list_scope.

Section C31.
  Variable version req : Type.
  Variable vleb : version -> version -> bool.
  Variable matches : req -> version -> bool.
  Hypothesis vleb_total : forall a b, vleb a b = true \/ vleb b a = true.
  Hypothesis vleb_trans : forall a b c, vleb a b = true -> vleb b c = true -> vleb a c = true.

  (* A locked release of the project that still satisfies the requirement is chosen (no
     force-update): the first such lock of the url's bucket. *)
  Theorem C31_resolve_prefers_lock : forall (w : world version req) (t : table version) u prj rq,
    (exists l, In l (bucket t u) /\ lock_candidate matches prj rq l = true) ->
    exists l1 l l2 u' pth v r o,
      bucket t u = l1 ++ l :: l2 /\
      (forall y, In y l1 -> lock_candidate matches prj rq y = false) /\
      l_source l = SRepo u' pth prj v r o /\ matches rq v = true /\
      resolve_version vleb matches w t false u prj rq = Ok (mkRel v r, pth).
  Proof. exact (resolve_prefers_lock version req vleb matches). Qed.

  (* Otherwise (no lock applies, or force-update) the maximum satisfying published release;
     VersionNotFound exactly when no published release satisfies the requirement. *)
  Theorem C31_resolve_highest : forall (w : world version req) (t : table version) force u prj rq pth rels,
    (force = true \/ resolve_from_lock matches t u prj rq = None) ->
    lookup2 (u, prj) (w_pubs w) = Some (PReleases pth rels) ->
    match resolve_version vleb matches w t force u prj rq with
    | Ok (r, p) => p = pth /\ In r rels /\ matches rq (rel_version r) = true /\
                   forall r', In r' rels -> matches rq (rel_version r') = true ->
                              vleb (rel_version r') (rel_version r) = true
    | Err e => e = EVersionNotFound /\ forall r', In r' rels -> matches rq (rel_version r') = false
    end.
  Proof. exact (resolve_highest version req vleb matches vleb_total vleb_trans). Qed.

  Theorem C31_resolve_matches : forall (w : world version req) (t : table version) force u prj rq r p,
    resolve_version vleb matches w t force u prj rq = Ok (r, p) -> matches rq (rel_version r) = true.
  Proof. exact (resolve_matches version req vleb matches). Qed.

  (* every resolved dependency gets a distinct project name *)
  Theorem C31_names_distinct : forall (w : world version req) (t : table version) force md ls,
    gen_top vleb matches w t force md = Ok ls -> NoDup (map l_name ls).
  Proof. exact (names_distinct version req vleb matches). Qed.

  (* save then load gives the same lock table (every bucket identical, `visible` included) *)
  Theorem C31_lock_roundtrip : forall root_names (t : table version),
    table_wf version t -> bucket_sorted version vleb t -> visible_ok version root_names t ->
    forall u, bucket (save_load vleb root_names t) u = bucket t u.
  Proof. exact (lock_roundtrip version vleb vleb_total vleb_trans). Qed.

  (* the tables the code builds satisfy the first two preconditions *)
  Theorem C31_built_tables_wf_sorted : forall ls : list (lock version),
    table_wf version (table_of_locks vleb ls) /\ bucket_sorted version vleb (table_of_locks vleb ls).
  Proof.
    exact (fun ls => conj (table_of_locks_wf version vleb ls)
                          (table_of_locks_sorted version vleb vleb_total vleb_trans ls)).
  Qed.

  (* `modified` = false  <->  old and regenerated locks carry the same uuids *)
  Theorem C31_update_modified_spec : forall (old : table version) (ls : list (lock version)),
    modified_flag old ls = false <->
    (forall l, In l ls -> exists o, In o (bucket old (to_url (l_source l))) /\ lock_ukey o = lock_ukey l) /\
    (forall o, In o (all_locks old) -> exists l, In l ls /\ lock_ukey l = lock_ukey o).
  Proof. exact (update_modified_spec version). Qed.

  (* update_idempotent, PARTIAL.  Full statement wanted: "for every table t produced by
     lockfile_new / lockfile_update from declarations md in world w, lockfile_update w t md false
     = Ok (false, t)".  It is FALSE for tables produced by lockfile_update (C31_update_twice_refuted
     below).  Proved instead: (1) if regeneration against the table reproduces the locks, update
     answers (false, same table); (2) regeneration reproduces a lock whenever the bucket holds the
     latest matching release of the project and otherwise only published releases of it — which is
     what lockfile_new produces.  Not proved: the induction over the whole traversal that (2) holds
     for every declaration reached after lockfile_new (validated by the check on every scenario). *)
  Theorem C31_update_idempotent_partial : forall (w : world version req) md (ls : list (lock version)),
    gen_top vleb matches w (table_of_locks vleb ls) false md = Ok ls ->
    lockfile_update vleb matches w (table_of_locks vleb ls) md false = Ok (false, table_of_locks vleb ls).
  Proof. exact (update_stable_unmodified version req vleb matches). Qed.

  (* update right after new (declarations and releases unchanged): gen_locks depends on the lock
     table only through the resolve_version queries of REACHABLE declarations (`reach`: metadata
     reachable from the root when requirements are resolved against the published releases), so
     if the new table answers each of them like the published releases do (`agree`), update reports
     modified = false and leaves the table unchanged.  `agree` is discharged query by query with
     C31_resolve_locked_is_latest; what stays unproved is that Lockfile::new always locks the
     latest matching release of every reachable declaration (BFS completeness under uuid de-dup). *)
  Theorem C31_update_idempotent_after_new_partial :
    forall (w : world version req) (md : metadata req) (t : table version),
      lockfile_new vleb matches w md = Ok t ->
      agree version req vleb matches w md t ->
      lockfile_update vleb matches w t md false = Ok (false, t).
  Proof. exact (update_after_new_unmodified version req vleb matches). Qed.

  Theorem C31_resolve_locked_is_latest : forall (w : world version req) (t : table version) u prj rq pth rels m,
    lookup2 (u, prj) (w_pubs w) = Some (PReleases pth rels) ->
    latest_matching vleb matches rels rq = Some m ->
    StronglySorted (fun a b => lock_geb vleb a b = true) (bucket t u) ->
    (forall l, In l (bucket t u) -> to_url (l_source l) = u) ->
    (forall l u' p v r o, In l (bucket t u) -> l_source l = SRepo u' p prj v r o ->
                          p = pth /\ In (mkRel v r) rels) ->
    (exists l o, In l (bucket t u) /\ l_source l = SRepo u pth prj (rel_version m) (rel_rev m) o) ->
    (forall a b, In a rels -> In b rels -> vleb (rel_version a) (rel_version b) = true ->
                 vleb (rel_version b) (rel_version a) = true -> a = b) ->
    resolve_version vleb matches w t false u prj rq = Ok (m, pth) /\
    resolve_from_latest vleb matches w u prj rq = Ok (m, pth).
  Proof. exact (resolve_locked_is_latest version req vleb matches vleb_total vleb_trans). Qed.
End C31.

(* The suffix loop `name_0, name_1, ...` (unbounded in Rust) returns the first free name within
   |name_table|+1 iterations; the model's fuel never runs out. *)
Theorem C31_suffix_terminates_fresh : forall nt name,
  exists k, (k <= List.length nt)%nat /\
    fresh_name nt name = Some (suffixed name k) /\
    ~ In (suffixed name k) nt /\
    (forall j, (j < k)%nat -> In (suffixed name j) nt).
Proof. exact suffix_terminates_fresh. Qed.

(* FINDING update-moves-dependency-to-sibling-lock: with the order of N and the match table ex_mt,
   an update whose declarations and published releases did not change reports `modified` and
   moves x from its still-satisfying lock 1.0.0 (rank 0) to 1.5.0 (rank 1). *)
Theorem C31_update_twice_refuted :
  exists t1 t2,
    lockfile_update N.leb (nmatches ex_mt) ex_world ex_t0 ex_root false = Ok (true, t1) /\
    versions_of t1 = [("q"%string, 0%N); ("p"%string, 1%N); ("x"%string, 0%N)] /\
    lockfile_update N.leb (nmatches ex_mt) ex_world t1 ex_root false = Ok (true, t2) /\
    versions_of t2 = [("q"%string, 0%N); ("x"%string, 1%N)] /\
    lockfile_update N.leb (nmatches ex_mt) ex_world t2 ex_root false = Ok (false, t2).
Proof. exact update_twice_witness. Qed.

(* non-vacuity *)
Example C31_order_hypotheses_met :
  (forall a b : N, N.leb a b = true \/ N.leb b a = true) /\
  (forall a b c : N, N.leb a b = true -> N.leb b c = true -> N.leb a c = true).
Proof. exact (conj nleb_total nleb_trans). Qed.
Example C31_suffix_example :
  fresh_name ["util"; "util_1"; "x"; "util_0"]%string "util"%string = Some "util_2"%string.
Proof. exact suffix_example. Qed.
Example C31_agree_met :
  exists t, lockfile_new N.leb (nmatches ex_mt) ex_world ex_root = Ok t /\
            agree N N N.leb (nmatches ex_mt) ex_world ex_root t /\
            lockfile_update N.leb (nmatches ex_mt) ex_world t ex_root false = Ok (false, t).
Proof. exact agree_example. Qed.
Example C31_roundtrip_preconditions_met :
  let t1 := table_of_locks N.leb ex_locks1 in
  lockfile_update N.leb (nmatches ex_mt) ex_world ex_t0 ex_root false = Ok (true, t1) /\
  table_wf N t1 /\ bucket_sorted N N.leb t1 /\ visible_ok N ["x"; "q"]%string t1 /\
  List.length (bucket t1 0%N) = 2%nat.
Proof. exact roundtrip_example_t1. Qed.

Print Assumptions C31_resolve_prefers_lock.
Print Assumptions C31_resolve_highest.
Print Assumptions C31_resolve_matches.
Print Assumptions C31_names_distinct.
Print Assumptions C31_lock_roundtrip.
Print Assumptions C31_built_tables_wf_sorted.
Print Assumptions C31_update_modified_spec.
Print Assumptions C31_update_idempotent_partial.
Print Assumptions C31_update_idempotent_after_new_partial.
Print Assumptions C31_resolve_locked_is_latest.
Print Assumptions C31_suffix_terminates_fresh.
Print Assumptions C31_update_twice_refuted.
