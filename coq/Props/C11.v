(* C11 — Analysis, emission and formatting never crash on parseable input.
   Partial by nature: "no unwrap / index / overflow panic in 100k lines" is searched by
   vp/props/c11.py, not proved.  What a proof carries here is the bookkeeping that enforces the
   elaboration limits (InstanceHistory + get_component): the recursion of instance elaboration is
   bounded by instance_depth_limit for EVERY design — cyclic ones and infinite chains of fresh
   signatures included — as long as no body conversion fails after it was pushed; and the
   protocol is refuted for a body conversion that fails twice (unbalanced pop). *)
From Coq Require Import List NArith Bool.
From VV Require Import Robust.ElabModel Robust.ElabProofs.
Import ListNotations.
Open Scope N_scope.

(* InstanceHistory::push returns Ok only within both limits, and leaves them exceeded by at most one *)
Theorem C11_push_respects_limits :
  forall c h s b h', push c h s = POk b h' ->
    len (hier h) <= depth_limit c /\ len (full h) <= total_limit c /\
    len (hier h') <= depth_limit c + 1 /\ len (full h') <= total_limit c + 1.
Proof. exact push_limits_l. Qed.

(* get_component never nests deeper than instance_depth_limit + 2 calls (fuel = nesting budget),
   for every design in which a pushed body conversion does not fail *)
Theorem C11_elaboration_depth_bounded_partial :
  forall d c s fuel, no_fails d ->
    (N.to_nat (depth_limit c) + 2 <= fuel)%nat ->
    elab fuel c d s empty_hist <> None.
Proof. exact elab_depth_bounded_l. Qed.
(* full statement (not provable, see the refutation below):
     forall d c s fuel, (N.to_nat (depth_limit c) + 2 <= fuel)%nat -> elab fuel c d s empty_hist <> None *)

(* after a completed elaboration nothing is left in progress *)
Theorem C11_elaboration_leaves_nothing_in_progress :
  forall d c s fuel h ok, no_fails d ->
    elab fuel c d s empty_hist = Some (h, ok) ->
    inv d h /\ Forall (settled d h) (hier h).
Proof. exact elab_result_l. Qed.

(* refutation of the full statement on the model: a body that fails AFTER its push (the
   `Err(x) => { c.pop_instance_history(); Err(x) }` arm) and is instantiated twice pops its
   parent off the hierarchy (push returned Ok(false) the second time, pop ran anyway); a
   self-instantiating parent then recurses without bound under any limits >= (1, 2). *)
Theorem C11_unbalanced_pop_refuted :
  forall c, 1 <= depth_limit c -> 2 <= total_limit c ->
    forall fuel, elab fuel c bad_design 0 empty_hist = None.
Proof. exact elab_unbalanced_pop_refuted_l. Qed.

(* non-vacuity: self-instantiation and ever-growing parameters satisfy the hypothesis, and the
   model reports them through the limits instead of recursing *)
Example C11_self_instantiation :
  no_fails self_design /\
  elab 200 (mkCfg 128 1048576) self_design 7 empty_hist = Some (mkHist [] [(7, true)], true).
Proof. split; [exact self_design_no_fails | vm_compute; reflexivity]. Qed.
Example C11_growing_parameters :
  no_fails grow_design /\
  (exists h, elab 7 (mkCfg 3 1048576) grow_design 0 empty_hist = Some (h, true) /\ len (full h) = 4).
Proof. split; [exact grow_design_no_fails | eexists; split; vm_compute; reflexivity]. Qed.
Example C11_bad_design_has_failing_body : ~ no_fails bad_design.
Proof. exact bad_design_fails. Qed.

Print Assumptions C11_push_respects_limits.
Print Assumptions C11_elaboration_depth_bounded_partial.
Print Assumptions C11_elaboration_leaves_nothing_in_progress.
Print Assumptions C11_unbalanced_pop_refuted.
