(* C07 — Language-server diagnostics depend only on the current buffers.
   Only statements (+ exact), non-vacuity examples and Print Assumptions.  Model: Ls/LsModel.v;
   table lists regenerated from the Rust source: Ls/GeneratedTables.v; reviewed classification and the
   vm_compute-decided inclusion: Ls/TablesReview.v. *)
From Coq Require Import List Bool Arith.
Import ListNotations.
From VV Require Import Ls.LsModel Ls.LsProofs Ls.GeneratedTables Ls.TablesReview.

(* Generic refinement: for ANY classification of tables satisfying the discipline
   (written & observable -> dropped per file or drained by the post pass) and any diagnostics function that
   reads observable tables only, after EVERY admissible history (didOpen / didChange / didSave / didClose /
   rename / delete in any order and number; a buffer is closed only when saved, a rename does not land on a
   path the server still holds in document_map) the diagnostics published for an open buffer when it is
   re-sent are the specified function of the current texts. *)
Theorem C07_ls_refines_spec :
  forall (table content fact diag : Type)
         (written dropped drained observable : table -> bool)
         (close_handled remove_forgets : bool)
         (pass1 : file -> content -> table -> list fact)
         (diagf : file -> (table -> file -> list fact) -> diag),
    discipline table written dropped drained observable ->
    reads_observable_only table fact diag observable diagf ->
    forall w0 h f d,
      (forall g, editor content w0 g = None) ->
      hist_ok table content fact diag written dropped drained close_handled remove_forgets pass1 diagf
              (w0, init_srv table content fact) h ->
      refresh table content fact diag written dropped drained pass1 diagf
              (run table content fact diag written dropped drained close_handled remove_forgets pass1 diagf w0 h) f = Some d ->
      d = diags_spec table content fact diag written drained pass1 diagf
            (cur content (fst (run table content fact diag written dropped drained close_handled remove_forgets pass1 diagf w0 h))) f.
Proof. exact ls_refines_spec. Qed.

(* A server that handles didClose (forget the buffer, drop the file, re-read the project) and whose
   willRename/willDelete forget the buffer needs NO condition on the history: every sequence of notifications. *)
Theorem C07_ls_refines_spec_all_histories :
  forall (table content fact diag : Type)
         (written dropped drained observable : table -> bool)
         (pass1 : file -> content -> table -> list fact)
         (diagf : file -> (table -> file -> list fact) -> diag),
    discipline table written dropped drained observable ->
    reads_observable_only table fact diag observable diagf ->
    forall w0 h f d,
      (forall g, editor content w0 g = None) ->
      refresh table content fact diag written dropped drained pass1 diagf
              (run table content fact diag written dropped drained true true pass1 diagf w0 h) f = Some d ->
      d = diags_spec table content fact diag written drained pass1 diagf
            (cur content (fst (run table content fact diag written dropped drained true true pass1 diagf w0 h))) f.
Proof. exact ls_refines_spec_all_histories. Qed.

(* The same for the classification and the server shape extracted from the Rust source on this run: the discipline
   and the two server flags (did_close handled, on_remove forgets the buffer) are decided by vm_compute on the
   generated definitions (Ls/TablesReview.v), so there is no condition on the history. *)
Theorem C07_ls_refines_spec_generated :
  forall (content fact diag : Type)
         (pass1 : file -> content -> table -> list fact)
         (diagf : file -> (table -> file -> list fact) -> diag),
    ls_reads_observable_only fact diag diagf ->
    forall w0 h f d,
      (forall g, editor content w0 g = None) ->
      ls_refresh content fact diag pass1 diagf (ls_run content fact diag pass1 diagf w0 h) f = Some d ->
      d = ls_spec content fact diag pass1 diagf (cur content (fst (ls_run content fact diag pass1 diagf w0 h))) f.
Proof. exact ls_refines_spec_generated. Qed.

(* History independence: a long editing session and a freshly started server that ends with the same
   current texts publish the same diagnostics. *)
Theorem C07_ls_history_independent_generated :
  forall (content fact diag : Type)
         (pass1 : file -> content -> table -> list fact)
         (diagf : file -> (table -> file -> list fact) -> diag),
    ls_reads_observable_only fact diag diagf ->
    forall w1 h1 w2 h2 f d1 d2,
      (forall g, editor content w1 g = None) -> (forall g, editor content w2 g = None) ->
      (forall g, cur content (fst (ls_run content fact diag pass1 diagf w1 h1)) g =
                 cur content (fst (ls_run content fact diag pass1 diagf w2 h2)) g) ->
      ls_refresh content fact diag pass1 diagf (ls_run content fact diag pass1 diagf w1 h1) f = Some d1 ->
      ls_refresh content fact diag pass1 diagf (ls_run content fact diag pass1 diagf w2 h2) f = Some d2 ->
      d1 = d2.
Proof. exact ls_history_independent_generated. Qed.

(* The inclusion itself, on the lists regenerated from analyzer.rs / handlers / fragment_cache.rs / server.rs:
   every table that (re-)analysis writes and that can reach a diagnostic is cleared by Analyzer::drop_file or
   drained by analyze_post_pass1 — except exactly the reviewed known-stale tables. *)
Theorem C07_table_discipline :
  discipline_b = true /\ stale_tables = known_stale_l /\
  on_change_shape_ok = true /\ background_shape_ok = true /\ on_remove_drops = true /\
  did_close_handled = true /\ on_remove_forgets = true.
Proof.
  exact (conj discipline_holds (conj stale_tables_are_the_known_ones
        (conj (proj1 server_shape_ok) (conj (proj1 (proj2 server_shape_ok)) (conj (proj2 (proj2 server_shape_ok))
        (conj close_is_handled remove_forgets_buffer)))))).
Qed.

(* Converse (witness schema): a table that pass 1 writes, drop_file does not clear and no post pass drains keeps
   facts of the earlier text — 2-edit history  didOpen f (c1); didChange f c2. *)
Theorem C07_stale_table_witness :
  forall (table content fact : Type) (written dropped drained : table -> bool)
         (close_handled remove_forgets : bool)
         (pass1 : file -> content -> table -> list fact) (feqb : fact -> fact -> bool)
         t x f c1 c2,
    written t = true -> dropped t = false -> drained t = false ->
    existsb (feqb x) (pass1 f c1 t) = true ->
    existsb (feqb x) (pass1 f c2 t) = false ->
    let D := reveal table fact feqb t x in
    let h := [Open f; Change f c2] in
    let st := run table content fact bool written dropped drained close_handled remove_forgets pass1 D (only_file content f c1) h in
    hist_ok table content fact bool written dropped drained close_handled remove_forgets pass1 D
            (only_file content f c1, init_srv table content fact) h /\
    refresh table content fact bool written dropped drained pass1 D st f = Some true /\
    diags_spec table content fact bool written drained pass1 D (cur content (fst st)) f = false /\
    refresh table content fact bool written dropped drained pass1 D
            (run table content fact bool written dropped drained close_handled remove_forgets pass1 D (only_file content f c2) [Open f]) f
      = Some false.
Proof. exact stale_table_witness. Qed.

(* ------------------------------------------------------------------ non-vacuity *)
(* a diagnostics function that reads the symbol table and the attribute table only satisfies the hypothesis *)
Example C07_reads_observable_example :
  ls_reads_observable_only nat (list nat * list nat)
    (fun f tb => (tb T_symbols f ++ tb T_symbols (S f), tb T_attribute f)).
Proof.
  intros f s1 s2 H. rewrite (H T_symbols f), (H T_symbols (S f)), (H T_attribute f) by reflexivity. reflexivity.
Qed.

(* an admissible history using every kind of notification: open, edit, save, close, reopen, rename of an open
   and of a closed file, delete *)
(* an admissible history for a server that IGNORES didClose (both flags false), using every kind of notification:
   open, edit, save, close, reopen, rename of an open and of a closed file, delete *)
Example C07_hist_ok_example :
  let w0 := mkWorld nat (fun g => if g <? 3 then Some g else None) (fun _ => None) in
  hist_ok table nat nat nat written dropped drained false false (fun g c t => [g + c]) (fun f tb => length (tb T_symbols f))
    (w0, init_srv table nat nat)
    [Open 0; Change 0 7; Open 1; Save 0; Close 0; Change 1 9; Rename 2 5; Open 0; Save 1; Rename 1 6; Delete 5; Change 6 4].
Proof. vm_compute. repeat split; try discriminate; try (right; intros c H; inversion H; reflexivity); intros; reflexivity. Qed.

(* why the ignoring server needs them (model level; both were replayed on the real server before the repair) *)
Example C07_dirty_close_needs_handling :
  forall t, written t = true -> dropped t = true -> drained t = false ->
  let D := reveal_at table nat Nat.eqb t 7 1 in
  let st := run table nat nat bool written dropped drained false false (fun f c t' => [c]) D
                (files3 nat 1 3 2 5 0 None) [Open 2; Open 1; Change 1 7; Close 1] in
  refresh table nat nat bool written dropped drained (fun f c t' => [c]) D st 2 = Some true /\
  diags_spec table nat nat bool written drained (fun f c t' => [c]) D (cur nat (fst st)) 2 = false.
Proof.
  intros t Hw Hp Hd.
  exact (dirty_close_witness table nat nat written dropped drained (fun f c t' => [c]) Nat.eqb t 7 1 2 5 3 7
           (ltac:(discriminate)) Hw Hp Hd eq_refl eq_refl).
Qed.

(* the tables actually excused as known-stale, and the ones dropped, on this tree *)
Example C07_known_stale_now : known_stale_l = [T_scope_tree].
Proof. reflexivity. Qed.

Print Assumptions C07_ls_refines_spec.
Print Assumptions C07_ls_refines_spec_all_histories.
Print Assumptions C07_ls_refines_spec_generated.
Print Assumptions C07_ls_history_independent_generated.
Print Assumptions C07_table_discipline.
Print Assumptions C07_stale_table_witness.
