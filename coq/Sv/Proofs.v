(* C01 — proofs about the µSV semantics (Sv/Sem.v), the emit model and veryl's meaning under a clock/reset
   configuration (Sv/Emit.v), and the extracted clock/reset tables (Sv/GeneratedClockReset.v).

   clock_reset tables      tables_agree, all_lists_wellformed, em_*_spec / sim_*_spec
   (ii) expressions        emit_sound: gather_emit, ev_emit (same context => same value), ev_emit_weak
   (iii) statements / NBA  stmt_emit, body_emit            (blocking = exec_list, non-blocking = the write log of Rtl/Cycle.v)
   (i) clock/reset         triggered_sample_*, reset_test_sample, triggered_idle, ff_item_sample, ff_item_idle
   whole runs              cycle_emit, run_emit  (hypothesis settle_idem), settle_idem_noself
   veryl side              veryl_step_is_rtl_step (the configuration-generalised step is Rtl/Cycle.v step)
   finding                 relational_signedness_refuted *)
From VV Require Import Sv.Emit Rtl.Frame Rtl.CombProofs Rtl.CycleProofs.
Open Scope N_scope.

(* ------------------------------------------------------------------ tables *)
Lemma tables_agree : clock_tables_ok && reset_emitter_tables_ok && reset_simulator_tables_ok = true.
Proof. vm_compute. reflexivity. Qed.

Lemma all_lists_wellformed : forall c, em_list_wellformed c = true.
Proof. intros [[] [] [] [] []]; reflexivity. Qed.

Lemma em_clock_edge_spec c : em_clock_edge c = spec_edge (eff_clock c).
Proof. destruct c as [[] [] [] [] []]; reflexivity. Qed.
Lemma em_reset_sens_spec c : em_reset_sens c = spec_reset_sens (eff_reset c).
Proof. destruct c as [[] [] [] [] []]; reflexivity. Qed.
Lemma em_reset_negated_spec c : em_reset_negated c = spec_active_low (eff_reset c).
Proof. destruct c as [[] [] [] [] []]; reflexivity. Qed.
Lemma sim_clk_runs_reset_spec c a : sim_clk_runs_reset c a = a.
Proof. destruct c as [[] [] [] [] []], a; reflexivity. Qed.
Lemma sim_rst_event_spec c : sim_rst_event_runs_reset c = spec_async (eff_reset c).
Proof. destruct c as [[] [] [] [] []]; reflexivity. Qed.


(* ------------------------------------------------------------------ brace removal preserves type and value *)
Section Canon.
  Variables (md : mode) (D : decls) (st : state).

  Definition cat_width (items : list (expr * N)) : N :=
    (fix go (l : list (expr * N)) : N :=
       match l with [] => 0 | (a, n) :: t => cw (gather D a) * n + go t end) items.
  Definition cat_go (items : list (expr * N)) (acc : vec) : vec :=
    (fix go (l : list (expr * N)) (acc : vec) : vec :=
       match l with
       | [] => acc
       | (a, n) :: t =>
           let g := gather D a in
           let v := ev md D st g a in
           go t (cat2 acc (cw g * n) (repl_nat (cw g) v (N.to_nat n)))
       end) items acc.

  Lemma gather_cat items : gather D (ECat items) = mkCtx (cat_width items) false.
  Proof. reflexivity. Qed.
  Lemma ev_cat items c : ev md D st c (ECat items) = cat_go items (mkVec 0 0).
  Proof. reflexivity. Qed.
  Lemma cat_width_cons a n t : cat_width ((a, n) :: t) = cw (gather D a) * n + cat_width t.
  Proof. reflexivity. Qed.
  Lemma cat_go_cons a n t acc :
    cat_go ((a, n) :: t) acc
    = cat_go t (cat2 acc (cw (gather D a) * n) (repl_nat (cw (gather D a)) (ev md D st (gather D a) a) (N.to_nat n))).
  Proof. reflexivity. Qed.

  Lemma vec_eta v : mkVec (vp v) (vm v) = v. Proof. destruct v; reflexivity. Qed.
  Lemma repl_one w v : repl_nat w v 1 = v.
  Proof. simpl. rewrite ?N.shiftl_0_l, ?N.lor_0_l. apply vec_eta. Qed.
  Lemma cat2_zero k v : cat2 (mkVec 0 0) k v = v.
  Proof. unfold cat2. simpl. rewrite ?N.shiftl_0_l, ?N.lor_0_l. apply vec_eta. Qed.

  (* one item that is a single-repeat concatenation contributes exactly what the repeated item contributes *)
  Lemma item_single_repeat b m acc :
    let a := ECat [(b, m)] in
    cat2 acc (cw (gather D a) * 1) (repl_nat (cw (gather D a)) (ev md D st (gather D a) a) (N.to_nat 1))
    = cat2 acc (cw (gather D b) * m) (repl_nat (cw (gather D b)) (ev md D st (gather D b) b) (N.to_nat m)).
  Proof.
    cbv zeta. rewrite gather_cat, ev_cat. cbn [cw]. rewrite cat_width_cons. cbn [cat_width].
    rewrite N.add_0_r, N.mul_1_r. change (N.to_nat 1) with 1%nat. rewrite repl_one.
    rewrite cat_go_cons. cbn [cat_go]. rewrite cat2_zero. reflexivity.
  Qed.

  Definition Pc (e : expr) : Prop :=
    gather D (canon e) = gather D e /\ forall c, ev md D st c (canon e) = ev md D st c e.

  Definition canon_items (items : list (expr * N)) : list (expr * N) :=
    (fix go (l : list (expr * N)) : list (expr * N) :=
       match l with [] => [] | (a, n) :: t => canon_item (canon a) n :: go t end) items.

  Lemma canon_item_sound a n acc t :
    cat_go (canon_item a n :: t) acc = cat_go ((a, n) :: t) acc /\
    cat_width (canon_item a n :: t) = cat_width ((a, n) :: t).
  Proof.
    unfold canon_item.
    destruct a as [| | | | | | items | |]; try (split; reflexivity).
    destruct items as [|[b m] [|? ?]]; try (split; reflexivity).
    destruct n as [|[?|?|]]; try (split; reflexivity).
    destruct (m =? 1) eqn:Em; [split; reflexivity|].
    split.
    - rewrite !cat_go_cons. rewrite <- (item_single_repeat b m acc). reflexivity.
    - rewrite !cat_width_cons. rewrite gather_cat. cbn [cw]. rewrite cat_width_cons. cbn [cat_width].
      rewrite N.add_0_r, N.mul_1_r. reflexivity.
  Qed.

  Lemma canon_items_sound items : Forall (fun it => Pc (fst it)) items ->
    (forall acc, cat_go (canon_items items) acc = cat_go items acc) /\ cat_width (canon_items items) = cat_width items.
  Proof.
    induction items as [|[a n] t IH]; intros HP; [split; reflexivity|].
    inversion HP as [|? ? [Ga Ea] Ht]; subst. simpl in Ga, Ea. destruct (IH Ht) as [IHg IHw].
    change (canon_items ((a, n) :: t)) with (canon_item (canon a) n :: canon_items t).
    split.
    - intros acc. rewrite (proj1 (canon_item_sound (canon a) n acc (canon_items t))).
      rewrite !cat_go_cons, Ga, Ea. apply IHg.
    - rewrite (proj2 (canon_item_sound (canon a) n (mkVec 0 0) (canon_items t))).
      rewrite !cat_width_cons, Ga, IHw. reflexivity.
  Qed.

  Lemma canon_top_sound its :
    gather D (canon_top its) = gather D (ECat its) /\ forall c, ev md D st c (canon_top its) = ev md D st c (ECat its).
  Proof.
    unfold canon_top.
    destruct its as [|[a n] tl]; [split; reflexivity|].
    destruct a as [| | | | | | inner | |]; try (split; reflexivity).
    destruct n as [|[?|?|]]; try (split; reflexivity).
    destruct tl as [|? ?]; [|split; reflexivity].
    split.
    - rewrite !gather_cat. rewrite cat_width_cons. cbn [cat_width]. rewrite gather_cat. cbn [cw].
      rewrite N.add_0_r, N.mul_1_r. reflexivity.
    - intros c. rewrite (ev_cat [(ECat inner, 1)]). rewrite cat_go_cons. cbn [cat_go].
      change (N.to_nat 1) with 1%nat. rewrite repl_one, cat2_zero. rewrite !ev_cat. reflexivity.
  Qed.

  Lemma canon_sound e : Pc e.
  Proof.
    induction e as [w sg p m | x | x hi lo | o e IHe | o e1 e2 IHe1 IHe2 | e1 e2 e3 IHe1 IHe2 IHe3
                    | items IHitems | w e IHe | sg e IHe] using expr_ind'; unfold Pc.
    - split; reflexivity.
    - split; reflexivity.
    - split; reflexivity.
    - destruct IHe as [G E]. split; simpl; [rewrite G; reflexivity|].
      intros c. destruct o; rewrite ?G, ?E; reflexivity.
    - destruct IHe1 as [G1 E1], IHe2 as [G2 E2]. split; simpl; [rewrite G1, G2; reflexivity|].
      intros c. destruct o; rewrite ?G1, ?G2, ?E1, ?E2; reflexivity.
    - destruct IHe1 as [G1 E1], IHe2 as [G2 E2], IHe3 as [G3 E3]. split; simpl; [rewrite G2, G3; reflexivity|].
      intros c. rewrite G1, E1, E2, E3. reflexivity.
    - change (canon (ECat items)) with (canon_top (canon_items items)).
      destruct (canon_top_sound (canon_items items)) as [Gt Et].
      destruct (canon_items_sound items IHitems) as [Hg Hw].
      split.
      + rewrite Gt, !gather_cat, Hw. reflexivity.
      + intros c. rewrite Et, !ev_cat. apply Hg.
    - destruct IHe as [G E]. split; simpl; [reflexivity|]. intros c. rewrite G, E. reflexivity.
    - destruct IHe as [G E]. split; simpl; [rewrite G; reflexivity|]. intros c. rewrite G, E. reflexivity.
  Qed.
End Canon.

(* ------------------------------------------------------------------ (ii) expressions *)
Lemma andb3 a b c : a && b && c = true -> a = true /\ b = true /\ c = true.
Proof. destruct a, b, c; simpl; intuition congruence. Qed.

Section Exprs.
  Variables (md : mode) (env : senv) (D : decls) (st : state).

  (* strict: same self-determined type and same value in every context *)
  Definition Sx (e : expr) : Prop :=
    sv_gather D (emit_plain e) = gather D e /\ forall c, sv_ev md env D st c (emit_plain e) = ev md D st c e.
  (* weak: same self-determined width and same self-determined value *)
  Definition Wx (e : expr) : Prop :=
    cw (sv_gather D (emit_plain e)) = cw (gather D e) /\
    sv_ev md env D st (sv_gather D (emit_plain e)) (emit_plain e) = ev md D st (gather D e) e.
  Definition Px (e : expr) : Prop := (expr_ok D e = true -> Sx e) /\ (expr_okw D e = true -> Wx e).

  Lemma S_W e : Sx e -> Wx e.
  Proof. intros [G E]. split; [rewrite G; reflexivity | rewrite G; apply E]. Qed.

  (* a comparison of strictly-ok operands: weakly ok whatever the signedness *)
  Lemma rel_W o a b : rel_op o = true -> Sx a -> Sx b -> Wx (EBin o a b).
  Proof.
    intros Ho [Ga Ea] [Gb Eb]. split.
    - destruct o; try discriminate; reflexivity.
    - destruct o; try discriminate; simpl; rewrite Ga, Gb, !Ea, !Eb; reflexivity.
  Qed.

  Lemma weak_from (e : expr) : (expr_ok D e = true -> Sx e) ->
    (forall o a b, e = EBin o a b -> rel_op o = true -> expr_ok D a = true -> expr_ok D b = true -> Wx e) ->
    expr_okw D e = true -> Wx e.
  Proof.
    intros HS HR H. unfold expr_okw, okw_with in H. apply orb_true_iff in H. destruct H as [H|H].
    - apply S_W, HS, H.
    - destruct e; try discriminate. apply andb3 in H. destruct H as (Ho & Ha & Hb). exact (HR _ _ _ eq_refl Ho Ha Hb).
  Qed.
  Lemma weak_nonbin (e : expr) : (expr_ok D e = true -> Sx e) -> (forall o a b, e <> EBin o a b) ->
    expr_okw D e = true -> Wx e.
  Proof. intros HS HN. apply weak_from; [exact HS|]. intros o a b E. destruct (HN o a b E). Qed.

  Lemma emit_sound e : Px e.
  Proof.
    induction e as [w sg p m | x | x hi lo | o e IHe | o e1 e2 IHe1 IHe2 | e1 e2 e3 IHe1 IHe2 IHe3
                    | items IHitems | w e IHe | sg e IHe] using expr_ind'.
    - assert (HS : expr_ok D (ELit w sg p m) = true -> Sx (ELit w sg p m)) by (intros _; split; reflexivity).
      split; [exact HS | apply weak_nonbin; [exact HS | discriminate]].
    - assert (HS : expr_ok D (EVar x) = true -> Sx (EVar x)) by (intros _; split; reflexivity).
      split; [exact HS | apply weak_nonbin; [exact HS | discriminate]].
    - assert (HS : expr_ok D (ESel x hi lo) = true -> Sx (ESel x hi lo)).
      { simpl. intros H. apply negb_true_iff in H. split; simpl; [rewrite H|]; reflexivity. }
      split; [exact HS | apply weak_nonbin; [exact HS | discriminate]].
    - destruct IHe as [IS IW].
      assert (HS : expr_ok D (EUn o e) = true -> Sx (EUn o e)).
      { cbn [expr_ok]. intros H. destruct (un_selfdet o) eqn:Eo.
        - destruct (IW H) as [Gw Ew]. split.
          + simpl. rewrite Eo. reflexivity.
          + intros c. destruct o; try discriminate; simpl; rewrite ?Gw, Ew; reflexivity.
        - destruct (IS H) as [G E]. split.
          + simpl. rewrite Eo. exact G.
          + intros c. destruct o; try discriminate; simpl; rewrite ?E; reflexivity. }
      split; [exact HS | apply weak_nonbin; [exact HS | discriminate]].
    - destruct IHe1 as [IS1 IW1], IHe2 as [IS2 IW2].
      assert (HS : expr_ok D (EBin o e1 e2) = true -> Sx (EBin o e1 e2)).
      { cbn [expr_ok]. intros H.
        destruct o;
          try (apply andb_true_iff in H; destruct H as [H1 H2];
               destruct (IS1 H1) as [G1 E1]; destruct (IS2 H2) as [G2 E2];
               split; [simpl; rewrite ?G1, ?G2; reflexivity | intros c; simpl; rewrite ?G1, ?G2, ?E1, ?E2; reflexivity]).
        (* shifts: weak amount *)
        1-4: (apply andb_true_iff in H; destruct H as [H1 H2];
              destruct (IS1 H1) as [G1 E1]; destruct (IW2 H2) as [G2 E2];
              split; [simpl; rewrite ?G1; reflexivity | intros c; simpl; rewrite ?E1, ?E2; reflexivity]).
        (* relational: strict, not both signed *)
        1-4: (apply andb3 in H; destruct H as (H1 & H2 & H3); apply negb_true_iff in H3;
              destruct (IS1 H1) as [G1 E1]; destruct (IS2 H2) as [G2 E2];
              split; [simpl; rewrite H3; reflexivity | intros c; simpl; rewrite ?G1, ?G2, ?E1, ?E2; reflexivity]).
        (* && || : weak operands *)
        all: (apply andb_true_iff in H; destruct H as [H1 H2];
              destruct (IW1 H1) as [G1 E1]; destruct (IW2 H2) as [G2 E2];
              split; [reflexivity | intros c; simpl; rewrite ?E1, ?E2; reflexivity]). }
      split; [exact HS|]. apply weak_from; [exact HS|].
      intros o' a b E Ho Ha Hb. injection E as -> -> ->. apply rel_W; [exact Ho | apply IS1, Ha | apply IS2, Hb].
    - destruct IHe1 as [IS1 IW1], IHe2 as [IS2 IW2], IHe3 as [IS3 IW3].
      assert (HS : expr_ok D (ETern e1 e2 e3) = true -> Sx (ETern e1 e2 e3)).
      { cbn [expr_ok]. intros H. apply andb3 in H. destruct H as (H1 & H2 & H3).
        destruct (IW1 H1) as [G1 E1]. destruct (IS2 H2) as [G2 E2]. destruct (IS3 H3) as [G3 E3].
        split; [simpl; rewrite G2, G3; reflexivity | intros c; simpl; rewrite E1, E2, E3; reflexivity]. }
      split; [exact HS | apply weak_nonbin; [exact HS | discriminate]].
    - assert (HS : expr_ok D (ECat items) = true -> Sx (ECat items)).
      { cbn [expr_ok]. intros H. split.
        - simpl. f_equal. induction items as [|[a n] t IHt]; [reflexivity|].
          inversion IHitems as [|? ? Ha Ht]; subst. simpl in Ha. destruct Ha as [_ HaW].
          apply andb_true_iff in H. destruct H as [Hoa Hot].
          destruct (HaW Hoa) as [Gw _]. rewrite Gw. f_equal. apply IHt; assumption.
        - intros c. simpl. generalize (mkVec 0 0).
          induction items as [|[a n] t IHt]; intros acc; [reflexivity|].
          inversion IHitems as [|? ? Ha Ht]; subst. simpl in Ha. destruct Ha as [_ HaW].
          apply andb_true_iff in H. destruct H as [Hoa Hot].
          destruct (HaW Hoa) as [Gw Ew]. rewrite Gw, Ew. apply IHt; assumption. }
      split; [exact HS | apply weak_nonbin; [exact HS | discriminate]].
    - destruct IHe as [IS IW].
      assert (HS : expr_ok D (ECast w e) = true -> Sx (ECast w e)).
      { cbn [expr_ok]. intros H. apply andb_true_iff in H. destruct H as [H1 H2]. apply negb_true_iff in H2.
        destruct (IS H1) as [G E]. split.
        - simpl. rewrite G, H2. reflexivity.
        - intros c. simpl. rewrite G, E, H2. simpl. unfold ext. rewrite orb_true_r. reflexivity. }
      split; [exact HS | apply weak_nonbin; [exact HS | discriminate]].
    - destruct IHe as [IS IW].
      assert (HS : expr_ok D (ESign sg e) = true -> Sx (ESign sg e)).
      { cbn [expr_ok]. intros H. destruct (IW H) as [Gw Ew]. split.
        - simpl. rewrite Gw. reflexivity.
        - intros c. simpl. rewrite Gw, Ew. reflexivity. }
      split; [exact HS | apply weak_nonbin; [exact HS | discriminate]].
  Qed.

  Lemma gather_plain e : expr_ok D e = true -> sv_gather D (emit_plain e) = gather D e.
  Proof. intros H. apply (proj1 (emit_sound e) H). Qed.
  Lemma ev_plain e : expr_ok D e = true -> forall c, sv_ev md env D st c (emit_plain e) = ev md D st c e.
  Proof. intros H. apply (proj1 (emit_sound e) H). Qed.
  Lemma ev_plain_weak e : expr_okw D e = true ->
    sv_ev md env D st (sv_gather D (emit_plain e)) (emit_plain e) = ev md D st (gather D e) e.
  Proof. intros H. apply (proj2 (emit_sound e) H). Qed.
End Exprs.

(* the printed expression = emit_plain of the brace-normalised expression *)
Lemma gather_emit D e : expr_okc D e = true -> sv_gather D (emit_expr e) = gather D e.
Proof.
  intros H. unfold emit_expr. rewrite (gather_plain M4 (fun _ => false) D (fun _ => mkVec 0 0) (canon e) H).
  apply (canon_sound M4 D (fun _ => mkVec 0 0) e).
Qed.
Lemma ev_emit md env D st e : expr_okc D e = true -> forall c, sv_ev md env D st c (emit_expr e) = ev md D st c e.
Proof.
  intros H c. unfold emit_expr. rewrite (ev_plain md env D st (canon e) H c). apply (canon_sound md D st e).
Qed.
Lemma ev_emit_weak md env D st e : expr_okwc D e = true ->
  sv_ev md env D st (sv_gather D (emit_expr e)) (emit_expr e) = ev md D st (gather D e) e.
Proof.
  intros H. unfold emit_expr. rewrite (ev_plain_weak md env D st (canon e) H).
  destruct (canon_sound md D st e) as [G E]. rewrite G. apply E.
Qed.

(* ------------------------------------------------------------------ unfolding µSV statements *)
Definition sv_pick (md : mode) (env : senv) (D : decls) (st : state) (inside : bool) (cc : ctx) (sel : svexpr)
           (arms : list (list svexpr * list svstmt)) (dflt : list svstmt) : list svstmt :=
  (fix pick (l : list (list svexpr * list svstmt)) : list svstmt :=
     match l with
     | [] => dflt
     | (pats, body) :: r => if sv_arm_match md env D st inside cc sel pats then body else pick r
     end) arms.

Lemma go_sv_exec_list md env D l : forall p,
    (fix go (l : list svstmt) (p : pstate) : pstate :=
       match l with [] => p | s' :: r => go r (sv_exec md env D s' p) end) l p = sv_exec_list md env D l p.
Proof. induction l as [|a l IH]; intros p; [reflexivity|]. simpl. apply IH. Qed.

Lemma sv_exec_if md env D c t f p :
  sv_exec md env D (VIf c t f) p = sv_exec_list md env D (if sv_cond md env D (fst p) c then t else f) p.
Proof. simpl. apply go_sv_exec_list. Qed.

Lemma sv_exec_case md env D ins sel arms dflt p :
  sv_exec md env D (VCase ins sel arms dflt) p =
  sv_exec_list md env D (sv_pick md env D (fst p) ins (case_ctx D sel arms) sel arms dflt) p.
Proof.
  cbn [sv_exec]. unfold sv_pick. generalize (case_ctx D sel arms) as cc. intros cc.
  induction arms as [|[pats body] r IH].
  - apply go_sv_exec_list.
  - destruct (sv_arm_match md env D (fst p) ins cc sel pats); [apply go_sv_exec_list | apply IH].
Qed.

(* ------------------------------------------------------------------ stmt_ok in terms of forallb *)
Lemma go_ok D l :
  (fix go (l : list stmt) : bool := match l with [] => true | s' :: r => stmt_ok D s' && go r end) l
  = forallb (stmt_ok D) l.
Proof. induction l as [|a l IH]; [reflexivity|]. simpl. rewrite IH. reflexivity. Qed.

Definition arms_ok D (arms : list (list expr * list stmt)) : bool :=
  forallb (fun arm : list expr * list stmt => forallb (stmt_ok D) (snd arm)) arms.
Lemma pick_ok D arms :
  (fix pick (l : list (list expr * list stmt)) : bool :=
     match l with
     | [] => true
     | (_, body) :: r =>
         (fix go (l : list stmt) : bool := match l with [] => true | s' :: r => stmt_ok D s' && go r end) body &&
         pick r
     end) arms = arms_ok D arms.
Proof. induction arms as [|[p b] r IH]; [reflexivity|]. simpl. rewrite go_ok, IH. reflexivity. Qed.

Definition pats_ok D sel (arms : list (list expr * list stmt)) : bool :=
  if arms_2state arms
  then forallb (fun arm : list expr * list stmt => forallb (simple_pat D sel) (fst arm)) arms
  else forallb (fun arm : list expr * list stmt => forallb (expr_okc D) (fst arm)) arms.

Lemma stmt_ok_if D c t f :
  stmt_ok D (SIf c t f) = expr_okwc D c && forallb (stmt_ok D) t && forallb (stmt_ok D) f.
Proof. simpl. rewrite !go_ok. reflexivity. Qed.
Lemma stmt_ok_case D sel arms dflt :
  stmt_ok D (SCase sel arms dflt) = expr_okc D sel && pats_ok D sel arms && arms_ok D arms && forallb (stmt_ok D) dflt.
Proof. cbn [stmt_ok]. rewrite go_ok, pick_ok. reflexivity. Qed.

(* ------------------------------------------------------------------ conditions and case items *)
Lemma cond_emit md env D st c : expr_okc D c = true -> sv_cond md env D st (emit_expr c) = cond_true md D st c.
Proof. intros H. unfold sv_cond, cond_true. rewrite (gather_emit D c H), (ev_emit md env D st c H). reflexivity. Qed.

Lemma cond_emit_w md env D st c : expr_okwc D c = true -> sv_cond md env D st (emit_expr c) = cond_true md D st c.
Proof. intros H. unfold sv_cond, cond_true. rewrite (ev_emit_weak md env D st c H). reflexivity. Qed.

(* === against an item without x/z is ==? being true *)
Lemma weq_ceq md a b : vm b = 0 -> is_true (nz md (s_weq a b)) = ceq a b.
Proof.
  intros Hb. unfold s_weq, ceq. rewrite Hb, N.ldiff_0_r.
  destruct (N.eqb_spec (vm a) 0) as [Ha|Ha].
  - rewrite Ha, N.ldiff_0_r. simpl N.ldiff.
    destruct (N.eqb_spec (N.lxor (vp a) (vp b)) 0) as [Hx|Hx].
    + apply N.lxor_eq in Hx. rewrite Hx, !N.eqb_refl. destruct md; reflexivity.
    + destruct (N.eqb_spec (vp a) (vp b)) as [He|He].
      * exfalso. apply Hx. rewrite He. apply N.lxor_nilpotent.
      * destruct md; reflexivity.
  - rewrite andb_false_r.
    destruct (N.ldiff (N.lxor (vp a) (vp b)) (vm a) =? 0); simpl.
    + destruct (N.eqb_spec (N.ldiff (vm a) 0) 0) as [H0|H0].
      * rewrite N.ldiff_0_r in H0. contradiction.
      * destruct md; reflexivity.
    + destruct md; reflexivity.
Qed.

Definition emit_arm (nb : bool) (arm : list expr * list stmt) : list svexpr * list svstmt :=
  (map emit_expr (fst arm), map (emit_stmt nb) (snd arm)).

Definition nopat (arms : list (list expr * list stmt)) : bool :=
  forallb (fun arm : list expr * list stmt => match fst arm with [] => true | _ => false end) arms.

Lemma simple_pat_inv D sel p :
  simple_pat D sel p = true -> exists pv, p = ELit (cw (gather D sel)) false pv 0.
Proof.
  destruct p; simpl; try discriminate. intros H. apply andb3 in H. destruct H as (Hw & Hs & Hm).
  apply N.eqb_eq in Hw. apply N.eqb_eq in Hm. apply negb_true_iff in Hs. subst. exists p. reflexivity.
Qed.

Lemma fold_simple D sel pats : forall c,
    forallb (simple_pat D sel) pats = true -> cw c = cw (gather D sel) ->
    fold_left (fun c p => cmerge c (sv_gather D p)) (map emit_expr pats) c
    = mkCtx (cw (gather D sel)) (cs c && match pats with [] => true | _ => false end).
Proof.
  induction pats as [|p t IH]; intros c Hs Hw.
  - simpl. rewrite andb_true_r, <- Hw. destruct c; reflexivity.
  - simpl in Hs. apply andb_true_iff in Hs. destruct Hs as [Hp Ht].
    destruct (simple_pat_inv D sel p Hp) as [pv ->]. simpl.
    rewrite IH; [|exact Ht|unfold cmerge; simpl; rewrite Hw; apply N.max_id].
    unfold cmerge. simpl. rewrite !andb_false_r. reflexivity.
Qed.

Lemma case_ctx_simple D sel arms nb :
  expr_okc D sel = true ->
  forallb (fun arm : list expr * list stmt => forallb (simple_pat D sel) (fst arm)) arms = true ->
  case_ctx D (emit_expr sel) (map (emit_arm nb) arms) = mkCtx (cw (gather D sel)) (cs (gather D sel) && nopat arms).
Proof.
  intros Hsel. unfold case_ctx. rewrite (gather_emit D sel Hsel).
  assert (G : forall c, cw c = cw (gather D sel) ->
               forallb (fun arm : list expr * list stmt => forallb (simple_pat D sel) (fst arm)) arms = true ->
               fold_left (fun c (arm : list svexpr * list svstmt) =>
                            fold_left (fun c p => cmerge c (sv_gather D p)) (fst arm) c) (map (emit_arm nb) arms) c
               = mkCtx (cw (gather D sel)) (cs c && nopat arms)).
  { induction arms as [|[pats body] r IH]; intros c Hw Hs.
    - simpl. rewrite andb_true_r, <- Hw. destruct c; reflexivity.
    - simpl in Hs. apply andb_true_iff in Hs. destruct Hs as [Hp Hr]. simpl.
      rewrite (fold_simple D sel pats c Hp Hw). rewrite IH; [|reflexivity|exact Hr]. simpl.
      destruct pats; simpl; rewrite ?andb_true_r, ?andb_false_r; reflexivity. }
  intros Hs. apply G; [reflexivity|exact Hs].
Qed.

Lemma arm_match_plain md env D st sel pats cc :
  expr_okc D sel = true -> forallb (simple_pat D sel) pats = true ->
  (pats <> [] -> cc = mkCtx (cw (gather D sel)) false) ->
  sv_arm_match md env D st false cc (emit_expr sel) (map emit_expr pats) = arm_match md D st sel pats.
Proof.
  intros Hsel Hs Hcc. destruct pats as [|p0 t0]; [reflexivity|].
  rewrite (Hcc ltac:(discriminate)). clear Hcc. unfold sv_arm_match, arm_match.
  generalize dependent (p0 :: t0). intros pats Hs.
  induction pats as [|p t IH]; [reflexivity|].
  simpl in Hs. apply andb_true_iff in Hs. destruct Hs as [Hp Ht].
  cbn [map existsb]. rewrite (IH Ht). f_equal.
  destruct (simple_pat_inv D sel p Hp) as [pv ->].
  change (emit_expr (ELit (cw (gather D sel)) false pv 0)) with (XLit (cw (gather D sel)) false pv 0).
  unfold cond_true. cbn [gather ev sv_ev]. rewrite (ev_emit md env D st sel Hsel).
  unfold cmerge. cbn [cw cs]. rewrite N.max_id, !andb_false_r. cbn [andb].
  symmetry. apply weq_ceq.
  unfold ext. rewrite orb_true_r. destruct md; reflexivity.
Qed.

Lemma arm_match_inside md env D st sel pats cc :
  expr_okc D sel = true -> forallb (expr_okc D) pats = true ->
  sv_arm_match md env D st true cc (emit_expr sel) (map emit_expr pats) = arm_match md D st sel pats.
Proof.
  intros Hsel Hs. unfold sv_arm_match, arm_match.
  induction pats as [|p t IH]; [reflexivity|].
  simpl in Hs. apply andb_true_iff in Hs. destruct Hs as [Hp Ht].
  cbn [map existsb]. rewrite (IH Ht). f_equal.
  change (XBin BWeq (emit_expr sel) (emit_expr p)) with (emit_expr (EBin BWeq sel p)).
  apply cond_emit. unfold expr_okc in *. simpl. rewrite Hsel, Hp. reflexivity.
Qed.

Lemma nopat_false_in arms pats : forall body,
  In (pats, body) arms -> pats <> [] -> nopat arms = false.
Proof.
  induction arms as [|a r IH]; [contradiction|]. intros body [->|Hin] Hne; simpl.
  - destruct pats; [contradiction|reflexivity].
  - rewrite (IH _ Hin Hne). apply andb_false_r.
Qed.

(* the selected arm *)
Lemma pick_emit md env D st nb ins cc sel arms dflt :
  (forall pats body, In (pats, body) arms ->
                     sv_arm_match md env D st ins cc (emit_expr sel) (map emit_expr pats) = arm_match md D st sel pats) ->
  sv_pick md env D st ins cc (emit_expr sel) (map (emit_arm nb) arms) (map (emit_stmt nb) dflt)
  = map (emit_stmt nb) (pick_arm md D st sel arms dflt).
Proof.
  unfold sv_pick, pick_arm. induction arms as [|[pats body] r IH]; intros H; [reflexivity|].
  cbn [map emit_arm fst snd]. rewrite (H pats body (or_introl eq_refl)).
  destruct (arm_match md D st sel pats); [reflexivity|]. apply IH. intros p b Hin. apply (H p b). right. exact Hin.
Qed.

Lemma pick_emit_ok md env D st nb sel arms dflt :
  expr_okc D sel = true -> pats_ok D sel arms = true ->
  sv_pick md env D st (negb (arms_2state arms)) (case_ctx D (emit_expr sel) (map (emit_arm nb) arms))
          (emit_expr sel) (map (emit_arm nb) arms) (map (emit_stmt nb) dflt)
  = map (emit_stmt nb) (pick_arm md D st sel arms dflt).
Proof.
  intros Hsel Hp. apply pick_emit. intros pats body Hin. unfold pats_ok in Hp.
  destruct (arms_2state arms); cbn [negb].
  - rewrite forallb_forall in Hp. pose proof (Hp _ Hin) as Hpats. cbn [fst] in Hpats.
    apply arm_match_plain; [exact Hsel|exact Hpats|].
    intros Hne. rewrite (case_ctx_simple D sel arms nb Hsel); [|apply forallb_forall; exact Hp].
    rewrite (nopat_false_in arms pats body Hin Hne), andb_false_r. reflexivity.
  - rewrite forallb_forall in Hp. pose proof (Hp _ Hin) as Hpats. cbn [fst] in Hpats.
    apply arm_match_inside; assumption.
Qed.

Section Stmts.
  Variables (md : mode) (env : senv) (D : decls).

  (* what veryl does with a statement list: blocking (always_comb) or into the write log (always_ff) *)
  Definition vsem_list (nb : bool) (l : list stmt) (p : pstate) : pstate :=
    if nb then (fst p, nb_list md D (fst p) l (snd p)) else (exec_list md D l (fst p), snd p).
  Definition vsem (nb : bool) (s : stmt) (p : pstate) : pstate :=
    if nb then (fst p, nb_stmt md D (fst p) s (snd p)) else (exec_stmt md D s (fst p), snd p).

  Definition Pst (s : stmt) : Prop :=
    stmt_ok D s = true -> forall nb p, sv_exec md env D (emit_stmt nb s) p = vsem nb s p.

  Lemma sv_exec_list_cons s l p :
    sv_exec_list md env D (s :: l) p = sv_exec_list md env D l (sv_exec md env D s p).
  Proof. reflexivity. Qed.

  Lemma list_emit l :
    Forall Pst l -> forallb (stmt_ok D) l = true ->
    forall nb p, sv_exec_list md env D (map (emit_stmt nb) l) p = vsem_list nb l p.
  Proof.
    induction l as [|s l IH]; intros HP Hok nb p.
    - destruct nb, p; reflexivity.
    - inversion HP as [|? ? Hs Hl]; subst. simpl in Hok. apply andb_true_iff in Hok. destruct Hok as [Hos Hol].
      cbn [map]. rewrite sv_exec_list_cons.
      rewrite (Hs Hos nb p), (IH Hl Hol nb). destruct nb; reflexivity.
  Qed.

  Lemma actx_emit wl e : expr_okc D e = true -> sv_actx D wl (emit_expr e) = actx D wl e.
  Proof. intros H. unfold sv_actx, actx. rewrite (gather_emit D e H). reflexivity. Qed.

  Lemma stmt_emit s : Pst s.
  Proof.
    induction s as [x e | x hi lo e | c t f IHt IHf | sel arms dflt IHarms IHdflt] using stmt_ind'; unfold Pst.
    - simpl. intros Hok nb [st log].
      destruct nb; simpl; rewrite (actx_emit _ e Hok), (ev_emit md env D st e Hok); reflexivity.
    - simpl. intros Hok nb [st log].
      destruct nb; simpl; rewrite (actx_emit _ e Hok), (ev_emit md env D st e Hok); reflexivity.
    - rewrite stmt_ok_if. intros Hok nb [st log]. apply andb3 in Hok. destruct Hok as (Hc & Ht & Hf).
      cbn [emit_stmt]. rewrite sv_exec_if. cbn [fst]. rewrite (cond_emit_w md env D st c Hc).
      destruct (cond_true md D st c) eqn:Ec.
      + rewrite (list_emit t IHt Ht). unfold vsem_list, vsem. destruct nb; cbn [fst snd].
        * rewrite nb_if, Ec. reflexivity.
        * rewrite exec_if, Ec. reflexivity.
      + rewrite (list_emit f IHf Hf). unfold vsem_list, vsem. destruct nb; cbn [fst snd].
        * rewrite nb_if, Ec. reflexivity.
        * rewrite exec_if, Ec. reflexivity.
    - rewrite stmt_ok_case. intros Hok nb [st log].
      apply andb_true_iff in Hok. destruct Hok as [Hok Hd]. apply andb3 in Hok. destruct Hok as (Hsel & Hp & Ha).
      cbn [emit_stmt].
      change (map (fun arm : list expr * list stmt => (map emit_expr (fst arm), map (emit_stmt nb) (snd arm))) arms)
        with (map (emit_arm nb) arms).
      rewrite sv_exec_case. cbn [fst]. rewrite (pick_emit_ok md env D st nb sel arms dflt Hsel Hp).
      assert (HP : Forall Pst (pick_arm md D st sel arms dflt) /\
                   forallb (stmt_ok D) (pick_arm md D st sel arms dflt) = true).
      { destruct (pick_arm_cases md D st sel arms dflt) as [-> | (pats & Hin)]; [split; assumption|].
        split.
        - rewrite Forall_forall in IHarms. apply (IHarms _ Hin).
        - unfold arms_ok in Ha. rewrite forallb_forall in Ha. apply (Ha _ Hin). }
      destruct HP as [HP1 HP2]. rewrite (list_emit _ HP1 HP2). unfold vsem_list, vsem. destruct nb; cbn [fst snd].
      + rewrite nb_case. reflexivity.
      + rewrite exec_case. reflexivity.
  Qed.

  Lemma body_emit nb l p :
    forallb (stmt_ok D) l = true -> sv_exec_list md env D (map (emit_stmt nb) l) p = vsem_list nb l p.
  Proof. intros H. apply list_emit; [|exact H]. apply Forall_forall. intros s _. apply stmt_emit. Qed.
End Stmts.

(* ------------------------------------------------------------------ comb items *)
Lemma comb_item_emit md env c D it st :
  item_ok D it = true -> sv_comb_item md env D (emit_item c it) st = exec_item md D it st.
Proof.
  destruct it as [x e | body | [r|] body]; simpl; intros Hok; try reflexivity.
  - unfold sv_exec_list. simpl. rewrite (actx_emit D _ e Hok), (ev_emit md env D st e Hok). reflexivity.
  - rewrite (body_emit md env D false body (st, []) Hok). reflexivity.
Qed.

Lemma settle_emit md env c D comb : forallb (item_ok D) comb = true ->
  forall st, sv_settle md env D (map (emit_item c) comb) st = settle md D comb st.
Proof.
  induction comb as [|it l IH]; intros Hok st; [reflexivity|].
  simpl in Hok. apply andb_true_iff in Hok. destruct Hok as [H1 H2].
  unfold sv_settle, settle. cbn [map fold_left].
  rewrite (comb_item_emit md env c D it st H1). apply (IH H2).
Qed.

(* ------------------------------------------------------------------ (i) the clock / reset skeleton *)
Definition k_asserted (k : skind) : bool := match k with KClk => false | _ => true end.

(* at the sampling time step the emitted process wakes up exactly when veryl's events fire *)
Lemma triggered_sample_reset c k :
  triggered (emit_sens c true) (env_idle c) (env_sample c k)
  = match k with KRstOnly => spec_async (eff_reset c) | _ => true end.
Proof. destruct c as [[] [] [] [] []], k; reflexivity. Qed.
Lemma triggered_sample_noreset c k :
  triggered (emit_sens c false) (env_idle c) (env_sample c k) = match k with KRstOnly => false | _ => true end.
Proof. destruct c as [[] [] [] [] []], k; reflexivity. Qed.
(* the emitted reset test reads the level the testbench drives exactly as "asserted" *)
Lemma reset_test_sample md c k D st :
  sv_cond md (env_sample c k) D st (reset_test c) = k_asserted k.
Proof. destruct md, c as [[] [] [] [] []], k; reflexivity. Qed.
(* returning to the idle levels (inactive clock edge, reset deasserted) wakes no process *)
Definition env_prev_ok (c : cfg) (e : senv) : Prop := e = env_idle c \/ exists k, e = env_sample c k.
Lemma triggered_idle c e b : env_prev_ok c e -> triggered (emit_sens c b) e (env_idle c) = false.
Proof.
  intros [-> | [k ->]].
  - destruct c as [[] [] [] [] []], b; reflexivity.
  - destruct c as [[] [] [] [] []], b, k; reflexivity.
Qed.

Lemma ff_item_sample md c D k pre it log :
  item_ok D it = true ->
  sv_ff_item md (env_idle c) (env_sample c k) D pre (emit_item c it) log = vff_item md c D k pre it log.
Proof.
  destruct it as [x e | body | [r|] body]; cbn [emit_item sv_ff_item vff_item item_ok]; intros Hok; try reflexivity.
  - apply andb_true_iff in Hok. destruct Hok as [Hr Hb].
    rewrite triggered_sample_reset, !sim_clk_runs_reset_spec, sim_rst_event_spec.
    unfold sv_exec_list. cbn [fold_left]. rewrite sv_exec_if. cbn [fst]. rewrite reset_test_sample.
    destruct k; cbn [k_asserted].
    + rewrite (body_emit md _ D true body (pre, log) Hb). reflexivity.
    + rewrite (body_emit md _ D true r (pre, log) Hr). reflexivity.
    + destruct (spec_async (eff_reset c)); [|reflexivity].
      rewrite (body_emit md _ D true r (pre, log) Hr). reflexivity.
  - simpl in Hok. rewrite triggered_sample_noreset.
    destruct k; try reflexivity; rewrite (body_emit md _ D true body (pre, log) Hok); reflexivity.
Qed.

Lemma ff_item_idle md c D e pre it log :
  env_prev_ok c e -> sv_ff_item md e (env_idle c) D pre (emit_item c it) log = log.
Proof.
  intros He. destruct it as [x e0 | body | [r|] body]; cbn [emit_item sv_ff_item]; try reflexivity;
    rewrite (triggered_idle c e _ He); reflexivity.
Qed.

Lemma ffs_sample md c D k pre ffs : forallb (item_ok D) ffs = true -> forall log,
  fold_left (fun log it => sv_ff_item md (env_idle c) (env_sample c k) D pre it log) (map (emit_item c) ffs) log
  = fold_left (fun log it => vff_item md c D k pre it log) ffs log.
Proof.
  induction ffs as [|it l IH]; intros Hok log; [reflexivity|].
  simpl in Hok. apply andb_true_iff in Hok. destruct Hok as [H1 H2].
  cbn [map fold_left]. rewrite (ff_item_sample md c D k pre it log H1). apply (IH H2).
Qed.
Lemma ffs_idle md c D e pre ffs : env_prev_ok c e -> forall log,
  fold_left (fun log it => sv_ff_item md e (env_idle c) D pre it log) (map (emit_item c) ffs) log = log.
Proof.
  intros He. induction ffs as [|it l IH]; intros log; [reflexivity|].
  cbn [map fold_left]. rewrite (ff_item_idle md c D e pre it log He). apply IH.
Qed.

(* settling an already settled state changes nothing (holds for every acyclic single-driver comb network;
   Rtl/Frame.v run_idem reduces it to the idempotence of the single items) *)
Definition settle_idem (md : mode) (D : decls) (comb : list item) : Prop :=
  forall s, peq (settle md D comb (settle md D comb s)) (settle md D comb s).

Lemma peq_trans s1 s2 s3 : peq s1 s2 -> peq s2 s3 -> peq s1 s3.
Proof. intros A B x. rewrite (A x). apply B. Qed.
Lemma peq_refl s : peq s s. Proof. intro; reflexivity. Qed.

Lemma vff_item_ext md c D k pre pre' it log : peq pre pre' -> vff_item md c D k pre it log = vff_item md c D k pre' it log.
Proof.
  intros H. destruct it as [x e | body | [r|] body]; cbn [vff_item]; try reflexivity.
  - destruct k; try (apply nb_list_ext; exact H).
    destruct (sim_rst_event_runs_reset c); [apply nb_list_ext; exact H | reflexivity].
  - destruct k; try reflexivity; apply nb_list_ext; exact H.
Qed.
Lemma vffs_ext md c D k pre pre' ffs : peq pre pre' -> forall log,
  fold_left (fun log it => vff_item md c D k pre it log) ffs log
  = fold_left (fun log it => vff_item md c D k pre' it log) ffs log.
Proof.
  intros H. induction ffs as [|it l IH]; intros log; [reflexivity|].
  cbn [fold_left]. rewrite (vff_item_ext md c D k pre pre' it log H). apply IH.
Qed.

(* one stimulus cycle = the two time steps of `drive` *)
Lemma cycle_emit md c D comb ffs k ins e st st' :
  forallb (item_ok D) comb = true -> forallb (item_ok D) ffs = true -> settle_idem md D comb ->
  env_prev_ok c e -> peq st st' ->
  peq (sv_tstep md D (map (emit_item c) comb) (map (emit_item c) ffs) (env_idle c) (env_sample c k) []
         (sv_tstep md D (map (emit_item c) comb) (map (emit_item c) ffs) e (env_idle c) ins st))
      (veryl_step md c D comb ffs k ins st').
Proof.
  intros Hc Hf Hidem He Hst. unfold sv_tstep, veryl_step.
  rewrite !(settle_emit md _ c D comb Hc).
  rewrite (ffs_idle md c D e _ ffs He). cbn [commit fold_left set_inputs].
  rewrite (ffs_sample md c D k _ ffs Hf).
  set (S := settle md D comb).
  set (a1 := S (set_inputs md D ins st)).
  set (v2 := S (set_inputs md D ins st')).
  assert (H1 : peq a1 v2) by (apply settle_peq, set_inputs_peq, Hst).
  assert (H2 : peq (S (S a1)) v2).
  { apply peq_trans with (S a1); [apply Hidem|]. apply peq_trans with a1; [apply Hidem | exact H1]. }
  rewrite (vffs_ext md c D k (S (S a1)) v2 ffs H2).
  apply settle_peq, commit_peq, H2.
Qed.

Theorem run_emit md c D comb ffs outs : 
  forallb (item_ok D) comb = true -> forallb (item_ok D) ffs = true -> settle_idem md D comb ->
  forall stim e st st', env_prev_ok c e -> peq st st' ->
  sv_run md D (map (emit_item c) comb) (map (emit_item c) ffs) outs (drive c stim) e st
  = veryl_run md c D comb ffs outs stim st'.
Proof.
  intros Hc Hf Hidem. induction stim as [|[k ins] t IH]; intros e st st' He Hst; [reflexivity|].
  cbn [drive flat_map app sv_run veryl_run ev_env ev_ins ev_sample fst snd].
  pose proof (cycle_emit md c D comb ffs k ins e st st' Hc Hf Hidem He Hst) as Hcy.
  f_equal.
  - apply observe_peq, Hcy.
  - apply IH; [right; exists k; reflexivity | exact Hcy].
Qed.

(* settle_idem for comb networks in which no item reads a variable it writes (every `assign`, and every
   always_comb block that does not read its own targets back) *)
Definition noself (it : item) : bool := disjointb (iwrites it) (ireads it).

Lemma noself_idem md D it : noself it = true -> idem vec item (exec_item md D) it.
Proof.
  intros H s x. apply disjointb_spec in H.
  destruct (in_dec_N x (iwrites it)) as [i|n].
  - apply (item_frame_read md D it (exec_item md D it s) s); [|exact i].
    intros y Hy. apply item_frame_write. intro Hw. exact (H y Hw Hy).
  - apply item_frame_write, n.
Qed.

Lemma settle_idem_noself md D comb :
  topo_ok comb = true -> single_driver_ok comb = true -> forallb noself comb = true -> settle_idem md D comb.
Proof.
  intros T SD NS s. rewrite !settle_is_run.
  apply (run_idem vec item (exec_item md D) ireads iwrites (item_frame_write md D) (item_frame_read md D) comb
                  (topo_ok_sound comb T) (single_driver_ok_sound comb SD)).
  intros a Ha. apply noself_idem. rewrite forallb_forall in NS. apply NS, Ha.
Qed.

(* ------------------------------------------------------------------ the veryl side is the shared reference *)
Lemma vffs_is_ffs md c D (r : bool) pre ffs : forall log,
  fold_left (fun log it => vff_item md c D (if r then KClkRst else KClk) pre it log) ffs log
  = fold_left (fun log it => ff_item md D r pre it log) ffs log.
Proof.
  induction ffs as [|it l IH]; intros log; [reflexivity|]. cbn [fold_left]. rewrite <- IH. f_equal.
  destruct it as [x e | body | [rs|] body]; destruct r; cbn [vff_item ff_item]; rewrite ?sim_clk_runs_reset_spec; reflexivity.
Qed.

(* for every configuration, veryl's step (clock edge, with or without the reset asserted around it) is the
   step of the shared reference Rtl/Cycle.v: the simulator gives all 2 x 4 [build] settings and all declared
   port kinds the same cycle semantics *)
Theorem veryl_step_is_rtl_step md c D comb ffs (r : bool) ins st :
  veryl_step md c D comb ffs (if r then KClkRst else KClk) ins st = step md D comb ffs r ins st.
Proof. unfold veryl_step, step. rewrite vffs_is_ffs. reflexivity. Qed.

(* ------------------------------------------------------------------ full statement for self-read-free comb networks *)
Theorem run_emit_noself md c D comb ffs outs stim st :
  forallb (item_ok D) comb = true -> forallb (item_ok D) ffs = true ->
  topo_ok comb = true -> single_driver_ok comb = true -> forallb noself comb = true ->
  sv_run md D (map (emit_item c) comb) (map (emit_item c) ffs) outs (drive c stim) (env_idle c) st
  = veryl_run md c D comb ffs outs stim st.
Proof.
  intros Hc Hf T SD NS. apply run_emit; auto using settle_idem_noself, peq_refl. left. reflexivity.
Qed.

(* ------------------------------------------------------------------ finding: relational signedness
   y16 = (sa <: sb) + sc8  with sa, sb : signed 4 bit, sc8 : signed 8 bit = 8'hff.
   veryl types the comparison as signed (both operands are), so the whole sum is signed and sc8 is
   sign-extended: 16'hffff.  IEEE 1800 11.8.1: a comparison result is unsigned, the sum is unsigned, sc8 is
   zero-extended: 16'h00ff.  The emitter prints the expression operator for operator. *)
Definition rs_D := decls_of [mkDecl 4 true false KIn; mkDecl 4 true false KIn; mkDecl 8 true false KIn; mkDecl 16 false false KOut].
Definition rs_e := EBin BAdd (EBin BLt (EVar 0) (EVar 1)) (EVar 2).
Definition rs_st : state := fun x => if x =? 2 then mkVec 255 0 else mkVec 0 0.
Theorem relational_signedness_refuted :
  exists D e st env, sv_ev M4 env D st (sv_actx D 16 (emit_expr e)) (emit_expr e) <> ev M4 D st (actx D 16 e) e.
Proof. exists rs_D, rs_e, rs_st, (fun _ => false). vm_compute. discriminate. Qed.
