(* C01 — model of the emitter for the µRTL core (`emit`), the testbench convention (`drive`), and veryl's own
   meaning of a program under a clock/reset configuration (`veryl_step`, built from the pieces of Rtl/Cycle.v
   and the simulator's interpretation tables).  Definitions only. *)
From VV Require Export Sv.Sem Sv.ClockReset.
Open Scope N_scope.

(* ------------------------------------------------------------------ emit: expressions (operator for operator) *)
(* Brace removal (Emitter::factor, `remove_brace`): a concatenation with ONE item drops its own braces when
   that item is itself a concatenation (`{{a, b}}` prints `{a, b}`) or a repeat (`{a repeat n}` prints the bare
   replication `{n{a}}`).  In the µSV AST a replication that stands as an item of an enclosing concatenation
   is the counted item (a, n), so `{x, {a repeat n}}` reads back as the items (x, 1), (a, n).  [canon] brings
   a Veryl expression to the form whose item structure is what the printed text shows. *)
Definition canon_item (a : expr) (n : N) : expr * N :=
  match a, n with
  | ECat [(b, m)], 1 => if m =? 1 then (a, n) else (b, m)
  | _, _ => (a, n)
  end.
Definition canon_top (its : list (expr * N)) : expr :=
  match its with
  | [(ECat inner, 1)] => ECat inner
  | _ => ECat its
  end.
Fixpoint canon (e : expr) {struct e} : expr :=
  match e with
  | ELit _ _ _ _ | EVar _ | ESel _ _ _ => e
  | EUn o a => EUn o (canon a)
  | EBin o a b => EBin o (canon a) (canon b)
  | ETern c a b => ETern (canon c) (canon a) (canon b)
  | ECat items =>
      canon_top ((fix go (l : list (expr * N)) : list (expr * N) :=
                    match l with [] => [] | (a, n) :: t => canon_item (canon a) n :: go t end) items)
  | ECast w a => ECast w (canon a)
  | ESign sg a => ESign sg (canon a)
  end.

Fixpoint emit_plain (e : expr) {struct e} : svexpr :=
  match e with
  | ELit w sg p m => XLit w sg p m
  | EVar x => XVar x
  | ESel x hi lo => XSel x hi lo
  | EUn o a => XUn o (emit_plain a)
  | EBin o a b => XBin o (emit_plain a) (emit_plain b)            (* <: >: are spelled < > *)
  | ETern c a b => XTern (emit_plain c) (emit_plain a) (emit_plain b)   (* ((c) ? (a) : (b)) *)
  | ECat items => XCat ((fix go (l : list (expr * N)) : list (svexpr * N) :=
                           match l with [] => [] | (a, n) :: t => (emit_plain a, n) :: go t end) items)
                                                                 (* `a repeat n` is spelled {n{a}} *)
  | ECast w a => XCast w (emit_plain a)                          (* `a as w` is spelled w'(a) *)
  | ESign sg a => XSign sg (emit_plain a)
  end.
Definition emit_expr (e : expr) : svexpr := emit_plain (canon e).

(* a case statement is printed as plain `case` when every item is a 2-state value, else as `case inside`
   (Emitter::is_simple_case_statement) *)
Definition lit_2state (e : expr) : bool := match e with ELit _ _ _ m => m =? 0 | _ => true end.
Definition arms_2state (arms : list (list expr * list stmt)) : bool :=
  forallb (fun arm : list expr * list stmt => forallb lit_2state (fst arm)) arms.

(* statements: `nb` = inside always_ff (every assignment becomes non-blocking) *)
Fixpoint emit_stmt (nb : bool) (s : stmt) {struct s} : svstmt :=
  match s with
  | SAssign x e => if nb then VNb x (emit_expr e) else VBlock x (emit_expr e)
  | SAssignSel x hi lo e => if nb then VNbSel x hi lo (emit_expr e) else VBlockSel x hi lo (emit_expr e)
  | SIf c t f => VIf (emit_expr c) (map (emit_stmt nb) t) (map (emit_stmt nb) f)
  | SCase sel arms dflt =>
      VCase (negb (arms_2state arms)) (emit_expr sel)
            (map (fun arm : list expr * list stmt => (map emit_expr (fst arm), map (emit_stmt nb) (snd arm))) arms)
            (map (emit_stmt nb) dflt)
  end.

(* the if_reset test: `if (rst)` / `if (!rst)` *)
Definition reset_test (c : cfg) : svexpr :=
  if em_reset_negated c then XUn ULogNot (XSig SRst) else XSig SRst.
Definition emit_sens (c : cfg) (with_reset : bool) : list (edge * sig) :=
  (em_clock_edge c, SClk) ::
  (if with_reset then match em_reset_sens c with Some e => [(e, SRst)] | None => [] end else []).

Definition emit_item (c : cfg) (it : item) : svitem :=
  match it with
  | IAssign x e => VComb [VBlock x (emit_expr e)]              (* `assign` is printed as `always_comb x = e;` *)
  | IComb body => VComb (map (emit_stmt false) body)
  | IFf (Some r) body =>
      VFf (emit_sens c true) [VIf (reset_test c) (map (emit_stmt true) r) (map (emit_stmt true) body)]
  | IFf None body => VFf (emit_sens c false) (map (emit_stmt true) body)
  end.

Definition emit (c : cfg) (m : module) : svmodule := mkSv (m_decls m) (map (emit_item c) (m_items m)).

(* ------------------------------------------------------------------ stimulus and the testbench convention *)
(* a stimulus cycle: the inputs, and what happens at its sampling point *)
Inductive skind :=
| KClk        (* one active clock edge, reset deasserted                       Simulator::step(clock) *)
| KClkRst     (* one active clock edge with the reset asserted around it       Simulator::step_reset(clock, reset) *)
| KRstOnly.   (* the reset asserts and no clock edge happens                   set_reset_level(true); Simulator::step(reset) *)
Definition stimulus := list (skind * list (N * vec)).

(* signal levels, from the MEANING of the configuration (never from the emitter's or simulator's tables) *)
Definition clk_level (c : cfg) (active : bool) : bool :=
  match spec_edge (eff_clock c) with Pos => active | Neg => negb active end.
Definition rst_level (c : cfg) (asserted : bool) : bool :=
  if spec_active_low (eff_reset c) then negb asserted else asserted.
Definition mk_env (c : cfg) (clk_active rst_asserted : bool) : senv :=
  fun s => match s with SClk => clk_level c clk_active | SRst => rst_level c rst_asserted end.

Definition env_idle (c : cfg) : senv := mk_env c false false.
Definition env_sample (c : cfg) (k : skind) : senv :=
  match k with
  | KClk => mk_env c true false
  | KClkRst => mk_env c true true
  | KRstOnly => mk_env c false true
  end.

(* each cycle is two time steps: (1) the inputs change, the clock returns to its inactive level and the
   reset is deasserted; (2) the active clock edge and/or the assertion of the reset, in ONE time step (the
   reset is asserted "around" the edge, as Simulator::step_reset does); the outputs are sampled after (2) *)
Definition drive (c : cfg) (stim : stimulus) : list tevent :=
  flat_map (fun ki : skind * list (N * vec) =>
              [mkEv (env_idle c) (snd ki) false; mkEv (env_sample c (fst ki)) [] true]) stim.

(* ------------------------------------------------------------------ veryl's own semantics under a configuration *)
(* the always_ff lowering of crates/simulator/src/ir/declaration.rs: the clock event holds
   `if (reset net) ..` with the polarity in the branch order, an asynchronous reset also has an event of
   its own running the if_reset branch; Simulator::set_reset_level drives the net.  (In a KClkRst step the
   real simulator fires both events and commits once; the if_reset branch assigns constants, so running it
   twice against the same pre-edge state writes the same values: modelled as one run, as Rtl/Cycle.v does.) *)
Definition vff_item (md : mode) (c : cfg) (D : decls) (k : skind) (pre : state) (it : item) (log : list wentry)
  : list wentry :=
  match it with
  | IFf (Some r) body =>
      match k with
      | KClk => nb_list md D pre (if sim_clk_runs_reset c false then r else body) log
      | KClkRst => nb_list md D pre (if sim_clk_runs_reset c true then r else body) log
      | KRstOnly => if sim_rst_event_runs_reset c then nb_list md D pre r log else log
      end
  | IFf None body => match k with KRstOnly => log | _ => nb_list md D pre body log end
  | _ => log
  end.

Definition veryl_step (md : mode) (c : cfg) (D : decls) (comb ffs : list item) (k : skind)
           (ins : list (N * vec)) (st : state) : state :=
  let st1 := set_inputs md D ins st in
  let st2 := settle md D comb st1 in
  let log := fold_left (fun log it => vff_item md c D k st2 it log) ffs [] in
  let st3 := commit md D log st2 in
  settle md D comb st3.

Fixpoint veryl_run (md : mode) (c : cfg) (D : decls) (comb ffs : list item) (outs : list N)
         (stim : stimulus) (st : state) : list (list vec) :=
  match stim with
  | [] => []
  | (k, ins) :: t =>
      let st' := veryl_step md c D comb ffs k ins st in
      observe outs st' :: veryl_run md c D comb ffs outs t st'
  end.

(* ------------------------------------------------------------------ the core on which emit is proved *)
(* expressions on which veryl's typing coincides with IEEE 1800 (see Sv/Sem.v).
   A relational operator with two signed operands is signed for veryl and unsigned for the standard; where
   only the WIDTH and the VALUE of an operand matter (operands of ! && || and of the reductions, shift
   amounts, ?: conditions, concatenation items, $signed/$unsigned arguments, if conditions) that difference
   is invisible and such a comparison is admitted (okw_with); everywhere else it is excluded. *)
Definition rel_op (o : binop) : bool := match o with BLt | BLe | BGt | BGe => true | _ => false end.
Definition okw_with (ok : expr -> bool) (a : expr) : bool :=
  ok a || match a with EBin o a1 a2 => rel_op o && ok a1 && ok a2 | _ => false end.

Fixpoint expr_ok (D : decls) (e : expr) {struct e} : bool :=
  match e with
  | ELit _ _ _ _ | EVar _ => true
  | ESel x _ _ => negb (d_signed (D x))
  | EUn o a => if un_selfdet o then okw_with (expr_ok D) a else expr_ok D a
  | EBin o a b =>
      match o with
      | BLand | BLor => okw_with (expr_ok D) a && okw_with (expr_ok D) b
      | BShl | BShr | BAshl | BAshr => expr_ok D a && okw_with (expr_ok D) b
      | BLt | BLe | BGt | BGe => expr_ok D a && expr_ok D b && negb (cs (gather D a) && cs (gather D b))
      | _ => expr_ok D a && expr_ok D b
      end
  | ETern c a b => okw_with (expr_ok D) c && expr_ok D a && expr_ok D b
  | ECat items =>
      (fix go (l : list (expr * N)) : bool :=
         match l with [] => true | (a, _) :: t => okw_with (expr_ok D) a && go t end) items
  | ECast _ a => expr_ok D a && negb (cs (gather D a))
  | ESign _ a => okw_with (expr_ok D) a
  end.
Definition expr_okw (D : decls) : expr -> bool := okw_with (expr_ok D).
(* ... of the expression as printed (after brace removal) *)
Definition expr_okc (D : decls) (e : expr) : bool := expr_ok D (canon e).
Definition expr_okwc (D : decls) (e : expr) : bool := expr_okw D (canon e).

(* a plain `case` compares at the width of the widest item: the items must be unsigned 2-state literals of
   the selector's width (what the generator produces); a `case inside` has no such condition *)
Definition simple_pat (D : decls) (sel : expr) (p : expr) : bool :=
  match p with
  | ELit w sg _ m => (w =? cw (gather D sel)) && negb sg && (m =? 0)
  | _ => false
  end.

Fixpoint stmt_ok (D : decls) (s : stmt) {struct s} : bool :=
  match s with
  | SAssign _ e => expr_okc D e
  | SAssignSel _ _ _ e => expr_okc D e
  | SIf c t f =>
      expr_okwc D c &&
      (fix go (l : list stmt) : bool := match l with [] => true | s' :: r => stmt_ok D s' && go r end) t &&
      (fix go (l : list stmt) : bool := match l with [] => true | s' :: r => stmt_ok D s' && go r end) f
  | SCase sel arms dflt =>
      expr_okc D sel &&
      (if arms_2state arms
       then forallb (fun arm : list expr * list stmt => forallb (simple_pat D sel) (fst arm)) arms
       else forallb (fun arm : list expr * list stmt => forallb (expr_okc D) (fst arm)) arms) &&
      (fix pick (l : list (list expr * list stmt)) : bool :=
         match l with
         | [] => true
         | (_, body) :: r =>
             (fix go (l : list stmt) : bool := match l with [] => true | s' :: r => stmt_ok D s' && go r end) body &&
             pick r
         end) arms &&
      (fix go (l : list stmt) : bool := match l with [] => true | s' :: r => stmt_ok D s' && go r end) dflt
  end.

Definition item_ok (D : decls) (it : item) : bool :=
  match it with
  | IAssign _ e => expr_okc D e
  | IComb body => forallb (stmt_ok D) body
  | IFf r body => match r with Some l => forallb (stmt_ok D) l | None => true end && forallb (stmt_ok D) body
  end.
