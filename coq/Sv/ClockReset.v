(* C01 — clock / reset configuration: what the names MEAN (prefix spec_), what the emitter prints for them
   (prefix em_, from Sv/GeneratedClockReset.v), how the simulator interprets them (prefixes sim_ / test_, from the
   same generated file), and the executable agreement check.  Definitions only; proofs in Sv/ClockResetProofs.v. *)
From Coq Require Import List Bool.
Import ListNotations.
From VV Require Export Sv.ClockResetTypes Sv.GeneratedClockReset.

(* a configuration: the two [build] options, the declared kinds of the clock and reset ports, and
   whether always_ff names its clock/reset explicitly (`always_ff (clk, rst) {`) or not (`always_ff {`) *)
Record cfg := mkCfg { c_clock : clock_type; c_reset : reset_type; c_ck : ckind; c_rk : rkind; c_explicit : bool }.

Definition default_cfg := mkCfg PosEdge AsyncLow CkClock RkReset false.

(* ------------------------------------------------------------------ the meaning of the names *)
Definition spec_clock_type (k : ckind) (b : clock_type) : clock_type :=
  match k with CkClock => b | CkPos => PosEdge | CkNeg => NegEdge end.
Definition spec_reset_type (k : rkind) (b : reset_type) : reset_type :=
  match k with
  | RkReset => b | RkAsyncHigh => AsyncHigh | RkAsyncLow => AsyncLow | RkSyncHigh => SyncHigh | RkSyncLow => SyncLow
  end.
Definition spec_edge (t : clock_type) : edge := match t with PosEdge => Pos | NegEdge => Neg end.
Definition spec_active_low (t : reset_type) : bool := match t with AsyncLow | SyncLow => true | _ => false end.
Definition spec_async (t : reset_type) : bool := match t with AsyncLow | AsyncHigh => true | _ => false end.

Definition eff_clock (c : cfg) : clock_type := spec_clock_type (c_ck c) (c_clock c).
Definition eff_reset (c : cfg) : reset_type := spec_reset_type (c_rk c) (c_reset c).

(* ------------------------------------------------------------------ what the emitter prints *)
Definition em_clock_edge (c : cfg) : edge :=
  if c_explicit c then em_explicit_clock_edge (em_explicit_clock_type (c_ck c) (c_clock c))
  else em_implicit_clock_edge (em_implicit_clock_type (c_ck c) (c_clock c)).
Definition em_reset_type (c : cfg) : reset_type :=
  if c_explicit c then em_explicit_reset_type (c_rk c) (c_reset c) else em_implicit_reset_type (c_rk c) (c_reset c).
(* the reset entry of the sensitivity list *)
Definition em_reset_sens (c : cfg) : option edge :=
  if c_explicit c then em_explicit_reset_sens (em_reset_type c) else em_implicit_reset_sens (em_reset_type c).
(* `if (!rst)` rather than `if (rst)` *)
Definition em_reset_negated (c : cfg) : bool :=
  em_if_reset_negates (if c_explicit c then em_explicit_reset_active_low (em_reset_type c)
                       else em_implicit_reset_active_low (em_reset_type c)).
(* explicit list: the separator before the reset entry is printed iff this holds; it must coincide with
   the entry itself being printed, otherwise the text is not SystemVerilog *)
Definition em_list_wellformed (c : cfg) : bool :=
  eqb (em_in_sens (c_rk c) (c_reset c)) (match em_explicit_reset_sens (em_explicit_reset_type (c_rk c) (c_reset c)) with
                                         | Some _ => true | None => false end).

(* ------------------------------------------------------------------ how the simulator interprets *)
(* Config as `veryl test` derives it from [build] reset_type *)
Definition sim_async (c : cfg) : bool := sim_decl_is_async (c_rk c) (test_cfg_sync (c_reset c)).
Definition sim_low_decl (c : cfg) : bool := sim_decl_active_low (c_rk c) (test_cfg_high (c_reset c)).
Definition sim_low_ir (c : cfg) : bool := sim_ir_active_low (c_rk c) (test_cfg_high (c_reset c)).
(* level of the reset net while asserted / deasserted (Simulator::set_reset_level) *)
Definition sim_net (c : cfg) (asserted : bool) : bool := sim_level_high asserted (sim_low_ir c).
(* the clock event's `if (reset net)`: does the if_reset branch run? *)
Definition sim_clk_runs_reset (c : cfg) (asserted : bool) : bool :=
  if sim_net c asserted then sim_net1_runs_reset (sim_low_decl c) else negb (sim_net1_runs_reset (sim_low_decl c)).
(* the reset's own event exists and runs the if_reset branch *)
Definition sim_rst_event_runs_reset (c : cfg) : bool :=
  sim_has_reset_event (sim_async c) && sim_reset_event_runs_reset_branch.

(* ------------------------------------------------------------------ executable agreement *)
Definition edge_eqb (a b : edge) : bool := match a, b with Pos, Pos | Neg, Neg => true | _, _ => false end.
Definition oedge_eqb (a b : option edge) : bool :=
  match a, b with Some x, Some y => edge_eqb x y | None, None => true | _, _ => false end.
Definition ct_eqb (a b : clock_type) : bool := match a, b with PosEdge, PosEdge | NegEdge, NegEdge => true | _, _ => false end.
Definition rt_eqb (a b : reset_type) : bool :=
  match a, b with AsyncLow, AsyncLow | AsyncHigh, AsyncHigh | SyncLow, SyncLow | SyncHigh, SyncHigh => true | _, _ => false end.

Definition spec_reset_sens (t : reset_type) : option edge :=
  if spec_async t then Some (if spec_active_low t then Neg else Pos) else None.

Definition clock_tables_ok : bool :=
  forallb (fun k => forallb (fun b =>
     ct_eqb (em_implicit_clock_type k b) (spec_clock_type k b) && ct_eqb (em_explicit_clock_type k b) (spec_clock_type k b))
     all_clock_type) all_ckind &&
  forallb (fun t => edge_eqb (em_implicit_clock_edge t) (spec_edge t) && edge_eqb (em_explicit_clock_edge t) (spec_edge t))
          all_clock_type.

Definition reset_emitter_tables_ok : bool :=
  forallb (fun k => forallb (fun b =>
     rt_eqb (em_implicit_reset_type k b) (spec_reset_type k b) && rt_eqb (em_explicit_reset_type k b) (spec_reset_type k b) &&
     eqb (em_in_sens k b) (spec_async (spec_reset_type k b)))
     all_reset_type) all_rkind &&
  forallb (fun t =>
     oedge_eqb (em_implicit_reset_sens t) (spec_reset_sens t) && oedge_eqb (em_explicit_reset_sens t) (spec_reset_sens t) &&
     eqb (em_implicit_reset_active_low t) (spec_active_low t) && eqb (em_explicit_reset_active_low t) (spec_active_low t))
     all_reset_type &&
  eqb (em_if_reset_negates true) true && eqb (em_if_reset_negates false) false.

Definition reset_simulator_tables_ok : bool :=
  forallb (fun k => forallb (fun b =>
     eqb (sim_decl_active_low k (test_cfg_high b)) (spec_active_low (spec_reset_type k b)) &&
     eqb (sim_ir_active_low k (test_cfg_high b)) (spec_active_low (spec_reset_type k b)) &&
     eqb (sim_decl_is_async k (test_cfg_sync b)) (spec_async (spec_reset_type k b)))
     all_reset_type) all_rkind &&
  eqb (sim_has_reset_event true) true && eqb (sim_has_reset_event false) false && sim_reset_event_runs_reset_branch &&
  eqb (sim_net1_runs_reset true) false && eqb (sim_net1_runs_reset false) true &&
  forallb (fun a => forallb (fun l => eqb (sim_level_high a l) (xorb a l)) [true; false]) [true; false].
