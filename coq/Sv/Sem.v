(* µSV — typing (IEEE 1800-2017 11.6 / 11.8), expression evaluation over BV/Ops1800.v, statements,
   processes and the time-step (event) semantics.  This file is OUR READING of IEEE 1800 for the fragment
   of Sv/Syntax.v; it is in the trusted base of C01 (no SystemVerilog simulator exists in the sandbox).

   Where veryl's own typing (Rtl/Eval.v gather) deviates from the standard, this file follows the standard:
     - a relational operator yields an UNSIGNED 1-bit value (11.8.1)           veryl: signed iff both operands are
     - a part select is UNSIGNED (11.8.1)                                       veryl: keeps the variable's signedness
     - a size cast w'(e) passes the signedness of e through (6.24.1)            veryl: unsigned
   Known simplification (documented in design/C01.md): a `?:` whose condition is x/z takes the else
   operand (the standard merges both operands bitwise); runs in which any x/z occurs are never compared.

   Value modes as in Rtl/Eval.v: M4 = the standard's 4-state values; M2 = a 2-state shadow (every operator
   result has its x/z mask dropped) used only to detect runs in which an x/z was produced and absorbed.

   Definitions only. *)
From VV Require Export Rtl.Cycle Sv.Syntax.
Open Scope N_scope.

Definition senv := sig -> bool.                      (* current level of the clock and of the reset *)
Definition sig_vec (b : bool) : vec := mkVec (if b then 1 else 0) 0.

(* ------------------------------------------------------------------ self-determined type (11.6.1, 11.8.1) *)
Fixpoint sv_gather (D : decls) (e : svexpr) {struct e} : ctx :=
  match e with
  | XLit w sg _ _ => mkCtx w sg
  | XVar x => mkCtx (d_width (D x)) (d_signed (D x))
  | XSig _ => mkCtx 1 false
  | XSel _ hi lo => mkCtx (hi - lo + 1) false
  | XUn o a => if un_selfdet o then mkCtx 1 false else sv_gather D a
  | XBin o a b =>
      let ga := sv_gather D a in
      let gb := sv_gather D b in
      match o with
      | BAdd | BSub | BMul | BDiv | BRem | BAnd | BOr | BXor | BXnor => cmerge ga gb
      | BShl | BShr | BAshl | BAshr | BPow => ga
      | _ => mkCtx 1 false
      end
  | XTern _ a b => cmerge (sv_gather D a) (sv_gather D b)
  | XCat items =>
      mkCtx ((fix go (l : list (svexpr * N)) : N :=
                match l with
                | [] => 0
                | (a, n) :: t => cw (sv_gather D a) * n + go t
                end) items) false
  | XCast w a => mkCtx w (cs (sv_gather D a))
  | XSign sg a => mkCtx (cw (sv_gather D a)) sg
  end.

(* ------------------------------------------------------------------ evaluation in a context (11.6.2, 11.8.2) *)
Fixpoint sv_ev (md : mode) (env : senv) (D : decls) (st : state) (c : ctx) (e : svexpr) {struct e} : vec :=
  match e with
  | XLit w sg p m => ext (sg && cs c) w (cw c) (nz md (mkVec p m))
  | XVar x => ext (d_signed (D x) && cs c) (d_width (D x)) (cw c) (st x)
  | XSig s => sig_vec (env s)
  | XSel x hi lo => select hi lo (st x)
  | XUn o a =>
      match o with
      | UPlus => sv_ev md env D st c a
      | UMinus => nz md (s_neg (cw c) (sv_ev md env D st c a))
      | UBitNot => nz md (s_not (cw c) (sv_ev md env D st c a))
      | _ =>
          let g := sv_gather D a in
          let v := sv_ev md env D st g a in
          nz md (match o with
                 | ULogNot => s_lnot v
                 | URAnd => s_red_and (cw g) v
                 | URNand => s_red_nand (cw g) v
                 | UROr => s_red_or (cw g) v
                 | URNor => s_red_nor (cw g) v
                 | URXor => s_red_xor (cw g) v
                 | _ => s_red_xnor (cw g) v
                 end)
      end
  | XBin o a b =>
      match o with
      | BAdd => nz md (s_add (cw c) (sv_ev md env D st c a) (sv_ev md env D st c b))
      | BSub => nz md (s_sub (cw c) (sv_ev md env D st c a) (sv_ev md env D st c b))
      | BMul => nz md (s_mul (cw c) (sv_ev md env D st c a) (sv_ev md env D st c b))
      | BDiv => nz md (s_div (cs c) (cw c) (sv_ev md env D st c a) (sv_ev md env D st c b))
      | BRem => nz md (s_rem (cs c) (cw c) (sv_ev md env D st c a) (sv_ev md env D st c b))
      | BAnd => nz md (s_and (cw c) (sv_ev md env D st c a) (sv_ev md env D st c b))
      | BOr => nz md (s_or (cw c) (sv_ev md env D st c a) (sv_ev md env D st c b))
      | BXor => nz md (s_xor (cw c) (sv_ev md env D st c a) (sv_ev md env D st c b))
      | BXnor => nz md (s_xnor (cw c) (sv_ev md env D st c a) (sv_ev md env D st c b))
      | BShl | BAshl =>
          nz md (s_shl (cw c) (sv_ev md env D st c a) (amount (cw c) (sv_ev md env D st (sv_gather D b) b)))
      | BShr => nz md (s_shr (cw c) (sv_ev md env D st c a) (amount (cw c) (sv_ev md env D st (sv_gather D b) b)))
      | BAshr =>
          nz md (s_ashr (cs c) (cw c) (sv_ev md env D st c a) (amount (cw c) (sv_ev md env D st (sv_gather D b) b)))
      | BPow =>
          let gb := sv_gather D b in
          let vb := sv_ev md env D st gb b in
          nz md (s_pow (cs c) (cw c) (sv_ev md env D st c a)
                       (if known vb then Some (if cs gb then sval (cw gb) (vp vb) else Z.of_N (vp vb))
                        else None))
      | BLt | BLe | BGt | BGe =>
          let m := cmerge (sv_gather D a) (sv_gather D b) in
          nz md (s_rel (cs m) (cw m) (sv_ev md env D st m a) (sv_ev md env D st m b) (rel_fn o))
      | BEq | BNe | BWeq | BWne =>
          let m := cmerge (sv_gather D a) (sv_gather D b) in
          let va := sv_ev md env D st m a in
          let vb := sv_ev md env D st m b in
          nz md (match o with
                 | BEq => s_eq va vb | BNe => s_ne va vb | BWeq => s_weq va vb | _ => s_wne va vb
                 end)
      | BLand => nz md (s_land (sv_ev md env D st (sv_gather D a) a) (sv_ev md env D st (sv_gather D b) b))
      | BLor => nz md (s_lor (sv_ev md env D st (sv_gather D a) a) (sv_ev md env D st (sv_gather D b) b))
      end
  | XTern c0 a b =>
      if is_true (sv_ev md env D st (sv_gather D c0) c0) then sv_ev md env D st c a else sv_ev md env D st c b
  | XCat items =>
      (fix go (l : list (svexpr * N)) (acc : vec) : vec :=
         match l with
         | [] => acc
         | (a, n) :: t =>
             let g := sv_gather D a in
             let v := sv_ev md env D st g a in
             go t (cat2 acc (cw g * n) (repl_nat (cw g) v (N.to_nat n)))
         end) items (mkVec 0 0)
  | XCast w a =>
      (* 6.24.1: the value a packed [w-1:0] vector holds after being assigned e; signedness passes through *)
      let g := sv_gather D a in
      ext (cs g && cs c) w (cw c) (trunc w (sv_ev md env D st (mkCtx (N.max (cw g) w) (cs g)) a))
  | XSign sg a =>
      let g := sv_gather D a in
      ext (sg && cs c) (cw g) (cw c) (sv_ev md env D st g a)
  end.

(* 10.7: the right-hand side of an assignment is evaluated at max(width lhs, width rhs) with the
   signedness of the right-hand side alone *)
Definition sv_actx (D : decls) (wl : N) (e : svexpr) : ctx :=
  let g := sv_gather D e in mkCtx (N.max (cw g) wl) (cs g).

(* 12.4: the branch is taken iff the condition has a known non-zero value *)
Definition sv_cond (md : mode) (env : senv) (D : decls) (st : state) (c : svexpr) : bool :=
  is_true (sv_ev md env D st (sv_gather D c) c).

(* 12.5: `case`: all expressions are sized to the widest of the selector and ALL item expressions, signed
   only if all of them are; an item matches when it is identical to the selector bit for bit (x and z included) *)
Definition case_ctx (D : decls) (sel : svexpr) (arms : list (list svexpr * list svstmt)) : ctx :=
  fold_left (fun c (arm : list svexpr * list svstmt) => fold_left (fun c p => cmerge c (sv_gather D p)) (fst arm) c)
            arms (sv_gather D sel).
Definition ceq (a b : vec) : bool := (vp a =? vp b) && (vm a =? vm b).
(* 12.5.4: `case inside`: each item is compared like `sel inside {item}`, i.e. with ==? (x/z of the item are wildcards) *)
Definition sv_arm_match (md : mode) (env : senv) (D : decls) (st : state) (inside : bool) (cc : ctx)
           (sel : svexpr) (pats : list svexpr) : bool :=
  if inside then existsb (fun p => sv_cond md env D st (XBin BWeq sel p)) pats
  else existsb (fun p => ceq (sv_ev md env D st cc sel) (sv_ev md env D st cc p)) pats.

(* ------------------------------------------------------------------ statements *)
(* A process body runs against the current state; a blocking assignment updates it at once, a non-blocking
   assignment evaluates its right-hand side now and schedules the update (appends to the NBA queue). *)
Definition pstate := (state * list wentry)%type.

Fixpoint sv_exec (md : mode) (env : senv) (D : decls) (s : svstmt) (p : pstate) {struct s} : pstate :=
  match s with
  | VBlock x e =>
      (upd (fst p) x (stored md D x (sv_ev md env D (fst p) (sv_actx D (d_width (D x)) e) e)), snd p)
  | VBlockSel x hi lo e =>
      (upd (fst p) x (stored md D x (insert hi lo (sv_ev md env D (fst p) (sv_actx D (hi - lo + 1) e) e) (fst p x))), snd p)
  | VNb x e =>
      (fst p, snd p ++ [(x, (d_width (D x) - 1, 0), sv_ev md env D (fst p) (sv_actx D (d_width (D x)) e) e)])
  | VNbSel x hi lo e =>
      (fst p, snd p ++ [(x, (hi, lo), sv_ev md env D (fst p) (sv_actx D (hi - lo + 1) e) e)])
  | VIf c t f =>
      (fix go (l : list svstmt) (p : pstate) : pstate :=
         match l with [] => p | s' :: r => go r (sv_exec md env D s' p) end)
        (if sv_cond md env D (fst p) c then t else f) p
  | VCase inside sel arms dflt =>
      let cc := case_ctx D sel arms in
      (fix pick (l : list (list svexpr * list svstmt)) : pstate :=
         match l with
         | [] => (fix go (l : list svstmt) (p : pstate) : pstate :=
                    match l with [] => p | s' :: r => go r (sv_exec md env D s' p) end) dflt p
         | (pats, body) :: r =>
             if sv_arm_match md env D (fst p) inside cc sel pats
             then (fix go (l : list svstmt) (p : pstate) : pstate :=
                     match l with [] => p | s' :: r => go r (sv_exec md env D s' p) end) body p
             else pick r
         end) arms
  end.

Definition sv_exec_list (md : mode) (env : senv) (D : decls) (l : list svstmt) (p : pstate) : pstate :=
  fold_left (fun p s => sv_exec md env D s p) l p.

(* ------------------------------------------------------------------ processes *)
(* 9.2.2.2 always_comb / 10.3 continuous assignment: re-evaluated whenever an input changes; for an acyclic
   single-driver network the fixpoint is one pass in dependency order, which is how it is computed here
   (the order is an argument, as in Rtl/Cycle.v; the driver checks topo_ok / single_driver_ok). *)
Definition sv_comb_item (md : mode) (env : senv) (D : decls) (it : svitem) (st : state) : state :=
  match it with
  | VComb body => fst (sv_exec_list md env D body (st, []))
  | VAssign x e => fst (sv_exec md env D (VBlock x e) (st, []))
  | VFf _ _ => st
  end.
Definition sv_settle (md : mode) (env : senv) (D : decls) (order : list svitem) (st : state) : state :=
  fold_left (fun st it => sv_comb_item md env D it st) order st.

(* 9.4.2: posedge = a 0 -> 1 transition, negedge = 1 -> 0 (levels are always known here) *)
Definition edge_occurs (e : edge) (old new : bool) : bool :=
  match e with Pos => negb old && new | Neg => old && negb new end.
(* @(e1 s1 or e2 s2 ...): the process resumes when any listed event occurs in this time step; it runs its
   body ONCE however many of them coincide *)
Definition triggered (sens : list (edge * sig)) (env env' : senv) : bool :=
  existsb (fun es : edge * sig => edge_occurs (fst es) (env (snd es)) (env' (snd es))) sens.

(* an always_ff process in a time step: runs against the settled state of the active region; its
   non-blocking assignments go to the NBA queue *)
Definition sv_ff_item (md : mode) (env env' : senv) (D : decls) (pre : state) (it : svitem) (log : list wentry)
  : list wentry :=
  match it with
  | VFf sens body => if triggered sens env env' then snd (sv_exec_list md env' D body (pre, log)) else log
  | _ => log
  end.

(* ------------------------------------------------------------------ one time step (4.4 / 4.5 stratified event queue)
   the testbench changes signal levels and inputs; active region: comb settles, triggered always_ff processes
   run; NBA region: the queue is applied in order; active region again: comb settles *)
Definition sv_tstep (md : mode) (D : decls) (comb ffs : list svitem) (env env' : senv)
           (ins : list (N * vec)) (st : state) : state :=
  let st1 := set_inputs md D ins st in
  let st2 := sv_settle md env' D comb st1 in
  let log := fold_left (fun log it => sv_ff_item md env env' D st2 it log) ffs [] in
  let st3 := commit md D log st2 in
  sv_settle md env' D comb st3.

(* a testbench event: new signal levels, input changes, and whether the outputs are sampled afterwards *)
Record tevent := mkEv { ev_env : senv; ev_ins : list (N * vec); ev_sample : bool }.

Fixpoint sv_run (md : mode) (D : decls) (comb ffs : list svitem) (outs : list N)
         (evs : list tevent) (env : senv) (st : state) : list (list vec) :=
  match evs with
  | [] => []
  | e :: t =>
      let st' := sv_tstep md D comb ffs env (ev_env e) (ev_ins e) st in
      let rest := sv_run md D comb ffs outs t (ev_env e) st' in
      if ev_sample e then observe outs st' :: rest else rest
  end.
