(* C01 — non-vacuity examples for the theorems of Sv/Proofs.v: small µRTL programs inside the proved core,
   their emitted µSV modules, and evaluated traces. *)
From VV Require Import Sv.Emit Sv.Proofs.
Open Scope N_scope.

(* 0: i (in, 8)   1: q (out, 8, register)   2: y (out, signed 9)   3: w (out, 65)   4: s (var, signed 8) *)
Definition ex_decls := [mkDecl 8 false false KIn; mkDecl 8 false false KOut; mkDecl 9 true false KOut;
                        mkDecl 65 false false KOut; mkDecl 8 true false KVar].
Definition ex_D := decls_of ex_decls.
(* always_ff { if_reset { q = 8'h5; } else { if i[0] { q = q + i; } else { case i[2:1] { 2'h1: q = 8'h0; default: q[7:4] = i[3:0]; } } } } *)
Definition ex_counter :=
  IFf (Some [SAssign 1 (ELit 8 false 5 0)])
      [SIf (ESel 0 0 0) [SAssign 1 (EBin BAdd (EVar 1) (EVar 0))]
           [SCase (ESel 0 2 1) [([ELit 2 false 1 0], [SAssign 1 (ELit 8 false 0 0)])]
                  [SAssignSel 1 7 4 (ESel 0 3 0)]]].
(* assign s = $signed(q);   assign y = (s >>> 3'h2) - 9'sh1;   assign w = {q, 57'h0} + {q repeat 8, 1'h1} *)
Definition ex_s := IAssign 4 (ESign true (EVar 1)).
Definition ex_y := IAssign 2 (EBin BSub (EBin BAshr (EVar 4) (ELit 3 false 2 0)) (ELit 9 true 1 0)).
Definition ex_w := IAssign 3 (EBin BAdd (ECat [(EVar 1, 1); (ELit 57 false 0 0, 1)]) (ECat [(EVar 1, 8); (ELit 1 false 1 0, 1)])).
Definition ex_comb := [ex_s; ex_y; ex_w].
Definition ex_ffs := [ex_counter].
Definition ex_outs := [1; 2; 3].
Definition ex_stim : stimulus :=
  [(KClkRst, [(0, mkVec 0 0)]); (KClk, [(0, mkVec 3 0)]); (KClk, [(0, mkVec 255 0)]); (KClk, [(0, mkVec 12 0)]);
   (KRstOnly, [(0, mkVec 1 0)]); (KClk, [(0, mkVec 3 0)])].

Lemma ex_in_core :
  forallb (item_ok ex_D) ex_comb = true /\ forallb (item_ok ex_D) ex_ffs = true /\
  topo_ok ex_comb = true /\ single_driver_ok ex_comb = true /\ forallb noself ex_comb = true.
Proof. repeat split. Qed.

Definition async_low_cfg := default_cfg.
Definition sync_high_neg_cfg := mkCfg NegEdge SyncHigh CkClock RkReset false.

(* the emitted always_ff of the counter under two configurations *)
Lemma ex_emitted_async_low :
  emit_item async_low_cfg ex_counter =
  VFf [(Pos, SClk); (Neg, SRst)]
      [VIf (XUn ULogNot (XSig SRst)) [VNb 1 (XLit 8 false 5 0)]
           [VIf (XSel 0 0 0) [VNb 1 (XBin BAdd (XVar 1) (XVar 0))]
                [VCase false (XSel 0 2 1) [([XLit 2 false 1 0], [VNb 1 (XLit 8 false 0 0)])]
                       [VNbSel 1 7 4 (XSel 0 3 0)]]]].
Proof. reflexivity. Qed.
Lemma ex_emitted_sync_high_neg :
  emit_item sync_high_neg_cfg ex_counter =
  VFf [(Neg, SClk)]
      [VIf (XSig SRst) [VNb 1 (XLit 8 false 5 0)]
           [VIf (XSel 0 0 0) [VNb 1 (XBin BAdd (XVar 1) (XVar 0))]
                [VCase false (XSel 0 2 1) [([XLit 2 false 1 0], [VNb 1 (XLit 8 false 0 0)])]
                       [VNbSel 1 7 4 (XSel 0 3 0)]]]].
Proof. reflexivity. Qed.

Definition ex_sv_trace (c : cfg) : list (list vec) :=
  sv_run M4 ex_D (map (emit_item c) ex_comb) (map (emit_item c) ex_ffs) ex_outs (drive c ex_stim) (env_idle c)
         (init_state M4 ex_D).

(* an asynchronous reset acts on the KRstOnly step (q returns to 5), a synchronous one does not *)
Lemma ex_trace_async_low :
  map (map vp) (ex_sv_trace async_low_cfg) =
  [[5; 0; 1443977668760046091]; [8; 1; 2310364270016073745]; [7; 0; 2021568736264064527]; [199; 496; 20576823069230731151];
   [5; 0; 1443977668760046091]; [8; 1; 2310364270016073745]].
Proof. vm_compute. reflexivity. Qed.
Lemma ex_trace_sync_high_neg :
  map (map vp) (ex_sv_trace sync_high_neg_cfg) =
  [[5; 0; 1443977668760046091]; [8; 1; 2310364270016073745]; [7; 0; 2021568736264064527]; [199; 496; 20576823069230731151];
   [199; 496; 20576823069230731151]; [202; 497; 21443209670486758805]].
Proof. vm_compute. reflexivity. Qed.
