(* C01 — the vocabulary of clock / reset configuration (crates/metadata/src/build.rs ClockType, ResetType;
   crates/analyzer TypeKind::{Clock*, Reset*}) and signal edges.  Definitions only. *)
From Coq Require Import List.
Import ListNotations.

Inductive ckind := CkClock | CkPos | CkNeg.                       (* clock / clock_posedge / clock_negedge *)
Inductive rkind := RkReset | RkAsyncHigh | RkAsyncLow | RkSyncHigh | RkSyncLow.
                                      (* reset / reset_async_high / reset_async_low / reset_sync_high / reset_sync_low *)
Inductive clock_type := PosEdge | NegEdge.                        (* [build] clock_type = "posedge" | "negedge" *)
Inductive reset_type := AsyncLow | AsyncHigh | SyncLow | SyncHigh.  (* [build] reset_type *)
Inductive edge := Pos | Neg.                                      (* posedge / negedge *)

Definition all_ckind := [CkClock; CkPos; CkNeg].
Definition all_rkind := [RkReset; RkAsyncHigh; RkAsyncLow; RkSyncHigh; RkSyncLow].
Definition all_clock_type := [PosEdge; NegEdge].
Definition all_reset_type := [AsyncLow; AsyncHigh; SyncLow; SyncHigh].
