(* µSV — abstract syntax of the SystemVerilog fragment the emitter prints for µRTL programs.

     module M (input var logic clk, input var logic rst, input|output var logic|bit [signed] [w-1:0] p, ...);
       logic|bit [signed] [w-1:0] v;
       always_comb begin ... end          blocking assignments, if / else, case / case inside
       always_comb x = e;
       assign x = e;
       always_ff @ (posedge|negedge clk [, posedge|negedge rst]) begin ... end     non-blocking assignments
     endmodule

   Expressions: sized literals, identifiers, constant part selects, unary + - ~ ! & ~& | ~| ^ ~^, binary
   + - * / % & | ^ ~^ << >> <<< >>> ** < <= > >= == != ==? !=? && ||, ?:, {a, {n{b}}}, W'(e),
   $signed / $unsigned.  Variables are numbered like the µRTL declarations they come from; the clock and the
   reset port are the two SIGNALS of the module (they occur in sensitivity lists and — the reset — in
   expressions, as in `if (!rst)`).  The operator alphabet is shared with Rtl/Syntax.v (only the spelling
   differs: `<` for `<:`, `>` for `>:`); vp/gen/svparse.py maps the text to this AST. *)
From VV Require Export Rtl.Syntax Sv.ClockResetTypes.

Inductive sig := SClk | SRst.

Inductive svexpr :=
| XLit (w : N) (sg : bool) (p m : N)
| XVar (x : N)
| XSig (s : sig)
| XSel (x : N) (hi lo : N)
| XUn (o : unop) (e : svexpr)
| XBin (o : binop) (a b : svexpr)
| XTern (c a b : svexpr)
| XCat (items : list (svexpr * N))              (* {e1, {n2{e2}}, ...}: (e, 1) is a plain item *)
| XCast (w : N) (e : svexpr)                    (* w'(e) *)
| XSign (sg : bool) (e : svexpr).               (* $signed(e) / $unsigned(e) *)

Inductive svstmt :=
| VBlock (x : N) (e : svexpr)                   (* x = e; *)
| VBlockSel (x : N) (hi lo : N) (e : svexpr)    (* x[hi:lo] = e; *)
| VNb (x : N) (e : svexpr)                      (* x <= e; *)
| VNbSel (x : N) (hi lo : N) (e : svexpr)       (* x[hi:lo] <= e; *)
| VIf (c : svexpr) (t f : list svstmt)
| VCase (inside : bool) (sel : svexpr) (arms : list (list svexpr * list svstmt)) (dflt : list svstmt).
                                                (* case (sel) [inside] p1, p2: begin .. end ... default: begin .. end endcase *)

Inductive svitem :=
| VComb (body : list svstmt)                    (* always_comb begin body end   /   always_comb x = e; *)
| VAssign (x : N) (e : svexpr)                  (* assign x = e; *)
| VFf (sens : list (edge * sig)) (body : list svstmt).   (* always_ff @ (sens) begin body end *)

Record svmodule := mkSv { v_decls : list vdecl; v_items : list svitem }.
