(* L2: model of crates/analyzer/src/value.rs (Value, ValueU64, ValueBigUint) and of
   Op::eval_value_unary / eval_value_binary (crates/analyzer/src/ir/op.rs), branch for branch.

   A value is (representation, payload, mask_xz, width, signed); the U64 representation
   computes on u64 (wrap-around at 2^64, checked shifts and additions panic as in a debug
   build: result None), the BigUint representation computes on unbounded N.
   Encoding of 4-state bits: 0 = (payload 0, mask 0), 1 = (1,0), X = (0,1), Z = (1,1).
   Definitions only. *)
From Coq Require Export List NArith ZArith Bool Lia.
Export ListNotations.
Open Scope N_scope.

Inductive rep := RU | RB.

Record value := mkV { rp : rep; pl : N; mk : N; wd : N; sg : bool }.

Inductive op :=
| Add | Sub | Mul | Div | Rem | Pow
| BitAnd | BitOr | BitXor | BitXnor | BitNand | BitNor | BitNot
| Eq | Ne | EqWildcard | NeWildcard
| Greater | GreaterEq | Less | LessEq
| LogicAnd | LogicOr | LogicNot
| LogicShiftL | LogicShiftR | ArithShiftL | ArithShiftR
| As.

Definition M64 : N := 2 ^ 64.
Definition U64MAX : N := M64 - 1.

(* ValueBigUint::gen_mask *)
Definition bmask (w : N) : N := 2 ^ w - 1.
(* ValueU64::gen_mask *)
Definition umask (w : N) : N := if 64 <=? w then U64MAX else 2 ^ w - 1.

Definition not64 (x : N) : N := N.lxor x U64MAX.

(* u64 << s and >> s with a usize amount: panic (None) when s >= 64 (debug build) *)
Definition shl64 (x s : N) : option N := if s <? 64 then Some ((x * 2 ^ s) mod M64) else None.
Definition shr64 (x s : N) : option N := if s <? 64 then Some (x / 2 ^ s) else None.
(* u64::unbounded_shl / unbounded_shr *)
Definition ushl64 (x s : N) : N := if s <? 64 then (x * 2 ^ s) mod M64 else 0.
Definition ushr64 (x s : N) : N := if s <? 64 then x / 2 ^ s else 0.

(* BigUint >> s.  Same value as N.shiftr p s (lemma bshr_eq in ValueProofs.v) but evaluates in time
   independent of s (N.shiftr iterates s times; amounts go up to 2^64-1). *)
Definition bshr (p s : N) : N := if N.size p <=? s then 0 else N.shiftr p s.

Definition bind {A B} (a : option A) (f : A -> option B) : option B :=
  match a with Some x => f x | None => None end.
Notation "'do' x <- a ; b" := (bind a (fun x => b)) (at level 200, x name, a at level 100, b at level 200).

Definition nz (x : N) : bool := negb (x =? 0).

(* ((p << sh) as i64) >> sh  with sh = 64 - w : the signed value of the low w bits (1 <= w <= 64) *)
Definition sext (w p : N) : Z :=
  let q := p mod 2 ^ w in
  if N.testbit q (w - 1) then (Z.of_N q - 2 ^ Z.of_N w)%Z else Z.of_N q.

(* `let sh = 64 - width; (payload << sh) as i64 >> sh` : usize subtraction underflows when
   width > 64 and the u64 shift overflows when width = 0; both panic in a debug build *)
Definition sh_ok (w : N) : bool := (1 <=? w) && (w <=? 64).

(* i64 -> u64 reinterpretation *)
Definition of_i64 (z : Z) : N := Z.to_N (z mod 2 ^ 64)%Z.

Definition width_u (v : value) := wd v.

(* ---------------------------------------------------------------- Value::expand *)
Definition sentinel (v : value) (width : N) : option value :=
  match rp v with
  | RB => None
  | RU =>
      if 64 <? width
      then Some (mkV RB (if nz (pl v) then bmask width else 0) (if nz (mk v) then bmask width else 0)
                     width false)
      else Some (mkV RU (if nz (pl v) then umask width else 0) (if nz (mk v) then umask width else 0)
                     width false)
  end.

Definition sign_fill (v : value) (width : N) (use_sign : bool) : N * N :=
  if sg v && use_sign
  then
    let msb := N.testbit (pl v) (wd v - 1) in
    let msb_xz := N.testbit (mk v) (wd v - 1) in
    if msb || msb_xz
    then let m := N.lxor (bmask width) (bmask (wd v)) in
         (if msb then N.lor (pl v) m else pl v, if msb_xz then N.lor (mk v) m else mk v)
    else (pl v, mk v)
  else (pl v, mk v).

Definition expand (v : value) (width : N) (use_sign : bool) : option value :=
  if (width <=? wd v) && nz (wd v) then Some v
  else if wd v =? 0 then sentinel v width
  else if 64 <? width
  then let '(p, m) := sign_fill v width use_sign in
       Some (mkV RB p m width (if use_sign then sg v else false))
  else match rp v with
       | RU => let '(p, m) := sign_fill v width use_sign in
               Some (mkV RU p m width (if use_sign then sg v else false))
       | RB => None
       end.

(* ---------------------------------------------------------------- Value::trunc *)
Definition trunc (v : value) (width : N) : option value :=
  if wd v =? 0 then sentinel v width
  else if wd v <=? width then Some v
  else match rp v with
       | RU => Some (mkV RU (N.land (pl v) (umask width)) (N.land (mk v) (umask width)) width (sg v))
       | RB => let p := N.land (pl v) (bmask width) in
               let m := N.land (mk v) (bmask width) in
               if width <=? 64 then Some (mkV RU p m width (sg v)) else Some (mkV RB p m width (sg v))
       end.

Definition resize (v : value) (width : N) (signed : bool) : option value :=
  if width <? wd v then trunc v width else expand v width signed.

(* ---------------------------------------------------------------- constructors *)
Definition vnew (p w : N) (s : bool) : value := mkV (if w <=? 64 then RU else RB) p 0 w s.
Definition unew (p w : N) (s : bool) : value := mkV RU p 0 w s.
Definition unew_x (w : N) (s : bool) : value := mkV RU 0 (umask w) w s.
Definition bnew (p w : N) (s : bool) : value := mkV RB p 0 w s.
Definition bnew_x (w : N) (s : bool) : value := mkV RB 0 (bmask w) w s.

Definition bit_1x (is_one is_x : bool) : value :=
  if is_one then unew 1 1 false else if is_x then unew_x 1 false else unew 0 1 false.
Definition bit_0x (is_zero is_x : bool) : value :=
  if is_zero then unew 0 1 false else if is_x then unew_x 1 false else unew 1 1 false.
Definition bit_x1 (is_x is_one : bool) : value :=
  if is_x then unew_x 1 false else if is_one then unew 1 1 false else unew 0 1 false.

Definition is_xz (v : value) : bool := nz (mk v).

(* mask used by a value's own representation for "all ones of width w" / complement *)
Definition rmask (r : rep) (w : N) : N := match r with RU => umask w | RB => bmask w end.
(* !m for u64, m ^ mask(w) for BigUint *)
Definition rnot (r : rep) (w : N) (m : N) : N :=
  match r with RU => not64 m | RB => N.lxor m (bmask w) end.

Fixpoint pparity (p : positive) : bool :=
  match p with xH => true | xO q => pparity q | xI q => negb (pparity q) end.
Definition parity (n : N) : bool := match n with 0 => false | Npos p => pparity p end.

(* ---------------------------------------------------------------- eval_value_unary *)
Definition reduce_result (v : value) (width : N) : option value := expand v width false.

Definition eval_unary (o : op) (x : value) (width : N) (signed : bool) : option value :=
  match o with
  | Add => expand x width signed
  | Sub =>
      do e <- expand x width signed;
      match rp e with
      | RU => if is_xz e then Some (unew_x width (sg e))
              else let mask := umask width in
                   let p := N.lxor (pl e) mask in
                   (* ret.payload = ret.payload.wrapping_add(1) *)
                   let p1 := (p + 1) mod M64 in
                   Some (mkV RU (N.land p1 mask) (mk e) (wd e) (sg e))
      | RB => if is_xz e then Some (bnew_x width (sg e))
              else let mask := bmask width in
                   Some (mkV RB (N.land (N.lxor (pl e) mask + 1) mask) (mk e) (wd e) (sg e))
      end
  | BitNot =>
      do e <- expand x width signed;
      let mask := rmask (rp e) width in
      Some (mkV (rp e) (N.land (N.lxor (pl e) mask) (N.lxor (mk e) mask)) (mk e) (wd e) (sg e))
  | BitAnd =>
      let mask := rmask (rp x) (wd x) in
      reduce_result (bit_0x (negb (N.lor (pl x) (mk x) =? mask)) (nz (mk x))) width
  | BitNand =>
      let mask := rmask (rp x) (wd x) in
      reduce_result (bit_1x (negb (N.lor (pl x) (mk x) =? mask)) (nz (mk x))) width
  | BitOr =>
      let mask := rmask (rp x) (wd x) in
      reduce_result (bit_1x (nz (N.land (pl x) (N.lxor (mk x) mask))) (nz (mk x))) width
  | BitNor | LogicNot =>
      let mask := rmask (rp x) (wd x) in
      reduce_result (bit_0x (nz (N.land (pl x) (N.lxor (mk x) mask))) (nz (mk x))) width
  | BitXor =>
      reduce_result (if is_xz x then unew_x 1 false else unew (if parity (pl x) then 1 else 0) 1 false) width
  | BitXnor =>
      reduce_result (if is_xz x then unew_x 1 false else unew (if parity (pl x) then 0 else 1) 1 false) width
  | _ => None
  end.

(* ---------------------------------------------------------------- helpers for binary *)

(* ValueBigUint::to_bigint (None only for xz, which callers exclude) *)
Definition to_bigint (v : value) : Z :=
  if N.testbit (pl v) (wd v - 1)
  then (- Z.of_N (N.land (N.lxor (pl v) (bmask (wd v)) + 1) (bmask (wd v))))%Z
  else Z.of_N (pl v).

(* ValueBigUint::new_bigint payload *)
Definition of_bigint (z : Z) (width : N) : N :=
  let mask := bmask width in
  if (z <? 0)%Z then N.land (N.lxor (Z.to_N (- z)) mask + 1) mask
  else N.land (Z.to_N z) mask.

Definition to_shift_amount (v : value) : option N :=
  match rp v with
  | RU => if nz (mk v) then None else Some (pl v)
  | RB => if nz (mk v) then None else Some (N.min (pl v) U64MAX)
  end.

Fixpoint pmodpow (b : N) (e : positive) (m : N) : N :=
  match e with
  | xH => b mod m
  | xO e' => let h := pmodpow b e' m in (h * h) mod m
  | xI e' => let h := pmodpow b e' m in ((h * h) mod m * (b mod m)) mod m
  end.
Definition modpow (b e m : N) : N :=
  match e with 0 => 1 mod m | Npos p => pmodpow b p m end.

Definition pow_mod_width (mag : N) (negative : bool) (e width : N) : N :=
  let modulus := bmask width + 1 in
  let r := modpow mag e modulus in
  if negative && N.odd e && nz r then (modulus - r) mod modulus else r.

(* arithmetic ops on two operands already expanded to the same representation *)
Definition same_rep (x y : value) : bool :=
  match rp x, rp y with RU, RU | RB, RB => true | _, _ => false end.

Definition arith2 (x y : value) (width : N) (signed : bool)
           (fu fb : N -> N -> N) : option value :=
  if negb (same_rep x y) then None else
  match rp x with
  | RU => if is_xz x || is_xz y then Some (unew_x width signed)
          else Some (unew (N.land (fu (pl x) (pl y)) (umask width)) width signed)
  | RB => if is_xz x || is_xz y then Some (bnew_x width signed)
          else Some (bnew (N.land (fb (pl x) (pl y)) (bmask width)) width signed)
  end.

Definition zdiv_trunc (a b : Z) : Z := Z.quot a b.
Definition zrem_trunc (a b : Z) : Z := Z.rem a b.

Definition i64_min : Z := (- 2 ^ 63)%Z.

(* bitwise ops: (payload function, mask function) per representation *)
Definition bitwise2 (x y : value) (width : N)
           (fp : N -> N -> N) (fm : rep -> N -> value -> value -> N) : option value :=
  if negb (same_rep x y) then None else
  let r := rp x in
  let m := fm r width x y in
  Some (mkV r (N.land (fp (pl x) (pl y)) (rnot r width m)) m width false).

Definition and_mask (r : rep) (w : N) (x y : value) : N :=
  N.lor (N.lor (N.land (mk x) (mk y))
               (N.land (N.land (mk x) (rnot r w (mk y))) (pl y)))
        (N.land (N.land (mk y) (rnot r w (mk x))) (pl x)).

Definition or_mask (r : rep) (w : N) (x y : value) : N :=
  N.lor (N.lor (N.land (mk x) (mk y))
               (N.land (N.land (mk x) (rnot r w (mk y))) (rnot r w (pl y))))
        (N.land (N.land (mk y) (rnot r w (mk x))) (rnot r w (pl x))).

Definition xor_mask (r : rep) (w : N) (x y : value) : N := N.lor (mk x) (mk y).

(* definite (non-xz) payload bits, as each representation computes them *)
Definition definite (v : value) : N := N.land (pl v) (rnot (rp v) (wd v) (mk v)).

Definition cmp_expand (x y : value) (signed : bool) : option (value * value) :=
  let w := N.max (wd x) (wd y) in
  do a <- expand x w signed;
  do b <- expand y w signed;
  if same_rep a b then Some (a, b) else None.

Definition rel (x y : value) (width : N) (signed : bool)
           (fz : Z -> Z -> bool) (fn : N -> N -> bool) : option value :=
  let w := N.max (wd x) (wd y) in
  do ab <- cmp_expand x y signed;
  let '(a, b) := ab in
  let is_one :=
    match rp a with
    | RU => if signed
            then let sw := N.max w 1 in fz (sext sw (pl a)) (sext sw (pl b))
            else fn (pl a) (pl b)
    | RB => if signed then fz (to_bigint a) (to_bigint b) else fn (pl a) (pl b)
    end in
  let isx := is_xz a || is_xz b in
  expand (bit_x1 isx is_one) width false.

Definition eval_binary (o : op) (x y : value) (width : N) (signed : bool) : option value :=
  match o with
  | Add =>
      do a <- expand x width signed; do b <- expand y width signed;
      arith2 a b width signed (fun p q => (p + q) mod M64) N.add
  | Sub =>
      do a <- expand x width signed; do b <- expand y width signed;
      arith2 a b width signed (fun p q => (p + M64 - q) mod M64)
             (fun p q => let mask := bmask width in p + N.land (N.lxor q mask + 1) mask)
  | Mul =>
      do a <- expand x width signed; do b <- expand y width signed;
      arith2 a b width signed (fun p q => (p * q) mod M64) N.mul
  | Div =>
      do a <- expand x width signed; do b <- expand y width signed;
      if negb (same_rep a b) then None else
      match rp a with
      | RU =>
          if is_xz a || is_xz b || (N.land (pl b) (umask width) =? 0) then Some (unew_x width signed)
          else if signed && negb (sh_ok width) then None   (* sh = 64 - width; payload << sh *)
          else
            let p := if signed
                     then let xs := sext width (pl a) in let ys := sext width (pl b) in
                          (* checked_div: None on MIN / -1 -> dividend *)
                          of_i64 (if (xs =? i64_min)%Z && (ys =? -1)%Z then xs else zdiv_trunc xs ys)
                     else pl a / pl b in
            Some (unew (N.land p (umask width)) width signed)
      | RB =>
          if is_xz a || is_xz b || (pl b =? 0) then Some (bnew_x width signed)
          else if signed
          then Some (bnew (of_bigint (zdiv_trunc (to_bigint a) (to_bigint b)) width) width signed)
          else Some (bnew (N.land (pl a / pl b) (bmask width)) width signed)
      end
  | Rem =>
      do a <- expand x width signed; do b <- expand y width signed;
      if negb (same_rep a b) then None else
      match rp a with
      | RU =>
          if is_xz a || is_xz b || (N.land (pl b) (umask width) =? 0) then Some (unew_x width signed)
          else if signed && negb (sh_ok width) then None
          else
            let p := if signed
                     then let xs := sext width (pl a) in let ys := sext width (pl b) in
                          of_i64 (if (xs =? i64_min)%Z && (ys =? -1)%Z then 0%Z else zrem_trunc xs ys)
                     else pl a mod pl b in
            Some (unew (N.land p (umask width)) width signed)
      | RB =>
          if is_xz a || is_xz b || (pl b =? 0) then Some (bnew_x width signed)
          else if signed
          then Some (bnew (of_bigint (zrem_trunc (to_bigint a) (to_bigint b)) width) width signed)
          else Some (bnew (N.land (pl a mod pl b) (bmask width)) width signed)
      end
  | BitAnd =>
      do a <- resize x width signed; do b <- resize y width signed;
      bitwise2 a b width N.land and_mask
  | BitOr =>
      do a <- expand x width signed; do b <- expand y width signed;
      bitwise2 a b width N.lor or_mask
  | BitXor =>
      do a <- expand x width signed; do b <- expand y width signed;
      bitwise2 a b width N.lxor xor_mask
  | BitXnor =>
      do a <- expand x width signed; do b <- expand y width signed;
      if negb (same_rep a b) then None else
      bitwise2 a b width (fun p q => N.lxor (N.lxor p q) (rmask (rp a) width)) xor_mask
  | Eq | Ne =>
      let eq_signed := sg x && sg y in
      do ab <- cmp_expand x y eq_signed;
      let '(a, b) := ab in
      let differ := negb (definite a =? definite b) in
      let isx := is_xz a || is_xz b in
      expand (match o with Eq => bit_0x differ isx | _ => bit_1x differ isx end) width false
  | EqWildcard | NeWildcard =>
      let eq_signed := sg x && sg y in
      do ab <- cmp_expand x y eq_signed;
      let '(a, b) := ab in
      let r := rp a in
      let compare_mask := rnot r (wd b) (mk b) in
      let val_diff := N.land (N.lxor (pl a) (pl b)) compare_mask in
      let definite_diff := N.land val_diff (rnot r (wd b) (mk a)) in
      let mismatch := nz definite_diff in
      let isx := nz (N.land (mk a) compare_mask) in
      expand (match o with EqWildcard => bit_0x mismatch isx | _ => bit_1x mismatch isx end) width false
  | Greater => rel x y width signed Z.gtb (fun a b => b <? a)
  | GreaterEq => rel x y width signed Z.geb (fun a b => b <=? a)
  | Less => rel x y width signed Z.ltb N.ltb
  | LessEq => rel x y width signed Z.leb N.leb
  | LogicAnd | LogicOr =>
      do ab <- cmp_expand x y false;
      let '(a, b) := ab in
      let ta := nz (definite a) in let tb := nz (definite b) in
      let isx := is_xz a || is_xz b in
      expand (bit_1x (match o with LogicAnd => ta && tb | _ => ta || tb end) isx) width false
  | LogicShiftR =>
      do e <- expand x width signed;
      match to_shift_amount y with
      | None => Some (match rp e with RU => unew_x width false | RB => bnew_x width false end)
      | Some s =>
          let r := match rp e with
                   | RU => let s' := N.min s 64 in mkV RU (ushr64 (pl e) s') (ushr64 (mk e) s') (wd e) false
                   | RB => mkV RB (bshr (pl e) s) (bshr (mk e) s) (wd e) false
                   end in
          expand r width false
      end
  | LogicShiftL | ArithShiftL =>
      do e <- expand x width signed;
      let keep := match o with ArithShiftL => sg e | _ => false end in
      match to_shift_amount y with
      | None => Some (match rp e with RU => unew_x width false | RB => bnew_x width false end)
      | Some s =>
          let r := match rp e with
                   | RU => let s' := N.min s 64 in let mask := umask width in
                           mkV RU (N.land (ushl64 (pl e) s') mask) (N.land (ushl64 (mk e) s') mask) (wd e) keep
                   | RB => let s' := N.min s width in let mask := bmask width in
                           mkV RB (N.land (N.shiftl (pl e) s') mask) (N.land (N.shiftl (mk e) s') mask) (wd e) keep
                   end in
          expand r width false
      end
  | ArithShiftR =>
      do e <- expand x width signed;
      match to_shift_amount y with
      | None => Some (match rp e with RU => unew_x width false | RB => bnew_x width false end)
      | Some s =>
          if signed && (wd e =? 0) then None else   (* x.width - 1 on u32 *)
          let m := rmask (rp e) in
          let ext_mask := N.lxor (m (width - s)) (m width) in
          let pmsb := N.testbit (pl e) (wd e - 1) in
          let mmsb := N.testbit (mk e) (wd e - 1) in
          let extp := if signed && pmsb then ext_mask else 0 in
          let extm := if signed && mmsb then ext_mask else 0 in
          let r := match rp e with
                   | RU => let s' := N.min s 64 in
                           mkV RU (N.lor (ushr64 (pl e) s') extp) (N.lor (ushr64 (mk e) s') extm) (wd e) (sg e)
                   | RB => mkV RB (N.lor (bshr (pl e) s) extp) (N.lor (bshr (mk e) s) extm) (wd e) (sg e)
                   end in
          expand r width false
      end
  | Pow =>
      do e <- expand x width signed;
      let y_negative := sg y && (0 <? wd y) && N.testbit (pl y) (wd y - 1) in
      if y_negative then
        let exp_odd := N.odd (pl y) in
        let mask := rmask (rp e) width in
        let p := N.land (pl e) mask in
        let mkr := fun q s => mkV (rp e) q 0 width s in
        if is_xz e || (p =? 0) then Some (mkV (rp e) 0 mask width (sg e))
        else if p =? 1 then Some (mkr 1 (sg e))
        else if sg e && (p =? mask) then Some (mkr (if exp_odd then mask else 1) true)
        else Some (mkr 0 (sg e))
      else
        match to_shift_amount y with
        | None => Some (match rp e with RU => unew_x width false | RB => bnew_x width false end)
        | Some s =>
            if is_xz e then Some (mkV (rp e) 0 (rmask (rp e) width) width (sg e))
            else if sg e && (wd e =? 0) then None   (* to_i64 / to_bigint: self.width - 1 *)
            else if sg e then
              let base := match rp e with RU => sext (wd e) (pl e) | RB => to_bigint e end in
              let r := pow_mod_width (Z.abs_N base) (base <? 0)%Z s width in
              Some (mkV (rp e) (match rp e with RU => if r <? M64 then r else 0 | RB => r end) 0 width true)
            else
              let r := pow_mod_width (pl e) false s width in
              Some (mkV (rp e) (match rp e with RU => if r <? M64 then r else 0 | RB => r end) 0 width false)
        end
  | As => Some x
  | _ => None
  end.

(* ---------------------------------------------------------------- select / concat / assign *)
Definition select (v : value) (beg end_ : N) : value :=
  if beg <? end_ then mkV (rp v) 0 0 0 false
  else
    let width := beg - end_ + 1 in
    match rp v with
    | RU => if 64 <=? end_ then mkV RU 0 (umask width) width false
            else mkV RU (N.land (pl v / 2 ^ end_) (umask width)) (N.land (mk v / 2 ^ end_) (umask width)) width false
    | RB => let p := N.land (N.shiftr (pl v) end_) (bmask width) in
            let m := N.land (N.shiftr (mk v) end_) (bmask width) in
            mkV (if width <=? 64 then RU else RB) p m width false
    end.

Definition concat (a b : value) : option value :=
  let width := wd a + wd b in
  if 64 <? width
  then Some (mkV RB (N.lor (N.shiftl (pl a) (wd b)) (pl b)) (N.lor (N.shiftl (mk a) (wd b)) (mk b)) width false)
  else match rp a, rp b with
       | RU, RU =>
           let sh := wd b in
           do p <- (if sh =? 64 then Some (pl a) else shl64 (pl a) sh);
           do m <- (if sh =? 64 then Some (mk a) else shl64 (mk a) sh);
           Some (mkV RU (N.lor p (pl b)) (N.lor m (mk b)) width false)
       | _, _ => None
       end.

(* svLogicVecVal conversions: see SvLogic/SvModel.v *)

(* vcd::Value as 0,1,2=X,3=Z *)
Definition to_vcd (v : value) (i : N) : N :=
  if N.testbit (mk v) i then (if N.testbit (pl v) i then 3 else 2)
  else if N.testbit (pl v) i then 1 else 0.

(* IntoIterator for &Value (VcdValueIter): MSB first; what vcd::Writer::change_vector consumes *)
Definition vcd_iter (v : value) : list N :=
  map (fun i => to_vcd v (N.of_nat i)) (rev (seq 0 (N.to_nat (wd v)))).

Definition to_fst_bits (v : value) : list N :=
  map (fun i => match to_vcd v (N.of_nat i) with 0 => 48 | 1 => 49 | 2 => 120 | _ => 122 end)
      (rev (seq 0 (N.to_nat (wd v)))).
