(* C17 proofs, part 3: relational, equality, wildcard equality and logical operators. *)
From VV Require Import BV.Ops1800 BV.BitLemmas Value.ValueModel Value.SpecGlue Value.ValueProofs.
Open Scope N_scope.

(* operands of a comparison are brought to the larger of the two widths *)
Definition cmp_ok (x y : value) : Prop := ctx_ok x y (N.max (wd x) (wd y)).

Lemma cmp_expand_spec x y s :
  cmp_ok x y ->
  let w := N.max (wd x) (wd y) in
  exists a b, cmp_expand x y s = Some (a, b) /\ 1 <= w /\
    wd a = w /\ wd b = w /\ pl a < 2 ^ w /\ mk a < 2 ^ w /\ pl b < 2 ^ w /\ mk b < 2 ^ w /\
    rp a = rp b /\ (rp a = RU -> w <= 64) /\
    xext s w x = vecv a /\ xext s w y = vecv b.
Proof.
  intros H w. subst w. pose proof H as (_ & _ & _ & _ & Hw & _).
  destruct (ctx_expand x y _ s H) as (a & b & Ea & Eb & Wa & Wb & Pa & Ma & Pb & Mb & R & U & Xa & Xb).
  exists a, b. unfold cmp_expand. cbv zeta. rewrite Ea, Eb. cbn [bind]. rewrite (same_rep_eq a b R).
  repeat split; assumption.
Qed.

(* a 1-bit result in a context of width `width` *)
Lemma bit_result (p m : N) width (sp : vec) :
  1 <= width -> p < 2 -> m < 2 -> sp = mkVec p m ->
  agrees (expand (mkV RU p m 1 false) width false) (Some sp) width.
Proof.
  intros Hw Hp Hm ->. destruct (expand_bit p m width Hw Hp Hm) as (e & E & We & Wd & Pe & Me & _).
  apply (agrees_intro e); try assumption. f_equal. apply vec_eq; simpl; congruence.
Qed.

Lemma umask1 : umask 1 = 1.
Proof. reflexivity. Qed.

(* ------------------------------------------------------------------ signed views *)
Lemma sext_sval w p : 1 <= w -> p < 2 ^ w -> sext w p = sval w p.
Proof.
  intros Hw Hp. unfold sext, sval. rewrite (mod_small_pow p w Hp).
  destruct (N.ltb_spec 0 w); [|lia]. reflexivity.
Qed.

Lemma testbit_nonzero p i : N.testbit p i = true -> p <> 0.
Proof. intros H ->. rewrite N.bits_0 in H. discriminate. Qed.

Lemma to_bigint_sval a w : 1 <= w -> wd a = w -> pl a < 2 ^ w -> to_bigint a = sval w (pl a).
Proof.
  intros Hw Wa Pa. unfold to_bigint, sval. rewrite Wa.
  destruct (N.ltb_spec 0 w); [|lia]. cbn [andb].
  destruct (N.testbit (pl a) (w - 1)) eqn:T; [|reflexivity].
  pose proof (testbit_nonzero _ _ T).
  rewrite bmask_ones, land_ones, neg_core by assumption.
  rewrite (mod_small_pow _ _ Pa). rewrite N.mod_small by lia.
  rewrite N2Z.inj_sub by lia. rewrite N2Z.inj_pow. change (Z.of_N 2) with 2%Z. lia.
Qed.

Lemma gtb_N a b : Z.gtb (Z.of_N a) (Z.of_N b) = (b <? a).
Proof. rewrite Z.gtb_ltb. destruct (N.ltb_spec b a), (Z.ltb_spec (Z.of_N b) (Z.of_N a)); try reflexivity; lia. Qed.
Lemma geb_N a b : Z.geb (Z.of_N a) (Z.of_N b) = (b <=? a).
Proof. rewrite Z.geb_leb. destruct (N.leb_spec b a), (Z.leb_spec (Z.of_N b) (Z.of_N a)); try reflexivity; lia. Qed.
Lemma ltb_N a b : Z.ltb (Z.of_N a) (Z.of_N b) = (a <? b).
Proof. destruct (N.ltb_spec a b), (Z.ltb_spec (Z.of_N a) (Z.of_N b)); try reflexivity; lia. Qed.
Lemma leb_N a b : Z.leb (Z.of_N a) (Z.of_N b) = (a <=? b).
Proof. destruct (N.leb_spec a b), (Z.leb_spec (Z.of_N a) (Z.of_N b)); try reflexivity; lia. Qed.

(* ------------------------------------------------------------------ relational *)
Lemma rel_spec x y width s fz fn :
  cmp_ok x y -> 1 <= width ->
  (forall a b, fz (Z.of_N a) (Z.of_N b) = fn a b) ->
  let wc := N.max (wd x) (wd y) in
  agrees (rel x y width s fz fn) (Some (s_rel s wc (xext s wc x) (xext s wc y) fz)) width.
Proof.
  intros H Hwidth Hf wc.
  destruct (cmp_expand_spec x y s H) as (a & b & E & Hw & Wa & Wb & Pa & Ma & Pb & Mb & R & U & Xa & Xb).
  fold wc in Hw, Wa, Wb, Pa, Ma, Pb, Mb, U, Xa, Xb.
  unfold rel. rewrite E. cbn [bind]. fold wc. rewrite Xa, Xb.
  unfold s_rel, known, is_xz, nz. cbn [vecv vp vm].
  replace (N.max wc 1) with wc by lia.
  assert (IO : (match rp a with
                | RU => if s then fz (sext wc (pl a)) (sext wc (pl b)) else fn (pl a) (pl b)
                | RB => if s then fz (to_bigint a) (to_bigint b) else fn (pl a) (pl b)
                end)
               = fz (if s then sval wc (pl a) else Z.of_N (pl a)) (if s then sval wc (pl b) else Z.of_N (pl b))).
  { destruct (rp a), s; rewrite ?sext_sval, ?(to_bigint_sval a wc), ?(to_bigint_sval b wc), ?Hf by assumption;
      reflexivity. }
  rewrite IO. clear IO.
  destruct (N.eqb_spec (mk a) 0), (N.eqb_spec (mk b) 0); cbn [negb orb andb bit_x1];
    unfold unew_x, unew; rewrite ?umask1;
    try (apply bit_result; [assumption | lia | lia | reflexivity]).
  destruct (fz _ _); cbv iota; apply bit_result; try assumption; try lia; reflexivity.
Qed.

Theorem eval_greater_spec x y w s :
  cmp_ok x y -> 1 <= w -> agrees (eval_binary Greater x y w s) (spec_binary Greater x y w s) w.
Proof. intros. apply rel_spec; try assumption. apply gtb_N. Qed.
Theorem eval_greatereq_spec x y w s :
  cmp_ok x y -> 1 <= w -> agrees (eval_binary GreaterEq x y w s) (spec_binary GreaterEq x y w s) w.
Proof. intros. apply rel_spec; try assumption. apply geb_N. Qed.
Theorem eval_less_spec x y w s :
  cmp_ok x y -> 1 <= w -> agrees (eval_binary Less x y w s) (spec_binary Less x y w s) w.
Proof. intros. apply rel_spec; try assumption. apply ltb_N. Qed.
Theorem eval_lesseq_spec x y w s :
  cmp_ok x y -> 1 <= w -> agrees (eval_binary LessEq x y w s) (spec_binary LessEq x y w s) w.
Proof. intros. apply rel_spec; try assumption. apply leb_N. Qed.

(* ------------------------------------------------------------------ equality *)
Lemma definite_ldiff v w :
  wd v = w -> pl v < 2 ^ w -> (rp v = RU -> w <= 64) -> definite v = N.ldiff (pl v) (mk v).
Proof.
  intros Wv Pv U. unfold definite, rnot, not64. rewrite Wv.
  apply N.bits_inj; intro i. destruct (rp v).
  - specialize (U eq_refl). change U64MAX with (ones 64). tbsimp.
    destruct (N.ltb_spec i w) as [Hi|Hi].
    + replace (i <? 64) with true by (symmetry; apply N.ltb_lt; lia). tbcases; reflexivity.
    + hi_bits Hi. reflexivity.
  - rewrite bmask_ones. tbsimp.
    destruct (N.ltb_spec i w) as [Hi|Hi]; [|hi_bits Hi]; tbcases; reflexivity.
Qed.

(* a definite mismatch (the standard's "0") implies that the definite parts differ *)
Lemma mismatch_differ pa ma pb mb :
  N.ldiff pa ma = N.ldiff pb mb -> N.ldiff (N.ldiff (N.lxor pa pb) ma) mb = 0.
Proof.
  intros H. apply N.bits_inj; intro i.
  assert (Hi : N.testbit (N.ldiff pa ma) i = N.testbit (N.ldiff pb mb) i) by (rewrite H; reflexivity).
  revert Hi. tbsimp. tbcases; simpl; congruence.
Qed.

(* The known deviation class of == and != (KNOWN_FINDINGS key Eq:xz-vs-one): no bit position
   holds two known, different bits, yet the known parts of the operands differ -- i.e. an x/z bit
   faces a 1.  IEEE 1800 gives x; the implementation answers as if the operands differed. *)
Definition eq_known_dev (x y : value) : bool :=
  let s := sg x && sg y in
  let wc := N.max (wd x) (wd y) in
  let A := xext s wc x in let B := xext s wc y in
  negb (definite_mismatch A B) && negb (N.ldiff (vp A) (vm A) =? N.ldiff (vp B) (vm B)).

Lemma eq_core x y width sgn o :
  o = Eq \/ o = Ne -> cmp_ok x y -> 1 <= width -> eq_known_dev x y = false ->
  agrees (eval_binary o x y width sgn) (spec_binary o x y width sgn) width.
Proof.
  intros Ho H Hwidth ND. set (s := sg x && sg y) in *. set (wc := N.max (wd x) (wd y)) in *.
  destruct (cmp_expand_spec x y s H) as (a & b & E & Hw & Wa & Wb & Pa & Ma & Pb & Mb & R & U & Xa & Xb).
  fold wc in Hw, Wa, Wb, Pa, Ma, Pb, Mb, U, Xa, Xb.
  assert (U' : rp b = RU -> wc <= 64) by (rewrite <- R; exact U).
  unfold eq_known_dev in ND. fold s wc in ND. rewrite Xa, Xb in ND. cbn [vecv vp vm] in ND.
  unfold definite_mismatch in *. cbn [vecv vp vm] in *.
  assert (K : (N.ldiff (pl a) (mk a) =? N.ldiff (pl b) (mk b)) = true ->
              (N.ldiff (N.ldiff (N.lxor (pl a) (pl b)) (mk a)) (mk b) =? 0) = true).
  { intros Q. apply N.eqb_eq in Q. apply N.eqb_eq. apply mismatch_differ. exact Q. }
  assert (Q2 : mk a = 0 -> mk b = 0 ->
               (N.ldiff (N.ldiff (N.lxor (pl a) (pl b)) (mk a)) (mk b) =? 0)
               = (N.ldiff (pl a) (mk a) =? N.ldiff (pl b) (mk b))).
  { intros -> ->. rewrite !N.ldiff_0_r. destruct (N.eqb_spec (pl a) (pl b)) as [->|NE].
    - rewrite N.lxor_nilpotent. reflexivity.
    - destruct (N.eqb_spec (N.lxor (pl a) (pl b)) 0) as [Z|]; [|reflexivity].
      apply N.lxor_eq in Z. contradiction. }
  destruct Ho as [-> | ->]; unfold eval_binary, spec_binary; fold s wc; rewrite E, Xa, Xb; cbn [bind];
    rewrite (definite_ldiff a wc Wa Pa U), (definite_ldiff b wc Wb Pb U');
    unfold s_eq, s_ne, definite_mismatch, known, is_xz, nz; cbn [vecv vp vm];
    destruct (N.ldiff (pl a) (mk a) =? N.ldiff (pl b) (mk b)) eqn:D;
    destruct (N.ldiff (N.ldiff (N.lxor (pl a) (pl b)) (mk a)) (mk b) =? 0) eqn:MM;
    cbn [negb andb] in *; try discriminate; try (specialize (K eq_refl); discriminate);
    destruct (N.eqb_spec (mk a) 0) as [Za|Za], (N.eqb_spec (mk b) 0) as [Zb|Zb];
    cbn [negb andb orb bit_0x bit_1x]; unfold unew_x, unew; rewrite ?umask1;
    try (apply bit_result; [assumption | lia | lia | reflexivity]);
    try (rewrite (Q2 Za Zb) in MM; congruence).
Qed.

Theorem eval_eq_spec x y w sgn :
  cmp_ok x y -> 1 <= w -> eq_known_dev x y = false ->
  agrees (eval_binary Eq x y w sgn) (spec_binary Eq x y w sgn) w.
Proof. intros. apply eq_core; auto. Qed.
Theorem eval_ne_spec x y w sgn :
  cmp_ok x y -> 1 <= w -> eq_known_dev x y = false ->
  agrees (eval_binary Ne x y w sgn) (spec_binary Ne x y w sgn) w.
Proof. intros. apply eq_core; auto. Qed.

(* ------------------------------------------------------------------ wildcard equality *)
Lemma wild_diff r w pa pb ma mb :
  pa < 2 ^ w -> pb < 2 ^ w -> (r = RU -> w <= 64) ->
  N.land (N.land (N.lxor pa pb) (rnot r w mb)) (rnot r w ma) = N.ldiff (N.ldiff (N.lxor pa pb) mb) ma.
Proof.
  intros Pa Pb U. unfold rnot, not64. apply N.bits_inj; intro i. destruct r.
  - specialize (U eq_refl). change U64MAX with (ones 64). tbsimp.
    destruct (N.ltb_spec i w) as [Hi|Hi].
    + replace (i <? 64) with true by (symmetry; apply N.ltb_lt; lia). tbcases; reflexivity.
    + hi_bits Hi. reflexivity.
  - rewrite bmask_ones. tbsimp.
    destruct (N.ltb_spec i w) as [Hi|Hi]; [|hi_bits Hi]; tbcases; reflexivity.
Qed.

Lemma wild_x r w ma mb :
  ma < 2 ^ w -> (r = RU -> w <= 64) -> N.land ma (rnot r w mb) = N.ldiff ma mb.
Proof.
  intros Ma U. unfold rnot, not64. apply N.bits_inj; intro i. destruct r.
  - specialize (U eq_refl). change U64MAX with (ones 64). tbsimp.
    destruct (N.ltb_spec i w) as [Hi|Hi].
    + replace (i <? 64) with true by (symmetry; apply N.ltb_lt; lia). tbcases; reflexivity.
    + hi_bits Hi. reflexivity.
  - rewrite bmask_ones. tbsimp.
    destruct (N.ltb_spec i w) as [Hi|Hi]; [|hi_bits Hi]; tbcases; reflexivity.
Qed.

Lemma weq_core x y width sgn o :
  o = EqWildcard \/ o = NeWildcard -> cmp_ok x y -> 1 <= width ->
  agrees (eval_binary o x y width sgn) (spec_binary o x y width sgn) width.
Proof.
  intros Ho H Hwidth. set (s := sg x && sg y) in *. set (wc := N.max (wd x) (wd y)) in *.
  destruct (cmp_expand_spec x y s H) as (a & b & E & Hw & Wa & Wb & Pa & Ma & Pb & Mb & R & U & Xa & Xb).
  fold wc in Hw, Wa, Wb, Pa, Ma, Pb, Mb, U, Xa, Xb.
  destruct Ho as [-> | ->]; unfold eval_binary, spec_binary; fold s wc; rewrite E, Xa, Xb; cbn [bind];
    rewrite Wb, (wild_diff (rp a) wc _ _ _ _ Pa Pb U), (wild_x (rp a) wc _ _ Ma U);
    unfold s_wne, s_weq, nz; cbn [vecv vp vm];
    destruct (N.ldiff (N.ldiff (N.lxor (pl a) (pl b)) (mk b)) (mk a) =? 0);
    destruct (N.ldiff (mk a) (mk b) =? 0);
    cbn [negb bit_0x bit_1x vec_of_bit pbit mbit]; unfold unew_x, unew; rewrite ?umask1;
    apply bit_result; try assumption; try lia; reflexivity.
Qed.

Theorem eval_eqwildcard_spec x y w sgn :
  cmp_ok x y -> 1 <= w -> agrees (eval_binary EqWildcard x y w sgn) (spec_binary EqWildcard x y w sgn) w.
Proof. intros. apply weq_core; auto. Qed.
Theorem eval_newildcard_spec x y w sgn :
  cmp_ok x y -> 1 <= w -> agrees (eval_binary NeWildcard x y w sgn) (spec_binary NeWildcard x y w sgn) w.
Proof. intros. apply weq_core; auto. Qed.

(* ------------------------------------------------------------------ logical *)
Lemma ones_nonzero w : 1 <= w -> ones w <> 0.
Proof. intros. unfold ones. assert (2 ^ 1 <= 2 ^ w) by (apply pow2_le; assumption). change (2 ^ 1) with 2 in *. lia. Qed.

(* zero extension (and replication of an unsized literal) keeps truth value and x/z-ness *)
Lemma truth_xext x w :
  wfo x -> wd x <= w -> 1 <= w ->
  truth (xext false w x) = truth (vecv x) /\ nz (vm (xext false w x)) = nz (mk x).
Proof.
  intros [Hn | Hs] Hle Hw.
  - destruct Hn as (H1 & _). unfold xext, ext.
    destruct (N.eqb_spec (wd x) 0); [lia|]. destruct (N.ltb_spec w (wd x)); [lia|].
    cbn [andb negb]. rewrite Bool.orb_true_r. split; reflexivity.
  - destruct Hs as (H0 & _ & Hp & Hm). unfold xext. rewrite H0. cbn [N.eqb].
    pose proof (ones_nonzero w Hw) as O.
    assert (P : pl x = 0 \/ pl x = 1) by lia. assert (M : mk x = 0 \/ mk x = 1) by lia.
    unfold truth, vecv, nz. cbn [vp vm].
    destruct P as [-> | ->], M as [-> | ->]; cbn [N.eqb negb];
      rewrite ?N.ldiff_0_l, ?N.ldiff_0_r, ?N.ldiff_diag; cbn [N.eqb negb];
      destruct (N.eqb_spec (ones w) 0); try contradiction; split; reflexivity.
Qed.

Definition is_tf (t : tri) : bool := match t with TF => true | _ => false end.
(* The known deviation class of && (KNOWN_FINDINGS key LogicAnd:false-and-xz): one operand is
   definitely false (all bits known 0) and some operand bit is x/z.  IEEE 1800 gives 0, the
   implementation x. *)
Definition land_known_dev (x y : value) : bool :=
  (is_tf (truth (vecv x)) || is_tf (truth (vecv y))) && (nz (mk x) || nz (mk y)).

Lemma logic_core x y width sgn o :
  o = LogicAnd \/ o = LogicOr -> cmp_ok x y -> 1 <= width ->
  (o = LogicAnd -> land_known_dev x y = false) ->
  agrees (eval_binary o x y width sgn) (spec_binary o x y width sgn) width.
Proof.
  intros Ho H Hwidth ND. set (wc := N.max (wd x) (wd y)) in *.
  destruct (cmp_expand_spec x y false H) as (a & b & E & Hw & Wa & Wb & Pa & Ma & Pb & Mb & R & U & Xa & Xb).
  fold wc in Hw, Wa, Wb, Pa, Ma, Pb, Mb, U, Xa, Xb.
  assert (U' : rp b = RU -> wc <= 64) by (rewrite <- R; exact U).
  pose proof H as (Hx & Hy & (Lx & _) & (Ly & _) & _).
  destruct (truth_xext x wc Hx Lx Hw) as (Tx & Nx). destruct (truth_xext y wc Hy Ly Hw) as (Ty & Ny).
  rewrite Xa in Tx, Nx. rewrite Xb in Ty, Ny. cbn [vecv vm] in Nx, Ny.
  unfold land_known_dev in ND. rewrite <- Tx, <- Ty, <- Nx, <- Ny in ND.
  destruct Ho as [-> | ->]; unfold eval_binary, spec_binary; rewrite E; cbn [bind];
    unfold s_land, s_lor; rewrite <- Tx, <- Ty;
    rewrite (definite_ldiff a wc Wa Pa U), (definite_ldiff b wc Wb Pb U');
    unfold truth, is_xz, nz in *; cbn [vecv vp vm] in *;
    [specialize (ND eq_refl) | clear ND];
    destruct (N.ldiff (pl a) (mk a) =? 0), (N.ldiff (pl b) (mk b) =? 0),
             (mk a =? 0), (mk b =? 0);
    cbn [negb andb orb is_tf tri_and tri_or vec_of_tri vec_of_bit pbit mbit bit_1x] in *;
    try discriminate;
    unfold unew_x, unew; rewrite ?umask1;
    apply bit_result; try assumption; try lia; reflexivity.
Qed.

Theorem eval_logicand_spec x y w sgn :
  cmp_ok x y -> 1 <= w -> land_known_dev x y = false ->
  agrees (eval_binary LogicAnd x y w sgn) (spec_binary LogicAnd x y w sgn) w.
Proof. intros. apply logic_core; auto. Qed.
Theorem eval_logicor_spec x y w sgn :
  cmp_ok x y -> 1 <= w ->
  agrees (eval_binary LogicOr x y w sgn) (spec_binary LogicOr x y w sgn) w.
Proof. intros. apply logic_core; auto. intro; discriminate. Qed.
