(* How the analyzer's calling convention (operands, context width, signedness) maps onto the
   IEEE 1800 reference operators of BV/Ops1800.v.  Executable; used both by the theorems
   (Value/ValueProofs.v) and, evaluated by vm_compute, as the oracle of the C17 check. *)
From VV Require Export BV.Ops1800 Value.ValueModel.
Open Scope N_scope.

Definition vecv (v : value) : vec := mkVec (pl v) (mk v).

(* operand brought to context width w: extension (11.6), truncation when wider, replication
   for the unsized all-bit literals '0 '1 'x 'z (modelled with width 0) *)
Definition xext (signed : bool) (w : N) (v : value) : vec :=
  if wd v =? 0 then mkVec (if nz (pl v) then ones w else 0) (if nz (mk v) then ones w else 0)
  else if w <? wd v then mkVec (pl v mod 2 ^ w) (mk v mod 2 ^ w)
  else ext (signed && sg v) (wd v) w (vecv v).

Definition amount (y : value) : option N := if nz (mk y) then None else Some (pl y).
Definition exponent (y : value) : option Z :=
  if nz (mk y) then None
  else Some (if sg y then sval (wd y) (pl y) else Z.of_N (pl y)).

(* a 1-bit result placed in a context of width w (zero extension) *)
Definition bit_in (w : N) (v : vec) : vec := v.

Definition spec_unary (o : op) (x : value) (w : N) (signed : bool) : option vec :=
  match o with
  | Add => Some (xext signed w x)
  | Sub => Some (s_neg w (xext signed w x))
  | BitNot => Some (s_not w (xext signed w x))
  | BitAnd => Some (s_red_and (wd x) (vecv x))
  | BitNand => Some (s_red_nand (wd x) (vecv x))
  | BitOr => Some (s_red_or (wd x) (vecv x))
  | BitNor => Some (s_red_nor (wd x) (vecv x))
  | BitXor => Some (s_red_xor (wd x) (vecv x))
  | BitXnor => Some (s_red_xnor (wd x) (vecv x))
  | LogicNot => Some (s_lnot (vecv x))
  | _ => None
  end.

Definition spec_binary (o : op) (x y : value) (w : N) (signed : bool) : option vec :=
  let a := xext signed w x in
  let b := xext signed w y in
  let wc := N.max (wd x) (wd y) in
  match o with
  | Add => Some (s_add w a b)
  | Sub => Some (s_sub w a b)
  | Mul => Some (s_mul w a b)
  | Div => Some (s_div signed w a b)
  | Rem => Some (s_rem signed w a b)
  | BitAnd => Some (s_and w a b)
  | BitOr => Some (s_or w a b)
  | BitXor => Some (s_xor w a b)
  | BitXnor => Some (s_xnor w a b)
  | Eq => let s := sg x && sg y in Some (s_eq (xext s wc x) (xext s wc y))
  | Ne => let s := sg x && sg y in Some (s_ne (xext s wc x) (xext s wc y))
  | EqWildcard => let s := sg x && sg y in Some (s_weq (xext s wc x) (xext s wc y))
  | NeWildcard => let s := sg x && sg y in Some (s_wne (xext s wc x) (xext s wc y))
  | Greater => Some (s_rel signed wc (xext signed wc x) (xext signed wc y) Z.gtb)
  | GreaterEq => Some (s_rel signed wc (xext signed wc x) (xext signed wc y) Z.geb)
  | Less => Some (s_rel signed wc (xext signed wc x) (xext signed wc y) Z.ltb)
  | LessEq => Some (s_rel signed wc (xext signed wc x) (xext signed wc y) Z.leb)
  | LogicAnd => Some (s_land (vecv x) (vecv y))
  | LogicOr => Some (s_lor (vecv x) (vecv y))
  | LogicShiftL | ArithShiftL => Some (s_shl w a (amount y))
  | LogicShiftR => Some (s_shr w a (amount y))
  | ArithShiftR => Some (s_ashr signed w a (amount y))
  | Pow => Some (s_pow (signed && sg x) w a (exponent y))
  | _ => None
  end.

(* The same function arranged so that vm_compute terminates quickly on huge shift amounts
   (N.shiftl by 2^32 would build a 2^32-bit number; N.shiftr iterates the amount): amounts are
   clipped to the context width first.  spec_binary_exec_eq (ValueProofs.v) proves it equal to
   spec_binary; the check evaluates this one. *)
Definition clip (w : N) (a : option N) : option N := option_map (N.min w) a.
Definition spec_binary_exec (o : op) (x y : value) (w : N) (signed : bool) : option vec :=
  let a := xext signed w x in
  match o with
  | LogicShiftL | ArithShiftL => Some (s_shl w a (clip w (amount y)))
  | LogicShiftR => Some (s_shr w a (clip w (amount y)))
  | ArithShiftR => Some (s_ashr signed w a (clip w (amount y)))
  | _ => spec_binary o x y w signed
  end.

(* observable part of a model / implementation result *)
Definition obs (v : value) : N * N * N := (pl v, mk v, wd v).
