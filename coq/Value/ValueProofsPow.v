(* C17 proofs, part 6: the power operator (outside its two known deviation classes). *)
From VV Require Import BV.Ops1800 BV.BitLemmas Value.ValueModel Value.SpecGlue Value.ValueProofs
  Value.ValueProofsCmp Value.ValueProofsDiv.
Open Scope N_scope.

(* ------------------------------------------------------------------ modular exponentiation *)
Lemma pmodpow_spec b p m : m <> 0 -> pmodpow b p m = (b ^ Npos p) mod m.
Proof.
  intros Hm. induction p as [p IH | p IH |]; cbn [pmodpow].
  - rewrite IH. rewrite <- (N.mul_mod (b ^ N.pos p) (b ^ N.pos p) m) by assumption.
    rewrite <- N.mul_mod by assumption.
    replace (N.pos p~1) with (N.pos p + N.pos p + 1) by lia.
    rewrite !N.pow_add_r, N.pow_1_r. reflexivity.
  - rewrite IH. rewrite <- N.mul_mod by assumption.
    replace (N.pos p~0) with (N.pos p + N.pos p) by lia. rewrite N.pow_add_r. reflexivity.
  - rewrite N.pow_1_r. reflexivity.
Qed.

Lemma modpow_spec b e m : m <> 0 -> modpow b e m = (b ^ e) mod m.
Proof. intros Hm. destruct e; cbn [modpow]; [rewrite N.pow_0_r; reflexivity | apply pmodpow_spec; assumption]. Qed.

Lemma zpow_mod_pos_spec b p m : (0 < m)%Z -> zpow_mod_pos b p m = ((b ^ Zpos p) mod m)%Z.
Proof.
  intros Hm. assert (Hm' : m <> 0%Z) by lia. induction p as [p IH | p IH |]; cbn [zpow_mod_pos].
  - rewrite IH. rewrite <- (Z.mul_mod (b ^ Z.pos p) (b ^ Z.pos p) m) by assumption.
    rewrite <- Z.mul_mod by assumption.
    replace (Z.pos p~1) with (Z.pos p + Z.pos p + 1)%Z by lia.
    rewrite !Z.pow_add_r, Z.pow_1_r by lia. reflexivity.
  - rewrite IH. rewrite <- Z.mul_mod by assumption.
    replace (Z.pos p~0) with (Z.pos p + Z.pos p)%Z by lia. rewrite Z.pow_add_r by lia. reflexivity.
  - rewrite Z.pow_1_r. reflexivity.
Qed.

Lemma zpow_mod_spec b e m : (0 < m)%Z -> zpow_mod b e m = ((b ^ Z.of_N e) mod m)%Z.
Proof. intros Hm. destruct e; cbn [zpow_mod Z.of_N]; [reflexivity | apply zpow_mod_pos_spec; assumption]. Qed.

Lemma odd_N2Z n : Z.odd (Z.of_N n) = N.odd n.
Proof. destruct n as [|[p|p|]]; reflexivity. Qed.

(* the implementation's magnitude / sign split of the base computes the signed power modulo 2^w *)
Lemma pow_core b n w :
  pow_mod_width (Z.abs_N b) (b <? 0)%Z n w = Z.to_N (zpow_mod b n (2 ^ Z.of_N w)).
Proof.
  unfold pow_mod_width. rewrite bmask_ones, ones_succ.
  assert (HM : 2 ^ w <> 0) by (apply N.pow_nonzero; discriminate).
  assert (HZ : (0 < 2 ^ Z.of_N w)%Z) by (apply Z.pow_pos_nonneg; lia).
  rewrite modpow_spec by assumption. rewrite zpow_mod_spec by assumption.
  pose proof (pow2_N2Z w) as E.
  set (a := Z.abs_N b). set (M := 2 ^ w) in *.
  assert (R : Z.of_N ((a ^ n) mod M) = ((Z.of_N a ^ Z.of_N n) mod 2 ^ Z.of_N w)%Z).
  { rewrite N2Z.inj_mod, N2Z.inj_pow, E. reflexivity. }
  destruct (Z.ltb_spec b 0) as [Hneg | Hpos].
  - assert (Hb : b = (- Z.of_N a)%Z) by (unfold a; rewrite N2Z.inj_abs_N; lia).
    cbn [andb]. destruct (N.odd n) eqn:O.
    + (* odd exponent of a negative base *)
      assert (OZ : Z.Odd (Z.of_N n)) by (apply Z.odd_spec; rewrite odd_N2Z; exact O).
      rewrite Hb, Z.pow_opp_odd by assumption. cbn [andb]. unfold nz.
      destruct (N.eqb_spec ((a ^ n) mod M) 0) as [Z0 | NZ0]; cbn [negb].
      * rewrite Z.mod_opp_l_z by (try lia; rewrite <- R, Z0; reflexivity). rewrite Z0. reflexivity.
      * rewrite Z.mod_opp_l_nz by (try lia; rewrite <- R; lia).
        rewrite <- R, <- E. pose proof (N.mod_lt (a ^ n) M HM) as L.
        set (r := a ^ n mod M) in *. clearbody r M.
        rewrite N.mod_small by lia. apply N2Z.inj. rewrite Z2N.id by lia. rewrite N2Z.inj_sub by lia. reflexivity.
    + assert (EZ : Z.Even (Z.of_N n)).
      { apply Z.even_spec. rewrite <- Z.negb_odd, odd_N2Z, O. reflexivity. }
      rewrite Hb, Z.pow_opp_even by assumption. rewrite <- R, N2Z.id. reflexivity.
  - assert (Hb : b = Z.of_N a) by (unfold a; rewrite N2Z.inj_abs_N; lia).
    cbn [andb]. rewrite Hb, <- R, N2Z.id. reflexivity.
Qed.

(* ------------------------------------------------------------------ the power operator *)
(* Known deviation classes (KNOWN_FINDINGS.txt), used by the check to key findings:
   (a) signed exponent with x/z bits whose payload sign bit is 1: taken as a negative exponent;
   (b) a known non-negative exponent >= 2^64 saturates to 2^64-1 (to_shift_amount). *)
Definition pow_xz_sign_dev (y : value) : bool :=
  sg y && nz (mk y) && (0 <? wd y) && N.testbit (pl y) (wd y - 1).
Definition pow_big_exp_dev (y : value) : bool :=
  negb (nz (mk y)) && (2 ^ 64 <=? pl y) && negb (sg y && (0 <? wd y) && N.testbit (pl y) (wd y - 1)).

(* x ** y: x context-determined and the context takes x's signedness, y self-determined *)
Definition pow_ok (x y : value) (w : N) (s : bool) : Prop :=
  wfn x /\ expandable x w /\ 1 <= w /\ s = sg x /\
  1 <= wd y /\ pl y < 2 ^ wd y /\
  pow_xz_sign_dev y = false /\ pow_big_exp_dev y = false.

Lemma sval_pm1 w p : 1 <= w -> p < 2 ^ w -> p <> 1 -> p <> ones w ->
  sval w p <> 1%Z /\ sval w p <> (-1)%Z.
Proof.
  intros Hw Hp H1 Hm. unfold sval, ones in *. pose proof (pow2_N2Z w) as E.
  destruct ((0 <? w) && N.testbit p (w - 1)); lia.
Qed.

Lemma sval_ones w : 1 <= w -> sval w (ones w) = (-1)%Z.
Proof.
  intros Hw. unfold sval. rewrite tb_ones. destruct (N.ltb_spec 0 w); [|lia].
  destruct (N.ltb_spec (w - 1) w); [|lia]. cbn [andb].
  pose proof (pow2_N2Z w) as E. pose proof (pow2_pos w). unfold ones. lia.
Qed.

Lemma sval_one w : 2 <= w -> sval w 1 = 1%Z.
Proof.
  intros Hw. unfold sval. replace (N.testbit 1 (w - 1)) with false; [rewrite Bool.andb_false_r; reflexivity|].
  symmetry. apply (tb_lt 1 1); [reflexivity | lia].
Qed.

Lemma of_z_m1 w : of_z w (-1) = ones w.
Proof.
  rewrite <- (of_z_add_mul w (-1) 1). unfold of_z. pose proof (pow2_N2Z w) as E. pose proof (pow2_pos w).
  rewrite Z.mod_small by lia. unfold ones. lia.
Qed.

Lemma of_z_1 w : 1 <= w -> of_z w 1 = 1.
Proof.
  intros Hw. change 1%Z with (Z.of_N 1). rewrite of_z_N. apply N.mod_small.
  assert (2 ^ 1 <= 2 ^ w) by (apply pow2_le; assumption). change (2 ^ 1) with 2 in *. lia.
Qed.

Lemma sval_msb_clear w p : ((0 <? w) && N.testbit p (w - 1)) = false -> sval w p = Z.of_N p.
Proof. intros H. unfold sval. rewrite H. reflexivity. Qed.

Lemma sval_msb_set_neg w p : p < 2 ^ w -> ((0 <? w) && N.testbit p (w - 1)) = true -> (sval w p < 0)%Z.
Proof. intros Hp H. unfold sval. rewrite H. pose proof (pow2_N2Z w). lia. Qed.

Lemma odd_sval w p : 1 <= w -> Z.odd (sval w p) = N.odd p.
Proof.
  intros Hw. unfold sval. destruct ((0 <? w) && N.testbit p (w - 1)); [|apply odd_N2Z].
  rewrite Z.odd_sub, odd_N2Z, Z.odd_pow by lia. cbn. destruct (N.odd p); reflexivity.
Qed.

Theorem eval_pow_spec x y w s :
  pow_ok x y w s -> agrees (eval_binary Pow x y w s) (spec_binary Pow x y w s) w.
Proof.
  intros (Hx & Ex & Hw & Hs & Hy1 & Hyp & D1 & D2).
  destruct (expand_spec x w s (or_introl Hx) Ex Hw) as (e & E & (W1 & Wp & Wm & WU) & Wd & _ & Pe & Me & Se).
  rewrite Wd in *.
  assert (X : xext s w x = vecv e) by (apply vec_eq; simpl; congruence).
  assert (SG : sg e = sg x).
  { rewrite Se. destruct Hx as (Hx1 & _). destruct (N.eqb_spec (wd x) w); [reflexivity|].
    destruct (N.eqb_spec (wd x) 0); [lia|]. rewrite Hs. apply Bool.andb_diag. }
  unfold eval_binary, spec_binary. rewrite E, X. cbn [bind]. rewrite ?Wd.
  rewrite (rmask_ones (rp e) w WU). rewrite land_ones, (mod_small_pow _ _ Wp).
  rewrite Hs, Bool.andb_diag, <- SG.
  unfold s_pow, exponent, known, is_xz, nz in *. cbn [vecv vp vm].
  unfold pow_xz_sign_dev, pow_big_exp_dev, nz in D1, D2.
  set (yneg := sg y && (0 <? wd y) && N.testbit (pl y) (wd y - 1)) in *.
  assert (YN : sg y && ((0 <? wd y) && N.testbit (pl y) (wd y - 1)) = yneg)
    by (unfold yneg; rewrite Bool.andb_assoc; reflexivity).
  destruct (N.eqb_spec (mk y) 0) as [Zy | NZy]; cbn [negb] in *.
  2:{ (* x/z in the exponent *)
    assert (yneg = false).
    { unfold yneg. destruct (sg y); [|reflexivity]. cbn [andb] in *. exact D1. }
    rewrite H. unfold to_shift_amount. replace (nz (mk y)) with true by (symmetry; apply nz_true; assumption).
    destruct (rp y); unfold unew_x, bnew_x, allx; destruct (rp e) eqn:R;
      try (specialize (WU eq_refl); rewrite umask_ones by assumption); apply agrees_mk; fin. }
  destruct yneg eqn:YNe.
  - (* negative exponent: Table 11-4 *)
    assert (SY : sg y = true) by (unfold yneg in YNe; destruct (sg y); [reflexivity | discriminate]).
    rewrite SY in *. cbn [andb] in YN.
    assert (NEG : (sval (wd y) (pl y) <? 0)%Z = true)
      by (apply Z.ltb_lt; apply sval_msb_set_neg; assumption).
    rewrite NEG. rewrite (odd_sval _ _ Hy1).
    destruct (N.eqb_spec (mk e) 0) as [Ze | NZe]; cbn [negb orb].
    2:{ unfold allx. apply agrees_mk; fin. }
    destruct (N.eqb_spec (pl e) 0) as [P0 | NP0].
    { rewrite P0. replace ((if sg e then sval w 0 else Z.of_N (0 mod 2 ^ w)) =? 0)%Z with true.
      - unfold allx. apply agrees_mk; fin.
      - destruct (sg e); [unfold sval; rewrite N.bits_0, Bool.andb_false_r; reflexivity |
                          rewrite N.mod_0_l by (apply N.pow_nonzero; discriminate); reflexivity]. }
    assert (VA0 : ((if sg e then sval w (pl e) else Z.of_N (pl e mod 2 ^ w)) =? 0)%Z = false).
    { apply Z.eqb_neq. destruct (sg e); [apply sval_nonzero; assumption |
                                           rewrite mod_small_pow by assumption; lia]. }
    rewrite VA0.
    assert (M1 : 1 mod 2 ^ w = 1).
    { apply N.mod_small. assert (2 ^ 1 <= 2 ^ w) by (apply pow2_le; assumption). change (2 ^ 1) with 2 in *. lia. }
    destruct (N.eqb_spec (pl e) 1) as [P1 | NP1].
    { rewrite P1, ?M1. destruct (sg e) eqn:Sx.
      - destruct (N.eq_dec w 1) as [-> | W2].
        + (* 1-bit signed 1 is -1 *)
          change (sval 1 1) with (-1)%Z. cbn [Z.eqb].
          destruct (N.odd (pl y)); apply agrees_mk; fin.
        + rewrite sval_one by lia. cbn [Z.eqb]. apply agrees_mk; fin.
      - cbn [Z.of_N Z.eqb Pos.eqb]. apply agrees_mk; fin. }
    destruct (sg e) eqn:Sx; cbn [andb].
    + destruct (N.eqb_spec (pl e) (ones w)) as [PM | NPM].
      * rewrite PM, sval_ones by assumption. cbn [Z.eqb].
        destruct (N.odd (pl y)); apply agrees_mk; try fin;
          [rewrite of_z_m1 | rewrite of_z_1 by assumption]; reflexivity.
      * destruct (sval_pm1 w (pl e) Hw Wp NP1 NPM) as (S1 & S2).
        apply Z.eqb_neq in S1. apply Z.eqb_neq in S2. rewrite S1, S2.
        apply agrees_mk; fin.
    + rewrite mod_small_pow by assumption.
      assert (S1 : (Z.of_N (pl e) =? 1)%Z = false) by (apply Z.eqb_neq; lia).
      assert (S2 : (Z.of_N (pl e) =? -1)%Z = false) by (apply Z.eqb_neq; lia).
      rewrite S1, S2. apply agrees_mk; fin.
  - (* known, non-negative exponent below 2^64 *)
    assert (EXP : (if sg y then sval (wd y) (pl y) else Z.of_N (pl y)) = Z.of_N (pl y)).
    { destruct (sg y); [|reflexivity]. apply sval_msb_clear. cbn [andb] in YN. exact YN. }
    rewrite EXP. replace (Z.of_N (pl y) <? 0)%Z with false by (symmetry; apply Z.ltb_ge; lia).
    rewrite N2Z.id.
    assert (BIG : pl y < 2 ^ 64).
    { rewrite Bool.andb_true_r in D2. cbn [andb] in D2. destruct (N.leb_spec (2 ^ 64) (pl y)); [discriminate | assumption]. }
    assert (TSA : to_shift_amount y = Some (pl y)).
    { unfold to_shift_amount, nz. rewrite Zy. cbn [N.eqb negb]. destruct (rp y); [reflexivity|].
      f_equal. change U64MAX with (2 ^ 64 - 1). lia. }
    rewrite TSA.
    destruct (N.eqb_spec (mk e) 0) as [Ze | NZe]; cbn [negb].
    2:{ unfold allx. apply agrees_mk; fin. }
    destruct (N.eqb_spec w 0); [lia|]. rewrite Bool.andb_false_r.
    assert (RLT : forall b, Z.to_N (zpow_mod b (pl y) (2 ^ Z.of_N w)) < 2 ^ w).
    { intro b. pose proof (pow2_N2Z w) as E2.
      rewrite zpow_mod_spec by (apply Z.pow_pos_nonneg; lia).
      pose proof (Z.mod_pos_bound (b ^ Z.of_N (pl y)) (2 ^ Z.of_N w) ltac:(apply Z.pow_pos_nonneg; lia)). lia. }
    destruct (sg e) eqn:Sx.
    + assert (B : (match rp e with RU => sext w (pl e) | RB => to_bigint e end) = sval w (pl e)).
      { destruct (rp e); [apply sext_sval | apply to_bigint_sval]; assumption. }
      rewrite B, pow_core.
      destruct (rp e) eqn:R.
      * specialize (WU eq_refl). pose proof (RLT (sval w (pl e))) as L.
        destruct (N.ltb_spec (Z.to_N (zpow_mod (sval w (pl e)) (pl y) (2 ^ Z.of_N w))) M64) as [_ | GE].
        -- apply agrees_mk; fin.
        -- exfalso. assert (2 ^ w <= 2 ^ 64) by (apply pow2_le; assumption). change M64 with (2 ^ 64) in GE. lia.
      * apply agrees_mk; try fin. apply RLT.
    + rewrite mod_small_pow by assumption.
      assert (PC : pow_mod_width (pl e) false (pl y) w = Z.to_N (zpow_mod (Z.of_N (pl e)) (pl y) (2 ^ Z.of_N w))).
      { rewrite <- (pow_core (Z.of_N (pl e))).
        replace (Z.abs_N (Z.of_N (pl e))) with (pl e) by (rewrite Zabs2N.id; reflexivity).
        replace (Z.of_N (pl e) <? 0)%Z with false by (symmetry; apply Z.ltb_ge; lia). reflexivity. }
      rewrite PC.
      destruct (rp e) eqn:R.
      * specialize (WU eq_refl). pose proof (RLT (Z.of_N (pl e))) as L.
        destruct (N.ltb_spec (Z.to_N (zpow_mod (Z.of_N (pl e)) (pl y) (2 ^ Z.of_N w))) M64) as [_ | GE].
        -- apply agrees_mk; fin.
        -- exfalso. assert (2 ^ w <= 2 ^ 64) by (apply pow2_le; assumption). change M64 with (2 ^ 64) in GE. lia.
      * apply agrees_mk; try fin. apply RLT.
Qed.
