(* C17: the per-operator results of ValueProofs*.v collected into the statements used by
   Props/C17.v: one theorem per arity over an explicit precondition table, the instance for
   canonical operands (what Value::new & co produce), independence of the representation, the
   executable form of the oracle, and the refutations for the known deviation classes. *)
From VV Require Import BV.Ops1800 BV.BitLemmas Value.ValueModel Value.SpecGlue Value.ValueProofs
  Value.ValueProofsBits Value.ValueProofsCmp Value.ValueProofsRed Value.ValueProofsDiv Value.ValueProofsPow.
Open Scope N_scope.

(* ------------------------------------------------------------------ precondition tables *)
(* Operators proved against the reference: every arm of eval_value_unary / eval_value_binary except
   As (a no-op here; the analyzer evaluates casts elsewhere). *)
Definition pre_unary (o : op) (x : value) (w : N) : Prop :=
  match o with
  | Add | Sub | BitNot => wfo x /\ expandable x w /\ 1 <= w
  | BitAnd | BitNand | BitOr | BitNor | BitXor | BitXnor | LogicNot => wfn x /\ 1 <= w
  | _ => False
  end.

Definition pre_binary (o : op) (x y : value) (w : N) (s : bool) : Prop :=
  match o with
  | Add | Sub | Mul | Div | Rem | BitAnd | BitOr | BitXor | BitXnor => ctx_ok x y w
  | LogicShiftL | ArithShiftL | LogicShiftR | ArithShiftR => shift_ok x y w
  | Greater | GreaterEq | Less | LessEq | EqWildcard | NeWildcard | LogicOr => cmp_ok x y /\ 1 <= w
  | Eq | Ne => cmp_ok x y /\ 1 <= w /\ eq_known_dev x y = false
  | LogicAnd => cmp_ok x y /\ 1 <= w /\ land_known_dev x y = false
  | Pow => pow_ok x y w s
  | _ => False
  end.

Theorem eval_unary_spec o x w s :
  pre_unary o x w -> agrees (eval_unary o x w s) (spec_unary o x w s) w.
Proof.
  destruct o; cbn [pre_unary]; try contradiction.
  - intros (A & B & C). apply eval_unary_add_spec; assumption.
  - intros (A & B & C). apply eval_unary_sub_spec; assumption.
  - intros (A & B). apply eval_red_and_spec; assumption.
  - intros (A & B). apply eval_red_or_spec; assumption.
  - intros (A & B). apply eval_red_xor_spec; assumption.
  - intros (A & B). apply eval_red_xnor_spec; assumption.
  - intros (A & B). apply eval_red_nand_spec; assumption.
  - intros (A & B). apply eval_red_nor_spec; assumption.
  - intros (A & B & C). apply eval_unary_bitnot_spec; assumption.
  - intros (A & B). apply eval_logicnot_spec; assumption.
Qed.

Theorem eval_binary_spec o x y w s :
  pre_binary o x y w s -> agrees (eval_binary o x y w s) (spec_binary o x y w s) w.
Proof.
  destruct o; cbn [pre_binary]; try contradiction.
  - apply eval_add_spec.
  - apply eval_sub_spec.
  - apply eval_mul_spec.
  - apply eval_div_spec.
  - apply eval_rem_spec.
  - apply eval_pow_spec.
  - apply eval_bitand_spec.
  - apply eval_bitor_spec.
  - apply eval_bitxor_spec.
  - apply eval_bitxnor_spec.
  - intros (A & B & C). apply eval_eq_spec; assumption.
  - intros (A & B & C). apply eval_ne_spec; assumption.
  - intros (A & B). apply eval_eqwildcard_spec; assumption.
  - intros (A & B). apply eval_newildcard_spec; assumption.
  - intros (A & B). apply eval_greater_spec; assumption.
  - intros (A & B). apply eval_greatereq_spec; assumption.
  - intros (A & B). apply eval_less_spec; assumption.
  - intros (A & B). apply eval_lesseq_spec; assumption.
  - intros (A & B & C). apply eval_logicand_spec; assumption.
  - intros (A & B). apply eval_logicor_spec; assumption.
  - intros. apply eval_shl_spec; auto.
  - apply eval_shr_spec.
  - intros. apply eval_shl_spec; auto.
  - apply eval_ashr_spec.
Qed.

(* absence of panics: on the same preconditions the model never reaches a checked-arithmetic
   failure or an `unreachable!()` arm *)
Corollary eval_binary_no_panic o x y w s : pre_binary o x y w s -> eval_binary o x y w s <> None.
Proof. intros H. destruct (eval_binary_spec o x y w s H) as (v & E & _). congruence. Qed.
Corollary eval_unary_no_panic o x w s : pre_unary o x w -> eval_unary o x w s <> None.
Proof. intros H. destruct (eval_unary_spec o x w s H) as (v & E & _). congruence. Qed.

(* ------------------------------------------------------------------ canonical operands *)
Lemma wfv_wfo v : wfv v -> wfo v.
Proof. intros [H _]. left. exact H. Qed.

Lemma ctx_ok_wfv x y w : wfv x -> wfv y -> wd x <= w -> wd y <= w -> ctx_ok x y w.
Proof.
  intros Hx Hy Lx Ly. pose proof Hx as [(H1 & _) _].
  repeat split; try (apply wfv_wfo; assumption); try (apply wfv_expandable; assumption); try lia;
    try (apply wfv_expandable; assumption).
  rewrite (wfv_rep_at x w Hx Lx), (wfv_rep_at y w Hy Ly). reflexivity.
Qed.

Lemma cmp_ok_wfv x y : wfv x -> wfv y -> cmp_ok x y.
Proof. intros. apply ctx_ok_wfv; try assumption; lia. Qed.

Lemma shift_ok_wfv x y w : wfv x -> wfv y -> wd x <= w -> w < 2 ^ 32 -> shift_ok x y w.
Proof.
  intros Hx Hy Lx Lw. pose proof Hx as [(H1 & _) _]. pose proof Hy as [(Hy1 & Hyp & _ & HyU) _].
  repeat split; try (apply wfv_wfo; assumption); try lia.
  - apply wfv_expandable; assumption.
  - intro R. specialize (HyU R). eapply N.lt_le_trans; [exact Hyp|]. apply pow2_le. assumption.
Qed.

(* every value in canonical representation with operand widths <= context width satisfies the
   table (up to the two known deviation classes) *)
Theorem pre_binary_canonical o x y w s :
  wfv x -> wfv y -> wd x <= w -> wd y <= w -> w < 2 ^ 32 ->
  match o with
  | As | BitNand | BitNor | BitNot | LogicNot => True
  | Eq | Ne => eq_known_dev x y = false -> pre_binary o x y w s
  | LogicAnd => land_known_dev x y = false -> pre_binary o x y w s
  | Pow => s = sg x -> pow_xz_sign_dev y = false -> pow_big_exp_dev y = false -> pre_binary o x y w s
  | _ => pre_binary o x y w s
  end.
Proof.
  intros Hx Hy Lx Ly Lw. pose proof Hx as [(H1 & _) _].
  assert (1 <= w) by lia.
  destruct o; cbn [pre_binary]; try exact I; try (apply ctx_ok_wfv; assumption);
    try (apply shift_ok_wfv; assumption);
    try (intro D; split; [apply cmp_ok_wfv; assumption | split; assumption]);
    try (split; [apply cmp_ok_wfv; assumption | assumption]).
  (* Pow *)
  intros Hs D1 D2. destruct Hx as [Hn Hb]. destruct Hy as [(Hy1 & Hyp & _) _].
  unfold pow_ok. repeat split; try assumption; try (apply Hn).
  intro R. specialize (Hb R). right. lia.
Qed.

Theorem pre_unary_canonical o x w :
  wfv x -> wd x <= w ->
  match o with
  | Add | Sub | BitNot | BitAnd | BitNand | BitOr | BitNor | BitXor | BitXnor | LogicNot => pre_unary o x w
  | _ => True
  end.
Proof.
  intros Hx Lx. pose proof Hx as [Hn _]. pose proof Hn as (H1 & _).
  destruct o; cbn [pre_unary]; try exact I;
    try (split; [exact Hn | lia]);
    (split; [apply wfv_wfo; assumption | split; [apply wfv_expandable; assumption | lia]]).
Qed.

(* ------------------------------------------------------------------ representations agree *)
(* the numeric content of a value: everything except the representation tag *)
Definition num (v : value) : N * N * N * bool := (pl v, mk v, wd v, sg v).

Lemma xext_num s w v v' : num v = num v' -> xext s w v = xext s w v'.
Proof. unfold num, xext, vecv. intros E. injection E as -> -> -> ->. reflexivity. Qed.

Lemma spec_binary_num o x y x' y' w s :
  num x = num x' -> num y = num y' -> spec_binary o x y w s = spec_binary o x' y' w s.
Proof.
  intros Ex Ey. unfold spec_binary.
  rewrite !(xext_num _ _ x x' Ex), !(xext_num _ _ y y' Ey).
  unfold num in *. injection Ex as Px Mx Wx Sx. injection Ey as Py My Wy Sy.
  unfold amount, exponent, vecv. rewrite Px, Mx, Wx, Sx, Py, My, Wy, Sy. reflexivity.
Qed.

Lemma spec_unary_num o x x' w s : num x = num x' -> spec_unary o x w s = spec_unary o x' w s.
Proof.
  intros Ex. unfold spec_unary. rewrite !(xext_num _ _ x x' Ex).
  unfold num in *. injection Ex as Px Mx Wx Sx. unfold vecv. rewrite Px, Mx, Wx. reflexivity.
Qed.

(* The U64 and the BigUint code paths give the same answer on the same numbers: whenever both
   operand pairs are admissible (e.g. a value of width <= 64 held as ValueU64 and the same value
   held as ValueBigUint, context width = operand width), payload, mask and width agree. *)
Theorem repr_agree_binary o x y x' y' w s :
  pre_binary o x y w s -> pre_binary o x' y' w s -> num x = num x' -> num y = num y' ->
  exists v v', eval_binary o x y w s = Some v /\ eval_binary o x' y' w s = Some v' /\
               pl v = pl v' /\ mk v = mk v' /\ wd v = wd v'.
Proof.
  intros H H' Ex Ey.
  destruct (eval_binary_spec o x y w s H) as (v & E & S & W & _).
  destruct (eval_binary_spec o x' y' w s H') as (v' & E' & S' & W' & _).
  exists v, v'. rewrite (spec_binary_num o x y x' y' w s Ex Ey) in S. rewrite S in S'.
  unfold vecv in S'.
  assert (P : pl v = pl v') by congruence. assert (M : mk v = mk v') by congruence.
  repeat split; try assumption; congruence.
Qed.

Theorem repr_agree_unary o x x' w s :
  pre_unary o x w -> pre_unary o x' w -> num x = num x' ->
  exists v v', eval_unary o x w s = Some v /\ eval_unary o x' w s = Some v' /\
               pl v = pl v' /\ mk v = mk v' /\ wd v = wd v'.
Proof.
  intros H H' Ex.
  destruct (eval_unary_spec o x w s H) as (v & E & S & W & _).
  destruct (eval_unary_spec o x' w s H') as (v' & E' & S' & W' & _).
  exists v, v'. rewrite (spec_unary_num o x x' w s Ex) in S. rewrite S in S'.
  unfold vecv in S'.
  assert (P : pl v = pl v') by congruence. assert (M : mk v = mk v') by congruence.
  repeat split; try assumption; congruence.
Qed.

(* the same number held as BigUint *)
Definition as_big (v : value) : value := mkV RB (pl v) (mk v) (wd v) (sg v).

Lemma as_big_ctx x y w : wfv x -> wfv y -> wd x = w -> wd y = w -> ctx_ok (as_big x) (as_big y) w.
Proof.
  intros [(H1 & Hp & Hm & _) _] [(Hy1 & Hyp & Hym & _) _] Wx Wy.
  assert (A : wfo (as_big x)) by (left; repeat split; cbn [as_big rp pl mk wd]; try assumption; discriminate).
  assert (B : wfo (as_big y)) by (left; repeat split; cbn [as_big rp pl mk wd]; try assumption; discriminate).
  unfold ctx_ok. split; [exact A|]. split; [exact B|].
  split. { split; cbn [as_big rp pl mk wd]; [lia | intros _; left; assumption]. }
  split. { split; cbn [as_big rp pl mk wd]; [lia | intros _; left; assumption]. }
  split; [lia|]. unfold rep_at. cbn [as_big rp pl mk wd]. rewrite Wx, Wy, N.eqb_refl. reflexivity.
Qed.

(* ------------------------------------------------------------------ executable oracle *)
Theorem spec_binary_exec_eq o x y w s : spec_binary_exec o x y w s = spec_binary o x y w s.
Proof.
  unfold spec_binary_exec, spec_binary, clip.
  destruct o; try reflexivity; destruct (amount y) as [t|]; try reflexivity; cbn [option_map];
    f_equal; unfold s_shl, s_shr, s_ashr.
  - (* LogicShiftL *)
    destruct (N.le_gt_cases t w); [replace (N.min w t) with t by lia; reflexivity|].
    replace (N.min w t) with w by lia. rewrite !N.shiftl_mul_pow2, !mul_pow2_mod_0 by lia. reflexivity.
  - (* LogicShiftR *)
    destruct (N.le_gt_cases t w); [replace (N.min w t) with t by lia; reflexivity|].
    replace (N.min w t) with w by lia. rewrite !N.shiftr_div_pow2.
    rewrite !(div_pow2_0 _ _ w) by (try lia; apply N.mod_lt, N.pow_nonzero; discriminate). reflexivity.
  - (* ArithShiftL *)
    destruct (N.le_gt_cases t w); [replace (N.min w t) with t by lia; reflexivity|].
    replace (N.min w t) with w by lia. rewrite !N.shiftl_mul_pow2, !mul_pow2_mod_0 by lia. reflexivity.
  - (* ArithShiftR *)
    destruct (N.le_gt_cases t w); [replace (N.min w t) with t by lia; reflexivity|].
    replace (N.min w t) with w by lia. replace (w - w) with (w - t) by lia. rewrite !N.shiftr_div_pow2.
    rewrite !(div_pow2_0 _ _ w) by (try lia; apply N.mod_lt, N.pow_nonzero; discriminate). reflexivity.
Qed.

(* ------------------------------------------------------------------ known deviations *)
(* 1'bx == 1'b1 : IEEE 1800 (11.4.5) gives x, the implementation 0 (and != gives 1). *)
Definition ex_x1 : value := mkV RU 0 1 1 false.   (* 1'bx *)
Definition ex_11 : value := mkV RU 1 0 1 false.   (* 1'b1 *)
Definition ex_01 : value := mkV RU 0 0 1 false.   (* 1'b0 *)

Theorem eval_eq_refuted :
  exists x y, wfv x /\ wfv y /\ eq_known_dev x y = true /\
    option_map vecv (eval_binary Eq x y 1 false) = Some (mkVec 0 0) /\
    spec_binary Eq x y 1 false = Some (mkVec 0 1).
Proof.
  exists ex_x1, ex_11. unfold wfv, wfn. cbn.
  repeat split; try lia; try reflexivity; try discriminate.
Qed.

Theorem eval_ne_refuted :
  exists x y, wfv x /\ wfv y /\ eq_known_dev x y = true /\
    option_map vecv (eval_binary Ne x y 1 false) = Some (mkVec 1 0) /\
    spec_binary Ne x y 1 false = Some (mkVec 0 1).
Proof.
  exists ex_x1, ex_11. unfold wfv, wfn. cbn.
  repeat split; try lia; try reflexivity; try discriminate.
Qed.

(* 1'b0 && 1'bx : IEEE 1800 (11.4.7) gives 0, the implementation x. *)
Theorem eval_logicand_refuted :
  exists x y, wfv x /\ wfv y /\ land_known_dev x y = true /\
    option_map vecv (eval_binary LogicAnd x y 1 false) = Some (mkVec 0 1) /\
    spec_binary LogicAnd x y 1 false = Some (mkVec 0 0).
Proof.
  exists ex_01, ex_x1. unfold wfv, wfn. cbn.
  repeat split; try lia; try reflexivity; try discriminate.
Qed.

(* 1 ** 1'sbz : the exponent is unknown, IEEE 1800 (11.4.3) gives x; the implementation reads the
   payload bit of the z as a sign bit and answers 1. *)
Theorem eval_pow_refuted :
  exists x y, wfv x /\ wfv y /\ pow_xz_sign_dev y = true /\
    option_map vecv (eval_binary Pow x y 1 false) = Some (mkVec 1 0) /\
    spec_binary Pow x y 1 false = Some (mkVec 0 1).
Proof.
  exists ex_11, (mkV RU 1 1 1 true). unfold wfv, wfn. cbn.
  repeat split; try lia; try reflexivity; try discriminate.
Qed.

(* 100'd3 ** 65'd18446744073709551616 : 3^(2^64) mod 2^100 expected, 3^(2^64-1) mod 2^100 computed *)
Theorem eval_pow_big_exponent_refuted :
  let x := mkV RB 3 0 100 false in let y := mkV RB (2 ^ 64) 0 65 false in
  pow_big_exp_dev y = true /\
  option_map vecv (eval_binary Pow x y 100 false) = Some (mkVec 82794860378804020239867226795 0) /\
  spec_binary Pow x y 100 false = Some (mkVec 248384581136412060719601680385 0).
Proof. repeat split; vm_compute; reflexivity. Qed.

(* ------------------------------------------------------------------ non-vacuity examples *)
Example ex_canonical_u64 : wfv (mkV RU 200 0 8 false) /\ wfv (mkV RU 5 2 3 true).
Proof. unfold wfv, wfn. cbn. repeat split; try lia; discriminate. Qed.
Example ex_canonical_big : wfv (mkV RB (2 ^ 99 + 1) (2 ^ 64) 100 true).
Proof. unfold wfv, wfn. cbn. repeat split; try lia; discriminate. Qed.
(* mixed operands: a 3-bit U64 and a 100-bit BigUint in a 100-bit context *)
Example ex_pre_add_mixed : pre_binary Add (mkV RU 5 2 3 true) (mkV RB (2 ^ 99 + 1) (2 ^ 64) 100 true) 100 true.
Proof.
  apply (pre_binary_canonical Add _ _ _ true).
  - apply ex_canonical_u64.
  - apply ex_canonical_big.
  - cbn; lia.
  - cbn; lia.
  - cbn; lia.
Qed.
(* the same 8-bit numbers held as U64 and as BigUint are both admissible at width 8 *)
Example ex_pre_both_reps :
  pre_binary Mul (mkV RU 200 0 8 false) (mkV RU 77 0 8 false) 8 false /\
  pre_binary Mul (as_big (mkV RU 200 0 8 false)) (as_big (mkV RU 77 0 8 false)) 8 false.
Proof.
  assert (A : wfv (mkV RU 200 0 8 false)) by (unfold wfv, wfn; cbn; repeat split; try lia; discriminate).
  assert (B : wfv (mkV RU 77 0 8 false)) by (unfold wfv, wfn; cbn; repeat split; try lia; discriminate).
  split.
  - apply (pre_binary_canonical Mul _ _ _ false); try assumption; cbn; lia.
  - apply as_big_ctx; try assumption; reflexivity.
Qed.
(* -3 ** 5 at 8 bits, signed: admissible *)
Example ex_pre_pow : pre_binary Pow (mkV RU 253 0 8 true) (mkV RU 5 0 4 false) 8 true.
Proof.
  apply (pre_binary_canonical Pow _ _ _ true); try reflexivity;
    try (unfold wfv, wfn; cbn; repeat split; try lia; discriminate); cbn; lia.
Qed.
Example ex_not_in_dev_class :
  eq_known_dev (mkV RU 2 1 2 false) (mkV RU 1 0 2 false) = false /\
  land_known_dev (mkV RU 2 1 2 false) (mkV RU 1 0 2 false) = false.
Proof. split; reflexivity. Qed.
