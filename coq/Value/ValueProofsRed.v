(* C17 proofs, part 4: reduction operators and logical negation. *)
From VV Require Import BV.Ops1800 BV.BitLemmas Value.ValueModel Value.SpecGlue Value.ValueProofs
  Value.ValueProofsCmp.
Open Scope N_scope.

(* ------------------------------------------------------------------ folds over the bits *)
Fixpoint anyb (P : bit4 -> bool) (a : vec) (n : nat) : bool :=
  match n with O => false | S n' => P (getbit a (N.of_nat n')) || anyb P a n' end.

Lemma anyb_false P a n : anyb P a n = false -> forall i, i < N.of_nat n -> P (getbit a i) = false.
Proof.
  induction n as [|n IH]; intros H i Hi; [lia|].
  cbn [anyb] in H. apply Bool.orb_false_iff in H. destruct H as [H0 H1].
  destruct (N.eq_dec i (N.of_nat n)) as [->|NE]; [assumption|]. apply IH; [assumption | lia].
Qed.

Lemma anyb_true P a n : anyb P a n = true -> exists i, i < N.of_nat n /\ P (getbit a i) = true.
Proof.
  induction n as [|n IH]; intros H; [discriminate|].
  cbn [anyb] in H. apply Bool.orb_true_iff in H. destruct H as [H|H].
  - exists (N.of_nat n). split; [lia | assumption].
  - destruct (IH H) as (i & Hi & Pi). exists i. split; [lia | assumption].
Qed.

(* a number whose bit i is P(bit i of a) below w and 0 above is non-zero iff some bit satisfies P *)
Lemma nz_anyb P a w F :
  (forall i, N.testbit F i = (i <? w) && P (getbit a i)) -> nz F = anyb P a (N.to_nat w).
Proof.
  intros HF. destruct (anyb P a (N.to_nat w)) eqn:A.
  - destruct (anyb_true _ _ _ A) as (i & Hi & Pi). rewrite N2Nat.id in Hi.
    apply nz_true. apply (testbit_nonzero F i). rewrite HF, Pi.
    destruct (N.ltb_spec i w); [reflexivity | lia].
  - apply nz_false. apply N.bits_inj_0. intro i. rewrite HF.
    destruct (N.ltb_spec i w); [|reflexivity].
    rewrite (anyb_false _ _ _ A i) by (rewrite N2Nat.id; assumption). reflexivity.
Qed.

Definition is0 (b : bit4) : bool := match b with B0 => true | _ => false end.
Definition is1 (b : bit4) : bool := match b with B1 => true | _ => false end.

Lemma reduce_and_char a n acc :
  norm1 (reduce_nat and4 a n acc) =
  if is0 acc || anyb is0 a n then B0 else if mbit acc || anyb mbit a n then BX else B1.
Proof.
  revert acc. induction n as [|n IH]; intro acc.
  - cbn. destruct acc; reflexivity.
  - cbn [reduce_nat anyb]. rewrite IH.
    destruct acc, (getbit a (N.of_nat n)), (anyb is0 a n), (anyb mbit a n); reflexivity.
Qed.

Lemma reduce_or_char a n acc :
  norm1 (reduce_nat or4 a n acc) =
  if is1 acc || anyb is1 a n then B1 else if mbit acc || anyb mbit a n then BX else B0.
Proof.
  revert acc. induction n as [|n IH]; intro acc.
  - cbn. destruct acc; reflexivity.
  - cbn [reduce_nat anyb]. rewrite IH.
    destruct acc, (getbit a (N.of_nat n)), (anyb is1 a n), (anyb mbit a n); reflexivity.
Qed.

Fixpoint xorp (a : vec) (n : nat) : bool :=
  match n with O => false | S n' => xorb (pbit (getbit a (N.of_nat n'))) (xorp a n') end.

Lemma reduce_xor_char a n acc :
  norm1 (reduce_nat xor4 a n acc) =
  if mbit acc || anyb mbit a n then BX else if xorb (pbit acc) (xorp a n) then B1 else B0.
Proof.
  revert acc. induction n as [|n IH]; intro acc.
  - cbn. destruct acc; reflexivity.
  - cbn [reduce_nat anyb xorp]. rewrite IH.
    destruct acc, (getbit a (N.of_nat n)), (anyb mbit a n), (xorp a n); reflexivity.
Qed.

Lemma not4_norm1 b : not4 (norm1 b) = not4 b.
Proof. destruct b; reflexivity. Qed.

(* whole-vector forms: width w >= 1 *)
Lemma reduce_and_w a w : 1 <= w ->
  norm1 (reduce and4 w a) =
  if anyb is0 a (N.to_nat w) then B0 else if anyb mbit a (N.to_nat w) then BX else B1.
Proof.
  intros Hw. unfold reduce. destruct (N.to_nat w) as [|n] eqn:E; [lia|].
  rewrite reduce_and_char. cbn [anyb]. reflexivity.
Qed.
Lemma reduce_or_w a w : 1 <= w ->
  norm1 (reduce or4 w a) =
  if anyb is1 a (N.to_nat w) then B1 else if anyb mbit a (N.to_nat w) then BX else B0.
Proof.
  intros Hw. unfold reduce. destruct (N.to_nat w) as [|n] eqn:E; [lia|].
  rewrite reduce_or_char. cbn [anyb]. reflexivity.
Qed.
Lemma reduce_xor_w a w : 1 <= w ->
  norm1 (reduce xor4 w a) =
  if anyb mbit a (N.to_nat w) then BX else if xorp a (N.to_nat w) then B1 else B0.
Proof.
  intros Hw. unfold reduce. destruct (N.to_nat w) as [|n] eqn:E; [lia|].
  rewrite reduce_xor_char. cbn [anyb xorp]. reflexivity.
Qed.

(* ------------------------------------------------------------------ numeric links *)
  Lemma link_xz x w (Px : pl x < 2 ^ w) (Mx : mk x < 2 ^ w) : nz (mk x) = anyb mbit (vecv x) (N.to_nat w).
  Proof.
    apply nz_anyb. intro i. unfold getbit, vecv. cbn [vp vm].
    destruct (N.ltb_spec i w) as [Hi|Hi]; [|hi_bits Hi; reflexivity]. tbcases; reflexivity.
  Qed.

  Lemma link_zero x w (Px : pl x < 2 ^ w) (Mx : mk x < 2 ^ w) : negb (N.lor (pl x) (mk x) =? ones w) = anyb is0 (vecv x) (N.to_nat w).
  Proof.
    rewrite <- (nz_anyb is0 (vecv x) w (N.lxor (N.lor (pl x) (mk x)) (ones w))).
    - unfold nz. f_equal. destruct (N.eqb_spec (N.lor (pl x) (mk x)) (ones w)) as [E|NE].
      + rewrite E, N.lxor_nilpotent. reflexivity.
      + destruct (N.eqb_spec (N.lxor (N.lor (pl x) (mk x)) (ones w)) 0) as [Z|]; [|reflexivity].
        apply N.lxor_eq in Z. contradiction.
    - intro i. unfold getbit, vecv. cbn [vp vm]. tbsimp.
      destruct (N.ltb_spec i w) as [Hi|Hi]; [|hi_bits Hi; reflexivity]. tbcases; reflexivity.
  Qed.

  Lemma link_one x w (Px : pl x < 2 ^ w) (Mx : mk x < 2 ^ w) : nz (N.land (pl x) (N.lxor (mk x) (ones w))) = anyb is1 (vecv x) (N.to_nat w).
  Proof.
    apply nz_anyb. intro i. unfold getbit, vecv. cbn [vp vm]. tbsimp.
    destruct (N.ltb_spec i w) as [Hi|Hi]; [|hi_bits Hi; reflexivity]. tbcases; reflexivity.
  Qed.

(* parity *)
Fixpoint xorbits (p : N) (n : nat) : bool :=
  match n with O => false | S n' => xorb (N.testbit p (N.of_nat n')) (xorbits p n') end.

Lemma xorbits_double q b n : xorbits (2 * q + N.b2n b) (S n) = xorb b (xorbits q n).
Proof.
  induction n as [|n IH].
  - cbn [xorbits]. change (N.of_nat 0) with 0. rewrite N.testbit_0_r. destruct b; reflexivity.
  - change (xorbits (2 * q + N.b2n b) (S (S n)))
      with (xorb (N.testbit (2 * q + N.b2n b) (N.of_nat (S n))) (xorbits (2 * q + N.b2n b) (S n))).
    rewrite IH. rewrite Nat2N.inj_succ, N.testbit_succ_r. cbn [xorbits].
    destruct (N.testbit q (N.of_nat n)), b, (xorbits q n); reflexivity.
Qed.

Lemma parity_double q b : parity (2 * q + N.b2n b) = xorb b (parity q).
Proof. destruct q as [|p], b; cbn; try reflexivity. destruct (pparity p); reflexivity. Qed.

Lemma parity_xorbits n : forall p, p < 2 ^ N.of_nat n -> parity p = xorbits p n.
Proof.
  induction n as [|n IH]; intros p Hp.
  - cbn in Hp. assert (p = 0) by lia. subst. reflexivity.
  - rewrite (N.div2_odd p) at 1 2. rewrite parity_double, xorbits_double. f_equal.
    apply IH. rewrite Nat2N.inj_succ, N.pow_succ_r' in Hp.
    rewrite N.div2_div. apply N.div_lt_upper_bound; lia.
Qed.

Lemma xorp_xorbits x n : mk x = 0 -> xorp (vecv x) n = xorbits (pl x) n.
Proof.
  intros Z. induction n as [|n IH]; [reflexivity|]. cbn [xorp xorbits]. rewrite IH. f_equal.
  unfold getbit, vecv. cbn [vp vm]. rewrite Z, N.bits_0. destruct (N.testbit (pl x) (N.of_nat n)); reflexivity.
Qed.

(* ------------------------------------------------------------------ the reduction theorems *)
Definition red_ok (x : value) : Prop := wfn x.

Lemma red_setup x : wfn x -> (rp x = RU -> wd x <= 64) /\ 1 <= wd x /\ pl x < 2 ^ wd x /\ mk x < 2 ^ wd x.
Proof. intros (H1 & Hp & Hm & HU). repeat split; assumption. Qed.

Ltac red_finish Hwidth :=
  cbn [negb bit_0x bit_1x vec_of_bit norm1 not4 pbit mbit]; unfold unew_x, unew; rewrite ?umask1;
  apply bit_result; try assumption; try lia; reflexivity.

Theorem eval_red_and_spec x width s :
  wfn x -> 1 <= width ->
  agrees (eval_unary BitAnd x width s) (spec_unary BitAnd x width s) width.
Proof.
  intros Hx Hwidth. destruct (red_setup x Hx) as (U & H1 & Px & Mx).
  unfold eval_unary, spec_unary, reduce_result, s_red_and.
  rewrite (rmask_ones (rp x) (wd x) U), (reduce_and_w _ _ H1).
  rewrite (link_zero x (wd x) Px Mx), (link_xz x (wd x) Px Mx).
  destruct (anyb is0 _ _), (anyb mbit _ _); red_finish Hwidth.
Qed.

Theorem eval_red_nand_spec x width s :
  wfn x -> 1 <= width ->
  agrees (eval_unary BitNand x width s) (spec_unary BitNand x width s) width.
Proof.
  intros Hx Hwidth. destruct (red_setup x Hx) as (U & H1 & Px & Mx).
  unfold eval_unary, spec_unary, reduce_result, s_red_nand.
  rewrite <- not4_norm1.
  rewrite (rmask_ones (rp x) (wd x) U), (reduce_and_w _ _ H1).
  rewrite (link_zero x (wd x) Px Mx), (link_xz x (wd x) Px Mx).
  destruct (anyb is0 _ _), (anyb mbit _ _); red_finish Hwidth.
Qed.

Theorem eval_red_or_spec x width s :
  wfn x -> 1 <= width ->
  agrees (eval_unary BitOr x width s) (spec_unary BitOr x width s) width.
Proof.
  intros Hx Hwidth. destruct (red_setup x Hx) as (U & H1 & Px & Mx).
  unfold eval_unary, spec_unary, reduce_result, s_red_or.
  rewrite (rmask_ones (rp x) (wd x) U), (reduce_or_w _ _ H1).
  rewrite (link_one x (wd x) Px Mx), (link_xz x (wd x) Px Mx).
  destruct (anyb is1 _ _), (anyb mbit _ _); red_finish Hwidth.
Qed.

Theorem eval_red_nor_spec x width s :
  wfn x -> 1 <= width ->
  agrees (eval_unary BitNor x width s) (spec_unary BitNor x width s) width.
Proof.
  intros Hx Hwidth. destruct (red_setup x Hx) as (U & H1 & Px & Mx).
  unfold eval_unary, spec_unary, reduce_result, s_red_nor.
  rewrite <- not4_norm1.
  rewrite (rmask_ones (rp x) (wd x) U), (reduce_or_w _ _ H1).
  rewrite (link_one x (wd x) Px Mx), (link_xz x (wd x) Px Mx).
  destruct (anyb is1 _ _), (anyb mbit _ _); red_finish Hwidth.
Qed.

Theorem eval_red_xor_spec x width s :
  wfn x -> 1 <= width ->
  agrees (eval_unary BitXor x width s) (spec_unary BitXor x width s) width.
Proof.
  intros Hx Hwidth. destruct (red_setup x Hx) as (U & H1 & Px & Mx).
  unfold eval_unary, spec_unary, reduce_result, s_red_xor, is_xz.
  rewrite (reduce_xor_w _ _ H1).
  pose proof (link_xz x (wd x) Px Mx) as L. rewrite <- L.
  destruct (nz (mk x)) eqn:Z.
  - red_finish Hwidth.
  - apply nz_false in Z. rewrite (xorp_xorbits x _ Z), <- parity_xorbits by (rewrite N2Nat.id; assumption).
    destruct (parity (pl x)); red_finish Hwidth.
Qed.

Theorem eval_red_xnor_spec x width s :
  wfn x -> 1 <= width ->
  agrees (eval_unary BitXnor x width s) (spec_unary BitXnor x width s) width.
Proof.
  intros Hx Hwidth. destruct (red_setup x Hx) as (U & H1 & Px & Mx).
  unfold eval_unary, spec_unary, reduce_result, s_red_xnor, is_xz.
  rewrite <- not4_norm1. rewrite (reduce_xor_w _ _ H1).
  pose proof (link_xz x (wd x) Px Mx) as L. rewrite <- L.
  destruct (nz (mk x)) eqn:Z.
  - red_finish Hwidth.
  - apply nz_false in Z. rewrite (xorp_xorbits x _ Z), <- parity_xorbits by (rewrite N2Nat.id; assumption).
    destruct (parity (pl x)); red_finish Hwidth.
Qed.

(* logical negation: the model shares the BitNor arm *)
Theorem eval_logicnot_spec x width s :
  wfn x -> 1 <= width ->
  agrees (eval_unary LogicNot x width s) (spec_unary LogicNot x width s) width.
Proof.
  intros Hx Hwidth. destruct (red_setup x Hx) as (U & H1 & Px & Mx).
  unfold eval_unary, spec_unary, reduce_result, s_lnot, truth.
  rewrite (rmask_ones (rp x) (wd x) U).
  assert (E : N.land (pl x) (N.lxor (mk x) (ones (wd x))) = N.ldiff (pl x) (mk x)).
  { apply N.bits_inj; intro i. tbsimp.
    destruct (N.ltb_spec i (wd x)) as [Hi|Hi]; [|hi_bits Hi]; tbcases; reflexivity. }
  rewrite E. unfold nz. cbn [vecv vp vm].
  destruct (N.ldiff (pl x) (mk x) =? 0), (mk x =? 0);
    cbn [negb tri_not vec_of_tri]; red_finish Hwidth.
Qed.
