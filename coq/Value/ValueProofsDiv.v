(* C17 proofs, part 5: division and modulus (unsigned and signed, both representations). *)
From VV Require Import BV.Ops1800 BV.BitLemmas Value.ValueModel Value.SpecGlue Value.ValueProofs
  Value.ValueProofsCmp.
Open Scope N_scope.

Lemma pow2_N2Z w : Z.of_N (2 ^ w) = (2 ^ Z.of_N w)%Z.
Proof. rewrite N2Z.inj_pow. reflexivity. Qed.

Lemma sval_abs_lt w p : p < 2 ^ w -> (Z.abs (sval w p) < 2 ^ Z.of_N w)%Z.
Proof.
  intros Hp. unfold sval. pose proof (pow2_N2Z w) as E.
  assert (Z.of_N p < 2 ^ Z.of_N w)%Z by (rewrite <- E; lia).
  destruct ((0 <? w) && N.testbit p (w - 1)) eqn:T.
  - apply Bool.andb_true_iff in T. destruct T as [_ T]. pose proof (testbit_nonzero _ _ T). lia.
  - lia.
Qed.

Lemma of_bigint_spec z w : (- 2 ^ Z.of_N w < z)%Z -> of_bigint z w = of_z w z.
Proof.
  intros Hz. unfold of_bigint. rewrite bmask_ones. pose proof (pow2_N2Z w) as E.
  destruct (Z.ltb_spec z 0).
  - set (n := Z.to_N (- z)).
    assert (Hn : Z.of_N n = (- z)%Z) by (unfold n; rewrite Z2N.id; lia).
    assert (n < 2 ^ w) by lia. assert (n <> 0) by lia.
    rewrite land_ones, neg_core by assumption. rewrite (mod_small_pow n w) by assumption.
    rewrite N.mod_small by lia.
    rewrite <- (of_z_add_mul w z 1). unfold of_z. rewrite Z.mod_small by lia.
    apply N2Z.inj. rewrite Z2N.id by lia. rewrite N2Z.inj_sub by lia. lia.
  - rewrite land_ones. rewrite <- (Z2N.id z) at 2 by lia. rewrite of_z_N. reflexivity.
Qed.

Lemma quot_abs_le a b : b <> 0%Z -> (Z.abs (Z.quot a b) <= Z.abs a)%Z.
Proof.
  intros Hb. rewrite <- Z.quot_abs by assumption.
  rewrite <- (Z.quot_1_r (Z.abs a)) at 2. apply Z.quot_le_compat_l; lia.
Qed.

Lemma of_z_i64_overflow w : w <= 64 -> of_z w i64_min = of_z w (Z.quot i64_min (-1)).
Proof.
  intros Hw. change (Z.quot i64_min (-1)) with (i64_min + 2 ^ 64)%Z.
  replace (2 ^ 64)%Z with (2 ^ (Z.of_N (64 - w)) * 2 ^ Z.of_N w)%Z.
  - symmetry. apply of_z_add_mul.
  - rewrite <- Z.pow_add_r by lia. f_equal. lia.
Qed.

Lemma sval_nonzero w p : 1 <= w -> p < 2 ^ w -> p <> 0 -> sval w p <> 0%Z.
Proof.
  intros Hw Hp Hz. unfold sval. pose proof (pow2_N2Z w) as E.
  destruct ((0 <? w) && N.testbit p (w - 1)); lia.
Qed.

Theorem eval_div_spec x y w s :
  ctx_ok x y w -> agrees (eval_binary Div x y w s) (spec_binary Div x y w s) w.
Proof.
  intros H. pose proof H as (_ & _ & _ & _ & Hw & _).
  destruct (ctx_expand x y w s H) as (a & b & Ea & Eb & Wa & Wb & Pa & Ma & Pb & Mb & R & U & Xa & Xb).
  unfold eval_binary, spec_binary. rewrite Ea, Eb, Xa, Xb. cbn [bind]. rewrite (same_rep_eq a b R). cbn [negb].
  unfold s_div, known, is_xz, nz, unew_x, unew, bnew_x, bnew, allx. cbn [vecv vp vm].
  rewrite (mod_small_pow _ _ Pb).
  destruct (rp a) eqn:Ra.
  - specialize (U eq_refl). rewrite umask_ones, land_ones, (mod_small_pow _ _ Pb) by assumption.
    destruct (N.eqb_spec (mk a) 0) as [Za|Za], (N.eqb_spec (mk b) 0) as [Zb|Zb], (N.eqb_spec (pl b) 0) as [Zp|Zp];
      cbn [negb orb andb]; try (apply agrees_mk; fin).
    unfold sh_ok. destruct (N.leb_spec 1 w); [|lia]. destruct (N.leb_spec w 64); [|lia].
    cbn [andb negb]. rewrite Bool.andb_false_r.
    destruct s.
    + rewrite land_ones. unfold of_i64. rewrite of_z_mod64 by assumption.
      rewrite !sext_sval by assumption.
      apply agrees_mk; try fin; [apply of_z_lt|].
      f_equal. unfold zdiv_trunc.
      destruct ((sval w (pl a) =? i64_min)%Z && (sval w (pl b) =? -1)%Z) eqn:OV; [|reflexivity].
      apply Bool.andb_true_iff in OV. destruct OV as [O1 O2].
      apply Z.eqb_eq in O1. apply Z.eqb_eq in O2. rewrite O1, O2. symmetry. apply of_z_i64_overflow. assumption.
    + rewrite land_ones. apply agrees_mk; fin.
  - destruct (N.eqb_spec (mk a) 0) as [Za|Za], (N.eqb_spec (mk b) 0) as [Zb|Zb], (N.eqb_spec (pl b) 0) as [Zp|Zp];
      cbn [negb orb andb]; try (apply agrees_mk; fin).
    destruct s.
    + rewrite (to_bigint_sval a w), (to_bigint_sval b w) by assumption.
      unfold zdiv_trunc. rewrite of_bigint_spec.
      * apply agrees_mk; try fin. apply of_z_lt.
      * pose proof (sval_abs_lt w (pl a) Pa) as B1. pose proof (sval_nonzero w (pl b) Hw Pb Zp) as B2.
        pose proof (quot_abs_le (sval w (pl a)) (sval w (pl b)) B2) as B3. lia.
    + rewrite bmask_ones, land_ones. apply agrees_mk; fin.
Qed.

Theorem eval_rem_spec x y w s :
  ctx_ok x y w -> agrees (eval_binary Rem x y w s) (spec_binary Rem x y w s) w.
Proof.
  intros H. pose proof H as (_ & _ & _ & _ & Hw & _).
  destruct (ctx_expand x y w s H) as (a & b & Ea & Eb & Wa & Wb & Pa & Ma & Pb & Mb & R & U & Xa & Xb).
  unfold eval_binary, spec_binary. rewrite Ea, Eb, Xa, Xb. cbn [bind]. rewrite (same_rep_eq a b R). cbn [negb].
  unfold s_rem, known, is_xz, nz, unew_x, unew, bnew_x, bnew, allx. cbn [vecv vp vm].
  rewrite (mod_small_pow _ _ Pb).
  destruct (rp a) eqn:Ra.
  - specialize (U eq_refl). rewrite umask_ones, land_ones, (mod_small_pow _ _ Pb) by assumption.
    destruct (N.eqb_spec (mk a) 0) as [Za|Za], (N.eqb_spec (mk b) 0) as [Zb|Zb], (N.eqb_spec (pl b) 0) as [Zp|Zp];
      cbn [negb orb andb]; try (apply agrees_mk; fin).
    unfold sh_ok. destruct (N.leb_spec 1 w); [|lia]. destruct (N.leb_spec w 64); [|lia].
    cbn [andb negb]. rewrite Bool.andb_false_r.
    destruct s.
    + rewrite land_ones. unfold of_i64. rewrite of_z_mod64 by assumption.
      rewrite !sext_sval by assumption.
      apply agrees_mk; try fin; [apply of_z_lt|].
      f_equal. unfold zrem_trunc.
      destruct ((sval w (pl a) =? i64_min)%Z && (sval w (pl b) =? -1)%Z) eqn:OV; [|reflexivity].
      apply Bool.andb_true_iff in OV. destruct OV as [O1 O2].
      apply Z.eqb_eq in O1. apply Z.eqb_eq in O2. rewrite O1, O2. reflexivity.
    + rewrite land_ones. apply agrees_mk; fin.
  - destruct (N.eqb_spec (mk a) 0) as [Za|Za], (N.eqb_spec (mk b) 0) as [Zb|Zb], (N.eqb_spec (pl b) 0) as [Zp|Zp];
      cbn [negb orb andb]; try (apply agrees_mk; fin).
    destruct s.
    + rewrite (to_bigint_sval a w), (to_bigint_sval b w) by assumption.
      unfold zrem_trunc. rewrite of_bigint_spec.
      * apply agrees_mk; try fin. apply of_z_lt.
      * pose proof (sval_abs_lt w (pl b) Pb) as B1. pose proof (sval_nonzero w (pl b) Hw Pb Zp) as B2.
        pose proof (Z.rem_bound_abs (sval w (pl a)) (sval w (pl b)) B2) as B3. lia.
    + rewrite bmask_ones, land_ones. apply agrees_mk; fin.
Qed.
