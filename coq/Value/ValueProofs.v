(* Proofs about the L2 model (Value/ValueModel.v): for each operator the model's result is the
   IEEE 1800 reference (BV/Ops1800.v through Value/SpecGlue.v), for both representations, and the
   model never reaches a panic / unreachable arm (result is Some) on well-formed operands. *)
From VV Require Import BV.Ops1800 BV.BitLemmas Value.ValueModel Value.SpecGlue.
Open Scope N_scope.

(* ------------------------------------------------------------------ well-formedness *)
(* numeric invariant of a sized value: payload and mask fit the width; a U64 holds <= 64 bits *)
Definition wfn (v : value) : Prop :=
  1 <= wd v /\ pl v < 2 ^ wd v /\ mk v < 2 ^ wd v /\ (rp v = RU -> wd v <= 64).
(* the unsized all-bit literals '0 '1 'x 'z : width 0, one pattern bit *)
Definition wfs (v : value) : Prop := wd v = 0 /\ rp v = RU /\ pl v <= 1 /\ mk v <= 1.
Definition wfo (v : value) : Prop := wfn v \/ wfs v.
(* canonical representation as produced by Value::new & co: BigUint iff wider than 64 *)
Definition wfv (v : value) : Prop := wfn v /\ (rp v = RB -> 64 < wd v).

Definition canon_rep (w : N) : rep := if w <=? 64 then RU else RB.
(* representation of an operand once expanded to the context width *)
Definition rep_at (v : value) (w : N) : rep := if wd v =? w then rp v else canon_rep w.
(* the operand can be expanded to w without hitting `unreachable!()` *)
Definition expandable (v : value) (w : N) : Prop :=
  wd v <= w /\ (rp v = RB -> wd v = w \/ 64 < w).

Definition agrees (r : option value) (sp : option vec) (w : N) : Prop :=
  exists v, r = Some v /\ sp = Some (vecv v) /\ wd v = w /\ wfn v.

Lemma agrees_intro e r sp w :
  r = Some e -> sp = Some (vecv e) -> wd e = w -> wfn e -> agrees r sp w.
Proof. intros. exists e. repeat split; try assumption; apply H2. Qed.

Ltac fin := first [ assumption | lia | discriminate | apply pow2_pos | apply ones_lt
                  | (apply N.mod_lt, N.pow_nonzero; discriminate) | reflexivity | (intros _; assumption) ].

(* a U64 / BigUint result of width w with payload p (< 2^w) and mask m *)
Lemma agrees_mk r p m w sgn (sp : vec) :
  1 <= w -> (r = RU -> w <= 64) -> p < 2 ^ w -> m < 2 ^ w -> sp = mkVec p m ->
  agrees (Some (mkV r p m w sgn)) (Some sp) w.
Proof.
  intros. subst sp. eexists. split; [reflexivity|]. repeat split; simpl; assumption.
Qed.

Lemma wfv_expandable v w : wfv v -> wd v <= w -> expandable v w.
Proof. intros [_ H] Hw. split; [assumption|]. intro E. right. specialize (H E). lia. Qed.

Lemma wfv_rep_at v w : wfv v -> wd v <= w -> rep_at v w = canon_rep w.
Proof.
  intros [[_ [_ [_ HU]]] HB] Hw. unfold rep_at, canon_rep.
  destruct (N.eqb_spec (wd v) w) as [<-|]; [|reflexivity].
  destruct (rp v) eqn:E.
  - specialize (HU eq_refl). destruct (N.leb_spec (wd v) 64); [reflexivity|lia].
  - specialize (HB eq_refl). destruct (N.leb_spec (wd v) 64); [lia|reflexivity].
Qed.

(* ------------------------------------------------------------------ small facts *)
Lemma bmask_ones w : bmask w = ones w.
Proof. reflexivity. Qed.

Lemma umask_ones w : w <= 64 -> umask w = ones w.
Proof.
  intros. unfold umask. destruct (N.leb_spec 64 w); [|reflexivity].
  assert (w = 64) by lia. subst. reflexivity.
Qed.

Lemma rmask_ones r w : (r = RU -> w <= 64) -> rmask r w = ones w.
Proof. intros H. destruct r; simpl; [apply umask_ones; auto | reflexivity]. Qed.

Lemma M64_pow : M64 = 2 ^ 64.
Proof. reflexivity. Qed.

Lemma U64MAX_ones : U64MAX = ones 64.
Proof. reflexivity. Qed.

Lemma fill_lt w0 w : w0 <= w -> ones w - ones w0 < 2 ^ w.
Proof. intros. pose proof (ones_lt w). lia. Qed.

Lemma nz_false x : nz x = false <-> x = 0.
Proof. unfold nz. destruct (N.eqb_spec x 0); simpl; split; congruence. Qed.
Lemma nz_true x : nz x = true <-> x <> 0.
Proof. unfold nz. destruct (N.eqb_spec x 0); simpl; split; congruence. Qed.

Lemma bshr_eq p s : bshr p s = N.shiftr p s.
Proof.
  unfold bshr. destruct (N.leb_spec (N.size p) s) as [H|H]; [|reflexivity].
  symmetry. rewrite N.shiftr_div_pow2. apply N.div_small.
  destruct p as [|q]; [apply pow2_pos|].
  eapply N.lt_le_trans; [apply N.size_gt|]. apply pow2_le. assumption.
Qed.

Ltac hi_bits Hi :=
  repeat match goal with
         | H : ?a < 2 ^ ?w |- context [N.testbit ?a ?i] => rewrite (tb_lt a w i H Hi)
         end.
Ltac tbsimp :=
  repeat first [rewrite N.land_spec | rewrite N.lor_spec | rewrite N.lxor_spec | rewrite N.ldiff_spec
               | rewrite tb_ones | rewrite tb_mod | rewrite of_bits_p | rewrite of_bits_m
               | rewrite N.bits_0 | rewrite tb_fill by assumption].
Ltac tbcases :=
  repeat match goal with
         | |- context [N.testbit ?a ?i] => destruct (N.testbit a i)
         end.

(* ------------------------------------------------------------------ expand *)
Lemma xext_same v w s : 1 <= wd v -> wd v = w -> xext s w v = vecv v.
Proof.
  intros H1 <-. unfold xext, ext.
  destruct (N.eqb_spec (wd v) 0); [lia|]. rewrite N.ltb_irrefl.
  rewrite N.leb_refl. reflexivity.
Qed.

Lemma expand_spec v w s :
  wfo v -> expandable v w -> 1 <= w ->
  exists e, expand v w s = Some e /\ wfn e /\ wd e = w /\ rp e = rep_at v w /\
            pl e = vp (xext s w v) /\ mk e = vm (xext s w v) /\
            sg e = (if wd v =? w then sg v else if wd v =? 0 then false else s && sg v).
Proof.
  intros [Hn | Hs] [Hle HB] Hw.
  - (* sized operand *)
    destruct Hn as (H1 & Hp & Hm & HU).
    destruct (N.eq_dec (wd v) w) as [E|NE].
    + exists v. unfold expand. rewrite E at 1. rewrite N.leb_refl.
      replace (nz (wd v)) with true by (symmetry; apply nz_true; lia). simpl.
      rewrite xext_same by assumption. unfold rep_at. rewrite E, N.eqb_refl.
      repeat split; try assumption; try lia.
    + assert (Hlt : wd v < w) by lia.
      unfold expand. destruct (N.leb_spec w (wd v)); [lia|]. simpl.
      destruct (N.eqb_spec (wd v) 0); [lia|].
      unfold rep_at. destruct (N.eqb_spec (wd v) w); [lia|].
      (* the extension itself *)
      assert (X : let '(p, m) := sign_fill v w s in
                  p = vp (xext s w v) /\ m = vm (xext s w v) /\ p < 2 ^ w /\ m < 2 ^ w).
      { unfold sign_fill, xext, ext, vecv.
        destruct (N.eqb_spec (wd v) 0); [lia|]. destruct (N.ltb_spec w (wd v)); [lia|].
        destruct (N.leb_spec w (wd v)); [lia|]. simpl.
        assert (Hp' : pl v < 2 ^ w) by (eapply N.lt_le_trans; [exact Hp | apply pow2_le; lia]).
        assert (Hm' : mk v < 2 ^ w) by (eapply N.lt_le_trans; [exact Hm | apply pow2_le; lia]).
        pose proof (fill_lt (wd v) w Hle) as Hf.
        rewrite !bmask_ones, lxor_ones_ones by assumption.
        destruct (sg v), s; simpl; try (repeat split; assumption).
        destruct (N.testbit (pl v) (wd v - 1)), (N.testbit (mk v) (wd v - 1)); simpl;
          repeat split; try assumption; apply lor_lt; assumption. }
      destruct (N.ltb_spec 64 w).
      * destruct (sign_fill v w s) as [p m]. destruct X as (-> & -> & Xp & Xm).
        eexists. split; [reflexivity|]. unfold canon_rep.
        destruct (N.leb_spec w 64); [lia|].
        repeat split; simpl; try assumption; try lia. discriminate.
      * destruct (rp v) eqn:R.
        -- destruct (sign_fill v w s) as [p m]. destruct X as (-> & -> & Xp & Xm).
           eexists. split; [reflexivity|]. unfold canon_rep.
           destruct (N.leb_spec w 64); [|lia].
           repeat split; simpl; try assumption; try lia.
        -- destruct (HB eq_refl); lia.
  - (* unsized all-bit literal *)
    destruct Hs as (H0 & RU' & Hp & Hm).
    unfold expand. rewrite H0. destruct (N.leb_spec w 0); [lia|]. simpl.
    unfold sentinel. rewrite RU'. unfold rep_at, canon_rep. rewrite H0.
    destruct (N.eqb_spec 0 w); [lia|].
    unfold xext. rewrite H0. simpl (0 =? 0). cbv iota.
    destruct (N.ltb_spec 64 w).
    + eexists. split; [reflexivity|]. destruct (N.leb_spec w 64); [lia|].
      repeat split; simpl; try lia; try discriminate; try (destruct w; [lia | reflexivity]).
      * destruct (nz (pl v)); [apply ones_lt | apply pow2_pos].
      * destruct (nz (mk v)); [apply ones_lt | apply pow2_pos].
    + eexists. split; [reflexivity|]. destruct (N.leb_spec w 64); [|lia].
      rewrite !umask_ones by assumption.
      repeat split; simpl; try lia; try (destruct w; [lia | reflexivity]).
      * destruct (nz (pl v)); [apply ones_lt | apply pow2_pos].
      * destruct (nz (mk v)); [apply ones_lt | apply pow2_pos].
Qed.

(* expansion of a canonical 1-bit result to the context width: bits unchanged *)
Lemma expand_bit p m w :
  1 <= w -> p < 2 -> m < 2 ->
  exists e, expand (mkV RU p m 1 false) w false = Some e /\ wfn e /\ wd e = w /\
            pl e = p /\ mk e = m /\ rp e = canon_rep w.
Proof.
  intros Hw Hp Hm.
  destruct (expand_spec (mkV RU p m 1 false) w false) as (e & E & We & Wd & Rp & Pe & Me & _).
  - left. repeat split; simpl; try lia.
  - split; simpl; [lia | discriminate].
  - assumption.
  - assert (X : xext false w (mkV RU p m 1 false) = mkVec p m).
    { unfold xext, ext. simpl. destruct (N.ltb_spec w 1); [lia|].
      rewrite Bool.orb_true_r. reflexivity. }
    rewrite X in Pe, Me. simpl in Pe, Me.
    assert (R : rep_at (mkV RU p m 1 false) w = canon_rep w).
    { unfold rep_at, canon_rep. cbn [wd rp]. destruct (N.eqb_spec 1 w) as [<-|]; reflexivity. }
    rewrite R in Rp.
    exists e. split; [exact E|]. split; [exact We|]. repeat split; assumption.
Qed.

(* ------------------------------------------------------------------ arithmetic cores *)
Lemma neg_core a w : a < 2 ^ w -> (N.lxor a (ones w) + 1) mod 2 ^ w = (2 ^ w - a mod 2 ^ w) mod 2 ^ w.
Proof.
  intros Ha. rewrite lxor_ones_sub by assumption. rewrite (mod_small_pow a w Ha).
  f_equal. unfold ones. lia.
Qed.

Lemma sub_core64 p q w : w <= 64 -> p < 2 ^ w -> q < 2 ^ w ->
  ((p + M64 - q) mod M64) mod 2 ^ w = (p + 2 ^ w - q mod 2 ^ w) mod 2 ^ w.
Proof.
  intros Hw Hp Hq. rewrite M64_pow, mod_mod_pow2 by assumption.
  rewrite (mod_small_pow q w Hq).
  replace 64 with ((64 - w) + w) by lia. rewrite N.pow_add_r.
  pose proof (pow2_pos (64 - w)) as Hk. set (k := 2 ^ (64 - w)) in *. set (W := 2 ^ w) in *.
  replace (p + k * W - q) with ((p + W - q) + (k - 1) * W) by nia.
  apply N.mod_add. unfold W. apply N.pow_nonzero. discriminate.
Qed.

Lemma sub_coreB p q w : p < 2 ^ w -> q < 2 ^ w ->
  (p + (N.lxor q (ones w) + 1) mod 2 ^ w) mod 2 ^ w = (p + 2 ^ w - q mod 2 ^ w) mod 2 ^ w.
Proof.
  intros Hp Hq. rewrite N.add_mod_idemp_r by (apply N.pow_nonzero; discriminate).
  rewrite lxor_ones_sub by assumption. rewrite (mod_small_pow q w Hq).
  f_equal. unfold ones. lia.
Qed.

(* ------------------------------------------------------------------ unary operators *)
Theorem eval_unary_add_spec x w s :
  wfo x -> expandable x w -> 1 <= w ->
  agrees (eval_unary Add x w s) (spec_unary Add x w s) w.
Proof.
  intros Hx He Hw. destruct (expand_spec x w s Hx He Hw) as (e & E & We & Wd & _ & Pe & Me & _).
  apply (agrees_intro e); try assumption. simpl. f_equal. apply vec_eq; simpl; congruence.
Qed.

Theorem eval_unary_sub_spec x w s :
  wfo x -> expandable x w -> 1 <= w ->
  agrees (eval_unary Sub x w s) (spec_unary Sub x w s) w.
Proof.
  intros Hx He Hw. destruct (expand_spec x w s Hx He Hw) as (e & E & We & Wd & _ & Pe & Me & _).
  destruct We as (W1 & Wp & Wm & WU). rewrite Wd in *.
  unfold eval_unary, spec_unary, s_neg, known. rewrite E. cbn [bind].
  rewrite <- Pe, <- Me. unfold is_xz, nz, unew_x, bnew_x, allx. rewrite Wd.
  destruct (rp e) eqn:R.
  - specialize (WU eq_refl). rewrite umask_ones by assumption.
    destruct (N.eqb_spec (mk e) 0) as [Z|NZ]; cbn [negb]; apply agrees_mk; try fin.
    + rewrite land_ones. fin.
    + rewrite Z, land_ones, M64_pow, mod_mod_pow2, neg_core by assumption. reflexivity.
  - rewrite bmask_ones.
    destruct (N.eqb_spec (mk e) 0) as [Z|NZ]; cbn [negb]; apply agrees_mk; try fin.
    + rewrite land_ones. fin.
    + rewrite Z, land_ones, neg_core by assumption. reflexivity.
Qed.

Theorem eval_unary_bitnot_spec x w s :
  wfo x -> expandable x w -> 1 <= w ->
  agrees (eval_unary BitNot x w s) (spec_unary BitNot x w s) w.
Proof.
  intros Hx He Hw. destruct (expand_spec x w s Hx He Hw) as (e & E & We & Wd & _ & Pe & Me & _).
  destruct We as (W1 & Wp & Wm & WU). rewrite Wd in *.
  unfold eval_unary, spec_unary. rewrite E. cbn [bind].
  rewrite (rmask_ones (rp e) w WU).
  eexists. split; [reflexivity|]. simpl. rewrite Wd.
  repeat split; simpl; try assumption.
  - f_equal. unfold s_not, lift1. apply vec_eq; simpl.
    + apply N.bits_inj; intro i. tbsimp. unfold getbit. rewrite <- Pe, <- Me.
      destruct (N.ltb_spec i w) as [Hi|Hi]; [|hi_bits Hi]; tbcases; reflexivity.
    + apply N.bits_inj; intro i. tbsimp. unfold getbit. rewrite <- Pe, <- Me.
      destruct (N.ltb_spec i w) as [Hi|Hi]; [|hi_bits Hi]; tbcases; reflexivity.
  - apply land_lt_r. apply lxor_lt; [assumption | apply ones_lt].
Qed.

(* ------------------------------------------------------------------ binary: common set-up *)
(* both operands expanded to the context width, same representation *)
Definition ctx_ok (x y : value) (w : N) : Prop :=
  wfo x /\ wfo y /\ expandable x w /\ expandable y w /\ 1 <= w /\ rep_at x w = rep_at y w.

Lemma ctx_expand x y w s :
  ctx_ok x y w ->
  exists a b, expand x w s = Some a /\ expand y w s = Some b /\
    wd a = w /\ wd b = w /\ pl a < 2 ^ w /\ mk a < 2 ^ w /\ pl b < 2 ^ w /\ mk b < 2 ^ w /\
    rp a = rp b /\ (rp a = RU -> w <= 64) /\
    xext s w x = vecv a /\ xext s w y = vecv b.
Proof.
  intros (Hx & Hy & Ex & Ey & Hw & HR).
  destruct (expand_spec x w s Hx Ex Hw) as (a & Ea & (_ & Pa & Ma & Ua) & Wa & Ra & Pxa & Mxa & _).
  destruct (expand_spec y w s Hy Ey Hw) as (b & Eb & (_ & Pb & Mb & Ub) & Wb & Rb & Pxb & Mxb & _).
  exists a, b. rewrite Wa in *. rewrite Wb in *.
  repeat split; try assumption; try congruence.
  - apply vec_eq; simpl; congruence.
  - apply vec_eq; simpl; congruence.
Qed.

Lemma same_rep_eq a b : rp a = rp b -> same_rep a b = true.
Proof. unfold same_rep. intros ->. destruct (rp b); reflexivity. Qed.

(* Add / Sub / Mul share arith2 *)
Lemma arith2_spec a b w s fu fb (f : N -> N -> N) :
  1 <= w -> wd a = w -> wd b = w -> pl a < 2 ^ w -> pl b < 2 ^ w -> mk a < 2 ^ w -> mk b < 2 ^ w ->
  rp a = rp b -> (rp a = RU -> w <= 64) ->
  (w <= 64 -> (fu (pl a) (pl b)) mod 2 ^ w = f (pl a) (pl b) mod 2 ^ w) ->
  ((fb (pl a) (pl b)) mod 2 ^ w = f (pl a) (pl b) mod 2 ^ w) ->
  agrees (arith2 a b w s fu fb) (Some (arith w (vecv a) (vecv b) f)) w.
Proof.
  intros Hw Wa Wb Pa Pb Ma Mb R U Fu Fb.
  unfold arith2, arith, known, is_xz, nz. rewrite (same_rep_eq a b R). simpl.
  destruct (rp a) eqn:Ra.
  - specialize (U eq_refl). specialize (Fu U).
    destruct (N.eqb_spec (mk a) 0), (N.eqb_spec (mk b) 0); simpl;
      try (apply agrees_mk; try assumption; try (intros _; assumption); try apply pow2_pos;
           [rewrite umask_ones by assumption; apply ones_lt
           | unfold allx; rewrite umask_ones by assumption; reflexivity]).
    apply agrees_mk; try assumption; try (intros _; assumption); try apply pow2_pos.
    + rewrite umask_ones, land_ones by assumption. apply N.mod_lt, N.pow_nonzero; discriminate.
    + rewrite umask_ones, land_ones by assumption. rewrite Fu. reflexivity.
  - destruct (N.eqb_spec (mk a) 0), (N.eqb_spec (mk b) 0); simpl;
      try (apply agrees_mk; try assumption; try discriminate; try apply pow2_pos;
           [apply ones_lt | reflexivity]).
    apply agrees_mk; try assumption; try discriminate; try apply pow2_pos.
    + rewrite bmask_ones, land_ones. apply N.mod_lt, N.pow_nonzero; discriminate.
    + rewrite bmask_ones, land_ones. rewrite Fb. reflexivity.
Qed.

Theorem eval_add_spec x y w s :
  ctx_ok x y w -> agrees (eval_binary Add x y w s) (spec_binary Add x y w s) w.
Proof.
  intros H. pose proof H as (_ & _ & _ & _ & Hw & _).
  destruct (ctx_expand x y w s H) as (a & b & Ea & Eb & Wa & Wb & Pa & Ma & Pb & Mb & R & U & Xa & Xb).
  unfold eval_binary, spec_binary. rewrite Ea, Eb, Xa, Xb. cbn [bind]. unfold s_add.
  apply arith2_spec; try assumption.
  - intros. rewrite M64_pow. apply mod_mod_pow2. assumption.
  - reflexivity.
Qed.

Theorem eval_sub_spec x y w s :
  ctx_ok x y w -> agrees (eval_binary Sub x y w s) (spec_binary Sub x y w s) w.
Proof.
  intros H. pose proof H as (_ & _ & _ & _ & Hw & _).
  destruct (ctx_expand x y w s H) as (a & b & Ea & Eb & Wa & Wb & Pa & Ma & Pb & Mb & R & U & Xa & Xb).
  unfold eval_binary, spec_binary. rewrite Ea, Eb, Xa, Xb. cbn [bind]. unfold s_sub.
  apply arith2_spec; try assumption.
  - intros. cbv beta. apply sub_core64; assumption.
  - cbv beta. rewrite bmask_ones, land_ones. apply sub_coreB; assumption.
Qed.

Theorem eval_mul_spec x y w s :
  ctx_ok x y w -> agrees (eval_binary Mul x y w s) (spec_binary Mul x y w s) w.
Proof.
  intros H. pose proof H as (_ & _ & _ & _ & Hw & _).
  destruct (ctx_expand x y w s H) as (a & b & Ea & Eb & Wa & Wb & Pa & Ma & Pb & Mb & R & U & Xa & Xb).
  unfold eval_binary, spec_binary. rewrite Ea, Eb, Xa, Xb. cbn [bind]. unfold s_mul.
  apply arith2_spec; try assumption.
  - intros. rewrite M64_pow. apply mod_mod_pow2. assumption.
  - reflexivity.
Qed.
