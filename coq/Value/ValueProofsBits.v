(* C17 proofs, part 2: binary bitwise operators and shifts against the IEEE 1800 reference. *)
From VV Require Import BV.Ops1800 BV.BitLemmas Value.ValueModel Value.SpecGlue Value.ValueProofs.
Open Scope N_scope.

(* ------------------------------------------------------------------ bitwise *)
Lemma bitwise2_spec a b w fp fm f4 :
  1 <= w -> rp a = rp b -> (rp a = RU -> w <= 64) ->
  (forall i, N.testbit (N.land (fp (pl a) (pl b)) (rnot (rp a) w (fm (rp a) w a b))) i
             = (i <? w) && pbit (f4 (getbit (vecv a) i) (getbit (vecv b) i))) ->
  (forall i, N.testbit (fm (rp a) w a b) i
             = (i <? w) && mbit (f4 (getbit (vecv a) i) (getbit (vecv b) i))) ->
  agrees (bitwise2 a b w fp fm) (Some (lift2 f4 w (vecv a) (vecv b))) w.
Proof.
  intros Hw R U HP HM. unfold bitwise2. rewrite (same_rep_eq a b R). cbn [negb].
  apply agrees_mk; try assumption.
  - apply lt_pow2_of_bits. intros i Hi. rewrite HP.
    destruct (N.ltb_spec i w); [lia | reflexivity].
  - apply lt_pow2_of_bits. intros i Hi. rewrite HM.
    destruct (N.ltb_spec i w); [lia | reflexivity].
  - unfold lift2. apply vec_eq; cbn [vp vm]; apply N.bits_inj; intro i.
    + rewrite HP, of_bits_p. reflexivity.
    + rewrite HM, of_bits_m. reflexivity.
Qed.

(* solve a per-bit goal about payload/mask formulas of operands a, b (both < 2^w) *)
Ltac bw_bits w i U :=
  unfold and_mask, or_mask, xor_mask, rnot, not64, getbit, vecv; cbn [vp vm];
  try match goal with
  | |- context [match ?r with RU => _ | RB => _ end] =>
      destruct r; [specialize (U eq_refl); change U64MAX with (ones 64) | rewrite ?bmask_ones]
  end;
  tbsimp;
  (let Hi := fresh "Hi" in
   destruct (N.ltb_spec i w) as [Hi|Hi];
   [ try (replace (i <? 64) with true by (symmetry; apply N.ltb_lt; lia)); tbcases; reflexivity
   | hi_bits Hi; destruct (i <? 64); reflexivity ]).

Theorem eval_bitand_spec x y w s :
  ctx_ok x y w -> agrees (eval_binary BitAnd x y w s) (spec_binary BitAnd x y w s) w.
Proof.
  intros H. pose proof H as (_ & _ & (Lx & _) & (Ly & _) & Hw & _).
  destruct (ctx_expand x y w s H) as (a & b & Ea & Eb & Wa & Wb & Pa & Ma & Pb & Mb & R & U & Xa & Xb).
  unfold eval_binary, spec_binary, resize.
  destruct (N.ltb_spec w (wd x)); [lia|]. destruct (N.ltb_spec w (wd y)); [lia|].
  rewrite Ea, Eb, Xa, Xb. cbn [bind]. unfold s_and.
  apply bitwise2_spec; try assumption; intro i.
  - bw_bits w i U.
  - bw_bits w i U.
Qed.

Theorem eval_bitor_spec x y w s :
  ctx_ok x y w -> agrees (eval_binary BitOr x y w s) (spec_binary BitOr x y w s) w.
Proof.
  intros H. pose proof H as (_ & _ & _ & _ & Hw & _).
  destruct (ctx_expand x y w s H) as (a & b & Ea & Eb & Wa & Wb & Pa & Ma & Pb & Mb & R & U & Xa & Xb).
  unfold eval_binary, spec_binary. rewrite Ea, Eb, Xa, Xb. cbn [bind]. unfold s_or.
  apply bitwise2_spec; try assumption; intro i.
  - bw_bits w i U.
  - bw_bits w i U.
Qed.

Theorem eval_bitxor_spec x y w s :
  ctx_ok x y w -> agrees (eval_binary BitXor x y w s) (spec_binary BitXor x y w s) w.
Proof.
  intros H. pose proof H as (_ & _ & _ & _ & Hw & _).
  destruct (ctx_expand x y w s H) as (a & b & Ea & Eb & Wa & Wb & Pa & Ma & Pb & Mb & R & U & Xa & Xb).
  unfold eval_binary, spec_binary. rewrite Ea, Eb, Xa, Xb. cbn [bind]. unfold s_xor.
  apply bitwise2_spec; try assumption; intro i.
  - bw_bits w i U.
  - bw_bits w i U.
Qed.

Theorem eval_bitxnor_spec x y w s :
  ctx_ok x y w -> agrees (eval_binary BitXnor x y w s) (spec_binary BitXnor x y w s) w.
Proof.
  intros H. pose proof H as (_ & _ & _ & _ & Hw & _).
  destruct (ctx_expand x y w s H) as (a & b & Ea & Eb & Wa & Wb & Pa & Ma & Pb & Mb & R & U & Xa & Xb).
  unfold eval_binary, spec_binary. rewrite Ea, Eb, Xa, Xb. cbn [bind]. unfold s_xnor.
  rewrite (same_rep_eq a b R). cbn [negb].
  rewrite (rmask_ones (rp a) w U).
  apply bitwise2_spec; try assumption; intro i.
  - unfold xnor4. bw_bits w i U.
  - unfold xnor4. bw_bits w i U.
Qed.

(* ------------------------------------------------------------------ shifts *)
(* shift operators: x is context-determined, the amount y is self-determined *)
(* widths are u32 in the implementation (ValueU64.width, ValueBigUint.width) *)
Definition shift_ok (x y : value) (w : N) : Prop :=
  wfo x /\ expandable x w /\ 1 <= w /\ w < 2 ^ 32 /\ (rp y = RU -> pl y < 2 ^ 64).

Lemma to_shift_amount_spec y :
  (rp y = RU -> pl y < 2 ^ 64) ->
  match to_shift_amount y, amount y with
  | None, None => True
  | Some s, Some t => s = N.min t U64MAX
  | _, _ => False
  end.
Proof.
  intros HU. unfold to_shift_amount, amount. destruct (rp y) eqn:R; destruct (nz (mk y)); try exact I.
  - specialize (HU eq_refl). change U64MAX with (2 ^ 64 - 1). lia.
  - reflexivity.
Qed.

Lemma shl_clip p s t w c :
  s = N.min t U64MAX -> w <= c -> c <= U64MAX ->
  (p * 2 ^ N.min s c) mod 2 ^ w = N.shiftl p t mod 2 ^ w.
Proof.
  intros -> Hc Hc'. rewrite N.shiftl_mul_pow2.
  destruct (N.le_gt_cases t c).
  - replace (N.min (N.min t U64MAX) c) with t by lia. reflexivity.
  - rewrite !mul_pow2_mod_0 by lia. reflexivity.
Qed.

Lemma shr_clip p s t w :
  s = N.min t U64MAX -> p < 2 ^ w -> w <= U64MAX ->
  N.shiftr p s = N.shiftr (p mod 2 ^ w) t.
Proof.
  intros -> Hp Hw. rewrite (mod_small_pow p w Hp), !N.shiftr_div_pow2.
  destruct (N.le_gt_cases t U64MAX).
  - replace (N.min t U64MAX) with t by lia. reflexivity.
  - rewrite !(div_pow2_0 p _ w) by lia. reflexivity.
Qed.

Lemma ushl64_spec p s w : w <= 64 -> N.land (ushl64 p (N.min s 64)) (ones w) = (p * 2 ^ N.min s 64) mod 2 ^ w.
Proof.
  intros Hw. rewrite land_ones. unfold ushl64.
  destruct (N.ltb_spec (N.min s 64) 64).
  - rewrite M64_pow. apply mod_mod_pow2. assumption.
  - rewrite mul_pow2_mod_0 by lia. reflexivity.
Qed.

Lemma ushr64_spec p s w : w <= 64 -> p < 2 ^ w -> ushr64 p (N.min s 64) = N.shiftr p s.
Proof.
  intros Hw Hp. rewrite N.shiftr_div_pow2. unfold ushr64.
  destruct (N.ltb_spec (N.min s 64) 64).
  - replace (N.min s 64) with s by lia. reflexivity.
  - symmetry. apply (div_pow2_0 p s w); [assumption | lia].
Qed.

Lemma shiftr_lt p s w : p < 2 ^ w -> N.shiftr p s < 2 ^ w.
Proof.
  intros. rewrite N.shiftr_div_pow2. eapply N.le_lt_trans; [|eassumption].
  apply N.div_le_upper_bound. apply N.pow_nonzero; discriminate.
  pose proof (pow2_pos s). nia.
Qed.

(* the trailing `ret.expand(width, false)` of the shift arms is the identity *)
Lemma expand_id r p m w sgn :
  1 <= w -> expand (mkV r p m w sgn) w false = Some (mkV r p m w sgn).
Proof.
  intros. unfold expand. cbn [wd]. rewrite N.leb_refl.
  replace (nz w) with true by (symmetry; apply nz_true; lia). reflexivity.
Qed.

Theorem eval_shl_spec o x y w s :
  o = LogicShiftL \/ o = ArithShiftL ->
  shift_ok x y w -> agrees (eval_binary o x y w s) (spec_binary o x y w s) w.
Proof.
  intros Ho (Hx & Ex & Hw & Hw32 & Hy).
  assert (HwU : w <= U64MAX) by (change U64MAX with (2 ^ 64 - 1); change (2 ^ 32) with 4294967296 in Hw32; lia).
  destruct (expand_spec x w s Hx Ex Hw) as (e & E & (W1 & Wp & Wm & WU) & Wd & _ & Pe & Me & _).
  rewrite Wd in *.
  assert (X : xext s w x = vecv e) by (apply vec_eq; simpl; congruence).
  pose proof (to_shift_amount_spec y Hy) as HA.
  assert (G : agrees
    (match to_shift_amount y with
     | None => Some (match rp e with RU => unew_x w false | RB => bnew_x w false end)
     | Some s0 =>
         expand (match rp e with
                 | RU => mkV RU (N.land (ushl64 (pl e) (N.min s0 64)) (umask w))
                             (N.land (ushl64 (mk e) (N.min s0 64)) (umask w)) (wd e)
                             (match o with ArithShiftL => sg e | _ => false end)
                 | RB => mkV RB (N.land (N.shiftl (pl e) (N.min s0 w)) (bmask w))
                             (N.land (N.shiftl (mk e) (N.min s0 w)) (bmask w)) (wd e)
                             (match o with ArithShiftL => sg e | _ => false end)
                 end) w false
     end) (Some (s_shl w (vecv e) (amount y))) w).
  { destruct (to_shift_amount y) as [s0|], (amount y) as [t|]; try contradiction.
    - unfold s_shl. rewrite Wd. cbn [vecv vp vm]. destruct (rp e) eqn:R.
      + specialize (WU eq_refl). rewrite umask_ones, !ushl64_spec by assumption.
        rewrite expand_id by assumption.
        rewrite !(shl_clip _ s0 t w 64 HA) by (try assumption; change U64MAX with (2 ^ 64 - 1); lia).
        apply agrees_mk; try fin.
      + rewrite bmask_ones, !land_ones, !N.shiftl_mul_pow2.
        rewrite expand_id by assumption.
        rewrite !(shl_clip _ s0 t w w HA) by lia.
        apply agrees_mk; try fin. rewrite !N.shiftl_mul_pow2. reflexivity.
    - unfold s_shl, unew_x, bnew_x, allx. destruct (rp e) eqn:R.
      + specialize (WU eq_refl). rewrite umask_ones by assumption. apply agrees_mk; try fin.
      + apply agrees_mk; try fin. }
  destruct Ho as [-> | ->]; unfold eval_binary, spec_binary; rewrite E, X; cbn [bind]; exact G.
Qed.

Theorem eval_shr_spec x y w s :
  shift_ok x y w -> agrees (eval_binary LogicShiftR x y w s) (spec_binary LogicShiftR x y w s) w.
Proof.
  intros (Hx & Ex & Hw & Hw32 & Hy).
  assert (HwU : w <= U64MAX) by (change U64MAX with (2 ^ 64 - 1); change (2 ^ 32) with 4294967296 in Hw32; lia).
  destruct (expand_spec x w s Hx Ex Hw) as (e & E & (W1 & Wp & Wm & WU) & Wd & _ & Pe & Me & _).
  rewrite Wd in *.
  assert (X : xext s w x = vecv e) by (apply vec_eq; simpl; congruence).
  pose proof (to_shift_amount_spec y Hy) as HA.
  unfold eval_binary, spec_binary. rewrite E, X. cbn [bind].
  destruct (to_shift_amount y) as [s0|], (amount y) as [t|]; try contradiction.
  - unfold s_shr. rewrite Wd. cbn [vecv vp vm]. destruct (rp e) eqn:R.
    + specialize (WU eq_refl). rewrite !(ushr64_spec _ s0 w) by assumption.
      rewrite expand_id by assumption.
      rewrite (shr_clip (pl e) s0 t w HA Wp HwU), (shr_clip (mk e) s0 t w HA Wm HwU).
      apply agrees_mk; try fin; apply shiftr_lt; fin.
    + rewrite !bshr_eq. rewrite expand_id by assumption.
      rewrite (shr_clip (pl e) s0 t w HA Wp HwU), (shr_clip (mk e) s0 t w HA Wm HwU).
      apply agrees_mk; try fin; apply shiftr_lt; fin.
  - unfold s_shr, unew_x, bnew_x, allx. destruct (rp e) eqn:R.
    + specialize (WU eq_refl). rewrite umask_ones by assumption. apply agrees_mk; try fin.
    + apply agrees_mk; try fin.
Qed.

Theorem eval_ashr_spec x y w s :
  shift_ok x y w -> agrees (eval_binary ArithShiftR x y w s) (spec_binary ArithShiftR x y w s) w.
Proof.
  intros (Hx & Ex & Hw & Hw32 & Hy).
  assert (HwU : w <= U64MAX) by (change U64MAX with (2 ^ 64 - 1); change (2 ^ 32) with 4294967296 in Hw32; lia).
  destruct (expand_spec x w s Hx Ex Hw) as (e & E & (W1 & Wp & Wm & WU) & Wd & _ & Pe & Me & _).
  rewrite Wd in *.
  assert (X : xext s w x = vecv e) by (apply vec_eq; simpl; congruence).
  pose proof (to_shift_amount_spec y Hy) as HA.
  unfold eval_binary, spec_binary. rewrite E, X. cbn [bind].
  destruct (to_shift_amount y) as [s0|], (amount y) as [t|]; try contradiction.
  - unfold s_ashr. rewrite Wd. cbn [vecv vp vm].
    destruct (N.eqb_spec w 0); [lia|]. rewrite Bool.andb_false_r.
    destruct (N.ltb_spec 0 w); [|lia]. rewrite Bool.andb_true_r.
    assert (F : N.lxor (ones (w - s0)) (ones w) = ones w - ones (w - t)).
    { rewrite N.lxor_comm, lxor_ones_ones by lia. f_equal. f_equal. subst s0. lia. }
    assert (FL : ones w - ones (w - t) < 2 ^ w) by (apply fill_lt; lia).
    rewrite !(rmask_ones (rp e)) by (intro HR; specialize (WU HR); lia). rewrite F.
    assert (SP : N.shiftr (pl e mod 2 ^ w) t < 2 ^ w)
      by (apply shiftr_lt; apply N.mod_lt, N.pow_nonzero; discriminate).
    assert (SM : N.shiftr (mk e mod 2 ^ w) t < 2 ^ w)
      by (apply shiftr_lt; apply N.mod_lt, N.pow_nonzero; discriminate).
    destruct (rp e) eqn:R.
    + specialize (WU eq_refl). rewrite !(ushr64_spec _ s0 w) by assumption.
      rewrite expand_id by assumption.
      rewrite (shr_clip (pl e) s0 t w HA Wp HwU), (shr_clip (mk e) s0 t w HA Wm HwU).
      destruct s; cbn [andb];
        [destruct (N.testbit (pl e) (w - 1)), (N.testbit (mk e) (w - 1))|];
        rewrite ?N.lor_0_r; apply agrees_mk; try fin; try (apply lor_lt; assumption).
    + rewrite !bshr_eq. rewrite expand_id by assumption.
      rewrite (shr_clip (pl e) s0 t w HA Wp HwU), (shr_clip (mk e) s0 t w HA Wm HwU).
      destruct s; cbn [andb];
        [destruct (N.testbit (pl e) (w - 1)), (N.testbit (mk e) (w - 1))|];
        rewrite ?N.lor_0_r; apply agrees_mk; try fin; try (apply lor_lt; assumption).
  - unfold s_ashr, unew_x, bnew_x, allx. destruct (rp e) eqn:R.
    + specialize (WU eq_refl). rewrite umask_ones by assumption. apply agrees_mk; try fin.
    + apply agrees_mk; try fin.
Qed.
