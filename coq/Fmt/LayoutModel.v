(* Layout view of the formatter (crates/formatter/src/formatter.rs) over the renderer model.
   Definitions only.

   The formatter is   fmt cfg x = render cfg (build cfg (lex x) (observe x))   where
     - lex x      : the token/comment sequence of the text (parser + TokenCollector),
     - observe x  : everything else the Doc builder reads from the text.  In formatter.rs that is:
                    [consume_adjust_line]  x.line > self.line + 1   (gap class >= 2 after a newline helper),
                    [emit_trailing_comments]  c.line - prev_line    (a comment's leading_newlines),
                    the aligner's group split  line > loc.line || loc.line - line > 1  (AlignModel.split_here),
                    NewlineStyle::Auto's first line ending, and the column deltas inside embed / #[fmt(skip)] text,
     - build      : the per-production Doc construction (NOT transcribed: thousands of lines),
     - render     : veryl_pretty::render (VV.Pretty.Render, complete model).
   This file fixes the vocabulary used by the theorems of LayoutProofs.v. *)
From VV Require Export Pretty.Render Pretty.RenderContent.
Open Scope N_scope.

(* ---------------------------------------------------------------- gap classes *)
Inductive gapclass := G0 | G1 | G2plus.
Definition gap_class (prev_line line : N) : gapclass :=
  if line <=? prev_line then G0 else if line =? prev_line + 1 then G1 else G2plus.

(* ---------------------------------------------------------------- fragments of a document *)
(* The content-bearing leaves of a document, in document order.  Mandatory fragments are emitted
   in every layout; optional ones (Line separators: flat layout only; IfBreak: broken layout only)
   in at most one. *)
Inductive frag := FMand (s : str) | FOpt (s : str).

Fixpoint frags (d : doc) : list frag :=
  match d with
  | Nil => []
  | Text s => [FMand s]
  | Concat l => flat_map frags l
  | Indent _ d' | Group d' | ForceFlat d' => frags d'
  | Line sep => [FOpt sep]
  | Hardline | DedentHardline _ => []
  | Comments cs => map (fun c => FMand (c_text c)) cs
  | IfBreak s => [FOpt s]
  | IfBreakPad _ | Pad _ | IfFlatPad _ => []
  | Anchored s _ _ => [FMand s]
  end.

(* s is the concatenation of all mandatory fragments and some of the optional ones, in order *)
Inductive Sel : list frag -> str -> Prop :=
| SelNil : Sel [] []
| SelMand s r t : Sel r t -> Sel (FMand s :: r) (s ++ t)
| SelOptYes s r t : Sel r t -> Sel (FOpt s :: r) (s ++ t)
| SelOptNo s r t : Sel r t -> Sel (FOpt s :: r) t.

Definition mand (fs : list frag) : list str :=
  flat_map (fun f => match f with FMand s => [s] | FOpt _ => [] end) fs.
Definition opts_of (fs : list frag) : list str :=
  flat_map (fun f => match f with FMand _ => [] | FOpt s => [s] end) fs.

(* ---------------------------------------------------------------- generic syntax-directed walker *)
(* A parse tree: terminals carry their text and trailing comments (VerylToken), non-terminals a
   production number and children.  A walker is a table of action lists: what a semantic action
   of formatter.rs does with the children of its node, in which order, and which documents it adds
   itself (spaces, soft lines, hard lines, literal separators). *)
Inductive tree :=
| Tok (s : str) (cs : list comment)
| Node (p : N) (ch : list tree).

Inductive act :=
| AChild (i : nat)          (* walk child i here *)
| ADoc (d : doc).           (* a document the action adds itself *)

(* process_token: the token text, (alignment padding,) then its trailing comments *)
Definition tok_doc (pad : N) (s : str) (cs : list comment) : doc :=
  Concat [Text s; Pad pad; Comments cs].

Fixpoint walk (acts : N -> nat -> list act) (pad : str -> N) (t : tree) : doc :=
  match t with
  | Tok s cs => tok_doc (pad s) s cs
  | Node p ch =>
      let docs := map (walk acts pad) ch in
      Concat (map (fun a => match a with AChild i => nth i docs Nil | ADoc d => d end)
                  (acts p (length ch)))
  end.

Fixpoint tree_texts (t : tree) : list str :=
  match t with
  | Tok s cs => s :: map c_text cs
  | Node _ ch => flat_map tree_texts ch
  end.

Definition child_indices (l : list act) : list nat :=
  flat_map (fun a => match a with AChild i => [i] | ADoc _ => [] end) l.
Definition added_docs (l : list act) : list doc :=
  flat_map (fun a => match a with AChild _ => [] | ADoc d => [d] end) l.

(* the walker visits every child exactly once, in order, and adds only layout (whitespace) of its own *)
Definition in_order_once (acts : N -> nat -> list act) : Prop :=
  forall p n, child_indices (acts p n) = seq 0 n.
Definition adds_only_layout (acts : N -> nat -> list act) : Prop :=
  forall p n d, In d (added_docs (acts p n)) -> nonws (concat (mand (frags d))) = [].

(* ---------------------------------------------------------------- comment line bookkeeping *)
(* number of newlines render_comment emits in front of the comment text *)
Definition lead_emit (st : state) (c : comment) : N :=
  let pend := match pending st with Some _ => true | None => false end in
  if (c_lead c =? 0) && negb (swallow st) && negb pend then 0
  else N.max (c_lead c) 1 - (if swallow st || pend then 1 else 0).

(* the state right after a token text or a block comment: no break pending *)
Definition at_text_end (st : state) : Prop := swallow st = false /\ pending st = None.
(* the state right after a line comment: its newline is already out, the break is swallowed *)
Definition after_line_comment (st : state) : Prop :=
  swallow st = true /\ (exists p, pending st = Some p) /\ 1 <= cur_line st.
(* the line on which the last emitted text ended *)
Definition end_line (st : state) : N := if swallow st then cur_line st - 1 else cur_line st.

(* comments as the formatter builds them from a source text: a comment that follows a line comment
   sits at least one line further down *)
Fixpoint comments_wf (prev_is_line : bool) (cs : list comment) : bool :=
  match cs with
  | [] => true
  | c :: r => (negb prev_is_line || (1 <=? c_lead c)) && comments_wf (c_is_line c) r
  end.

(* lines advanced by a comment list when every comment keeps its source distance *)
Fixpoint comment_lines (cs : list comment) : N :=
  match cs with
  | [] => 0
  | c :: r => c_lead c + count_nl (c_text c) + comment_lines r
  end.
