(* Theorems of the layout view: what the renderer guarantees to the formatter. *)
From VV Require Import Fmt.LayoutModel.
Open Scope N_scope.

(* ================================================================ C09 half: content *)

Lemma Sel_app f1 f2 s1 s2 : Sel f1 s1 -> Sel f2 s2 -> Sel (f1 ++ f2) (s1 ++ s2).
Proof.
  induction 1; intros H2; simpl; auto.
  - rewrite <- app_assoc. constructor; auto.
  - rewrite <- app_assoc. apply SelOptYes; auto.
  - apply SelOptNo; auto.
Qed.

Lemma Sel_mand_map (cs : list comment) :
  Sel (map (fun c => FMand (c_text c)) cs) (concat (map c_text cs)).
Proof. induction cs; simpl; constructor; auto. Qed.

Lemma Sel_one_mand s : Sel [FMand s] s.
Proof. pose proof (SelMand s [] [] SelNil) as H. rewrite app_nil_r in H. exact H. Qed.
Lemma Sel_one_yes s : Sel [FOpt s] s.
Proof. pose proof (SelOptYes s [] [] SelNil) as H. rewrite app_nil_r in H. exact H. Qed.
Lemma Sel_one_no s : Sel [FOpt s] [].
Proof. apply SelOptNo. constructor. Qed.

Lemma contents_sel m d s : Contents m d s -> Sel (frags d) s.
Proof.
  induction 1; simpl; auto using Sel_one_mand, Sel_one_yes, Sel_one_no, Sel_mand_map, Sel_app, SelNil.
Qed.

(* The rendered text consists, up to whitespace, of every mandatory fragment of the document
   exactly once and in order, plus a sub-selection of the optional fragments at their places:
   whatever a Doc builder puts into the document once arrives in the output once; nothing is
   lost, duplicated or reordered by the renderer. *)
Theorem render_is_selection o d : nl_ok o ->
  exists s, Sel (frags d) s /\ nonws (render_text o d) = nonws s.
Proof.
  intros H. destruct (render_content o d H) as [s [C E]].
  exists s. split; [eapply contents_sel; eauto|exact E].
Qed.

(* when every optional fragment is whitespace (soft lines) the output is exactly the mandatory
   fragments *)
Lemma Sel_ws_opts fs s : Forall (fun t => nonws t = []) (opts_of fs) -> Sel fs s ->
  nonws s = nonws (concat (mand fs)).
Proof.
  intros Hw H. induction H; simpl in *; auto.
  - rewrite !nonws_app. f_equal. auto.
  - inversion Hw; subst. rewrite nonws_app, H2. simpl. auto.
  - inversion Hw; subst. auto.
Qed.

Theorem render_mandatory_exact o d : nl_ok o ->
  Forall (fun t => nonws t = []) (opts_of (frags d)) ->
  nonws (render_text o d) = nonws (concat (mand (frags d))).
Proof.
  intros H Hw. destruct (render_is_selection o d H) as [s [S E]].
  rewrite E. apply Sel_ws_opts; auto.
Qed.

(* ---------------------------------------------------------------- walker lemma *)
Lemma mand_app a b : mand (a ++ b) = mand a ++ mand b.
Proof. unfold mand. apply flat_map_app. Qed.

Lemma nonws_concat_app a b : nonws (concat (a ++ b)) = nonws (concat a) ++ nonws (concat b).
Proof. rewrite concat_app, nonws_app. reflexivity. Qed.

Lemma mand_comments cs : mand (map (fun c => FMand (c_text c)) cs) = map c_text cs.
Proof. induction cs; simpl; f_equal; auto. Qed.

Definition tcontent (t : tree) : str := nonws (concat (tree_texts t)).
Definition dcontent (d : doc) : str := nonws (concat (mand (frags d))).

Lemma dcontent_concat l : dcontent (Concat l) = concat (map dcontent l).
Proof.
  unfold dcontent. simpl. induction l; simpl; auto.
  rewrite mand_app, nonws_concat_app. f_equal. auto.
Qed.

Lemma tcontent_node p ch : tcontent (Node p ch) = concat (map tcontent ch).
Proof.
  unfold tcontent. simpl. induction ch; simpl; auto.
  rewrite nonws_concat_app. f_equal. auto.
Qed.

(* content of the action list = content of the children named by its Child actions, when the
   added documents are layout only *)
Lemma acts_content (docs : list doc) (l : list act) :
  (forall d, In d (added_docs l) -> dcontent d = []) ->
  concat (map dcontent (map (fun a => match a with AChild i => nth i docs Nil | ADoc d => d end) l))
  = concat (map (fun i => dcontent (nth i docs Nil)) (child_indices l)).
Proof.
  induction l as [|a l IH]; simpl; intros H; auto.
  destruct a; simpl.
  - f_equal. apply IH. intros; apply H; auto.
  - rewrite (H d) by (simpl; auto). simpl. apply IH. intros; apply H. simpl; auto.
Qed.

Lemma map_nth_seq {A} (l : list A) (dflt : A) : map (fun i => nth i l dflt) (seq 0 (length l)) = l.
Proof.
  induction l; simpl; auto. f_equal. rewrite <- seq_shift, map_map. exact IHl.
Qed.

Section tree_ind2.
  Variable P : tree -> Prop.
  Hypothesis HTok : forall s cs, P (Tok s cs).
  Hypothesis HNode : forall p ch, Forall P ch -> P (Node p ch).
  Fixpoint tree_ind2 (t : tree) : P t :=
    match t with
    | Tok s cs => HTok s cs
    | Node p ch => HNode p ch ((fix go (l : list tree) : Forall P l :=
                                 match l with [] => Forall_nil P
                                 | x :: xs => Forall_cons x (tree_ind2 x) (go xs) end) ch)
    end.
End tree_ind2.

(* walk_preserves_tokens: a walker that visits each child exactly once and in order, and adds only
   whitespace itself, builds a document whose mandatory content is the token and comment texts of
   the tree, in order. *)
Theorem walk_preserves_tokens acts pad t :
  in_order_once acts -> adds_only_layout acts ->
  dcontent (walk acts pad t) = tcontent t.
Proof.
  intros Hord Hlay. induction t as [s cs|p ch IH] using tree_ind2.
  - unfold dcontent, tcontent, walk, tok_doc. simpl. rewrite app_nil_r.
    rewrite mand_comments. reflexivity.
  - cbn [walk]. rewrite dcontent_concat, acts_content.
    + rewrite Hord, tcontent_node.
      rewrite <- (map_length (walk acts pad) ch).
      rewrite <- (map_map (fun i => nth i (map (walk acts pad) ch) Nil) dcontent).
      rewrite map_nth_seq, map_map. f_equal.
      induction IH; simpl; f_equal; auto.
    + intros d Hd. apply (Hlay p (length ch) d Hd).
Qed.

(* end to end: rendering the walker's document yields the tree's tokens and comments up to
   whitespace, when the optional fragments are whitespace too *)
Theorem walk_render_tokens o acts pad t : nl_ok o ->
  in_order_once acts -> adds_only_layout acts ->
  Forall (fun s => nonws s = []) (opts_of (frags (walk acts pad t))) ->
  nonws (render_text o (walk acts pad t)) = nonws (concat (tree_texts t)).
Proof.
  intros Hnl H1 H2 H3. rewrite render_mandatory_exact by assumption.
  apply (walk_preserves_tokens acts pad t H1 H2).
Qed.

(* ================================================================ C08: gap classes *)

Lemma emit_break_lines o i st :
  cur_line (emit_break o i st) = cur_line st + (if swallow st then 0 else 1).
Proof. unfold emit_break. destruct (swallow st); simpl; lia. Qed.

Lemma dedent_trunc_line o l st : cur_line (dedent_trunc o l st) = cur_line st.
Proof.
  unfold dedent_trunc. destruct (_ && _); auto. destruct (all_spaces_prefix _ _); auto.
Qed.
Lemma dedent_trunc_swallow o l st : swallow (dedent_trunc o l st) = swallow st.
Proof.
  unfold dedent_trunc. destruct (_ && _); auto. destruct (all_spaces_prefix _ _); auto.
Qed.

Definition is_break_node (d : doc) : bool :=
  match d with Line _ | Hardline | DedentHardline _ => true | _ => false end.

Lemma flush_pending_line st : cur_line (flush_pending st) = cur_line st.
Proof. unfold flush_pending. destruct (pending st); auto. Qed.

(* a single break node (soft line, hard line, dedent hard line) advances the output by exactly one
   line in the broken layout -- none when it follows a line comment, whose own newline is already
   out -- and by none in the flat layout: one break never produces a blank line *)
Theorem break_node_gap o i m d k st : is_break_node d = true ->
  cur_line (render_doc o i m d k st) =
  cur_line st + match m with Flat => 0 | Break => if swallow st then 0 else 1 end.
Proof.
  destruct d; try discriminate; intros _; destruct m; cbn [render_doc].
  - unfold put_flat. cbn. rewrite flush_pending_line. lia.
  - apply emit_break_lines.
  - unfold flat_space. cbn. rewrite flush_pending_line. lia.
  - apply emit_break_lines.
  - unfold flat_space. cbn. rewrite flush_pending_line. lia.
  - rewrite emit_break_lines, dedent_trunc_line, dedent_trunc_swallow. reflexivity.
Qed.

Corollary break_node_gap_le1 o i m d k st : is_break_node d = true ->
  cur_line (render_doc o i m d k st) <= cur_line st + 1.
Proof.
  intros H. rewrite break_node_gap by assumption. destruct m; [lia|]. destruct (swallow st); lia.
Qed.

(* two consecutive hard breaks give exactly one blank line (gap class 2), as the formatter's
   consume_adjust_line expects when it re-creates a blank line of the source *)
Corollary two_hardlines_one_blank o i k st : swallow st = false ->
  cur_line (render_doc o i Break (Concat [Hardline; Hardline]) k st) = cur_line st + 2.
Proof.
  intros H. cbn [render_doc]. rewrite !emit_break_lines.
  rewrite H. unfold emit_break at 1. rewrite H. cbn. lia.
Qed.

(* ---------------------------------------------------------------- comments keep their distance *)
Lemma render_comment_lines o i st c :
  cur_line (render_comment o i st c) =
  cur_line st + lead_emit st c + count_nl (c_text c) + (if c_is_line c then 1 else 0).
Proof.
  unfold render_comment, lead_emit.
  set (pend := match pending st with Some _ => true | None => false end).
  destruct ((c_lead c =? 0) && negb (swallow st) && negb pend) eqn:E.
  - destruct (0 <? col st); destruct (negb (c_sl c =? 0) && negb (c_sc c =? 0));
      destruct (c_is_line c); cbn; try lia;
      destruct (0 <? count_nl (c_text c)) eqn:E2; cbn; try lia;
      apply N.ltb_ge in E2; lia.
  - destruct (negb (c_sl c =? 0) && negb (c_sc c =? 0));
      destruct (c_is_line c); cbn; try lia;
      destruct (0 <? count_nl (c_text c)) eqn:E2; cbn; try lia;
      apply N.ltb_ge in E2; lia.
Qed.

(* after a token text or a block comment a comment starts exactly leading_newlines lines below *)
Lemma lead_emit_at_text_end st c : at_text_end st -> lead_emit st c = c_lead c.
Proof.
  intros [Hs Hp]. unfold lead_emit. rewrite Hs, Hp. cbn.
  destruct (N.eqb_spec (c_lead c) 0); cbn; lia.
Qed.
(* after a line comment (whose newline is already out) one newline fewer is emitted *)
Lemma lead_emit_after_line st c : after_line_comment st -> lead_emit st c = c_lead c - 1.
Proof.
  intros [Hs [[p Hp] _]]. unfold lead_emit. rewrite Hs, Hp. cbn.
  rewrite andb_false_r. cbn. lia.
Qed.

Lemma render_comment_state o i st c :
  (if c_is_line c then after_line_comment (render_comment o i st c)
   else at_text_end (render_comment o i st c)).
Proof.
  unfold render_comment, after_line_comment, at_text_end.
  set (pend := match pending st with Some _ => true | None => false end).
  destruct ((c_lead c =? 0) && negb (swallow st) && negb pend) eqn:E.
  - apply andb_prop in E as [E E3]. apply andb_prop in E as [E1 E2].
    assert (Hp : pending st = None) by (subst pend; destruct (pending st); [discriminate|auto]).
    destruct (0 <? col st); destruct (negb (c_sl c =? 0) && negb (c_sc c =? 0));
      destruct (c_is_line c); cbn; try (repeat split; eauto; lia);
      destruct (0 <? count_nl (c_text c)); cbn; auto.
  - destruct (negb (c_sl c =? 0) && negb (c_sc c =? 0));
      destruct (c_is_line c); cbn; try (repeat split; eauto; lia);
      destruct (0 <? count_nl (c_text c)); cbn; auto.
Qed.

(* comments_reproduce_source_gaps: a comment list rendered right after a token (or after a line
   comment) moves the end of text down by exactly the sum of the comments' leading_newlines and
   interior newlines: every comment lands at the line distance the formatter computed from the
   source, so a re-parse computes the same leading_newlines again. *)
Theorem comments_reproduce_source_gaps o i cs : forall st,
  (at_text_end st /\ comments_wf false cs = true) \/
  (after_line_comment st /\ comments_wf true cs = true) ->
  end_line (render_comments o i cs st) = end_line st + comment_lines cs.
Proof.
  unfold render_comments. induction cs as [|c cs IH]; intros st H; simpl.
  - lia.
  - pose proof (render_comment_lines o i st c) as HL.
    pose proof (render_comment_state o i st c) as HS.
    assert (Hwf : comments_wf (c_is_line c) cs = true).
    { destruct H as [[_ H]|[_ H]]; cbn [comments_wf] in H; apply andb_prop in H; tauto. }
    assert (Hend : end_line (render_comment o i st c) = end_line st + c_lead c + count_nl (c_text c)).
    { destruct H as [[Ha H]|[Ha H]].
      - rewrite (lead_emit_at_text_end st c Ha) in HL. destruct Ha as [Hs _].
        unfold end_line at 2. rewrite Hs. unfold end_line.
        destruct (c_is_line c).
        + destruct HS as [-> _]. lia.
        + destruct HS as [-> _]. lia.
      - rewrite (lead_emit_after_line st c Ha) in HL. destruct Ha as [Hs [_ Hc]].
        cbn [comments_wf] in H. apply andb_prop in H as [H _]. cbn in H. apply N.leb_le in H.
        unfold end_line at 2. rewrite Hs. unfold end_line.
        destruct (c_is_line c).
        + destruct HS as [-> _]. lia.
        + destruct HS as [-> _]. lia. }
    rewrite IH.
    + rewrite Hend. lia.
    + destruct (c_is_line c); [right|left]; auto.
Qed.

(* ================================================================ C08: conditional idempotence *)
Section Idempotence.
  Variables text tok obs document cfg : Type.
  Variable lex : text -> list tok.               (* parser + TokenCollector *)
  Variable observe : text -> obs.                (* gap classes etc. read by the builder *)
  Variable build : cfg -> list tok -> obs -> document.   (* formatter.rs, not transcribed *)
  Variable render : cfg -> document -> text.     (* veryl_pretty::render *)

  Definition fmt (c : cfg) (x : text) : text := render c (build c (lex x) (observe x)).

  (* idempotent_if_observation_stable (the C08 statement with its unproved premises named):
     formatting is idempotent on x as soon as the formatted text re-lexes to the same tokens
     (the token half of C09) and shows the builder the same observations. *)
  Theorem idempotent_if_observation_stable c x :
    lex (fmt c x) = lex x ->
    observe (fmt c x) = observe x ->
    fmt c (fmt c x) = fmt c x.
  Proof. intros H1 H2. unfold fmt at 1. rewrite H1, H2. reflexivity. Qed.

  (* a fixed point of the observations is all that is needed from the second pass on *)
  Theorem idempotent_from_second_pass c x :
    lex (fmt c (fmt c x)) = lex (fmt c x) ->
    observe (fmt c (fmt c x)) = observe (fmt c x) ->
    fmt c (fmt c (fmt c x)) = fmt c (fmt c x).
  Proof. apply idempotent_if_observation_stable. Qed.
End Idempotence.

(* ================================================================ non-vacuity witnesses *)
(* `a = b ; // c` as a two-level tree; walker = every child followed by a soft line *)
Definition example_acts (p : N) (n : nat) : list act :=
  flat_map (fun i => [AChild i; ADoc (Line [32])]) (seq 0 n).
Definition example_tree : tree :=
  Node 1 [Node 2 [Tok [97] []; Tok [61] []; Tok [98] []];
          Tok [59] [mkComment [47;47;99] 0 true 0 0]].
Lemma example_acts_in_order : in_order_once example_acts.
Proof.
  intros p n. unfold example_acts. generalize 0%nat. induction n; intros s; simpl; auto.
  f_equal. apply IHn.
Qed.
Lemma example_acts_layout : adds_only_layout example_acts.
Proof.
  intros p n d. unfold example_acts. generalize 0%nat. induction n; intros s; simpl; [tauto|].
  intros [<-|H]; [reflexivity|eauto].
Qed.
