(* L7 — interleaving semantics of OS processes over a shared file system (definitions only).

   A process is a flat program of file-system primitives (conditional = "skip the next n
   instructions").  A global step executes ONE primitive of ONE enabled process; every
   interleaving of the processes' primitives is a run.  What a primitive does:

     SkipIfDir d n / SkipIfFile p n   `if !x.exists() { <n instructions> }` (one atomic test)
     SkipIfNoDir d n                  `if x.exists() { <n instructions> }`
     MkDir d                          create_dir_all (idempotent)
     Lock l                           blocking flock: enabled only while nobody holds l
     TryLock l                        non-blocking: when l is held the process gives up (code := [])
     Unlock l
     Trunc p                          open(O_CREAT|O_TRUNC): p exists and is empty (dir must exist)
     Append p c                       one write(2) of chunk c
     RenameFile a b                   rename(2): atomic replace
     RenameDir a b                    rename(2) of a directory with its files; error if b exists
     RemoveFile p / RemoveDir d       unlink / remove_dir_all
     Read p                           whole-file read, logged: (p, Some bytes | None)
   A primitive that fails in the real code with an error the caller propagates (`?`) aborts the
   process (code := []).  A process that has finished or aborted holds no lock (its descriptors
   are closed).

   Trusted reading of the OS: rename is atomic, flock is mutually exclusive, a read returns the
   bytes present at one instant.  Not modelled: crashes (property C05), permissions, NFS. *)
Require Import NArith PeanoNat List Bool FMapPositive.
Import ListNotations.
Open Scope N_scope.

Definition path := (N * N)%type.          (* directory id, file id *)

Inductive instr :=
| SkipIfDir (d : N) (n : nat)
| SkipIfNoDir (d : N) (n : nat)
| SkipIfFile (p : path) (n : nat)
| MkDir (d : N)
| Lock (l : N)
| TryLock (l : N)
| Unlock (l : N)
| Trunc (p : path)
| Append (p : path) (c : list N)
| RenameFile (a b : path)
| RenameDir (a b : N)
| RemoveFile (p : path)
| RemoveDir (d : N)
| Read (p : path).

Record fsys := mkFs {
  files : list (path * list N);
  dirs : list N;
  locks : list (N * N) }.                 (* lock file -> pid of the holder *)

Record proc := mkProc {
  p_id : N;
  p_code : list instr;
  p_log : list (path * option (list N)) }.

Definition state := (fsys * list proc)%type.

Definition path_eqb (a b : path) : bool := (fst a =? fst b) && (snd a =? snd b).

Fixpoint fget (p : path) (fs : list (path * list N)) : option (list N) :=
  match fs with
  | [] => None
  | (q, c) :: r => if path_eqb q p then Some c else fget p r
  end.

Definition fdel (p : path) (fs : list (path * list N)) : list (path * list N) :=
  filter (fun x => negb (path_eqb (fst x) p)) fs.

(* files are kept sorted by nothing in particular; `fset` replaces in place or appends, so that
   states reached along different interleavings coincide more often *)
Fixpoint fset (p : path) (c : list N) (fs : list (path * list N)) : list (path * list N) :=
  match fs with
  | [] => [(p, c)]
  | (q, c') :: r => if path_eqb q p then (q, c) :: r else (q, c') :: fset p c r
  end.

Definition has_dir (d : N) (ds : list N) : bool := existsb (N.eqb d) ds.

Fixpoint add_dir (d : N) (ds : list N) : list N :=
  match ds with
  | [] => [d]
  | x :: r => if x =? d then ds else if d <? x then d :: ds else x :: add_dir d r
  end.

Definition del_dir (d : N) (ds : list N) : list N := filter (fun x => negb (x =? d)) ds.

Fixpoint holder (l : N) (ls : list (N * N)) : option N :=
  match ls with
  | [] => None
  | (l', h) :: r => if l' =? l then Some h else holder l r
  end.

Definition release (l pid : N) (ls : list (N * N)) : list (N * N) :=
  filter (fun x => negb ((fst x =? l) && (snd x =? pid))) ls.

Definition release_all (pid : N) (ls : list (N * N)) : list (N * N) :=
  filter (fun x => negb (snd x =? pid)) ls.

Fixpoint add_lock (l pid : N) (ls : list (N * N)) : list (N * N) :=
  match ls with
  | [] => [(l, pid)]
  | (l', h) :: r => if l <? l' then (l, pid) :: ls else (l', h) :: add_lock l pid r
  end.

(* result of one primitive of process pr on file system fs; None = not enabled (blocked) *)
Definition exec (fs : fsys) (pr : proc) : option (fsys * proc) :=
  match p_code pr with
  | [] => None
  | i :: rest =>
      let cont := fun fs' code => Some (fs', mkProc (p_id pr) code (p_log pr)) in
      let abort := fun (_ : unit) => Some (fs, mkProc (p_id pr) [] (p_log pr)) in
      match i with
      | SkipIfDir d n => cont fs (if has_dir d (dirs fs) then skipn n rest else rest)
      | SkipIfNoDir d n => cont fs (if has_dir d (dirs fs) then rest else skipn n rest)
      | SkipIfFile p n =>
          cont fs (match fget p (files fs) with Some _ => skipn n rest | None => rest end)
      | MkDir d => cont (mkFs (files fs) (add_dir d (dirs fs)) (locks fs)) rest
      | Lock l =>
          match holder l (locks fs) with
          | Some _ => None
          | None => cont (mkFs (files fs) (dirs fs) (add_lock l (p_id pr) (locks fs))) rest
          end
      | TryLock l =>
          match holder l (locks fs) with
          | Some _ => abort tt
          | None => cont (mkFs (files fs) (dirs fs) (add_lock l (p_id pr) (locks fs))) rest
          end
      | Unlock l => cont (mkFs (files fs) (dirs fs) (release l (p_id pr) (locks fs))) rest
      | Trunc p =>
          if has_dir (fst p) (dirs fs)
          then cont (mkFs (fset p [] (files fs)) (dirs fs) (locks fs)) rest
          else abort tt
      | Append p c =>
          match fget p (files fs) with
          | Some old => cont (mkFs (fset p (old ++ c) (files fs)) (dirs fs) (locks fs)) rest
          | None => abort tt
          end
      | RenameFile a b =>
          match fget a (files fs) with
          | Some c =>
              if has_dir (fst b) (dirs fs)
              then cont (mkFs (fset b c (fdel a (files fs))) (dirs fs) (locks fs)) rest
              else abort tt
          | None => abort tt
          end
      | RenameDir a b =>
          if has_dir a (dirs fs) && negb (has_dir b (dirs fs))
          then cont (mkFs (map (fun x => if fst (fst x) =? a then ((b, snd (fst x)), snd x) else x) (files fs))
                          (add_dir b (del_dir a (dirs fs))) (locks fs)) rest
          else abort tt
      | RemoveFile p => cont (mkFs (fdel p (files fs)) (dirs fs) (locks fs)) rest
      | RemoveDir d =>
          cont (mkFs (filter (fun x => negb (fst (fst x) =? d)) (files fs)) (del_dir d (dirs fs)) (locks fs)) rest
      | Read p =>
          Some (fs, mkProc (p_id pr) rest (p_log pr ++ [(p, fget p (files fs))]))
      end
  end.

(* a finished / aborted process holds no lock *)
Definition settle (r : fsys * proc) : fsys * proc :=
  match p_code (snd r) with
  | [] => (mkFs (files (fst r)) (dirs (fst r)) (release_all (p_id (snd r)) (locks (fst r))), snd r)
  | _ => r
  end.

Fixpoint succs_from (fs : fsys) (before after : list proc) : list state :=
  match after with
  | [] => []
  | pr :: r =>
      match exec fs pr with
      | Some x => let (fs', pr') := settle x in [(fs', before ++ pr' :: r)]
      | None => []
      end ++ succs_from fs (before ++ [pr]) r
  end.

(* all states reachable in one step = the interleaving semantics *)
Definition succs (s : state) : list state := succs_from (fst s) [] (snd s).

Inductive reachable (init : state) : state -> Prop :=
| reach_init : reachable init init
| reach_step : forall s s', reachable init s -> In s' (succs s) -> reachable init s'.

(* ---------------------------------------------------------------- decidable equality *)

Definition instr_eq_dec : forall a b : instr, {a = b} + {a <> b}.
Proof.
  decide equality; try apply N.eq_dec; try apply Nat.eq_dec;
    try (apply list_eq_dec; apply N.eq_dec);
    try (decide equality; apply N.eq_dec).
Defined.

Definition path_eq_dec : forall a b : path, {a = b} + {a <> b}.
Proof. decide equality; apply N.eq_dec. Defined.

Definition bytes_eq_dec : forall a b : list N, {a = b} + {a <> b} := list_eq_dec N.eq_dec.

Definition fsys_eq_dec : forall a b : fsys, {a = b} + {a <> b}.
Proof.
  decide equality.
  - apply list_eq_dec. decide equality; apply N.eq_dec.
  - apply list_eq_dec. apply N.eq_dec.
  - apply list_eq_dec. decide equality; [apply bytes_eq_dec | apply path_eq_dec].
Defined.

Definition proc_eq_dec : forall a b : proc, {a = b} + {a <> b}.
Proof.
  decide equality.
  - apply list_eq_dec. decide equality.
    + decide equality. apply bytes_eq_dec.
    + apply path_eq_dec.
  - apply list_eq_dec. apply instr_eq_dec.
  - apply N.eq_dec.
Defined.

Definition state_eq_dec : forall a b : state, {a = b} + {a <> b}.
Proof. decide equality; [apply list_eq_dec; apply proc_eq_dec | apply fsys_eq_dec]. Defined.

Definition mem (s : state) (S : list state) : bool :=
  existsb (fun x => if state_eq_dec s x then true else false) S.

(* ---------------------------------------------------------------- exploration and certificate *)

(* cheap fingerprint: the program counters (remaining code lengths) of all processes *)
Definition key (s : state) : positive :=
  fold_left (fun acc pr => Pos.of_succ_nat (length (p_code pr)) + 64 * acc)%positive (snd s) 1%positive.

Definition sset := PositiveMap.t (list state).

Definition smem (s : state) (M : sset) : bool :=
  match PositiveMap.find (key s) M with
  | Some l => mem s l
  | None => false
  end.

Definition sadd (s : state) (M : sset) : sset :=
  PositiveMap.add (key s)
    (s :: match PositiveMap.find (key s) M with Some l => l | None => [] end) M.

(* unverified search; its result is CHECKED by closed_check *)
Fixpoint bfs (fuel : nat) (todo : list state) (seen : sset) : sset :=
  match fuel with
  | O => seen
  | S f =>
      match todo with
      | [] => seen
      | s :: r => if smem s seen then bfs f r seen else bfs f (succs s ++ r) (sadd s seen)
      end
  end.

Definition reach_set (fuel : N) (init : state) : sset :=
  bfs (N.to_nat fuel) [init] (PositiveMap.empty _).

Definition set_size (M : sset) : nat :=
  fold_left (fun n kv => (n + length (snd kv))%nat) (PositiveMap.elements M) O.

(* M contains init, is closed under every step of every process, and all its states are safe *)
Definition closed_check (safe : state -> bool) (init : state) (M : sset) : bool :=
  smem init M &&
  forallb (fun kv => forallb (fun s => safe s && forallb (fun s' => smem s' M) (succs s)) (snd kv))
          (PositiveMap.elements M).

Definition verify (fuel : N) (safe : state -> bool) (init : state) : bool :=
  closed_check safe init (reach_set fuel init).

(* a schedule = which process (index) moves next; used to exhibit refuting runs *)
Fixpoint run_sched (sched : list nat) (s : state) : option state :=
  match sched with
  | [] => Some s
  | i :: r =>
      match nth_error (snd s) i with
      | None => None
      | Some pr =>
          match exec (fst s) pr with
          | None => None
          | Some x =>
              let (fs', pr') := settle x in
              run_sched r (fs', firstn i (snd s) ++ pr' :: skipn (S i) (snd s))
          end
      end
  end.

(* ---------------------------------------------------------------- safety predicates *)

Definition next_instr (pr : proc) : option instr :=
  match p_code pr with [] => None | i :: _ => Some i end.

(* reads or modifies directory d or a file in it (create_dir_all is idempotent and not counted) *)
Definition touches_dir (d : N) (i : instr) : bool :=
  match i with
  | SkipIfDir d' _ | SkipIfNoDir d' _ | RemoveDir d' => d' =? d
  | SkipIfFile p _ | Trunc p | Append p _ | RemoveFile p | Read p => fst p =? d
  | RenameFile a b => (fst a =? d) || (fst b =? d)
  | RenameDir a b => (a =? d) || (b =? d)
  | MkDir _ | Lock _ | TryLock _ | Unlock _ => false
  end.

Definition writes_dir (d : N) (i : instr) : bool :=
  match i with
  | RemoveDir d' => d' =? d
  | Trunc p | Append p _ | RemoveFile p => fst p =? d
  | RenameFile a b => (fst a =? d) || (fst b =? d)
  | RenameDir a b => (a =? d) || (b =? d)
  | _ => false
  end.

Definition guarded_by (sel : N -> instr -> bool) (d l : N) (s : state) : bool :=
  forallb (fun pr =>
             match next_instr pr with
             | Some i => if sel d i
                         then match holder l (locks (fst s)) with
                              | Some h => h =? p_id pr
                              | None => false
                              end
                         else true
             | None => true
             end) (snd s).

(* whoever is about to read or modify directory d holds lock l *)
Definition guarded := guarded_by touches_dir.
(* whoever is about to modify directory d holds lock l *)
Definition guarded_writes := guarded_by writes_dir.

(* every logged read of a file of directory d returned one of the complete contents `ok p`
   (missing file allowed iff allow_missing) *)
Definition reads_complete (d : N) (ok : path -> list (list N)) (allow_missing : bool) (s : state) : bool :=
  forallb (fun pr =>
             forallb (fun e : path * option (list N) =>
                        if fst (fst e) =? d
                        then match snd e with
                             | Some c => existsb (fun g => if bytes_eq_dec c g then true else false) (ok (fst e))
                             | None => allow_missing
                             end
                        else true) (p_log pr)) (snd s).

(* process number i (position in the list) is never blocked: it has finished or can move *)
Definition never_blocked (i : nat) (s : state) : bool :=
  match nth_error (snd s) i with
  | None => true
  | Some pr => match p_code pr with
               | [] => true
               | _ => match exec (fst s) pr with Some _ => true | None => false end
               end
  end.

(* no process failed: a process that has finished logged all its n reads (an aborted process,
   i.e. an I/O error propagated by `?`, stops early) *)
Definition completes (n : nat) (s : state) : bool :=
  forallb (fun pr => match p_code pr with [] => Nat.eqb (length (p_log pr)) n | _ => true end) (snd s).

(* the store used although its lock file could not be created (LockResult::Unavailable) *)
Definition strip_locks (code : list instr) : list instr :=
  filter (fun i => match i with Lock _ | TryLock _ | Unlock _ => false | _ => true end) code.

Definition no_blocking_lock (code : list instr) : bool :=
  forallb (fun i => match i with Lock _ => false | _ => true end) code.
