(* Soundness of the certificate check for the interleaving semantics: a finite set of states that
   contains the initial state, is closed under every step of every process and consists of safe
   states contains every reachable state.  Refuting runs: a schedule's end state is reachable. *)
Require Import NArith PeanoNat List Bool FMapPositive.
From VV Require Import Proto.Procs.
Import ListNotations.

Lemma mem_In : forall s S, mem s S = true -> In s S.
Proof.
  intros s S H. unfold mem in H. apply existsb_exists in H as [x [I E]].
  destruct (state_eq_dec s x); [subst; auto | discriminate].
Qed.

Definition InSet (s : state) (M : sset) : Prop :=
  exists l, PositiveMap.find (key s) M = Some l /\ In s l.

Lemma smem_InSet : forall s M, smem s M = true -> InSet s M.
Proof.
  intros s M H. unfold smem in H. destruct (PositiveMap.find (key s) M) as [l|] eqn:F; try discriminate.
  exists l. split; auto. apply mem_In; auto.
Qed.

Theorem closed_sound : forall safe init M,
  closed_check safe init M = true ->
  forall s, reachable init s -> InSet s M /\ safe s = true.
Proof.
  intros safe init M C. unfold closed_check in C. apply andb_true_iff in C as [Mi All].
  rewrite forallb_forall in All.
  assert (Each : forall s, InSet s M ->
                 safe s = true /\ forall s', In s' (succs s) -> InSet s' M).
  { intros s [l [F I]]. apply PositiveMap.elements_correct in F.
    specialize (All _ F). simpl in All. rewrite forallb_forall in All. specialize (All _ I).
    apply andb_true_iff in All as [Sf Cl]. split; auto.
    rewrite forallb_forall in Cl. intros s' I'. apply smem_InSet. auto. }
  assert (Hin : forall s, reachable init s -> InSet s M).
  { induction 1.
    - apply smem_InSet; auto.
    - destruct (Each _ IHreachable) as [_ Cl]. auto. }
  intros s Rr. split; auto. destruct (Each _ (Hin _ Rr)); auto.
Qed.

Theorem verify_sound : forall fuel safe init,
  verify fuel safe init = true -> forall s, reachable init s -> safe s = true.
Proof. intros fuel safe init V s Rr. eapply closed_sound; eauto. Qed.

Lemma succs_from_nth : forall fs after before i pr x,
  nth_error after i = Some pr -> exec fs pr = Some x ->
  In (fst (settle x), before ++ firstn i after ++ snd (settle x) :: skipn (S i) after)
     (succs_from fs before after).
Proof.
  induction after as [|a r IH]; intros before i pr x N E.
  - destruct i; discriminate.
  - destruct i; simpl in *.
    + inversion N; subst. rewrite E. destruct (settle x) as [fs' pr'] eqn:St. simpl. left. reflexivity.
    + apply in_or_app. right. specialize (IH (before ++ [a]) i pr x N E).
      rewrite <- app_assoc in IH. simpl in IH. exact IH.
Qed.

Theorem run_sched_reachable : forall sched init s s',
  reachable init s -> run_sched sched s = Some s' -> reachable init s'.
Proof.
  induction sched as [|i r IH]; simpl; intros init s s' R E.
  - inversion E; subst; auto.
  - destruct (nth_error (snd s) i) as [pr|] eqn:N; try discriminate.
    destruct (exec (fst s) pr) as [x|] eqn:X; try discriminate.
    destruct (settle x) as [fs' pr'] eqn:St.
    eapply IH; [|exact E]. eapply reach_step; [exact R|].
    unfold succs. pose proof (succs_from_nth (fst s) (snd s) [] i pr x N X) as P.
    rewrite St in P. simpl in P. exact P.
Qed.
