(* Soundness of the certificate check for the interleaving semantics: a finite set of states that
   contains the initial state, is closed under every step of every process and consists of safe
   states contains every reachable state.  Refuting runs: a schedule's end state is reachable. *)
Require Import NArith PeanoNat List Bool.
From VV Require Import Proto.Procs.
Import ListNotations.

Lemma mem_In : forall s S, mem s S = true -> In s S.
Proof.
  intros s S H. unfold mem in H. apply existsb_exists in H as [x [I E]].
  destruct (state_eq_dec s x); [subst; auto | discriminate].
Qed.

Theorem closed_sound : forall safe init S,
  closed_check safe init S = true ->
  forall s, reachable init s -> In s S /\ safe s = true.
Proof.
  intros safe init S C. unfold closed_check in C. apply andb_true_iff in C as [Mi All].
  rewrite forallb_forall in All.
  assert (Hin : forall s, reachable init s -> In s S).
  { induction 1.
    - apply mem_In; auto.
    - specialize (All _ IHreachable). apply andb_true_iff in All as [_ Cl].
      rewrite forallb_forall in Cl. apply mem_In. apply Cl. auto. }
  intros s R. split; auto. specialize (All _ (Hin _ R)). apply andb_true_iff in All as [Sf _]. auto.
Qed.

Theorem verify_sound : forall fuel safe init,
  verify fuel safe init = true -> forall s, reachable init s -> safe s = true.
Proof. intros fuel safe init V s R. eapply closed_sound; eauto. Qed.

Lemma succs_from_nth : forall fs after before i pr x,
  nth_error after i = Some pr -> exec fs pr = Some x ->
  In (fst (settle x), before ++ firstn i after ++ snd (settle x) :: skipn (S i) after)
     (succs_from fs before after).
Proof.
  induction after as [|a r IH]; intros before i pr x N E.
  - destruct i; discriminate.
  - destruct i; simpl in *.
    + inversion N; subst. rewrite E. destruct (settle x) as [fs' pr'] eqn:St. simpl. left. reflexivity.
    + apply in_or_app. right. specialize (IH (before ++ [a]) i pr x N E).
      rewrite <- app_assoc in IH. simpl in IH. exact IH.
Qed.

Theorem run_sched_reachable : forall sched init s s',
  reachable init s -> run_sched sched s = Some s' -> reachable init s'.
Proof.
  induction sched as [|i r IH]; simpl; intros init s s' R E.
  - inversion E; subst; auto.
  - destruct (nth_error (snd s) i) as [pr|] eqn:N; try discriminate.
    destruct (exec (fst s) pr) as [x|] eqn:X; try discriminate.
    destruct (settle x) as [fs' pr'] eqn:St.
    eapply IH; [|exact E]. eapply reach_step; [exact R|].
    unfold succs. pose proof (succs_from_nth (fst s) (snd s) [] i pr x N X) as P.
    rewrite St in P. simpl in P. exact P.
Qed.
