(* C30 — protocol theorems.  Each "for all interleavings" statement is established by the verified
   certificate check (ProcsProofs.verify_sound) applied to the system built from the GENERATED
   programs: the reachable set is computed and checked inside Coq (vm_compute), for every process
   schedule.  When the translator regenerates Proto/Programs.v from changed sources these proofs
   are re-run. *)
Require Import NArith PeanoNat List Bool.
From VV Require Import Proto.Procs Proto.ProcsProofs Proto.Programs Proto.Systems.
Import ListNotations.
Open Scope N_scope.

Definition FUEL : N := 200000.

(* ---- reading the boolean predicates *)

Lemma reads_complete_spec : forall d ok am s, reads_complete d ok am s = true ->
  forall pr p r, In pr (snd s) -> In (p, r) (p_log pr) -> fst p = d ->
  match r with Some c => In c (ok p) | None => am = true end.
Proof.
  intros d ok am s Hs pr p r Ipr Il E. unfold reads_complete in Hs.
  rewrite forallb_forall in Hs. specialize (Hs _ Ipr). rewrite forallb_forall in Hs.
  specialize (Hs _ Il). simpl in Hs. rewrite E, N.eqb_refl in Hs.
  destruct r as [c|]; auto.
  apply existsb_exists in Hs as [g [Ig Eg]]. destruct (bytes_eq_dec c g); [subst; auto | discriminate].
Qed.

Lemma guarded_by_spec : forall sel d l s, guarded_by sel d l s = true ->
  forall pr i, In pr (snd s) -> next_instr pr = Some i -> sel d i = true ->
  holder l (locks (fst s)) = Some (p_id pr).
Proof.
  intros sel d l s Hs pr i Ipr Ni T. unfold guarded_by in Hs. rewrite forallb_forall in Hs.
  specialize (Hs _ Ipr). rewrite Ni, T in Hs.
  destruct (holder l (locks (fst s))); try discriminate. apply N.eqb_eq in Hs. subst; auto.
Qed.

(* two processes about to touch a guarded directory are the same process *)
Lemma guarded_exclusive : forall sel d l s, guarded_by sel d l s = true ->
  forall pr1 pr2 i1 i2, In pr1 (snd s) -> In pr2 (snd s) ->
  next_instr pr1 = Some i1 -> next_instr pr2 = Some i2 ->
  sel d i1 = true -> sel d i2 = true -> p_id pr1 = p_id pr2.
Proof.
  intros. pose proof (guarded_by_spec _ _ _ _ H pr1 i1 H0 H2 H4).
  pose proof (guarded_by_spec _ _ _ _ H pr2 i2 H1 H3 H5). congruence.
Qed.

(* ---- 1. atomic_write *)

Lemma aw_verified : verify FUEL aw_safe aw_system = true.
Proof. vm_compute. reflexivity. Qed.

Theorem atomic_write_no_torn_read : forall s, reachable aw_system s ->
  forall pr c, In pr (snd s) -> In (man, Some c) (p_log pr) ->
  c = OLD \/ c = [10; 11] \/ c = [20; 21].
Proof.
  intros s Rr pr c Ipr Il.
  pose proof (verify_sound _ _ _ aw_verified s Rr) as Sf.
  pose proof (reads_complete_spec _ _ _ _ Sf pr man (Some c) Ipr Il eq_refl) as X.
  simpl in X. intuition.
Qed.

Theorem in_place_write_torn : exists s pr,
  reachable ip_system s /\ In pr (snd s) /\ In (man, Some [10]) (p_log pr).
Proof.
  destruct (run_sched [0; 0; 1]%nat ip_system) as [s|] eqn:E; [|vm_compute in E; discriminate].
  exists s. pose proof (run_sched_reachable _ _ _ _ (reach_init ip_system) E) as Rr.
  vm_compute in E. inversion E; subst. eexists. split; [exact Rr|]. split; [right; left; reflexivity|].
  simpl. auto.
Qed.

(* ---- 2. two builds of one project *)

Lemma builds_verified : verify FUEL builds_safe builds_system = true.
Proof. vm_compute. reflexivity. Qed.

Theorem two_builds_safe : forall s, reachable builds_system s -> builds_safe s = true.
Proof. exact (verify_sound _ _ _ builds_verified). Qed.

(* mutual exclusion of the store sections (reads and writes of .build/cache) and of output writing *)
Theorem store_mutex : forall s, reachable builds_system s ->
  forall pr1 pr2 i1 i2, In pr1 (snd s) -> In pr2 (snd s) ->
  next_instr pr1 = Some i1 -> next_instr pr2 = Some i2 ->
  (touches_dir build_store_dir i1 = true /\ touches_dir build_store_dir i2 = true) \/
  (touches_dir D_OUT i1 = true /\ touches_dir D_OUT i2 = true) ->
  p_id pr1 = p_id pr2.
Proof.
  intros s Rr pr1 pr2 i1 i2 I1 I2 N1 N2 T.
  pose proof (two_builds_safe s Rr) as Sf. unfold builds_safe in Sf.
  apply andb_true_iff in Sf as [Sf _].
  repeat (apply andb_true_iff in Sf as [Sf ?]).
  destruct T as [[T1 T2]|[T1 T2]].
  - exact (guarded_exclusive touches_dir _ _ _ Sf pr1 pr2 i1 i2 I1 I2 N1 N2 T1 T2).
  - exact (guarded_exclusive touches_dir _ _ _ H0 pr1 pr2 i1 i2 I1 I2 N1 N2 T1 T2).
Qed.

Lemma nolock_verified : verify FUEL nolock_safe nolock_system = true.
Proof. vm_compute. reflexivity. Qed.

(* without any store lock the manifest and blob reads are still complete (atomic writes) *)
Theorem store_without_lock_reads_complete : forall s, reachable nolock_system s -> nolock_safe s = true.
Proof. exact (verify_sound _ _ _ nolock_verified). Qed.

(* ---- 3. language server *)

Theorem ls_no_blocking_lock : forall pid m1 m2, no_blocking_lock (ls_prog pid m1 m2) = true.
Proof. intros. reflexivity. Qed.

Lemma ls_build_verified : verify FUEL (ls_safe [1%nat]) ls_system_build = true.
Proof. vm_compute. reflexivity. Qed.

Lemma ls_two_verified : verify FUEL (ls_safe [0%nat; 1%nat]) ls_system_two = true.
Proof. vm_compute. reflexivity. Qed.

Theorem build_and_ls_safe : forall s, reachable ls_system_build s -> ls_safe [1%nat] s = true.
Proof. exact (verify_sound _ _ _ ls_build_verified). Qed.

Theorem two_ls_safe : forall s, reachable ls_system_two s -> ls_safe [0%nat; 1%nat] s = true.
Proof. exact (verify_sound _ _ _ ls_two_verified). Qed.

(* ---- 4. standard-library expansion *)

Lemma std2_verified : verify FUEL std_safe std_system2 = true.
Proof. vm_compute. reflexivity. Qed.
Lemma std3_verified : verify FUEL std_safe std_system3 = true.
Proof. vm_compute. reflexivity. Qed.
Lemma std_stale_verified : verify FUEL std_safe std_system_stale = true.
Proof. vm_compute. reflexivity. Qed.

Lemma std_reads : forall init, verify FUEL std_safe init = true ->
  forall s, reachable init s ->
  forall pr f r, In pr (snd s) -> In ((D_STD, f), r) (p_log pr) ->
  r = Some (if f =? 1 then F1 else F2).
Proof.
  intros init V s Rr pr f r Ipr Il.
  pose proof (verify_sound _ _ _ V s Rr) as Sf. unfold std_safe in Sf. apply andb_true_iff in Sf as [Sf _].
  pose proof (reads_complete_spec _ _ _ _ Sf pr (D_STD, f) r Ipr Il eq_refl) as X.
  destruct r as [c|]; [|discriminate]. unfold std_ok in X. simpl in X.
  destruct (f =? 1); simpl in X; destruct X as [X|[]]; subst; reflexivity.
Qed.

Theorem std_expand_safe_2 : forall s, reachable std_system2 s ->
  forall pr f r, In pr (snd s) -> In ((D_STD, f), r) (p_log pr) -> r = Some (if f =? 1 then F1 else F2).
Proof. exact (std_reads _ std2_verified). Qed.

Theorem std_expand_safe_3 : forall s, reachable std_system3 s ->
  forall pr f r, In pr (snd s) -> In ((D_STD, f), r) (p_log pr) -> r = Some (if f =? 1 then F1 else F2).
Proof. exact (std_reads _ std3_verified). Qed.

Theorem std_expand_safe_stale : forall s, reachable std_system_stale s ->
  forall pr f r, In pr (snd s) -> In ((D_STD, f), r) (p_log pr) -> r = Some (if f =? 1 then F1 else F2).
Proof. exact (std_reads _ std_stale_verified). Qed.

(* the protocol before the repair: process 2 passes the existence test after process 1 created the
   directory and reads a half-written file (and a missing one) *)
Theorem std_expand_orig_refuted : exists s pr,
  reachable std_system_orig s /\ In pr (snd s) /\
  In ((D_STD, 1), Some [1]) (p_log pr) /\ In ((D_STD, 2), None) (p_log pr).
Proof.
  destruct (run_sched [0; 0; 0; 0; 0; 0; 1; 1; 1]%nat std_system_orig) as [s|] eqn:E;
    [|vm_compute in E; discriminate].
  exists s. pose proof (run_sched_reachable _ _ _ _ (reach_init std_system_orig) E) as Rr.
  vm_compute in E. inversion E; subst. eexists. split; [exact Rr|]. split; [right; left; reflexivity|].
  simpl. auto.
Qed.

(* ---- 5. dependency checkout *)

Lemma dep_verified : verify FUEL dep_safe dep_system = true.
Proof. vm_compute. reflexivity. Qed.

Theorem dep_checkout_safe : forall s, reachable dep_system s ->
  (forall pr r, In pr (snd s) -> In ((D_CO, 1), r) (p_log pr) -> r = Some T1) /\
  guarded_writes D_CO D_DEPS s = true.
Proof.
  intros s Rr. pose proof (verify_sound _ _ _ dep_verified s Rr) as Sf.
  unfold dep_safe in Sf. apply andb_true_iff in Sf as [Sf _]. apply andb_true_iff in Sf as [S1 S2]. split; auto.
  intros pr r Ipr Il.
  pose proof (reads_complete_spec _ _ _ _ S1 pr (D_CO, 1) r Ipr Il eq_refl) as X.
  destruct r as [c|]; [|discriminate]. simpl in X. destruct X as [X|[]]; subst; reflexivity.
Qed.
