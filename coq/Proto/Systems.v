(* The concrete multi-process systems the C30 theorems are about (definitions only): processes
   running the GENERATED programs (Proto/Programs.v) plus readers; safety predicates. *)
Require Import NArith List Bool.
From VV Require Import Proto.Procs Proto.Programs.
Import ListNotations.
Open Scope N_scope.

Definition P (pid : N) (code : list instr) : proc := mkProc pid code [].
Definition fs0 (fl : list (path * list N)) (ds : list N) : fsys := mkFs fl ds [].

(* ---- 1. atomic_write: two writers replace the manifest, a reader reads it twice *)
Definition OLD : list N := [1; 1].
Definition man : path := (D_CACHE, 0).
Definition aw_system : state :=
  (fs0 [(man, OLD)] [D_CACHE],
   [P 1 (atomic_write 1 man [10] [11]); P 2 (atomic_write 2 man [20] [21]); P 3 [Read man; Read man]]).
Definition aw_ok (p : path) : list (list N) := [OLD; [10; 11]; [20; 21]].
Definition aw_safe : state -> bool := reads_complete D_CACHE aw_ok false.

(* the same with a plain in-place write (fs::write): NOT safe — shows the model can tear *)
Definition in_place (p : path) (c1 c2 : list N) : list instr := [Trunc p; Append p c1; Append p c2].
Definition ip_system : state :=
  (fs0 [(man, OLD)] [D_CACHE], [P 1 (in_place man [10] [11]); P 3 [Read man]]).

(* ---- 2. two builds of one project (store section + outputs under the .build lock) *)
Definition build_prog (pid : N) (m1 m2 : list N) : list instr :=
  build_bracket
    (store_open build_store_blocking build_store_dir ++ [Read (build_store_dir, 1)] ++
     store_write_blob pid build_store_dir [7] [8] ++
     store_save pid build_store_dir m1 m2 ++ [Unlock build_store_dir] ++
     in_place (D_OUT, 1) [pid] [pid]).
Definition builds_system : state :=
  (fs0 [] [D_BUILD; D_OUT], [P 1 (build_prog 1 [10] [11]); P 2 (build_prog 2 [20] [21])]).
Definition store_ok (p : path) : list (list N) :=
  if snd p =? 0 then [[10; 11]; [20; 21]] else [[7; 8]].
Definition builds_safe (s : state) : bool :=
  guarded build_store_dir build_store_dir s &&          (* store touched only under the store lock *)
  guarded build_store_dir D_BUILD s &&                  (* ... and under the .build lock *)
  guarded D_OUT D_BUILD s &&                            (* outputs written only under the .build lock *)
  reads_complete build_store_dir store_ok true s &&     (* manifest / blob reads never torn *)
  completes 2 s.                                        (* neither build fails *)

(* ---- 2b. the store used WITHOUT its lock ("Without a lock the store can still be used; writes
   stay atomic and readers degrade to misses"): two store sections with every lock step removed *)
Definition store_section (pid : N) (m1 m2 : list N) : list instr :=
  store_open build_store_blocking build_store_dir ++ [Read (build_store_dir, 1)] ++
  store_write_blob pid build_store_dir [7] [8] ++
  store_save pid build_store_dir m1 m2 ++ [Unlock build_store_dir; Read (build_store_dir, 0)].
Definition nolock_system : state :=
  (fs0 [] [], [P 1 (strip_locks (store_section 1 [10] [11])); P 2 (strip_locks (store_section 2 [20] [21]))]).
Definition nolock_safe (s : state) : bool :=
  reads_complete build_store_dir store_ok true s && completes 3 s.

(* ---- 3. a build next to two language servers *)
Definition ls_prog (pid : N) (m1 m2 : list N) : list instr :=
  store_open ls_store_blocking ls_store_dir ++ [Read (ls_store_dir, 1)] ++
  store_write_blob pid ls_store_dir [7] [8] ++
  store_save pid ls_store_dir m1 m2 ++ [Unlock ls_store_dir].
Definition ls_system_build : state :=
  (fs0 [] [D_BUILD; D_OUT], [P 1 (build_prog 1 [10] [11]); P 2 (ls_prog 2 [20] [21])]).
Definition ls_system_two : state :=
  (fs0 [] [D_BUILD; D_OUT], [P 2 (ls_prog 2 [20] [21]); P 3 (ls_prog 3 [30] [31])]).
Definition ls_ok (p : path) : list (list N) :=
  if snd p =? 0 then [[10; 11]; [20; 21]; [30; 31]] else [[7; 8]].
Definition ls_safe (ls_positions : list nat) (s : state) : bool :=
  guarded build_store_dir build_store_dir s &&
  guarded ls_store_dir ls_store_dir s &&
  reads_complete build_store_dir ls_ok true s && reads_complete ls_store_dir ls_ok true s &&
  forallb (fun i => never_blocked i s) ls_positions.   (* the language servers never wait *)

(* ---- 4. standard-library expansion: every process expands, then reads both std files *)
Definition F1 : list N := [1; 2].
Definition F2 : list N := [3; 4].
Definition std_user (pid : N) : list instr :=
  std_expand pid [1] [2] [3] [4] ++ [Read (D_STD, 1); Read (D_STD, 2)].
Definition std_ok (p : path) : list (list N) := if snd p =? 1 then [F1] else [F2].
Definition std_safe (s : state) : bool := reads_complete D_STD std_ok false s && completes 2 s.
Definition std_system2 : state := (fs0 [] [], [P 1 (std_user 1); P 2 (std_user 2)]).
Definition std_system3 : state := (fs0 [] [], [P 1 (std_user 1); P 2 (std_user 2); P 3 (std_user 3)]).
(* an interrupted earlier expansion left a partial scratch directory behind *)
Definition std_system_stale : state :=
  (fs0 [((D_STDTMP, 1), [1])] [D_STDBASE; D_STDTMP], [P 1 (std_user 1); P 2 (std_user 2)]).

(* veryl_std::expand as it was before the repair (existence test BEFORE the lock, files written
   in place into the final directory) — kept by hand for the refutation *)
Definition std_expand_orig (pid : N) : list instr :=
  [SkipIfDir D_STD 11; MkDir D_STD; Lock D_STD;
   MkDir D_STD; Trunc (D_STD, 1); Append (D_STD, 1) [1]; Append (D_STD, 1) [2];
   MkDir D_STD; Trunc (D_STD, 2); Append (D_STD, 2) [3]; Append (D_STD, 2) [4];
   Unlock D_STD].
Definition std_user_orig (pid : N) : list instr :=
  std_expand_orig pid ++ [Read (D_STD, 1); Read (D_STD, 2)].
Definition std_system_orig : state := (fs0 [] [], [P 1 (std_user_orig 1); P 2 (std_user_orig 2)]).

(* ---- 5. dependency checkout *)
Definition T1 : list N := [5; 6].
Definition dep_system : state :=
  (fs0 [] [], [P 1 (dep_checkout 1 [5] [6]); P 2 (dep_checkout 2 [5] [6]); P 3 (dep_checkout 3 [5] [6])]).
Definition dep_safe (s : state) : bool :=
  reads_complete D_CO (fun _ => [T1]) false s && guarded_writes D_CO D_DEPS s && completes 1 s.
