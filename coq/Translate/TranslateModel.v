(* C22 — model of the part of `veryl translate` (crates/translator/src/convert.rs) that is more than
   copying text: the always_ff / reset idiom.

   The translator copies expression and statement text verbatim (expr.rs only rewrites size casts
   `N'(x)` into `(x) as logic<N>`), turns `<=` into `=`, begin/end into braces, and

     always_ff @(<edge> clk [or <edge> rst]) if (<cond>) A else B

   into   always_ff (clk[, rst]) { if_reset { A } else { B } }   exactly when
     - the sensitivity list names a second identifier (extract_clock_reset: idents[1]),
     - the `if` has one condition and two bodies (no else-if chain, an else branch), and
     - the trimmed text of <cond> is one of   rst  !rst  ~rst  (rst)  (!rst)  (~rst)      (emit_if);
   otherwise the `if` is emitted as an ordinary `if <cond> { A } else { B }`.
   Edges (posedge / negedge) and the polarity of the test are NOT carried into the output: an
   `if_reset` is active according to the Veryl-side type of the reset signal.

   The µSV / µVeryl core shares the abstract syntax and reference semantics of coq/Rtl (IEEE 1800
   expression typing, 4-state operators, non-blocking commit).  Definitions only. *)
From Coq Require Export String Ascii.
From VV Require Export Rtl.Syntax Rtl.Eval Rtl.Cycle.
Open Scope string_scope.
Open Scope N_scope.

(* ---------------------------------------------------------------- the text test of emit_if *)
Inductive shape := ShName | ShBang | ShTilde | ShParenName | ShParenBang | ShParenTilde.

Definition shape_text (s : shape) (rst : string) : string :=
  match s with
  | ShName => rst
  | ShBang => "!" ++ rst
  | ShTilde => "~" ++ rst
  | ShParenName => "(" ++ rst ++ ")"
  | ShParenBang => "(!" ++ rst ++ ")"
  | ShParenTilde => "(~" ++ rst ++ ")"
  end.

(* convert.rs emit_if: `is_reset` *)
Definition is_reset_text (c rst : string) : bool :=
  String.eqb c rst || String.eqb c ("!" ++ rst) || String.eqb c ("~" ++ rst)
  || String.eqb c ("(" ++ rst ++ ")") || String.eqb c ("(!" ++ rst ++ ")")
  || String.eqb c ("(~" ++ rst ++ ")").

Definition all_shapes : list shape := [ShName; ShBang; ShTilde; ShParenName; ShParenBang; ShParenTilde].

Definition shape_of_text (c rst : string) : option shape :=
  find (fun s => String.eqb c (shape_text s rst)) all_shapes.

(* ---------------------------------------------------------------- µSV always_ff *)
(* the condition of the outer `if`: one of the six spellings of the reset, or any other expression *)
Inductive sv_cond := CShape (s : shape) | COther (e : expr).

Record sv_ff := mkSvFf {
  f_sens_rst : bool;          (* the sensitivity list names a second signal: @(... clk or ... rst) *)
  f_simple : bool;            (* `if (c) A else B` with exactly one condition and an else branch *)
  f_cond : sv_cond;
  f_rst : list stmt;          (* A *)
  f_body : list stmt          (* B *)
}.

Definition shape_low (s : shape) : bool :=
  match s with ShName | ShParenName => false | _ => true end.

(* the condition as an expression over the reset variable rv (a 1-bit unsigned input) *)
Definition cond_expr (rv : N) (c : sv_cond) : expr :=
  match c with
  | CShape (ShName | ShParenName) => EVar rv
  | CShape (ShBang | ShParenBang) => EUn ULogNot (EVar rv)
  | CShape (ShTilde | ShParenTilde) => EUn UBitNot (EVar rv)
  | COther e => e
  end.

(* SystemVerilog meaning of the block at a clock edge: the literal if statement, non-blocking *)
Definition sv_ff_item (rv : N) (f : sv_ff) : item :=
  IFf None [SIf (cond_expr rv (f_cond f)) (f_rst f) (f_body f)].

(* convert.rs emit_always + emit_if *)
Definition recognised (f : sv_ff) : bool :=
  f_sens_rst f && f_simple f && match f_cond f with CShape _ => true | COther _ => false end.

Definition translate_ff (rv : N) (f : sv_ff) : item :=
  if recognised f then IFf (Some (f_rst f)) (f_body f)
  else sv_ff_item rv f.

(* Veryl side: when is `if_reset` taken?  By the type of the reset signal in the translated
   module / the project's reset_type, never by the SystemVerilog text. *)
Inductive rkind := AsyncLow | AsyncHigh | SyncLow | SyncHigh.
Definition kind_low (k : rkind) : bool := match k with AsyncLow | SyncLow => true | _ => false end.
Definition asserted (k : rkind) (level : bool) : bool := if kind_low k then negb level else level.

Definition level_vec (level : bool) : vec := mkVec (if level then 1 else 0) 0.

(* polarity the SystemVerilog text asks for, per recognised block *)
Definition ff_low (f : sv_ff) : option bool :=
  match f_cond f with CShape s => Some (shape_low s) | COther _ => None end.

Definition polarity_ok (k : rkind) (f : sv_ff) : bool :=
  if recognised f then match ff_low f with Some l => Bool.eqb l (kind_low k) | None => true end
  else true.

(* all always_ff blocks of a module at one clock edge *)
Definition sv_ff_log (md : mode) (D : decls) (rv : N) (pre : state) (ffs : list sv_ff) : list wentry :=
  fold_left (fun log f => ff_item md D false pre (sv_ff_item rv f) log) ffs [].

Definition veryl_ff_log (md : mode) (D : decls) (rv : N) (k : rkind) (level : bool) (pre : state)
           (ffs : list sv_ff) : list wentry :=
  fold_left (fun log f => ff_item md D (asserted k level) pre (translate_ff rv f) log) ffs [].

(* ---------------------------------------------------------------- expressions *)
(* Spellings that are the same text in SystemVerilog and Veryl (the translator copies them);
   `<` `>` (Veryl `<:` `>:`), `c ? a : b` (Veryl `if c ? a : b`) and replication `{n{e}}`
   (Veryl `{e repeat n}`) are copied too, but are not Veryl. *)
Fixpoint carried (e : expr) : bool :=
  match e with
  | ELit _ _ _ _ | EVar _ | ESel _ _ _ => true
  | EUn _ a => carried a
  | EBin o a b => match o with BLt | BGt => false | _ => carried a && carried b end
  | ETern _ _ _ => false
  | ECat items => forallb (fun it => carried (fst it) && (snd it =? 1)) items
  | ECast _ a => carried a
  | ESign _ a => carried a
  end.

Definition tr_expr (e : expr) : option expr := if carried e then Some e else None.
