(* C22 — proofs about TranslateModel.v.  No axioms. *)
From VV Require Import Translate.TranslateModel.
Open Scope N_scope.

(* ---- the text test recognises exactly the six spellings *)
Lemma is_reset_text_shape c rst :
  is_reset_text c rst = match shape_of_text c rst with Some _ => true | None => false end.
Proof.
  unfold is_reset_text, shape_of_text, all_shapes. cbn [find shape_text].
  destruct (String.eqb c rst); [reflexivity|].
  destruct (String.eqb c ("!" ++ rst)); [reflexivity|].
  destruct (String.eqb c ("~" ++ rst)); [reflexivity|].
  destruct (String.eqb c ("(" ++ rst ++ ")")); [reflexivity|].
  destruct (String.eqb c ("(!" ++ rst ++ ")")); [reflexivity|].
  destruct (String.eqb c ("(~" ++ rst ++ ")")); reflexivity.
Qed.

Lemma shape_text_recognised s rst : is_reset_text (shape_text s rst) rst = true.
Proof.
  unfold is_reset_text. destruct s; cbn [shape_text]; rewrite String.eqb_refl;
    repeat rewrite Bool.orb_true_r; reflexivity.
Qed.

(* ---- which blocks become if_reset *)
Lemma reset_idiom_recognition_lemma rv f :
  (exists r b, translate_ff rv f = IFf (Some r) b) <->
  (f_sens_rst f = true /\ f_simple f = true /\ exists s, f_cond f = CShape s).
Proof.
  unfold translate_ff, recognised, sv_ff_item. split.
  - intros (r & b & H).
    destruct (f_sens_rst f); cbn [andb] in H; [|discriminate].
    destruct (f_simple f); cbn [andb] in H; [|discriminate].
    destruct (f_cond f) as [s|e]; [|discriminate]. eauto.
  - intros (H1 & H2 & s & H3). rewrite H1, H2, H3. cbn. eauto.
Qed.

(* ---- the six spellings evaluate as their polarity says, on a known 1-bit reset level *)
Lemma cond_shape_true md D pre rv s level :
  D rv = mkDecl 1 false false KIn -> pre rv = level_vec level ->
  cond_true md D pre (cond_expr rv (CShape s)) = (if shape_low s then negb level else level).
Proof.
  intros HD Hp. unfold cond_true.
  destruct s; cbn [cond_expr shape_low gather ev un_selfdet]; rewrite ?HD, ?Hp; cbn [d_width d_signed];
    destruct level, md; vm_compute; reflexivity.
Qed.

Lemma nb_list_single md D pre s log : nb_list md D pre [s] log = nb_stmt md D pre s log.
Proof. reflexivity. Qed.

Lemma nb_if md D pre c t f log :
  nb_stmt md D pre (SIf c t f) log = nb_list md D pre (if cond_true md D pre c then t else f) log.
Proof.
  cbn [nb_stmt]. unfold nb_list.
  generalize (if cond_true md D pre c then t else f). intro l. revert log.
  induction l as [|a l IH]; intro log; cbn; auto.
Qed.

(* ---- one block: the translated block does what the SystemVerilog block does, provided the
        Veryl-side polarity of the reset equals the polarity the text tests for *)
Lemma ff_translation_preserves_lemma md D pre rv k level f log :
  D rv = mkDecl 1 false false KIn -> pre rv = level_vec level ->
  polarity_ok k f = true ->
  ff_item md D (asserted k level) pre (translate_ff rv f) log =
  ff_item md D false pre (sv_ff_item rv f) log.
Proof.
  intros HD Hp Hpol. unfold translate_ff, polarity_ok in *.
  destruct (recognised f) eqn:R; [|reflexivity].
  unfold recognised in R. destruct (f_cond f) as [s|e] eqn:C.
  2:{ rewrite !Bool.andb_false_r in R. discriminate. }
  unfold ff_low in Hpol. rewrite C in Hpol. apply Bool.eqb_prop in Hpol.
  unfold sv_ff_item. rewrite C. cbn [ff_item]. rewrite nb_list_single, nb_if.
  rewrite (cond_shape_true md D pre rv s level HD Hp).
  unfold asserted. rewrite <- Hpol. destruct (shape_low s), level; reflexivity.
Qed.

Lemma fold_left_ext_in {A B} (f g : A -> B -> A) l a :
  (forall a b, In b l -> f a b = g a b) -> fold_left f l a = fold_left g l a.
Proof.
  revert a; induction l as [|x l IH]; intros a H; cbn; auto.
  rewrite H by (left; reflexivity). apply IH. intros; apply H; right; auto.
Qed.

Theorem translate_preserves_ffs_lemma md D pre rv k level ffs :
  D rv = mkDecl 1 false false KIn -> pre rv = level_vec level ->
  forallb (polarity_ok k) ffs = true ->
  veryl_ff_log md D rv k level pre ffs = sv_ff_log md D rv pre ffs.
Proof.
  intros HD Hp Hall. unfold veryl_ff_log, sv_ff_log.
  apply fold_left_ext_in. intros log f Hin.
  apply ff_translation_preserves_lemma; auto.
  rewrite forallb_forall in Hall. apply Hall; auto.
Qed.

(* ---- and it does NOT when the polarities differ: an active-high SystemVerilog reset becomes an
        if_reset that a (default) active-low Veryl reset type takes at the opposite level *)
Definition demo_ff : sv_ff := mkSvFf true true (CShape ShName) [SAssign 1 (ELit 8 false 0 0)] [SAssign 1 (ELit 8 false 255 0)].
Definition demo_D : decls := fun x => if x =? 0 then mkDecl 1 false false KIn else mkDecl 8 false false KOut.
Definition demo_pre (level : bool) : state := fun x => if x =? 0 then level_vec level else mkVec 0 0.

Theorem polarity_mismatch_refuted_lemma :
  exists f level,
    recognised f = true /\
    veryl_ff_log M4 demo_D 0 AsyncLow level (demo_pre level) [f] <> sv_ff_log M4 demo_D 0 (demo_pre level) [f].
Proof. exists demo_ff, true. split; [reflexivity|]. vm_compute. discriminate. Qed.

(* ---- expressions: the translator is the identity on the carried spellings *)
Theorem tr_expr_preserves_lemma e e' :
  tr_expr e = Some e' -> forall md D st c, ev md D st c e' = ev md D st c e.
Proof. unfold tr_expr. destruct (carried e); [|discriminate]. intros H; inversion H; reflexivity. Qed.
