(* Meta/FilelistModel.v — Gallina model (definitions only) of
     CmdBuild::sort_filelist        crates/veryl/src/cmd_build.rs   (filelist order)
     Metadata::paths                crates/metadata/src/metadata.rs (src -> dst / map)
     Lockfile::paths                crates/metadata/src/lockfile.rs (dependency files)

   Files are numbers (N): the rank of PathSet.src in path order (so "sort by src" is "sort by
   number").  A symbol is reduced to what sort_filelist reads: the file of its token (None for
   symbols without a file), whether it is a Module/Interface/Package, and whether its namespace is
   inside the project's namespace. *)
From Coq Require Import String Ascii Bool Arith NArith List.
From VV Require Import Meta.ResolveModel.   (* isort *)
Import ListNotations.
Open Scope list_scope.

Record sym := mkSym { s_file : option N; s_mip : bool; s_prj : bool }.

Definition memN (x : N) (l : list N) : bool := existsb (N.eqb x) l.

Fixpoint nodupN (l : list N) : list N :=
  match l with
  | [] => []
  | x :: l' => if memN x l' then nodupN l' else x :: nodupN l'
  end.

Definition files_of (ss : list sym) : list N :=
  flat_map (fun s => match s_file s with Some f => [f] | None => [] end) ss.

(* candidate symbols: every component (a symbol followed by everything it depends on) whose first
   symbol is in the project namespace, plus the project's tests when include_tests *)
Definition comp_in_prj (c : list sym) : bool :=
  match c with s :: _ => s_prj s | [] => false end.
Definition candidates (comps : list (list sym)) (tests : list sym) : list sym :=
  concat (filter comp_in_prj comps) ++ filter s_prj tests.

(* used_paths: the files of candidate symbols that are in `paths` (a set in the code) *)
Definition used (paths : list N) (comps : list (list sym)) (tests : list sym) : list N :=
  nodupN (filter (fun f => memN f paths) (files_of (candidates comps tests))).

(* walk type_dag::toposort(): a file is placed where the FIRST of its Module/Interface/Package
   symbols is met; `left` = files of used_paths not placed yet *)
Fixpoint place_first (topo : list sym) (left : list N) : list N :=
  match topo with
  | [] => []
  | s :: topo' =>
      match s_file s with
      | Some f => if s_mip s && memN f left
                  then f :: place_first topo' (filter (fun x => negb (N.eqb x f)) left)
                  else place_first topo' left
      | None => place_first topo' left
      end
  end.

(* the order before the dependency pass: placed files, then the rest sorted by src *)
Definition first_symbol_order (paths : list N) (comps : list (list sym)) (topo tests : list sym) : list N :=
  let u := used paths comps tests in
  let placed := place_first topo u in
  placed ++ isort N.leb (filter (fun x => negb (memN x placed)) u).

(* dependencies between listed files: the file of a component's first symbol depends on the file
   of every other symbol of the component *)
Definition depends_of (listed : list N) (comps : list (list sym)) (u : N) : list N :=
  flat_map (fun c =>
    match c with
    | s :: rest =>
        match s_file s with
        | Some f => if N.eqb f u && memN u listed
                    then filter (fun p => negb (N.eqb p u) && memN p listed) (files_of rest)
                    else []
        | None => []
        end
    | [] => []
    end) comps.

(* order_by_dependencies: repeatedly take the first file whose dependencies are all placed; when
   no file is ready (cyclic references) the rest keeps its order.  fuel = number of files. *)
Definition ready (dep : N -> list N) (placed : list N) (x : N) : bool :=
  forallb (fun d => memN d placed) (dep x).
Fixpoint remove_first (x : N) (l : list N) : list N :=
  match l with
  | [] => []
  | y :: l' => if N.eqb y x then l' else y :: remove_first x l'
  end.
Fixpoint order_by_deps (fuel : nat) (dep : N -> list N) (rest placed : list N) : list N :=
  match fuel with
  | O => rev placed ++ rest
  | S f =>
      match find (ready dep placed) rest with
      | Some x => order_by_deps f dep (remove_first x rest) (x :: placed)
      | None => rev placed ++ rest
      end
  end.

Definition sort_filelist (paths : list N) (comps : list (list sym)) (topo tests : list sym) : list N :=
  let l := first_symbol_order paths comps topo tests in
  order_by_deps (List.length l) (depends_of l comps) l [].

(* ---- path mapping ------------------------------------------------------------------------------
   A path is its list of components.  A gathered source file is  root ++ rel ++ [stem ++ ".veryl"]
   (gather_files_with_extension only returns *.veryl); with_extension("sv") replaces the extension. *)
Definition path := list string.
Definition ext (stem e : string) : string := (stem ++ "." ++ e)%string.

Inductive target := TSource | TDirectory (p : path) | TBundle.
Inductive maptarget := MTarget | MDirectory (p : path) | MNone.

Record layout := mkLayout {
  out_base : path;           (* output_dir(): the project path, or --out-dir *)
  overridden : bool;         (* output_dir_override.is_some() *)
  tgt : target;
  mtgt : maptarget }.

(* dst relative to out_base, when it is under it by construction *)
Definition dst_rel (L : layout) (rel : path) (stem : string) : option path :=
  match tgt L with
  | TSource => if overridden L then Some (rel ++ [ext stem "sv"]) else None
  | TDirectory p => Some (p ++ rel ++ [ext stem "sv"])
  | TBundle => Some (["target"%string] ++ rel ++ [ext stem "sv"])
  end.

(* root_rel: the source directory relative to the project path (dst.strip_prefix(out_base) for an
   un-redirected source target) *)
Definition dst_of (L : layout) (root root_rel rel : path) (stem : string) : path :=
  match dst_rel L rel stem with
  | Some r => out_base L ++ r
  | None => root ++ rel ++ [ext stem "sv"]
  end.

Definition map_of (L : layout) (root root_rel rel : path) (stem : string) : path :=
  match mtgt L with
  | MDirectory mp =>
      match tgt L with
      | TDirectory _ => out_base L ++ mp ++ rel ++ [ext stem "sv.map"]
      | _ => match dst_rel L rel stem with
             | Some r => out_base L ++ mp ++ removelast r ++ [ext stem "sv.map"]
             | None => out_base L ++ mp ++ root_rel ++ rel ++ [ext stem "sv.map"]
             end
      end
  | _ => removelast (dst_of L root root_rel rel stem) ++ [ext stem "sv.map"]
  end.

(* Lockfile::paths: base_dst/<lock name>/rel/stem.sv(.map) *)
Definition dep_dst (base_dst : path) (name : string) (rel : path) (stem : string) : path :=
  base_dst ++ [name] ++ rel ++ [ext stem "sv"].
Definition dep_map (base_dst : path) (name : string) (rel : path) (stem : string) : path :=
  base_dst ++ [name] ++ rel ++ [ext stem "sv.map"].
