(* Meta/ResolveModel.v — Gallina model of dependency resolution in
   crates/metadata/src/lockfile.rs (veryl), definitions only.

   What is modelled, branch for branch:
     resolve_version / resolve_version_from_lockfile / resolve_version_from_latest   (lockfile.rs:623-733)
     resolve_dependency                                                              (lockfile.rs:544-621)
     gen_locks: per-project pass over the declarations, name suffixing against name_table,
       property overrides, uuid de-duplication against src_table, then recursion into the newly
       added projects                                                                (lockfile.rs:447-542)
     Lockfile::new / update (the `modified` flag) / sort_table / save / load         (lockfile.rs:195-307,425)

   Parametric (Section variables) in the `version` and `req` types: `vleb` is the order of
   semver::Version, `matches` is VersionReq::matches.  semver itself is outside the model; the
   check instantiates both by observation of the real crate (ranks and a match matrix).

   Identifiers that the code only compares (urls, project names, paths inside a repository,
   revisions, local paths) are order-preserving numbers (N); lock NAMES are real strings because
   the suffix loop builds "name_<k>" and a declared name may literally be "a_0".
   A uuid is modelled as the tuple that gen_uuid hashes (SHA-1 treated as injective, and the
   concatenation url+path+revision+properties treated as injective).
   Not modelled: git transport failures, Veryl.toml parse errors, lockfile v0 migration. *)
From Coq Require Import String Ascii DecimalString DecimalNat Bool Arith NArith ZArith List.
Import ListNotations.
Open Scope list_scope.

Inductive error :=
| EVersionNotFound | EProjectNotFound | EUnpublishedDependency | ENameConflict
| EInvalidDependency | EUnknownProperty | EMismatchType | EFileNotFound | EFileIO
| EFuel.   (* EFuel: only the model can produce it (recursion budget exhausted) *)

Inductive res (A : Type) : Type :=
| Ok (a : A)
| Err (e : error).
Arguments Ok {A} a.
Arguments Err {A} e.

Definition bind {A B} (x : res A) (f : A -> res B) : res B :=
  match x with Ok a => f a | Err e => Err e end.
Notation "'do' x <- m ; k" := (bind m (fun x => k)) (at level 200, x pattern, m at level 100, k at level 200).

(* ---- stable insertion sort: `xs.sort_by(cmp)` for a total preorder given as `le` ------------ *)
Section Sort.
  Context {A : Type}.
  Variable le : A -> A -> bool.
  Fixpoint ins (x : A) (s : list A) : list A :=
    match s with
    | [] => [x]
    | y :: s' => if le x y then x :: s else y :: ins x s'
    end.
  Definition isort (l : list A) : list A := fold_right ins [] l.
End Sort.

(* ---- names --------------------------------------------------------------------------------- *)
Definition dec (n : nat) : string := NilEmpty.string_of_uint (Nat.to_uint n).
Definition suffixed (name : string) (k : nat) : string := (name ++ "_" ++ dec k)%string.
Definition mem_str (s : string) (l : list string) : bool := existsb (String.eqb s) l.

(* the loop at lockfile.rs:469-477 is unbounded; the model carries fuel *)
Fixpoint suffix_loop (fuel : nat) (nt : list string) (name : string) (k : nat) : option string :=
  match fuel with
  | O => None
  | S f => let nn := suffixed name k in
           if mem_str nn nt then suffix_loop f nt name (S k) else Some nn
  end.
Definition fresh_name (nt : list string) (name : string) : option string :=
  suffix_loop (S (List.length nt)) nt name 0.

(* ---- project properties -------------------------------------------------------------------- *)
Inductive propval := PInt (z : Z) | PBool (b : bool).
Definition props := list (string * propval).      (* BTreeMap<String, ProjectProperty>: sorted by key *)

Definition propval_eqb (a b : propval) : bool :=
  match a, b with
  | PInt x, PInt y => Z.eqb x y
  | PBool x, PBool y => Bool.eqb x y
  | _, _ => false
  end.
Definition compatible (a b : propval) : bool :=
  match a, b with PInt _, PInt _ => true | PBool _, PBool _ => true | _, _ => false end.
Fixpoint props_eqb (a b : props) : bool :=
  match a, b with
  | [], [] => true
  | (k1, v1) :: a', (k2, v2) :: b' => String.eqb k1 k2 && propval_eqb v1 v2 && props_eqb a' b'
  | _, _ => false
  end.
Fixpoint override_one (ps : props) (k : string) (v : propval) : res props :=
  match ps with
  | [] => Err EUnknownProperty
  | (k', v') :: ps' =>
      if String.eqb k k' then (if compatible v' v then Ok ((k', v) :: ps') else Err EMismatchType)
      else do r <- override_one ps' k v; Ok ((k', v') :: r)
  end.
Fixpoint override_all (ps : props) (ov : props) : res props :=
  match ov with
  | [] => Ok ps
  | (k, v) :: ov' => do ps' <- override_one ps k v; override_all ps' ov'
  end.

Definition opt_eqb (a b : option N) : bool :=
  match a, b with Some x, Some y => N.eqb x y | None, None => true | _, _ => false end.

Section Resolve.
  Variable version req : Type.
  Variable vleb : version -> version -> bool.        (* semver::Version  a <= b *)
  Variable matches : req -> version -> bool.         (* VersionReq::matches *)

  Record release := mkRel { rel_version : version; rel_rev : N }.

  (* LockSource.  u: UrlPath of the git repository; pth: project directory inside it; prj: project name;
     r: revision; ovr: path override.  SPath p: local project (p = its UrlPath::Path id). *)
  Inductive source :=
  | SRepo (u pth prj : N) (v : version) (r : N) (ovr : option N)
  | SPath (p : N).

  Definition to_url (s : source) : N := match s with SRepo u _ _ _ _ _ => u | SPath p => p end.

  (* impl Ord for LockSource: a <= b *)
  Definition source_leb (a b : source) : bool :=
    match a, b with
    | SRepo u1 _ p1 v1 _ _, SRepo u2 _ p2 v2 _ _ =>
        N.ltb u1 u2 || (N.eqb u1 u2 && (N.ltb p1 p2 || (N.eqb p1 p2 && vleb v1 v2)))
    | SPath x, SPath y => N.leb x y
    | SRepo _ _ _ _ _ _, SPath _ => true
    | SPath _, SRepo _ _ _ _ _ _ => false
    end.

  Record lockdep := mkLD { ld_name : string; ld_source : source }.
  Record lock := mkLock { l_name : string; l_source : source; l_props : props;
                          l_deps : list lockdep; l_visible : bool }.

  (* what Lock::uuid() hashes *)
  Inductive ukey := UKRepo (u pth r : N) (ps : props) | UKPath (p : N) (ps : props).
  Definition ukey_eqb (a b : ukey) : bool :=
    match a, b with
    | UKRepo u1 p1 r1 s1, UKRepo u2 p2 r2 s2 => N.eqb u1 u2 && N.eqb p1 p2 && N.eqb r1 r2 && props_eqb s1 s2
    | UKPath p1 s1, UKPath p2 s2 => N.eqb p1 p2 && props_eqb s1 s2
    | _, _ => false
    end.
  Definition lock_ukey (l : lock) : ukey :=
    match l_source l with
    | SRepo u pth _ _ r _ => UKRepo u pth r (l_props l)
    | SPath p => UKPath p (l_props l)
    end.

  (* ---- declarations and the world (repositories, local projects) ---------------------------- *)
  Inductive depspec :=
  | DGit (u prj : N) (rq : req) (ovr : option N)   (* git/github + version (+ path override) *)
  | DPath (p : option N)                           (* path = ...; None: directory missing *)
  | DInvalid.                                      (* version-only, no source, git without version *)
  Record decl := mkDecl { d_name : string; d_spec : depspec; d_props : props }.
  Record metadata := mkMeta { m_props : props; m_decls : list decl }.

  Inductive pubinfo :=
  | PNoProject                                     (* search_project finds no such project at HEAD *)
  | PUnpublished                                   (* no Veryl.pub *)
  | PReleases (pth : N) (rels : list release).     (* Veryl.pub at HEAD, in file order *)

  Record world := mkWorld {
    w_pubs : list ((N * N) * pubinfo);             (* (url, project) -> HEAD *)
    w_repo_meta : list ((N * N * N) * metadata);   (* (url, path, revision) -> Veryl.toml there *)
    w_path_meta : list (N * metadata) }.           (* local path -> Veryl.toml there *)

  Fixpoint lookup2 {B} (k : N * N) (l : list ((N * N) * B)) : option B :=
    match l with [] => None
    | ((a, b), x) :: l' => if N.eqb a (fst k) && N.eqb b (snd k) then Some x else lookup2 k l' end.
  Fixpoint lookup3 {B} (k : N * N * N) (l : list ((N * N * N) * B)) : option B :=
    match l with [] => None
    | ((a, b, c), x) :: l' =>
        if N.eqb a (fst (fst k)) && N.eqb b (snd (fst k)) && N.eqb c (snd k) then Some x else lookup3 k l' end.
  Fixpoint lookup1 {B} (k : N) (l : list (N * B)) : option B :=
    match l with [] => None | (a, x) :: l' => if N.eqb a k then Some x else lookup1 k l' end.

  (* ---- the lock table: HashMap<UrlPath, Vec<Lock>> ------------------------------------------ *)
  Definition table := list (N * list lock).
  Definition bucket (t : table) (u : N) : list lock :=
    match lookup1 u t with Some b => b | None => [] end.
  Fixpoint tbl_push (t : table) (u : N) (l : lock) : table :=
    match t with
    | [] => [(u, [l])]
    | (u', b) :: t' => if N.eqb u' u then (u', b ++ [l]) :: t' else (u', b) :: tbl_push t' u l
    end.
  Definition lock_leb (a b : lock) : bool := source_leb (l_source a) (l_source b).
  Definition lock_geb (a b : lock) : bool := lock_leb b a.
  (* sort_table: locks.sort_by(|a, b| b.source.cmp(&a.source)) — stable, descending *)
  Definition sort_table (t : table) : table := map (fun ub => (fst ub, isort lock_geb (snd ub))) t.
  Definition group_locks (ls : list lock) : table :=
    fold_left (fun t l => tbl_push t (to_url (l_source l)) l) ls [].
  Definition table_of_locks (ls : list lock) : table := sort_table (group_locks ls).
  Definition all_locks (t : table) : list lock := concat (map snd t).

  (* ---- resolve_version ------------------------------------------------------------------------ *)
  Definition lock_candidate (prj : N) (rq : req) (l : lock) : bool :=
    match l_source l with
    | SRepo _ _ p v _ _ => N.eqb p prj && matches rq v
    | SPath _ => false
    end.
  Definition resolve_from_lock (t : table) (u prj : N) (rq : req) : option (release * N) :=
    match find (lock_candidate prj rq) (bucket t u) with
    | Some l => match l_source l with
                | SRepo _ pth _ v r _ => Some (mkRel v r, pth)
                | SPath _ => None
                end
    | None => None
    end.

  Definition rel_geb (a b : release) : bool := vleb (rel_version b) (rel_version a).
  (* pubfile.releases.sort_by(|a, b| b.version.cmp(&a.version)); first match *)
  Definition latest_matching (rels : list release) (rq : req) : option release :=
    find (fun r => matches rq (rel_version r)) (isort rel_geb rels).
  Definition resolve_from_latest (w : world) (u prj : N) (rq : req) : res (release * N) :=
    match lookup2 (u, prj) (w_pubs w) with
    | None | Some PNoProject => Err EProjectNotFound
    | Some PUnpublished => Err EUnpublishedDependency
    | Some (PReleases pth rels) =>
        match latest_matching rels rq with
        | Some r => Ok (r, pth)
        | None => Err EVersionNotFound
        end
    end.
  Definition resolve_version (w : world) (t : table) (force : bool) (u prj : N) (rq : req)
    : res (release * N) :=
    match resolve_from_lock t u prj rq with
    | Some r => if force then resolve_from_latest w u prj rq else Ok r
    | None => resolve_from_latest w u prj rq
    end.

  (* ---- resolve_dependency / get_metadata ----------------------------------------------------- *)
  Definition resolve_dependency (w : world) (t : table) (force : bool) (d : decl) (root : bool)
    : res lockdep :=
    match d_spec d with
    | DInvalid => Err EInvalidDependency
    | DGit u prj rq ovr =>
        do rp <- resolve_version w t force u prj rq;
        Ok (mkLD (d_name d)
                 (SRepo u (snd rp) prj (rel_version (fst rp)) (rel_rev (fst rp))
                        (if root then ovr else None)))
    | DPath (Some p) => Ok (mkLD (d_name d) (SPath p))
    | DPath None => Err EProjectNotFound
    end.

  Definition get_metadata (w : world) (s : source) : res metadata :=
    match s with
    | SPath p => match lookup1 p (w_path_meta w) with Some m => Ok m | None => Err EFileNotFound end
    | SRepo u pth _ _ r ovr =>
        let from_repo := match lookup3 (u, pth, r) (w_repo_meta w) with
                         | Some m => Ok m | None => Err EFileIO end in
        match ovr with
        | Some o => match lookup1 o (w_path_meta w) with Some m => Ok m | None => from_repo end
        | None => from_repo
        end
    end.

  (* ---- gen_locks -------------------------------------------------------------------------------- *)
  (* iteration order over `metadata.dependencies`: sorted by declared name (see design/C31.md) *)
  Definition decl_leb (a b : decl) : bool := String.leb (d_name a) (d_name b).
  Definition decl_order (ds : list decl) : list decl := isort decl_leb ds.

  Record gstate := mkSt { st_names : list string; st_srcs : list ukey }.

  Fixpoint resolve_all (w : world) (t : table) (force : bool) (ds : list decl) (root : bool)
    : res (list lockdep) :=
    match ds with
    | [] => Ok []
    | d :: ds' => do x <- resolve_dependency w t force d root;
                  do xs <- resolve_all w t force ds' root;
                  Ok (x :: xs)
    end.

  Definition pick_name (st : gstate) (name : string) (root : bool) : res string :=
    if mem_str name (st_names st) then
      if root then Err ENameConflict
      else match fresh_name (st_names st) name with Some n => Ok n | None => Err EFuel end
    else Ok name.

  (* one project's declarations (the first `for` loop of gen_locks) *)
  Fixpoint level (w : world) (t : table) (force : bool) (ds : list decl) (root : bool) (st : gstate)
           (ret : list lock) (metas : list metadata) : res (list lock * list metadata * gstate) :=
    match ds with
    | [] => Ok (ret, metas, st)
    | d :: ds' =>
        do dep <- resolve_dependency w t force d root;
        do md <- get_metadata w (ld_source dep);
        do name <- pick_name st (d_name d) root;
        let st1 := mkSt (name :: st_names st) (st_srcs st) in
        do ps <- override_all (m_props md) (d_props d);
        do deps <- resolve_all w t force (decl_order (m_decls md)) root;
        let lk := mkLock name (ld_source dep) ps deps root in
        let k := lock_ukey lk in
        if existsb (ukey_eqb k) (st_srcs st1) then
          if root then Err EInvalidDependency
          else level w t force ds' root st1 ret metas
        else level w t force ds' root (mkSt (st_names st1) (k :: st_srcs st1))
                   (ret ++ [lk]) (metas ++ [md])
    end.

  (* the second `for` loop of gen_locks: recursion into every newly added project *)
  Fixpoint subs (rec : metadata -> gstate -> res (list lock * gstate)) (ms : list metadata)
           (acc : list lock) (s : gstate) : res (list lock * gstate) :=
    match ms with
    | [] => Ok (acc, s)
    | m :: ms' => do r2 <- rec m s; subs rec ms' (acc ++ fst r2) (snd r2)
    end.

  Fixpoint gen_locks (fuel : nat) (w : world) (t : table) (force : bool) (md : metadata) (root : bool)
           (st : gstate) : res (list lock * gstate) :=
    match fuel with
    | O => Err EFuel
    | S f =>
        do r <- level w t force (decl_order (m_decls md)) root st [] [];
        subs (fun m s => gen_locks f w t force m false s) (snd (fst r)) (fst (fst r)) (snd r)
    end.

  Definition count_decls (w : world) : nat :=
    fold_right (fun x n => List.length (m_decls (snd x)) + n) 0 (w_repo_meta w)
    + fold_right (fun x n => List.length (m_decls (snd x)) + n) 0 (w_path_meta w).
  Definition top_fuel (w : world) (md : metadata) : nat := 2 + List.length (m_decls md) + count_decls w.

  Definition gen_top (w : world) (t : table) (force : bool) (md : metadata) : res (list lock) :=
    do r <- gen_locks (top_fuel w md) w t force md true (mkSt [] []); Ok (fst r).

  (* Lockfile::new *)
  Definition lockfile_new (w : world) (md : metadata) : res table :=
    do ls <- gen_top w [] false md; Ok (table_of_locks ls).

  (* Lockfile::update: (modified, new table) *)
  Definition has_ukey (k : ukey) (ls : list lock) : bool := existsb (fun x => ukey_eqb (lock_ukey x) k) ls.
  Definition modified_flag (old : table) (ls : list lock) : bool :=
    existsb (fun l => negb (has_ukey (lock_ukey l) (bucket old (to_url (l_source l))))) ls
    || existsb (fun o => negb (has_ukey (lock_ukey o) ls)) (all_locks old).
  Definition lockfile_update (w : world) (old : table) (md : metadata) (force : bool) : res (bool * table) :=
    do ls <- gen_top w old force md; Ok (modified_flag old ls, table_of_locks ls).

  (* Lockfile::save then Lockfile::load, on the shape of the file: `projects` = all locks of the
     table (HashMap iteration order = order of the association list), stably sorted ascending by
     source; load re-groups by url in file order, recomputes `visible`, and sort_table. *)
  Definition saved_projects (t : table) : list lock := isort lock_leb (all_locks t).
  Definition set_visible (root_names : list string) (l : lock) : lock :=
    mkLock (l_name l) (l_source l) (l_props l) (l_deps l) (mem_str (l_name l) root_names).
  Definition load_projects (root_names : list string) (ps : list lock) : table :=
    table_of_locks (map (set_visible root_names) ps).
  Definition save_load (root_names : list string) (t : table) : table :=
    load_projects root_names (saved_projects t).
End Resolve.

Arguments lock_candidate {version req}.
Arguments resolve_from_lock {version req}.
Arguments latest_matching {version req}.
Arguments resolve_from_latest {version req}.
Arguments resolve_version {version req}.
Arguments resolve_dependency {version req}.
Arguments get_metadata {version req}.
Arguments resolve_all {version req}.
Arguments level {version req}.
Arguments subs {version req}.
Arguments gen_locks {version req}.
Arguments count_decls {version req}.
Arguments top_fuel {version req}.
Arguments gen_top {version req}.
Arguments lockfile_new {version req}.
Arguments lockfile_update {version req}.
Arguments w_pubs {version req}.
Arguments w_repo_meta {version req}.
Arguments w_path_meta {version req}.
Arguments mkWorld {version req}.
Arguments source_leb {version}.
Arguments lock_leb {version}.
Arguments lock_geb {version}.
Arguments sort_table {version}.
Arguments group_locks {version}.
Arguments table_of_locks {version}.
Arguments tbl_push {version}.
Arguments rel_geb {version}.
Arguments has_ukey {version}.
Arguments modified_flag {version}.
Arguments saved_projects {version}.
Arguments set_visible {version}.
Arguments load_projects {version}.
Arguments save_load {version}.
Arguments mkRel {version}.
Arguments rel_version {version}.
Arguments rel_rev {version}.
Arguments SRepo {version}.
Arguments SPath {version}.
Arguments mkLD {version}.
Arguments ld_name {version}.
Arguments ld_source {version}.
Arguments mkLock {version}.
Arguments l_name {version}.
Arguments l_source {version}.
Arguments l_props {version}.
Arguments l_deps {version}.
Arguments l_visible {version}.
Arguments PNoProject {version}.
Arguments PUnpublished {version}.
Arguments PReleases {version}.
Arguments to_url {version}.
Arguments lock_ukey {version}.
Arguments bucket {version}.
Arguments all_locks {version}.
Arguments decl_leb {req}.
Arguments decl_order {req}.
Arguments DGit {req}.
Arguments DPath {req}.
Arguments DInvalid {req}.
Arguments mkDecl {req}.
Arguments d_name {req}.
Arguments d_spec {req}.
Arguments d_props {req}.
Arguments mkMeta {req}.
Arguments m_props {req}.
Arguments m_decls {req}.

(* ---- concrete instance driven by the correspondence check ------------------------------------
   version := rank of the semver::Version among the scenario's versions (observed from the real
   crate), req := index of the requirement, matches := the observed match matrix. *)
Definition nmatches (tbl : list (N * list N)) (rq v : N) : bool :=
  match tbl with
  | _ => match find (fun x => N.eqb (fst x) rq) tbl with
         | Some x => existsb (N.eqb v) (snd x)
         | None => false
         end
  end.

Inductive mop :=
| OpNew (w : world N N) (md : metadata N)
| OpUpdate (w : world N N) (md : metadata N) (force : bool)
| OpSave
| OpLoad (root_names : list string)
| OpFlow (w : world N N) (md : metadata N) (root_names : list string).

Inductive outcome :=
| OErr (e : error)
| ONoLockfile
| ONoFile
| OSaved
| OTable (t : table N)
| OUpdated (modified : bool) (t : table N).

Record mstate := mkMS { ms_cur : option (table N); ms_disk : option (list (lock N)) }.

Definition step (mt : list (N * list N)) (s : mstate) (o : mop) : mstate * outcome :=
  let M := nmatches mt in
  match o with
  | OpNew w md =>
      match lockfile_new N.leb M w md with
      | Ok t => (mkMS (Some t) (ms_disk s), OTable t)
      | Err e => (s, OErr e)
      end
  | OpUpdate w md force =>
      match ms_cur s with
      | None => (s, ONoLockfile)
      | Some t0 =>
          match lockfile_update N.leb M w t0 md force with
          | Ok (m, t) => (mkMS (Some t) (ms_disk s), OUpdated m t)
          | Err e => (mkMS None (ms_disk s), OErr e)
          end
      end
  | OpSave =>
      match ms_cur s with
      | None => (s, ONoLockfile)
      | Some t => (mkMS (ms_cur s) (Some (saved_projects N.leb t)), OSaved)
      end
  | OpLoad rn =>
      match ms_disk s with
      | None => (s, ONoFile)
      | Some ps => let t := load_projects N.leb rn ps in (mkMS (Some t) (ms_disk s), OTable t)
      end
  | OpFlow w md rn =>
      (* Metadata::update_lockfile: load-or-new, update, save when modified *)
      match ms_disk s with
      | None =>
          match lockfile_new N.leb M w md with
          | Ok t => (mkMS (Some t) (Some (saved_projects N.leb t)), OUpdated true t)
          | Err e => (s, OErr e)
          end
      | Some ps =>
          let t0 := load_projects N.leb rn ps in
          match lockfile_update N.leb M w t0 md false with
          | Ok (m, t) => (mkMS (Some t) (if m then Some (saved_projects N.leb t) else ms_disk s), OUpdated m t)
          | Err e => (s, OErr e)
          end
      end
  end.

Fixpoint run_ops (mt : list (N * list N)) (s : mstate) (os : list mop) : list outcome :=
  match os with
  | [] => []
  | o :: os' => let r := step mt s o in snd r :: run_ops mt (fst r) os'
  end.

(* printable form (tuples only) *)
Definition src_out (s : source N) :=
  match s with
  | SRepo u p j v r o => (0%N, u, p, j, v, r, match o with Some x => (1%N, x) | None => (0%N, 0%N) end)
  | SPath p => (1%N, p, 0%N, 0%N, 0%N, 0%N, (0%N, 0%N))
  end.
Definition prop_out (kv : string * propval) :=
  (fst kv, match snd kv with PInt z => (0%N, z) | PBool b => (1%N, if b then 1%Z else 0%Z) end).
Definition lock_out (l : lock N) :=
  (l_name l, src_out (l_source l), map prop_out (l_props l),
   map (fun d => (ld_name d, src_out (ld_source d))) (l_deps l), l_visible l).
Definition table_out (t : table N) := map (fun ub => (fst ub, map lock_out (snd ub))) t.
Definition outcome_out (o : outcome) :=
  match o with
  | OErr e => (0%N, e, false, @nil (N * list _))
  | ONoLockfile => (1%N, EFuel, false, [])
  | ONoFile => (2%N, EFuel, false, [])
  | OSaved => (3%N, EFuel, false, [])
  | OTable t => (4%N, EFuel, false, table_out t)
  | OUpdated m t => (5%N, EFuel, m, table_out t)
  end.
Definition run_out mt os := map outcome_out (run_ops mt (mkMS None None) os).
