(* Meta/ResolveProofs.v — proofs about the dependency-resolution model (C31). *)
From Coq Require Import String Ascii DecimalString DecimalNat Bool Arith NArith ZArith List Lia
     Sorting.Sorted FinFun.
From VV Require Import Meta.ResolveModel.
Import ListNotations.
Open Scope list_scope.

Lemma NoDup_app_iff' : forall {A} (l1 l2 : list A),
  NoDup (l1 ++ l2) <-> NoDup l1 /\ NoDup l2 /\ (forall x, In x l1 -> In x l2 -> False).
Proof.
  induction l1 as [|a l1 IH]; simpl; intros l2.
  - split. intros H; repeat split; auto. constructor. tauto.
  - split.
    + intros H. inversion H as [|? ? Hn Hd]; subst. apply IH in Hd. destruct Hd as (D1 & D2 & D3).
      split; [constructor; auto; intros X; apply Hn; apply in_or_app; auto|].
      split; auto. intros x [<-|Hx] Hx2; [apply Hn; apply in_or_app; auto|eauto].
    + intros (D1 & D2 & D3). inversion D1; subst. constructor.
      * intros X. apply in_app_or in X. destruct X; [auto|]. eapply D3; eauto.
      * apply IH. repeat split; auto. intros; eapply D3; eauto.
Qed.

Lemma SS_app_r : forall {A} (R : A -> A -> Prop) l1 l2, StronglySorted R (l1 ++ l2) -> StronglySorted R l2.
Proof. induction l1; simpl; intros; auto. inversion H; auto. Qed.

(* ------------------------------------------------------------------------------------------ *)
(* insertion sort                                                                               *)
Section SortFacts.
  Context {A : Type}.
  Variable le : A -> A -> bool.
  Definition total := forall a b, le a b = true \/ le b a = true.
  Definition trans := forall a b c, le a b = true -> le b c = true -> le a c = true.

  Lemma ins_In : forall x y s, In y (ins le x s) <-> y = x \/ In y s.
  Proof.
    induction s as [|z s IH]; simpl.
    - intuition.
    - destruct (le x z); simpl; rewrite ?IH; intuition.
  Qed.

  Lemma isort_In : forall y l, In y (isort le l) <-> In y l.
  Proof.
    induction l as [|x l IH]; simpl; [tauto|].
    rewrite ins_In, IH. intuition.
  Qed.

  Lemma ins_head : forall x s, (forall y, In y s -> le x y = true) -> ins le x s = x :: s.
  Proof.
    destruct s as [|z s]; simpl; auto. intros H. rewrite H; auto.
  Qed.

  Definition SSorted := StronglySorted (fun a b => le a b = true).

  Lemma ins_sorted : total -> trans -> forall x s, SSorted s -> SSorted (ins le x s).
  Proof.
    intros T R x s Hs. induction Hs as [|z s Hs IH Hz]; simpl.
    - repeat constructor.
    - destruct (le x z) eqn:E.
      + constructor. constructor; auto. constructor; auto.
        rewrite Forall_forall in *. intros y Hy. eapply R; eauto.
      + constructor; auto. rewrite Forall_forall in *. intros y Hy.
        apply ins_In in Hy. destruct Hy as [->|Hy]; auto.
        destruct (T x z) as [H|H]; congruence.
  Qed.

  Lemma isort_sorted : total -> trans -> forall l, SSorted (isort le l).
  Proof.
    intros T R l. induction l; simpl. constructor. apply ins_sorted; auto.
  Qed.

  Lemma isort_id : forall l, SSorted l -> isort le l = l.
  Proof.
    induction 1 as [|x l Hs IH Hx]; simpl; auto.
    rewrite IH. apply ins_head. rewrite Forall_forall in Hx. auto.
  Qed.

  (* filter commutes with insertion into a sorted list *)
  Lemma filter_ins : trans -> forall p x s, SSorted s ->
    filter p (ins le x s) = if p x then ins le x (filter p s) else filter p s.
  Proof.
    intros R p x s Hs. induction Hs as [|z s Hs IH Hz]; simpl.
    - destruct (p x); auto.
    - destruct (le x z) eqn:E.
      + simpl. destruct (p x) eqn:Px; auto.
        symmetry. apply ins_head. intros y Hy.
        assert (In y (z :: s)).
        { destruct (p z); [destruct Hy as [->|Hy]|]; simpl; auto;
          right; apply filter_In in Hy; tauto. }
        destruct H as [->|H]; auto. rewrite Forall_forall in Hz. eapply R; eauto.
      + simpl. rewrite IH. destruct (p z) eqn:Pz; destruct (p x) eqn:Px; simpl; auto.
        rewrite E. auto.
  Qed.

  Lemma filter_isort : total -> trans -> forall p l,
    filter p (isort le l) = isort le (filter p l).
  Proof.
    intros T R p l. induction l as [|x l IH]; simpl; auto.
    rewrite filter_ins by (auto; apply isort_sorted; auto).
    rewrite IH. destruct (p x); auto.
  Qed.

  (* ins x s = s1 ++ x :: s2 where x is strictly above everything in s1 *)
  Lemma ins_split : forall x s, exists s1 s2,
    s = s1 ++ s2 /\ ins le x s = s1 ++ x :: s2 /\ (forall z, In z s1 -> le x z = false).
  Proof.
    induction s as [|y s IH]; simpl.
    - exists [], []. simpl. intuition.
    - destruct (le x y) eqn:E.
      + exists [], (y :: s). simpl. intuition.
      + destruct IH as (s1 & s2 & -> & H2 & H3).
        exists (y :: s1), s2. simpl. rewrite H2. intuition. subst. auto.
  Qed.
End SortFacts.

Section SortRoundtrip.
  Context {A : Type}.
  Variable le : A -> A -> bool.
  Let ge := fun a b => le b a.

  Lemma isort_ge_mid : forall x s1 s2,
    (forall z, In z s1 -> le x z = false) -> (forall y, In y s2 -> le y x = true) ->
    isort ge (s1 ++ x :: s2) = x :: isort ge (s1 ++ s2).
  Proof.
    induction s1 as [|z s1 IH]; simpl; intros s2 H1 H2.
    - apply ins_head. intros y Hy. apply isort_In in Hy. unfold ge. auto.
    - rewrite IH by auto. simpl. unfold ge at 1. rewrite H1 by auto. reflexivity.
  Qed.

  (* sorting ascending and then descending gives back a descending-sorted list, ties in place *)
  Lemma isort_ge_le : forall b, SSorted ge b -> isort ge (isort le b) = b.
  Proof.
    induction 1 as [|x b Hs IH Hx]; simpl; auto.
    destruct (ins_split le x (isort le b)) as (s1 & s2 & E & E2 & H3).
    rewrite E2. rewrite isort_ge_mid; auto.
    - rewrite <- E, IH. reflexivity.
    - intros y Hy. rewrite Forall_forall in Hx. apply Hx.
      apply (isort_In le). rewrite E. apply in_or_app. auto.
  Qed.
End SortRoundtrip.

(* ------------------------------------------------------------------------------------------ *)
(* names: the suffix loop                                                                       *)
Lemma append_inj_l : forall a b c : string, (a ++ b = a ++ c)%string -> b = c.
Proof. induction a; simpl; intros; auto. inversion H. auto. Qed.

Lemma dec_inj : forall a b, dec a = dec b -> a = b.
Proof.
  unfold dec. intros a b H.
  assert (Some (Nat.to_uint a) = Some (Nat.to_uint b)) as H1.
  { rewrite <- !NilEmpty.usu. rewrite H. reflexivity. }
  inversion H1 as [H2].
  rewrite <- (DecimalNat.Unsigned.of_to a), <- (DecimalNat.Unsigned.of_to b), H2. reflexivity.
Qed.

Lemma suffixed_inj : forall name a b, suffixed name a = suffixed name b -> a = b.
Proof.
  unfold suffixed. intros name a b H.
  apply append_inj_l in H. apply append_inj_l in H. apply dec_inj; auto.
Qed.

Lemma mem_str_In : forall s l, mem_str s l = true <-> In s l.
Proof.
  unfold mem_str. intros. rewrite existsb_exists. split.
  - intros (x & Hx & E). apply String.eqb_eq in E. subst; auto.
  - intros H. exists s. split; auto. apply String.eqb_refl.
Qed.

Lemma mem_str_false : forall s l, mem_str s l = false <-> ~ In s l.
Proof.
  intros. rewrite <- mem_str_In. destruct (mem_str s l); intuition congruence.
Qed.

Lemma suffix_loop_spec : forall name nt fuel k,
  (forall j, j < k -> In (suffixed name j) nt) ->
  fuel + k > List.length nt ->
  exists k', k <= k' /\ k' <= List.length nt /\
    suffix_loop fuel nt name k = Some (suffixed name k') /\
    ~ In (suffixed name k') nt /\
    (forall j, j < k' -> In (suffixed name j) nt).
Proof.
  intros name nt. induction fuel as [|f IH]; intros k Hk Hf.
  - (* pigeonhole: k > |nt| distinct names all inside nt *)
    exfalso.
    assert (NoDup (map (suffixed name) (seq 0 k))) as ND.
    { apply FinFun.Injective_map_NoDup. intros a b. apply suffixed_inj. apply seq_NoDup. }
    assert (incl (map (suffixed name) (seq 0 k)) nt) as I.
    { intros x Hx. apply in_map_iff in Hx. destruct Hx as (j & <- & Hj).
      apply in_seq in Hj. apply Hk. lia. }
    pose proof (NoDup_incl_length ND I) as L. rewrite map_length, seq_length in L. lia.
  - simpl. destruct (mem_str (suffixed name k) nt) eqn:M.
    + apply mem_str_In in M.
      destruct (IH (S k)) as (k' & H1 & H2 & H3 & H4 & H5).
      * intros j Hj. destruct (Nat.eq_dec j k) as [->|]; auto. apply Hk. lia.
      * lia.
      * exists k'. repeat split; auto. lia.
    + apply mem_str_false in M. exists k. repeat split; auto.
      (* k <= |nt| by the same pigeonhole *)
      assert (NoDup (map (suffixed name) (seq 0 k))) as ND.
      { apply FinFun.Injective_map_NoDup. intros a b. apply suffixed_inj. apply seq_NoDup. }
      assert (incl (map (suffixed name) (seq 0 k)) nt) as I.
      { intros x Hx. apply in_map_iff in Hx. destruct Hx as (j & <- & Hj).
        apply in_seq in Hj. apply Hk. lia. }
      pose proof (NoDup_incl_length ND I) as L. rewrite map_length, seq_length in L. lia.
Qed.

(* The Rust loop is unbounded; with |name_table|+1 iterations of fuel the model never runs out,
   and the loop returns the FIRST free name name_k, k <= |name_table|. *)
Theorem suffix_terminates_fresh : forall nt name,
  exists k, k <= List.length nt /\
    fresh_name nt name = Some (suffixed name k) /\
    ~ In (suffixed name k) nt /\
    (forall j, j < k -> In (suffixed name j) nt).
Proof.
  intros. unfold fresh_name.
  destruct (suffix_loop_spec name nt (S (List.length nt)) 0) as (k & _ & H2 & H3 & H4 & H5).
  - intros j Hj. lia.
  - lia.
  - exists k. auto.
Qed.

(* ------------------------------------------------------------------------------------------ *)
(* resolve_version                                                                              *)
Section ResolveFacts.
  Variable version req : Type.
  Variable vleb : version -> version -> bool.
  Variable matches : req -> version -> bool.
  Hypothesis vleb_total : forall a b, vleb a b = true \/ vleb b a = true.
  Hypothesis vleb_trans : forall a b c, vleb a b = true -> vleb b c = true -> vleb a c = true.

  Notation lock := (lock version).
  Notation table := (table version).
  Notation world := (world version req).
  Notation release := (release version).

  Lemma find_first : forall {A} (p : A -> bool) l x, find p l = Some x ->
    exists l1 l2, l = l1 ++ x :: l2 /\ p x = true /\ forall y, In y l1 -> p y = false.
  Proof.
    induction l as [|a l IH]; simpl; intros x H; [discriminate|].
    destruct (p a) eqn:E.
    - inversion H; subst. exists [], l. simpl. intuition.
    - destruct (IH x H) as (l1 & l2 & -> & H2 & H3). exists (a :: l1), l2. simpl. intuition. subst; auto.
  Qed.

  Lemma find_none_iff : forall {A} (p : A -> bool) l, find p l = None <-> forall y, In y l -> p y = false.
  Proof.
    induction l as [|a l IH]; simpl. intuition.
    destruct (p a) eqn:E; split; intros H.
    - discriminate.
    - rewrite H in E by auto. discriminate.
    - intros y [->|Hy]; auto. apply IH; auto.
    - apply IH. auto.
  Qed.

  (* a locked release that still satisfies the requirement is chosen (no force-update): it is the
     FIRST lock of the url's bucket whose project is `prj` and whose version matches *)
  Theorem resolve_prefers_lock : forall (w : world) (t : table) u prj rq,
    (exists l, In l (bucket t u) /\ lock_candidate matches prj rq l = true) ->
    exists l1 l l2 u' pth v r o,
      bucket t u = l1 ++ l :: l2 /\
      (forall y, In y l1 -> lock_candidate matches prj rq y = false) /\
      l_source l = SRepo u' pth prj v r o /\ matches rq v = true /\
      resolve_version vleb matches w t false u prj rq = Ok (mkRel v r, pth).
  Proof.
    intros w t u prj rq (l0 & Hin & Hc).
    unfold resolve_version, resolve_from_lock.
    destruct (find (lock_candidate matches prj rq) (bucket t u)) as [l|] eqn:F.
    - destruct (find_first _ _ _ F) as (l1 & l2 & E & Hp & Hn).
      unfold lock_candidate in Hp. destruct (l_source l) as [u' pth p v r o|] eqn:S; [|discriminate].
      apply andb_prop in Hp. destruct Hp as [Hp Hm]. apply N.eqb_eq in Hp. subst p.
      exists l1, l, l2, u', pth, v, r, o. auto.
    - rewrite find_none_iff in F. rewrite F in Hc by auto. discriminate.
  Qed.

  Definition rel_geb' := rel_geb vleb.

  Lemma rel_geb_total : total rel_geb'.
  Proof. intros a b. unfold rel_geb', rel_geb. apply vleb_total. Qed.
  Lemma rel_geb_trans : trans rel_geb'.
  Proof. intros a b c. unfold rel_geb', rel_geb. intros. eapply vleb_trans; eauto. Qed.

  Lemma latest_matching_spec : forall rels rq,
    match latest_matching vleb matches rels rq with
    | Some r => In r rels /\ matches rq (rel_version r) = true /\
                forall r', In r' rels -> matches rq (rel_version r') = true ->
                           vleb (rel_version r') (rel_version r) = true
    | None => forall r', In r' rels -> matches rq (rel_version r') = false
    end.
  Proof.
    intros rels rq. unfold latest_matching.
    pose proof (isort_sorted rel_geb' rel_geb_total rel_geb_trans rels) as SS.
    fold rel_geb'.
    destruct (find _ (isort rel_geb' rels)) as [r|] eqn:F.
    - destruct (find_first _ _ _ F) as (l1 & l2 & E & Hm & Hn).
      split; [|split]; auto.
      + apply (isort_In rel_geb'). rewrite E. apply in_or_app. simpl. auto.
      + intros r' Hin Hm'. apply (isort_In rel_geb') in Hin. rewrite E in Hin, SS.
        apply in_app_or in Hin. destruct Hin as [Hin|[<-|Hin]].
        * rewrite Hn in Hm' by auto. discriminate.
        * destruct (vleb_total (rel_version r) (rel_version r)); auto.
        * unfold SSorted in SS. apply SS_app_r in SS.
          inversion SS as [|? ? ? HF]; subst. rewrite Forall_forall in HF.
          apply HF in Hin. exact Hin.
    - rewrite find_none_iff in F. intros r' Hin. apply F. apply isort_In. auto.
  Qed.

  (* otherwise (no lock applies, or force-update): the maximum satisfying published release of
     the project; error VersionNotFound exactly when no published release satisfies *)
  Theorem resolve_highest : forall (w : world) (t : table) force u prj rq pth rels,
    (force = true \/ resolve_from_lock matches t u prj rq = None) ->
    lookup2 (u, prj) (w_pubs w) = Some (PReleases pth rels) ->
    match resolve_version vleb matches w t force u prj rq with
    | Ok (r, p) => p = pth /\ In r rels /\ matches rq (rel_version r) = true /\
                   forall r', In r' rels -> matches rq (rel_version r') = true ->
                              vleb (rel_version r') (rel_version r) = true
    | Err e => e = EVersionNotFound /\ forall r', In r' rels -> matches rq (rel_version r') = false
    end.
  Proof.
    intros w t force u prj rq pth rels Hf Hl.
    assert (resolve_version vleb matches w t force u prj rq
            = resolve_from_latest vleb matches w u prj rq) as ->.
    { unfold resolve_version. destruct Hf as [->| ->]; auto.
      destruct (resolve_from_lock _ _ _ _ _); auto. }
    unfold resolve_from_latest. rewrite Hl.
    pose proof (latest_matching_spec rels rq) as L.
    destruct (latest_matching _ _ rels rq); intuition.
  Qed.

  Theorem resolve_matches : forall (w : world) (t : table) force u prj rq r p,
    resolve_version vleb matches w t force u prj rq = Ok (r, p) ->
    matches rq (rel_version r) = true.
  Proof.
    intros w t force u prj rq r p.
    assert (forall r p, resolve_from_latest vleb matches w u prj rq = Ok (r, p) ->
                        matches rq (rel_version r) = true) as HL.
    { clear. intros r p. unfold resolve_from_latest.
      destruct (lookup2 _ _) as [[| |pth rels]|]; try discriminate.
      unfold latest_matching. destruct (find _ _) eqn:F; try discriminate.
      intros H; inversion H; subst. apply find_some in F. tauto. }
    unfold resolve_version.
    destruct (resolve_from_lock _ _ _ _ _) as [[r0 p0]|] eqn:FL; [destruct force|]; eauto.
    intros H; inversion H; subst. clear H.
    unfold resolve_from_lock in FL.
    destruct (find _ _) as [l|] eqn:F; [|discriminate].
    apply find_some in F. destruct F as [_ F]. unfold lock_candidate in F.
    destruct (l_source l); [|discriminate]. inversion FL; subst. simpl.
    apply andb_prop in F. tauto.
  Qed.
End ResolveFacts.

(* ------------------------------------------------------------------------------------------ *)
(* gen_locks: every resolved dependency gets a distinct name                                    *)
Section GenFacts.
  Variable version req : Type.
  Variable vleb : version -> version -> bool.
  Variable matches : req -> version -> bool.
  Notation lock := (lock version).

  (* new locks `ls` produced between name tables s and s' *)
  Definition Pnames (s : gstate) (ls : list lock) (s' : gstate) : Prop :=
    NoDup (map l_name ls) /\
    (forall n, In n (map l_name ls) -> In n (st_names s') /\ ~ In n (st_names s)) /\
    incl (st_names s) (st_names s').

  Lemma Pnames_nil : forall s, Pnames s [] s.
  Proof. intros s. split; [constructor|split]; simpl; [tauto|apply incl_refl]. Qed.

  Lemma Pnames_app : forall s a s1 b s2, Pnames s a s1 -> Pnames s1 b s2 -> Pnames s (a ++ b) s2.
  Proof.
    intros s a s1 b s2 (N1 & I1 & C1) (N2 & I2 & C2). split; [|split].
    - rewrite map_app. apply NoDup_app_iff'. split; [auto|split; auto].
      intros x Ha Hb. apply I1 in Ha. apply I2 in Hb. tauto.
    - intros n Hn. rewrite map_app in Hn. apply in_app_or in Hn. destruct Hn as [Hn|Hn].
      + apply I1 in Hn. split; [apply C2|]; tauto.
      + apply I2 in Hn. split; [tauto|]. intros X. apply C1 in X. tauto.
    - eapply incl_tran; eauto.
  Qed.

  Lemma pick_name_fresh : forall st name root n, pick_name st name root = Ok n -> ~ In n (st_names st).
  Proof.
    unfold pick_name. intros st name root n.
    destruct (mem_str name (st_names st)) eqn:M.
    - destruct root; [discriminate|].
      destruct (suffix_terminates_fresh (st_names st) name) as (k & _ & E & Hf & _).
      rewrite E. intros H; inversion H; subst. auto.
    - intros H; inversion H; subst. apply mem_str_false; auto.
  Qed.

  Ltac dobind H :=
    match type of H with
    | bind ?x _ = Ok _ => let E := fresh "E" in destruct x eqn:E; simpl in H; [|discriminate]
    end.

  Lemma level_names : forall w t force ds root st ret metas ret' metas' st',
    level vleb matches w t force ds root st ret metas = Ok (ret', metas', st') ->
    exists new, ret' = ret ++ new /\ Pnames st new st'.
  Proof.
    induction ds as [|d ds IH]; intros root st ret metas ret' metas' st' H; simpl in H.
    - inversion H; subst. exists []. rewrite app_nil_r. split; auto. apply Pnames_nil.
    - dobind H. dobind H. dobind H. dobind H. dobind H.
      apply pick_name_fresh in E1.
      match type of H with (if ?c then _ else _) = _ => destruct c end.
      + destruct root; [discriminate|].
        apply IH in H. destruct H as (new & -> & (N & I & C)). exists new. split; auto.
        simpl in *. split; [auto|split].
        * intros n Hn. apply I in Hn. simpl in Hn. tauto.
        * intros x Hx. apply C. simpl; auto.
      + apply IH in H. destruct H as (new & -> & (N & I & C)). simpl in *.
        rewrite <- app_assoc. simpl. eexists. split; [reflexivity|].
        split; [|split].
        * simpl. constructor; auto. intros X. apply I in X. simpl in X. tauto.
        * simpl. intros n [<-|Hn].
          -- split; auto. apply C. simpl; auto.
          -- apply I in Hn. simpl in Hn. tauto.
        * intros x Hx. apply C. simpl; auto.
  Qed.

  Lemma subs_names : forall (rec : metadata req -> gstate -> res (list lock * gstate)),
    (forall m s ls s', rec m s = Ok (ls, s') -> Pnames s ls s') ->
    forall ms acc s ls s', subs rec ms acc s = Ok (ls, s') ->
      exists new, ls = acc ++ new /\ Pnames s new s'.
  Proof.
    intros rec Hrec. induction ms as [|m ms IH]; intros acc s ls s' H; simpl in H.
    - inversion H; subst. exists []. rewrite app_nil_r. split; auto. apply Pnames_nil.
    - dobind H. destruct a as [l1 s1]. simpl in H. apply Hrec in E.
      apply IH in H. destruct H as (new & -> & P). exists (l1 ++ new).
      rewrite app_assoc. split; auto. eapply Pnames_app; eauto.
  Qed.

  Lemma gen_locks_names : forall fuel w t force md root st ls st',
    gen_locks vleb matches fuel w t force md root st = Ok (ls, st') -> Pnames st ls st'.
  Proof.
    induction fuel as [|f IH]; intros w t force md root st ls st' H; simpl in H; [discriminate|].
    dobind H. destruct a as [[ret metas] st1]. simpl in H.
    apply level_names in E. destruct E as (new & E & P). simpl in E. subst ret.
    apply subs_names in H.
    - destruct H as (new2 & -> & P2). eapply Pnames_app; eauto.
    - intros m s l0 s0 Hm. eapply IH; eauto.
  Qed.

  (* every resolved dependency gets a distinct project name, for every world, lock table,
     declaration set and recursion budget *)
  Theorem names_distinct : forall w t force md ls,
    gen_top vleb matches w t force md = Ok ls -> NoDup (map l_name ls).
  Proof.
    unfold gen_top. intros w t force md ls H. dobind H. destruct a as [l s]. simpl in H.
    inversion H; subst. apply gen_locks_names in E. apply E.
  Qed.
End GenFacts.

(* ------------------------------------------------------------------------------------------ *)
(* lock table: grouping, sort_table, save / load                                                *)
Section TableFacts.
  Variable version : Type.
  Variable vleb : version -> version -> bool.
  Hypothesis vleb_total : forall a b, vleb a b = true \/ vleb b a = true.
  Hypothesis vleb_trans : forall a b c, vleb a b = true -> vleb b c = true -> vleb a c = true.
  Notation lock := (lock version).
  Notation table := (table version).
  Notation source := (source version).

  Lemma source_leb_total : forall a b : source, source_leb vleb a b = true \/ source_leb vleb b a = true.
  Proof.
    intros [u1 q1 p1 v1 r1 o1|x] [u2 q2 p2 v2 r2 o2|y]; simpl; auto.
    - destruct (N.ltb_spec u1 u2), (N.ltb_spec u2 u1), (N.eqb_spec u1 u2), (N.eqb_spec u2 u1);
        simpl; auto; try lia.
      destruct (N.ltb_spec p1 p2), (N.ltb_spec p2 p1), (N.eqb_spec p1 p2), (N.eqb_spec p2 p1);
        simpl; auto; try lia.
    - destruct (N.leb_spec x y), (N.leb_spec y x); auto; lia.
  Qed.

  Lemma source_leb_trans : forall a b c : source,
    source_leb vleb a b = true -> source_leb vleb b c = true -> source_leb vleb a c = true.
  Proof.
    intros [u1 q1 p1 v1 r1 o1|x] [u2 q2 p2 v2 r2 o2|y] [u3 q3 p3 v3 r3 o3|z]; simpl; auto; try discriminate.
    - destruct (N.ltb_spec u1 u2), (N.ltb_spec u2 u3), (N.ltb_spec u1 u3),
        (N.eqb_spec u1 u2), (N.eqb_spec u2 u3), (N.eqb_spec u1 u3); simpl; auto; try lia; try discriminate.
      destruct (N.ltb_spec p1 p2), (N.ltb_spec p2 p3), (N.ltb_spec p1 p3),
        (N.eqb_spec p1 p2), (N.eqb_spec p2 p3), (N.eqb_spec p1 p3); simpl; auto; try lia; try discriminate.
      apply vleb_trans.
    - intros H1 H2. apply N.leb_le in H1, H2. apply N.leb_le. lia.
  Qed.

  Lemma lock_leb_total : total (lock_leb vleb).
  Proof. intros a b. apply source_leb_total. Qed.
  Lemma lock_leb_trans : trans (lock_leb vleb).
  Proof. intros a b c. apply source_leb_trans. Qed.

  Definition url_is (u : N) (l : lock) : bool := N.eqb (to_url (l_source l)) u.

  Lemma bucket_push : forall (t : table) u' l u,
    bucket (tbl_push t u' l) u = if N.eqb u' u then bucket t u ++ [l] else bucket t u.
  Proof.
    unfold bucket. induction t as [|[k b] t IH]; intros u' l u; simpl.
    - destruct (N.eqb u' u); auto.
    - destruct (N.eqb_spec k u').
      + subst k. simpl. destruct (N.eqb_spec u' u); auto.
      + simpl. destruct (N.eqb_spec k u).
        * subst k. destruct (N.eqb_spec u' u); auto. congruence.
        * apply IH.
  Qed.

  Lemma bucket_group_gen : forall ls (t : table) u,
    bucket (fold_left (fun t l => tbl_push t (to_url (l_source l)) l) ls t) u
    = bucket t u ++ filter (url_is u) ls.
  Proof.
    induction ls as [|l ls IH]; intros t u; simpl.
    - rewrite app_nil_r; auto.
    - rewrite IH, bucket_push. unfold url_is at 2.
      destruct (N.eqb (to_url (l_source l)) u); auto. rewrite <- app_assoc. auto.
  Qed.

  Lemma bucket_group : forall ls u, bucket (group_locks ls) u = filter (url_is u) ls.
  Proof. intros. unfold group_locks. rewrite bucket_group_gen. auto. Qed.

  Lemma bucket_sort_table : forall (t : table) u,
    bucket (sort_table vleb t) u = isort (lock_geb vleb) (bucket t u).
  Proof.
    unfold bucket, sort_table. induction t as [|[k b] t IH]; intros u; simpl; auto.
    destruct (N.eqb k u); auto.
  Qed.

  Lemma bucket_table_of_locks : forall ls u,
    bucket (table_of_locks vleb ls) u = isort (lock_geb vleb) (filter (url_is u) ls).
  Proof. intros. unfold table_of_locks. rewrite bucket_sort_table, bucket_group. auto. Qed.

  (* well-formed table: distinct keys; every lock sits in the bucket of its own url *)
  Definition table_wf (t : table) : Prop :=
    NoDup (map fst t) /\ forall u b, In (u, b) t -> forall l, In l b -> to_url (l_source l) = u.

  Lemma filter_all : forall {A} (p : A -> bool) l, (forall x, In x l -> p x = true) -> filter p l = l.
  Proof. induction l; simpl; intros; auto. rewrite H by auto. f_equal. auto. Qed.
  Lemma filter_none : forall {A} (p : A -> bool) l, (forall x, In x l -> p x = false) -> filter p l = [].
  Proof. induction l; simpl; intros; auto. rewrite H by auto. auto. Qed.

  Lemma filter_all_locks : forall (t : table) u, table_wf t -> filter (url_is u) (all_locks t) = bucket t u.
  Proof.
    unfold all_locks, bucket. induction t as [|[k b] t IH]; intros u [ND W]; simpl; auto.
    rewrite filter_app. inversion ND as [|? ? Hk ND']; subst.
    assert (table_wf t) as W'. { split; auto. intros; eapply W; simpl; eauto. }
    destruct (N.eqb_spec k u).
    - subst k. rewrite filter_all.
      + rewrite (filter_none (url_is u) (concat (map snd t))). apply app_nil_r.
        intros l Hl. apply in_concat in Hl. destruct Hl as (b' & Hb' & Hl).
        apply in_map_iff in Hb'. destruct Hb' as ([k' b''] & <- & Hin). simpl in Hl.
        unfold url_is. apply N.eqb_neq. intros X.
        assert (to_url (l_source l) = k') by (eapply W; simpl; eauto). subst.
        apply Hk. apply in_map_iff. exists (to_url (l_source l), b''). auto.
      + intros l Hl. unfold url_is. apply N.eqb_eq. eapply W; simpl; eauto.
    - rewrite filter_none.
      + simpl. apply IH; auto.
      + intros l Hl. unfold url_is. apply N.eqb_neq. intros X. apply n.
        symmetry. rewrite <- X. eapply W; simpl; eauto.
  Qed.

  Definition bucket_sorted (t : table) : Prop :=
    forall u, SSorted (lock_geb vleb) (bucket t u).
  Definition visible_ok (root_names : list string) (t : table) : Prop :=
    forall l, In l (all_locks t) -> l_visible l = mem_str (l_name l) root_names.

  Lemma set_visible_id : forall rn (l : lock), l_visible l = mem_str (l_name l) rn -> set_visible rn l = l.
  Proof. intros rn [n s p d v]. unfold set_visible. simpl. intros ->. reflexivity. Qed.

  Lemma map_id_on : forall {A} (f : A -> A) l, (forall x, In x l -> f x = x) -> map f l = l.
  Proof. induction l; simpl; intros; auto. rewrite H by auto. f_equal; auto. Qed.

  (* Saving and reloading gives the same lock table: every url's bucket comes back identical
     (same locks, same order, same `visible` flags).  Preconditions are the invariants that
     Lockfile::new/update/load establish: sort_table ran; `visible` = "is a root dependency name". *)
  Theorem lock_roundtrip : forall root_names (t : table),
    table_wf t -> bucket_sorted t -> visible_ok root_names t ->
    forall u, bucket (save_load vleb root_names t) u = bucket t u.
  Proof.
    intros rn t W S V u. unfold save_load, load_projects, saved_projects.
    rewrite bucket_table_of_locks.
    rewrite map_id_on.
    - rewrite (filter_isort (lock_leb vleb) lock_leb_total lock_leb_trans).
      rewrite filter_all_locks by auto.
      apply (isort_ge_le (lock_leb vleb)). apply S.
    - intros l Hl. apply isort_In in Hl. apply set_visible_id. auto.
  Qed.

  (* the invariants hold for every table built by table_of_locks *)
  Lemma push_keys : forall (t : table) u' l k,
    In k (map fst (tbl_push t u' l)) -> k = u' \/ In k (map fst t).
  Proof.
    induction t as [|[k2 b2] t IH]; simpl; intros u' l k H.
    - destruct H as [<-|[]]; auto.
    - destruct (N.eqb k2 u'); simpl in H; destruct H as [<-|H]; auto.
      destruct (IH _ _ _ H); auto.
  Qed.

  Lemma push_wf : forall (t : table) u' l, table_wf t -> to_url (l_source l) = u' -> table_wf (tbl_push t u' l).
  Proof.
    induction t as [|[k b] t IHt]; intros u' l [ND W] Hu; simpl.
    - split. { repeat constructor. simpl. tauto. }
      intros u b [E|[]] x Hx. inversion E; subst.
      destruct Hx as [<-|[]]. auto.
    - inversion ND as [|? ? Hk ND']; subst. destruct (N.eqb_spec k (to_url (l_source l))).
      + split; [simpl; constructor; auto|].
        intros u b' [E|Hin] x Hx.
        * inversion E; subst. apply in_app_or in Hx. destruct Hx as [Hx|[<-|[]]]; auto. eapply W; simpl; eauto.
        * eapply W; simpl; eauto.
      + destruct (IHt (to_url (l_source l)) l) as [ND2 W2]; auto.
        { split; auto. intros; eapply W; simpl; eauto. }
        split.
        * simpl. constructor; auto. intros X. apply push_keys in X. destruct X; auto.
        * intros u b' [E|Hin] x Hx; [inversion E; subst; eapply W; simpl; eauto|eapply W2; eauto].
  Qed.

  Lemma group_wf_gen : forall ls (t : table), table_wf t ->
    table_wf (fold_left (fun t l => tbl_push t (to_url (l_source l)) l) ls t).
  Proof.
    induction ls as [|l ls IH]; intros t W; simpl; auto. apply IH. apply push_wf; auto.
  Qed.

  Lemma table_of_locks_wf : forall ls, table_wf (table_of_locks vleb ls).
  Proof.
    intros ls. unfold table_of_locks.
    assert (table_wf (group_locks ls)) as [ND W].
    { apply group_wf_gen. split; simpl. constructor. intros ? ? []. }
    unfold sort_table. split.
    - rewrite map_map. simpl. exact ND.
    - intros u b Hin l Hl. apply in_map_iff in Hin. destruct Hin as ([k b0] & E & Hin). simpl in E.
      inversion E; subst. apply isort_In in Hl. eapply W; eauto.
  Qed.

  Lemma table_of_locks_sorted : forall ls, bucket_sorted (table_of_locks vleb ls).
  Proof.
    intros ls u. rewrite bucket_table_of_locks. apply isort_sorted.
    - intros a b. apply lock_leb_total.
    - intros a b c H1 H2. unfold lock_geb in *. eapply lock_leb_trans; eauto.
  Qed.
End TableFacts.

(* ------------------------------------------------------------------------------------------ *)
(* update: the `modified` flag                                                                   *)
Lemma props_eqb_eq : forall a b, props_eqb a b = true <-> a = b.
Proof.
  induction a as [|[k v] a IH]; destruct b as [|[k2 v2] b]; simpl; split; try discriminate; auto.
  - intros H. apply andb_prop in H. destruct H as [H H3]. apply andb_prop in H. destruct H as [H1 H2].
    apply String.eqb_eq in H1. apply IH in H3. subst. f_equal. f_equal.
    destruct v, v2; simpl in H2; try discriminate.
    + apply Z.eqb_eq in H2. subst; auto.
    + apply Bool.eqb_prop in H2. subst; auto.
  - intros H. inversion H; subst. rewrite String.eqb_refl. simpl.
    assert (propval_eqb v2 v2 = true) as ->. { destruct v2; simpl. apply Z.eqb_refl. apply Bool.eqb_reflx. }
    simpl. apply IH. auto.
Qed.

Lemma ukey_eqb_eq : forall a b, ukey_eqb a b = true <-> a = b.
Proof.
  intros [u1 p1 r1 s1|p1 s1] [u2 p2 r2 s2|p2 s2]; simpl; split; try discriminate; intros H.
  - repeat (apply andb_prop in H; destruct H as [H ?]).
    apply N.eqb_eq in H. apply N.eqb_eq in H2. apply N.eqb_eq in H1. apply props_eqb_eq in H0. subst; auto.
  - inversion H; subst. rewrite !N.eqb_refl. simpl. apply props_eqb_eq; auto.
  - apply andb_prop in H. destruct H as [H H0]. apply N.eqb_eq in H. apply props_eqb_eq in H0. subst; auto.
  - inversion H; subst. rewrite N.eqb_refl. simpl. apply props_eqb_eq; auto.
Qed.

Section UpdateFacts.
  Variable version req : Type.
  Variable vleb : version -> version -> bool.
  Variable matches : req -> version -> bool.
  Hypothesis vleb_total : forall a b, vleb a b = true \/ vleb b a = true.
  Hypothesis vleb_trans : forall a b c, vleb a b = true -> vleb b c = true -> vleb a c = true.
  Notation lock := (lock version).
  Notation table := (table version).
  Notation world := (world version req).

  Lemma has_ukey_iff : forall k (ls : list lock), has_ukey k ls = true <-> exists x, In x ls /\ lock_ukey x = k.
  Proof.
    unfold has_ukey. intros. rewrite existsb_exists. split; intros (x & H1 & H2); exists x; split; auto.
    - apply ukey_eqb_eq; auto.
    - apply ukey_eqb_eq; auto.
  Qed.

  (* `modified` is false exactly when the regenerated locks and the old table hold the same uuids
     (new ones looked up in the old bucket of their url; old ones anywhere among the new) *)
  Theorem update_modified_spec : forall (old : table) (ls : list lock),
    modified_flag old ls = false <->
    (forall l, In l ls -> exists o, In o (bucket old (to_url (l_source l))) /\ lock_ukey o = lock_ukey l) /\
    (forall o, In o (all_locks old) -> exists l, In l ls /\ lock_ukey l = lock_ukey o).
  Proof.
    intros old ls. unfold modified_flag. rewrite orb_false_iff.
    assert (forall {A} (p : A -> bool) l, existsb p l = false <-> forall x, In x l -> p x = true -> False) as EX.
    { intros A p l. split.
      - intros H x Hx Hp. assert (existsb p l = true) by (apply existsb_exists; eauto). congruence.
      - intros H. destruct (existsb p l) eqn:E; auto. apply existsb_exists in E. destruct E as (x & ? & ?). exfalso; eauto. }
    rewrite !EX. split; intros [H1 H2]; split.
    - intros l Hl. apply has_ukey_iff. destruct (has_ukey _ _) eqn:E; auto. exfalso. eapply H1; eauto. rewrite E; auto.
    - intros o Ho. apply has_ukey_iff. destruct (has_ukey _ _) eqn:E; auto. exfalso. eapply H2; eauto. rewrite E; auto.
    - intros l Hl Hn. apply H1 in Hl. apply has_ukey_iff in Hl. rewrite Hl in Hn. discriminate.
    - intros o Ho Hn. apply H2 in Ho. apply has_ukey_iff in Ho. rewrite Ho in Hn. discriminate.
  Qed.

  Lemma in_all_locks_bucket : forall (t : table) o, table_wf version t -> In o (all_locks t) ->
    In o (bucket t (to_url (l_source o))).
  Proof.
    intros t o W H. rewrite <- (filter_all_locks version) by auto.
    apply filter_In. split; auto. unfold url_is. apply N.eqb_refl.
  Qed.

  (* If regenerating the locks against the table built from `ls` yields `ls` again, update
     reports modified = false and leaves the table as it is. *)
  Theorem update_stable_unmodified : forall (w : world) md (ls : list lock),
    gen_top vleb matches w (table_of_locks vleb ls) false md = Ok ls ->
    lockfile_update vleb matches w (table_of_locks vleb ls) md false = Ok (false, table_of_locks vleb ls).
  Proof.
    intros w md ls H. unfold lockfile_update. rewrite H. simpl. f_equal. f_equal.
    apply update_modified_spec. split.
    - intros l Hl. exists l. split; auto. rewrite bucket_table_of_locks. apply isort_In.
      apply filter_In. split; auto. unfold url_is. apply N.eqb_refl.
    - intros o Ho. exists o. split; auto.
      apply in_all_locks_bucket in Ho; [|apply table_of_locks_wf].
      rewrite bucket_table_of_locks in Ho. apply isort_In in Ho. apply filter_In in Ho. tauto.
  Qed.

  (* Why regeneration reproduces the locks: when the bucket of the url holds the latest matching
     release of the project and otherwise only published releases of it, resolution from the lock
     table and resolution from the published releases agree. *)
  Theorem resolve_locked_is_latest : forall (w : world) (t : table) u prj rq pth rels m,
    lookup2 (u, prj) (w_pubs w) = Some (PReleases pth rels) ->
    latest_matching vleb matches rels rq = Some m ->
    SSorted (lock_geb vleb) (bucket t u) ->
    (forall l, In l (bucket t u) -> to_url (l_source l) = u) ->
    (forall l u' p v r o, In l (bucket t u) -> l_source l = SRepo u' p prj v r o ->
                          p = pth /\ In (mkRel v r) rels) ->
    (exists l o, In l (bucket t u) /\ l_source l = SRepo u pth prj (rel_version m) (rel_rev m) o) ->
    (forall a b, In a rels -> In b rels -> vleb (rel_version a) (rel_version b) = true ->
                 vleb (rel_version b) (rel_version a) = true -> a = b) ->
    resolve_version vleb matches w t false u prj rq = Ok (m, pth) /\
    resolve_from_latest vleb matches w u prj rq = Ok (m, pth).
  Proof.
    intros w t u prj rq pth rels m Hl Hm HS HU HR (lm & om & Hlm & Slm) HA.
    split; [|unfold resolve_from_latest; rewrite Hl, Hm; auto].
    pose proof (latest_matching_spec version req vleb matches vleb_total vleb_trans rels rq) as L.
    rewrite Hm in L. destruct L as (Min & Mm & Mmax).
    destruct (resolve_prefers_lock version req vleb matches w t u prj rq) as
        (l1 & l & l2 & u' & p0 & v & r & o & E & Hn & Sl & Hv & Hres).
    { exists lm. split; auto. unfold lock_candidate. rewrite Slm. rewrite N.eqb_refl. simpl. auto. }
    rewrite Hres.
    assert (In l (bucket t u)) as Inl. { rewrite E. apply in_or_app. simpl. auto. }
    destruct (HR _ _ _ _ _ _ Inl Sl) as [-> Hrel].
    assert (u' = u) as ->. { apply HU in Inl. rewrite Sl in Inl. simpl in Inl. auto. }
    assert (mkRel v r = m) as <-; auto.
    apply HA; [exact Hrel|exact Min| |].
    - simpl. apply (Mmax (mkRel v r)); auto.
    - simpl. rewrite E in Hlm. apply in_app_or in Hlm. destruct Hlm as [X|[X|X]].
      + apply Hn in X. unfold lock_candidate in X. rewrite Slm, N.eqb_refl, Mm in X. discriminate.
      + subst lm. rewrite Slm in Sl. inversion Sl; subst. destruct (vleb_total (rel_version m) (rel_version m)); auto.
      + rewrite E in HS. apply SS_app_r in HS. inversion HS as [|? ? ? HF]; subst.
        rewrite Forall_forall in HF. apply HF in X. unfold lock_geb, lock_leb in X.
        rewrite Slm, Sl in X. simpl in X. rewrite !N.ltb_irrefl, !N.eqb_refl in X. simpl in X. exact X.
  Qed.
End UpdateFacts.

(* ------------------------------------------------------------------------------------------ *)
(* concrete witnesses                                                                           *)
Local Open Scope N_scope.
Local Open Scope string_scope.

(* versions 1.0.0 (rank 0) and 1.5.0 (rank 1); requirement 0 = "1", requirement 1 = ">=1.2" *)
Definition ex_mt : list (N * list N) := [(0, [0; 1]); (1, [1])].
Definition ex_world : world N N :=
  mkWorld [((0, 0), PReleases 0 [mkRel 0 1; mkRel 1 2]); ((1, 1), PReleases 0 [mkRel 0 3])]
          [((0, 0, 1), mkMeta [] []); ((0, 0, 2), mkMeta [] []);
           ((1, 0, 3), mkMeta [] [mkDecl "p" (DGit 0 0 1 None) []])]
          [].
Definition ex_root : metadata N :=
  mkMeta [] [mkDecl "x" (DGit 0 0 0 None) []; mkDecl "q" (DGit 1 1 0 None) []].
(* the lock table of the project before q was added and before 1.5.0 was published: x -> p 1.0.0 *)
Definition ex_t0 : table N := table_of_locks N.leb [mkLock "x" (SRepo 0 0 0 0 1 None) [] [] true].

Definition versions_of (t : table N) : list (string * N) :=
  map (fun l => (l_name l, match l_source l with SRepo _ _ _ v _ _ => v | SPath _ => 99 end)) (all_locks t).

(* FINDING (replayed on the real Lockfile::update, see design/C31.md): the first update keeps x at
   its lock 1.0.0 and adds p 1.5.0 for q; a second update with the SAME declarations and the same
   published releases moves x to 1.5.0 and reports `modified`; only the third is stable. *)
Lemma update_twice_witness :
  exists t1 t2,
    lockfile_update N.leb (nmatches ex_mt) ex_world ex_t0 ex_root false = Ok (true, t1) /\
    versions_of t1 = [("q", 0); ("p", 1); ("x", 0)] /\
    lockfile_update N.leb (nmatches ex_mt) ex_world t1 ex_root false = Ok (true, t2) /\
    versions_of t2 = [("q", 0); ("x", 1)] /\
    lockfile_update N.leb (nmatches ex_mt) ex_world t2 ex_root false = Ok (false, t2).
Proof. eexists. eexists. vm_compute. repeat split. Qed.

Lemma nleb_total : forall a b : N, N.leb a b = true \/ N.leb b a = true.
Proof. intros. destruct (N.leb_spec a b), (N.leb_spec b a); auto; lia. Qed.
Lemma nleb_trans : forall a b c : N, N.leb a b = true -> N.leb b c = true -> N.leb a c = true.
Proof. intros a b c H1 H2. apply N.leb_le in H1, H2. apply N.leb_le. lia. Qed.

(* non-vacuity of the suffix theorem: a name table that forces three iterations *)
Example suffix_example :
  fresh_name ["util"; "util_1"; "x"; "util_0"] "util" = Some "util_2".
Proof. reflexivity. Qed.

(* non-vacuity of lock_roundtrip: the table of the finding (two locks of project p in one
   bucket) satisfies the three preconditions *)
Definition ex_locks1 : list (lock N) :=
  [mkLock "q" (SRepo 1 0 1 0 3 None) [] [mkLD "p" (SRepo 0 0 0 1 2 None)] true;
   mkLock "x" (SRepo 0 0 0 0 1 None) [] [] true;
   mkLock "p" (SRepo 0 0 0 1 2 None) [] [] false].
Example roundtrip_example_t1 :
  let t1 := table_of_locks N.leb ex_locks1 in
  lockfile_update N.leb (nmatches ex_mt) ex_world ex_t0 ex_root false = Ok (true, t1) /\
  table_wf N t1 /\ bucket_sorted N N.leb t1 /\ visible_ok N ["x"; "q"] t1 /\
  List.length (bucket t1 0) = 2%nat.
Proof.
  split; [vm_compute; reflexivity|].
  split; [|split; [|split]].
  - apply (table_of_locks_wf N N.leb).
  - apply (table_of_locks_sorted N N.leb nleb_total nleb_trans).
  - intros l H. vm_compute in H. repeat (destruct H as [<-|H]; [reflexivity|]). destruct H.
  - reflexivity.
Qed.
