(* Meta/FilelistProofs.v — proofs about the filelist-order and path-mapping models (C25). *)
From Coq Require Import String Ascii Bool Arith NArith List Lia Sorting.Permutation.
From VV Require Import Meta.ResolveModel Meta.ResolveProofs Meta.FilelistModel.
Import ListNotations.
Local Open Scope list_scope.

(* ------------------------------------------------------------------------------------------ *)
Lemma memN_In : forall x l, memN x l = true <-> In x l.
Proof.
  unfold memN. intros. rewrite existsb_exists. split.
  - intros (y & Hy & E). apply N.eqb_eq in E. subst; auto.
  - intros H. exists x. split; auto. apply N.eqb_refl.
Qed.
Lemma memN_false : forall x l, memN x l = false <-> ~ In x l.
Proof. intros. rewrite <- memN_In. destruct (memN x l); intuition congruence. Qed.

Lemma nodupN_In : forall x l, In x (nodupN l) <-> In x l.
Proof.
  induction l as [|y l IH]; simpl; [tauto|].
  destruct (memN y l) eqn:M.
  - rewrite IH. apply memN_In in M. intuition. subst; auto.
  - simpl. rewrite IH. tauto.
Qed.
Lemma nodupN_NoDup : forall l, NoDup (nodupN l).
Proof.
  induction l as [|y l IH]; simpl; [constructor|].
  destruct (memN y l) eqn:M; auto. constructor; auto.
  rewrite nodupN_In. apply memN_false; auto.
Qed.

(* place_first only yields files still in `left`, each once *)
Lemma place_first_spec : forall topo left, NoDup left ->
  NoDup (place_first topo left) /\ forall f, In f (place_first topo left) -> In f left.
Proof.
  induction topo as [|s topo IH]; intros left ND; simpl.
  - split; [constructor|tauto].
  - destruct (s_file s) as [f|]; [|apply IH; auto].
    destruct (s_mip s && memN f left) eqn:E; [|apply IH; auto].
    apply andb_prop in E. destruct E as [_ E]. apply memN_In in E.
    set (left' := filter (fun x => negb (N.eqb x f)) left).
    assert (NoDup left') as ND' by (apply NoDup_filter; auto).
    destruct (IH left' ND') as [N1 I1]. split.
    + constructor; auto. intros X. apply I1 in X. unfold left' in X. apply filter_In in X.
      destruct X as [_ X]. rewrite N.eqb_refl in X. discriminate.
    + intros g [<-|Hg]; auto. apply I1 in Hg. unfold left' in Hg. apply filter_In in Hg. tauto.
Qed.

Lemma isort_perm : forall {A} (le : A -> A -> bool) l, Permutation (isort le l) l.
Proof.
  intros A le. induction l as [|x l IH]; simpl; auto.
  assert (forall s, Permutation (ins le x s) (x :: s)) as H.
  { induction s as [|y s IHs]; simpl; auto. destruct (le x y); auto.
    eapply perm_trans; [apply perm_skip; apply IHs|apply perm_swap]. }
  eapply perm_trans; [apply H|]. auto.
Qed.

Lemma first_symbol_order_spec : forall paths comps topo tests,
  let u := used paths comps tests in
  NoDup (first_symbol_order paths comps topo tests) /\
  forall f, In f (first_symbol_order paths comps topo tests) <-> In f u.
Proof.
  intros paths comps topo tests u. unfold first_symbol_order. fold u.
  assert (NoDup u) as NDu by apply nodupN_NoDup.
  destruct (place_first_spec topo u NDu) as [N1 I1].
  set (placed := place_first topo u) in *.
  set (rest := filter (fun x => negb (memN x placed)) u).
  assert (Permutation (isort N.leb rest) rest) as P by apply isort_perm.
  split.
  - apply NoDup_app_iff'. split; [auto|split].
    + eapply Permutation_NoDup; [apply Permutation_sym; exact P|]. apply NoDup_filter; auto.
    + intros x H1 H2. apply (Permutation_in _ P) in H2. unfold rest in H2. apply filter_In in H2.
      destruct H2 as [_ H2]. apply memN_In in H1. rewrite H1 in H2. discriminate.
  - intros f. rewrite in_app_iff. split.
    + intros [H|H]; auto. apply (Permutation_in _ P) in H. unfold rest in H. apply filter_In in H. tauto.
    + intros H. destruct (memN f placed) eqn:M.
      * left. apply memN_In; auto.
      * right. apply (Permutation_in _ (Permutation_sym P)). unfold rest. apply filter_In. rewrite M. auto.
Qed.

(* ------------------------------------------------------------------------------------------ *)
(* order_by_deps                                                                                *)
Lemma remove_first_perm : forall x l, In x l -> Permutation l (x :: remove_first x l).
Proof.
  induction l as [|y l IH]; simpl; intros H; [tauto|].
  destruct (N.eqb_spec y x).
  - subst. auto.
  - destruct H as [H|H]; [congruence|]. eapply perm_trans; [apply perm_skip; apply IH; auto|apply perm_swap].
Qed.

Lemma order_by_deps_perm : forall fuel dep rest placed,
  Permutation (order_by_deps fuel dep rest placed) (rev placed ++ rest).
Proof.
  induction fuel as [|f IH]; intros dep rest placed; simpl; auto.
  destruct (find (ready dep placed) rest) as [x|] eqn:F; auto.
  apply find_some in F. destruct F as [Hin _].
  eapply perm_trans; [apply IH|]. simpl. rewrite <- app_assoc. simpl.
  apply Permutation_app_head. apply Permutation_sym. apply remove_first_perm; auto.
Qed.

Definition before (l : list N) (a b : N) : Prop := exists l1 l2 l3, l = l1 ++ a :: l2 ++ b :: l3.

(* every file of the stack has its dependencies deeper in the stack (= placed earlier) *)
Definition ok_stack (dep : N -> list N) (st : list N) : Prop :=
  forall l1 x l2, st = l1 ++ x :: l2 -> forall d, In d (dep x) -> In d l2.

Lemma ok_stack_push : forall dep st x, ok_stack dep st -> ready dep st x = true -> ok_stack dep (x :: st).
Proof.
  intros dep st x OK R l1 y l2 E d Hd. destruct l1 as [|z l1]; simpl in E; inversion E; subst.
  - unfold ready in R. rewrite forallb_forall in R. apply memN_In. auto.
  - eapply OK; eauto.
Qed.

Lemma exists_min : forall (rank : N -> nat) l, l <> [] -> exists x, In x l /\ forall y, In y l -> rank x <= rank y.
Proof.
  induction l as [|a l IH]; intros H; [congruence|].
  destruct l as [|b l].
  - exists a. simpl. split; auto. intros y [<-|[]]. lia.
  - destruct IH as (m & Hm & Hmin); [discriminate|].
    destruct (le_lt_dec (rank a) (rank m)).
    + exists a. split; [simpl; auto|]. intros y [<-|Hy]; [lia|]. specialize (Hmin y Hy). lia.
    + exists m. split; [simpl; auto|]. intros y [<-|Hy]; [lia|]. auto.
Qed.

Lemma order_by_deps_acyclic : forall (rank : N -> nat) dep fuel rest placed,
  List.length rest <= fuel ->
  ok_stack dep placed ->
  (forall x d, In x rest -> In d (dep x) -> In d placed \/ In d rest) ->
  (forall x d, In x rest -> In d (dep x) -> rank d < rank x) ->
  exists st, order_by_deps fuel dep rest placed = rev st /\ ok_stack dep st.
Proof.
  intros rank dep. induction fuel as [|f IH]; intros rest placed L OK CL AC.
  - destruct rest; [|simpl in L; lia]. simpl. exists placed. rewrite app_nil_r. auto.
  - simpl. destruct rest as [|r0 rest0] eqn:ER.
    + simpl. exists placed. rewrite app_nil_r. auto.
    + rewrite <- ER in *.
      destruct (find (ready dep placed) rest) as [x|] eqn:F.
      * pose proof (find_some _ _ F) as [Hin Hr].
        assert (Permutation rest (x :: remove_first x rest)) as P by (apply remove_first_perm; auto).
        apply IH.
        -- apply Permutation_length in P. simpl in P. lia.
        -- apply ok_stack_push; auto.
        -- intros y d Hy Hd.
           assert (In y rest) as Hy' by (apply (Permutation_in _ (Permutation_sym P)); simpl; auto).
           destruct (CL y d Hy' Hd) as [H|H]; [left; simpl; auto|].
           apply (Permutation_in _ P) in H. destruct H as [<-|H]; [left; simpl; auto|right; auto].
        -- intros y d Hy Hd. apply AC; auto.
           apply (Permutation_in _ (Permutation_sym P)); simpl; auto.
      * (* impossible: the file of minimal rank is ready *)
        exfalso. destruct (exists_min rank rest) as (m & Hm & Hmin); [subst; discriminate|].
        assert (ready dep placed m = true) as R.
        { unfold ready. apply forallb_forall. intros d Hd. apply memN_In.
          destruct (CL m d Hm Hd) as [H|H]; auto.
          specialize (Hmin d H). specialize (AC m d Hm Hd). lia. }
        pose proof (find_none _ _ F m Hm) as X. congruence.
Qed.

Lemma ok_stack_before : forall dep st x d, ok_stack dep st -> In x st -> In d (dep x) -> before (rev st) d x.
Proof.
  intros dep st x d OK Hx Hd. apply in_split in Hx. destruct Hx as (l1 & l2 & E).
  pose proof (OK l1 x l2 E d Hd) as H. apply in_split in H. destruct H as (m1 & m2 & E2).
  subst. exists (rev m2), (rev m1), (rev l1).
  rewrite rev_app_distr. simpl. rewrite rev_app_distr. simpl.
  rewrite <- !app_assoc. simpl. reflexivity.
Qed.

(* ------------------------------------------------------------------------------------------ *)
(* sort_filelist                                                                                *)
Lemma depends_of_listed : forall listed comps u d, In d (depends_of listed comps u) -> In d listed /\ d <> u.
Proof.
  unfold depends_of. intros listed comps u d H. apply in_flat_map in H. destruct H as (c & _ & H).
  destruct c as [|s rest]; [destruct H|]. destruct (s_file s); [|destruct H].
  destruct (N.eqb n u && memN u listed); [|destruct H].
  apply filter_In in H. destruct H as [_ H]. apply andb_prop in H. destruct H as [H1 H2].
  apply memN_In in H2. split; auto. intros ->. rewrite N.eqb_refl in H1. discriminate.
Qed.

Lemma depends_of_intro : forall listed comps s rest t u p,
  In (s :: rest) comps -> s_file s = Some u -> In t rest -> s_file t = Some p -> p <> u ->
  In u listed -> In p listed -> In p (depends_of listed comps u).
Proof.
  intros listed comps s rest t u p Hc Hs Ht Hp Hne Hu Hpl.
  unfold depends_of. apply in_flat_map. exists (s :: rest). split; auto.
  rewrite Hs, N.eqb_refl. apply memN_In in Hu. rewrite Hu. simpl.
  apply filter_In. split.
  - unfold files_of. apply in_flat_map. exists t. rewrite Hp. simpl; auto.
  - apply andb_true_intro. split; [|apply memN_In; auto].
    apply negb_true_iff. apply N.eqb_neq. auto.
Qed.

(* The filelist has no duplicates and lists exactly the used files: the files of `paths` that hold a
   candidate symbol (a symbol of a component rooted in the project, or a project test). *)
Theorem filelist_nodup_complete : forall paths comps topo tests,
  NoDup (sort_filelist paths comps topo tests) /\
  forall f, In f (sort_filelist paths comps topo tests) <->
            (In f paths /\ In f (files_of (candidates comps tests))).
Proof.
  intros paths comps topo tests. unfold sort_filelist.
  set (l := first_symbol_order paths comps topo tests).
  destruct (first_symbol_order_spec paths comps topo tests) as [ND I]. fold l in ND, I.
  pose proof (order_by_deps_perm (List.length l) (depends_of l comps) l []) as P. simpl in P.
  split.
  - eapply Permutation_NoDup; [apply Permutation_sym; exact P|auto].
  - intros f. split.
    + intros H. apply (Permutation_in _ P) in H. apply I in H. unfold used in H.
      rewrite nodupN_In in H. apply filter_In in H. destruct H as [H1 H2]. apply memN_In in H2. auto.
    + intros [H1 H2]. apply (Permutation_in _ (Permutation_sym P)). apply I. unfold used.
      rewrite nodupN_In. apply filter_In. split; auto. apply memN_In; auto.
Qed.

(* Whenever the references between listed files are acyclic (a rank exists that every dependency
   decreases), every listed file comes after every listed file it depends on. *)
Theorem filelist_respects_deps : forall paths comps topo tests (rank : N -> nat),
  let l := first_symbol_order paths comps topo tests in
  (forall u d, In u l -> In d (depends_of l comps u) -> rank d < rank u) ->
  forall u d, In u l -> In d (depends_of l comps u) ->
  before (sort_filelist paths comps topo tests) d u.
Proof.
  intros paths comps topo tests rank l AC u d Hu Hd. unfold sort_filelist. fold l.
  destruct (order_by_deps_acyclic rank (depends_of l comps) (List.length l) l []) as (st & E & OK); auto.
  - intros l1 x l2 X. destruct l1; discriminate.
  - intros x d' _ Hd'. right. apply depends_of_listed in Hd'. tauto.
  - rewrite E. eapply ok_stack_before; eauto.
    pose proof (order_by_deps_perm (List.length l) (depends_of l comps) l []) as P. simpl in P.
    rewrite E in P. apply in_rev. apply (Permutation_in _ (Permutation_sym P)). auto.
Qed.

(* the same, phrased on components: s :: rest is "symbol s depends on every symbol of rest" *)
Corollary filelist_definition_before_user : forall paths comps topo tests (rank : N -> nat),
  let l := first_symbol_order paths comps topo tests in
  (forall u d, In u l -> In d (depends_of l comps u) -> rank d < rank u) ->
  forall s rest t u p,
    In (s :: rest) comps -> s_file s = Some u -> In t rest -> s_file t = Some p -> p <> u ->
    In u l -> In p l ->
    before (sort_filelist paths comps topo tests) p u.
Proof.
  intros. eapply filelist_respects_deps; eauto. eapply depends_of_intro; eauto.
Qed.

(* ---- the multi-symbol file -------------------------------------------------------------------
   f0 = {E}, f1 = {A uses E, B uses C}, f2 = {C}; toposort C, B, E, A.  Placing a file at its first
   symbol (the order before the dependency pass, and the whole algorithm before the repair) lists
   f1 before f0 although A (f1) instantiates E (f0) and the file references are acyclic. *)
Local Open Scope N_scope.
Definition ms_E := mkSym (Some 0) true true.
Definition ms_A := mkSym (Some 1) true true.
Definition ms_B := mkSym (Some 1) true true.
Definition ms_C := mkSym (Some 2) true true.
Definition ms_comps := [[ms_E]; [ms_A; ms_E]; [ms_B; ms_C]; [ms_C]].
Definition ms_topo := [ms_C; ms_B; ms_E; ms_A].
Definition ms_rank (f : N) : nat := match f with 1 => 1%nat | _ => 0%nat end.

Lemma multi_symbol_file_witness :
  first_symbol_order [0; 1; 2] ms_comps ms_topo [] = [2; 1; 0] /\
  In 0 (depends_of [2; 1; 0] ms_comps 1) /\
  (forall u d, In u [2; 1; 0] -> In d (depends_of [2; 1; 0] ms_comps u) -> (ms_rank d < ms_rank u)%nat) /\
  sort_filelist [0; 1; 2] ms_comps ms_topo [] = [2; 0; 1].
Proof.
  split; [reflexivity|]. split; [vm_compute; auto|]. split; [|reflexivity].
  intros u d Hu Hd. simpl in Hu. destruct Hu as [<-|[<-|[<-|[]]]]; vm_compute in Hd.
  - destruct Hd.
  - destruct Hd as [<-|[<-|[]]]; vm_compute; lia.
  - destruct Hd.
Qed.

(* ------------------------------------------------------------------------------------------ *)
(* path mapping                                                                                 *)
Local Open Scope list_scope.
Lemma las_app : forall a b, list_ascii_of_string (a ++ b)%string = list_ascii_of_string a ++ list_ascii_of_string b.
Proof. induction a; simpl; intros; auto. f_equal. auto. Qed.

Lemma string_app_inv_tail : forall a b c : string, (a ++ c = b ++ c)%string -> a = b.
Proof.
  intros a b c H. apply (f_equal list_ascii_of_string) in H. rewrite !las_app in H.
  apply app_inv_tail in H. rewrite <- (string_of_list_ascii_of_string a), <- (string_of_list_ascii_of_string b), H.
  reflexivity.
Qed.

Lemma ext_inj : forall s1 s2 e, ext s1 e = ext s2 e -> s1 = s2.
Proof. unfold ext. intros. eapply string_app_inv_tail; eauto. Qed.

Lemma tail_inj : forall (x : path) rel1 rel2 s1 s2 e,
  x ++ rel1 ++ [ext s1 e] = x ++ rel2 ++ [ext s2 e] -> rel1 = rel2 /\ s1 = s2.
Proof.
  intros x rel1 rel2 s1 s2 e H. apply app_inv_head in H. apply app_inj_tail in H.
  destruct H as [-> H]. split; auto. eapply ext_inj; eauto.
Qed.

(* Two different source files of ONE source directory never share an output path or a source-map
   path, for every target / sourcemap_target / --out-dir combination. *)
Theorem dst_injective_same_root : forall L root root_rel rel1 stem1 rel2 stem2,
  dst_of L root root_rel rel1 stem1 = dst_of L root root_rel rel2 stem2 -> rel1 = rel2 /\ stem1 = stem2.
Proof.
  intros L root root_rel rel1 stem1 rel2 stem2. unfold dst_of, dst_rel.
  destruct (tgt L) as [|p|]; [destruct (overridden L)| |]; intros H.
  - exact (tail_inj _ _ _ _ _ _ H).
  - exact (tail_inj _ _ _ _ _ _ H).
  - apply (tail_inj (out_base L ++ p) _ _ _ _ "sv"). rewrite <- !app_assoc. exact H.
  - apply (tail_inj (out_base L ++ ["target"%string]) _ _ _ _ "sv"). rewrite <- !app_assoc. exact H.
Qed.

Theorem map_injective_same_root : forall L root root_rel rel1 stem1 rel2 stem2,
  map_of L root root_rel rel1 stem1 = map_of L root root_rel rel2 stem2 -> rel1 = rel2 /\ stem1 = stem2.
Proof.
  intros L root root_rel rel1 stem1 rel2 stem2. unfold map_of, dst_of, dst_rel.
  assert (forall (x : path) r s, removelast (x ++ r ++ [ext s "sv"]) = x ++ r) as RL.
  { intros. rewrite app_assoc. apply removelast_last. }
  assert (forall (x y : path) r s, removelast (x ++ y ++ r ++ [ext s "sv"]) = x ++ y ++ r) as RL2.
  { intros. rewrite !app_assoc. rewrite removelast_last. reflexivity. }
  assert (forall r s, removelast (r ++ [ext s "sv"]) = r) as RL0.
  { intros. apply removelast_last. }
  destruct (mtgt L) as [|mp|]; destruct (tgt L) as [|p|]; try destruct (overridden L); intros H;
    repeat rewrite ?RL2, ?RL, ?RL0 in H; rewrite <- ?app_assoc in H.
  all: try exact (tail_inj _ _ _ _ _ _ H).
  all: try (apply (tail_inj (out_base L ++ p) _ _ _ _ "sv.map"); rewrite <- !app_assoc; exact H).
  all: try (apply (tail_inj (out_base L ++ mp) _ _ _ _ "sv.map"); rewrite <- !app_assoc; exact H).
  all: try (apply (tail_inj (out_base L ++ ["target"%string]) _ _ _ _ "sv.map"); rewrite <- !app_assoc; exact H).
  all: try (apply (tail_inj (out_base L ++ mp ++ root_rel) _ _ _ _ "sv.map"); rewrite <- !app_assoc; exact H).
  all: try (apply (tail_inj (out_base L ++ mp ++ ["target"%string]) _ _ _ _ "sv.map"); rewrite <- !app_assoc; exact H).
Qed.

(* dependency files: distinct (lock name, relative path, stem) -> distinct outputs *)
Theorem dep_dst_injective : forall base n1 rel1 s1 n2 rel2 s2,
  dep_dst base n1 rel1 s1 = dep_dst base n2 rel2 s2 -> n1 = n2 /\ rel1 = rel2 /\ s1 = s2.
Proof.
  unfold dep_dst. intros base n1 rel1 s1 n2 rel2 s2 H. apply app_inv_head in H. simpl in H.
  inversion H as [[Hn H']]. split; auto. exact (tail_inj [] _ _ _ _ _ H').
Qed.

(* FINDING: two source directories holding the same relative path collide under a directory target *)
Lemma dst_two_roots_witness :
  let L := mkLayout ["prj"%string] false (TDirectory ["target"%string]) MTarget in
  dst_of L ["prj"; "src"]%string ["src"%string] [] "a" = dst_of L ["prj"; "rtl"]%string ["rtl"%string] [] "a" /\
  map_of L ["prj"; "src"]%string ["src"%string] [] "a" = map_of L ["prj"; "rtl"]%string ["rtl"%string] [] "a".
Proof. split; reflexivity. Qed.
