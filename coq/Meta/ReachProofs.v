(* Meta/ReachProofs.v — gen_locks only depends on the lock table through the resolve_version
   queries of REACHABLE declarations; consequence for update after new (C31). *)
From Coq Require Import String Ascii Bool Arith NArith ZArith List Lia Sorting.Sorted.
From VV Require Import Meta.ResolveModel Meta.ResolveProofs.
Import ListNotations.
Local Open Scope list_scope.

Section Reach.
  Variable version req : Type.
  Variable vleb : version -> version -> bool.
  Variable matches : req -> version -> bool.
  Notation lock := (lock version).
  Notation table := (table version).
  Notation world := (world version req).
  Notation metadata := (metadata req).

  Variable w : world.
  Variable root_md : metadata.

  (* metadata reachable from the root declarations when every requirement is resolved against
     the published releases only (empty lock table); the flag says whether it is the root *)
  Inductive reach : bool -> metadata -> Prop :=
  | reach_root : reach true root_md
  | reach_step : forall rootf md d dep md',
      reach rootf md -> In d (m_decls md) ->
      resolve_dependency vleb matches w [] false d rootf = Ok dep ->
      get_metadata w (ld_source dep) = Ok md' ->
      reach false md'.

  Variable t : table.

  (* the lock table answers every reachable requirement like the published releases do *)
  Definition agree : Prop :=
    forall rootf md d u prj rq ovr, reach rootf md -> In d (m_decls md) -> d_spec d = DGit u prj rq ovr ->
      resolve_version vleb matches w t false u prj rq = resolve_version vleb matches w [] false u prj rq.

  Hypothesis AG : agree.

  Lemma rd_agree : forall rootf md d flag, reach rootf md -> In d (m_decls md) ->
    resolve_dependency vleb matches w t false d flag = resolve_dependency vleb matches w [] false d flag.
  Proof.
    intros rootf md d flag R Hd. unfold resolve_dependency.
    destruct (d_spec d) as [u prj rq ovr|p|] eqn:S; auto.
    rewrite (AG rootf md d u prj rq ovr R Hd S). reflexivity.
  Qed.

  Lemma resolve_all_agree : forall ds flag,
    (forall d, In d ds -> resolve_dependency vleb matches w t false d flag
                          = resolve_dependency vleb matches w [] false d flag) ->
    resolve_all vleb matches w t false ds flag = resolve_all vleb matches w [] false ds flag.
  Proof.
    induction ds as [|d ds IH]; intros flag H; simpl; auto.
    rewrite H by (simpl; auto). rewrite IH by (intros; apply H; simpl; auto). reflexivity.
  Qed.

  Lemma decl_order_In : forall (ds : list (decl req)) d, In d (decl_order ds) <-> In d ds.
  Proof. intros. unfold decl_order. apply isort_In. Qed.

  (* one project's pass: same result, and every metadata it hands on is reachable *)
  Lemma level_agree : forall rootf md, reach rootf md ->
    forall ds, (forall d, In d ds -> In d (m_decls md)) ->
    forall st ret metas,
      level vleb matches w t false ds rootf st ret metas
      = level vleb matches w [] false ds rootf st ret metas.
  Proof.
    intros rootf md R. induction ds as [|d ds IH]; intros Hds st ret metas; simpl; auto.
    rewrite (rd_agree rootf md d rootf R) by (apply Hds; simpl; auto).
    destruct (resolve_dependency vleb matches w [] false d rootf) as [dep|e] eqn:RD; simpl; auto.
    destruct (get_metadata w (ld_source dep)) as [md'|e] eqn:GM; simpl; auto.
    destruct (pick_name st (d_name d) rootf) as [name|e]; simpl; auto.
    destruct (override_all (m_props md') (d_props d)) as [ps|e]; simpl; auto.
    assert (reach false md') as R' by (eapply reach_step; eauto; apply Hds; simpl; auto).
    rewrite (resolve_all_agree (decl_order (m_decls md')) rootf).
    - destruct (resolve_all vleb matches w [] false (decl_order (m_decls md')) rootf); simpl; auto.
      match goal with |- (if ?c then _ else _) = _ => destruct c end.
      + destruct rootf; auto. apply IH. intros; apply Hds; simpl; auto.
      + apply IH. intros; apply Hds; simpl; auto.
    - intros d' Hd'. apply (rd_agree false md' d' rootf R'). apply decl_order_In; auto.
  Qed.

  Lemma level_metas_reach : forall rootf md, reach rootf md ->
    forall ds, (forall d, In d ds -> In d (m_decls md)) ->
    forall st ret metas ret' metas' st',
      level vleb matches w [] false ds rootf st ret metas = Ok (ret', metas', st') ->
      (forall m, In m metas -> reach false m) -> forall m, In m metas' -> reach false m.
  Proof.
    intros rootf md R. induction ds as [|d ds IH]; intros Hds st ret metas ret' metas' st' H HM; simpl in H.
    - inversion H; subst. auto.
    - destruct (resolve_dependency vleb matches w [] false d rootf) as [dep|e] eqn:RD; simpl in H; [|discriminate].
      destruct (get_metadata w (ld_source dep)) as [md'|e] eqn:GM; simpl in H; [|discriminate].
      destruct (pick_name st (d_name d) rootf) as [name|e]; simpl in H; [|discriminate].
      destruct (override_all (m_props md') (d_props d)) as [ps|e]; simpl in H; [|discriminate].
      destruct (resolve_all vleb matches w [] false (decl_order (m_decls md')) rootf); simpl in H; [|discriminate].
      assert (reach false md') as R' by (eapply reach_step; eauto; apply Hds; simpl; auto).
      match type of H with (if ?c then _ else _) = _ => destruct c end.
      + destruct rootf; [discriminate|]. eapply IH; eauto. intros; apply Hds; simpl; auto.
      + eapply IH; eauto. intros; apply Hds; simpl; auto.
        intros m Hm. apply in_app_or in Hm. destruct Hm as [Hm|[<-|[]]]; auto.
  Qed.

  Lemma subs_agree : forall (f1 f2 : metadata -> gstate -> res (list lock * gstate)) ms,
    (forall m s, In m ms -> f1 m s = f2 m s) ->
    forall acc s, subs f1 ms acc s = subs f2 ms acc s.
  Proof.
    induction ms as [|m ms IH]; intros H acc s; simpl; auto.
    rewrite H by (simpl; auto). destruct (f2 m s) as [[l s']|e]; simpl; auto.
    apply IH. intros; apply H; simpl; auto.
  Qed.

  Lemma gen_locks_agree : forall fuel rootf md st, reach rootf md ->
    gen_locks vleb matches fuel w t false md rootf st = gen_locks vleb matches fuel w [] false md rootf st.
  Proof.
    induction fuel as [|f IH]; intros rootf md st R; simpl; auto.
    rewrite (level_agree rootf md R) by (intros d Hd; apply decl_order_In; auto).
    destruct (level vleb matches w [] false (decl_order (m_decls md)) rootf st [] []) as [[[ret metas] st1]|e] eqn:L;
      simpl; auto.
    apply subs_agree. intros m s Hm. apply IH.
    assert (forall d, In d (decl_order (m_decls md)) -> In d (m_decls md)) as Hds
        by (intros d Hd; apply decl_order_In; auto).
    apply (level_metas_reach rootf md R _ Hds st [] [] ret metas st1 L); auto.
    intros m0 [].
  Qed.

  Lemma gen_top_agree :
    gen_top vleb matches w t false root_md = gen_top vleb matches w [] false root_md.
  Proof.
    unfold gen_top. rewrite gen_locks_agree by apply reach_root. reflexivity.
  Qed.
End Reach.

(* update right after new: if the table just built answers every reachable requirement like the
   published releases do, update reports modified = false and leaves the table unchanged *)
Theorem update_after_new_unmodified :
  forall (version req : Type) (vleb : version -> version -> bool) (matches : req -> version -> bool)
         (w : world version req) (md : metadata req) (t : table version),
    lockfile_new vleb matches w md = Ok t ->
    agree version req vleb matches w md t ->
    lockfile_update vleb matches w t md false = Ok (false, t).
Proof.
  intros version req vleb matches w md t HN AG.
  unfold lockfile_new in HN.
  destruct (gen_top vleb matches w [] false md) as [ls|e] eqn:G; simpl in HN; [|discriminate].
  inversion HN; subst t. apply update_stable_unmodified.
  rewrite (gen_top_agree version req vleb matches w md (table_of_locks vleb ls) AG). exact G.
Qed.

(* non-vacuity: in the world of the finding, the table built by `new` satisfies `agree` *)
Local Open Scope N_scope.
Local Open Scope string_scope.
Lemma ex_reach_cases : forall rootf md,
  reach N N N.leb (nmatches ex_mt) ex_world ex_root rootf md ->
  md = ex_root \/ md = mkMeta [] [] \/ md = mkMeta [] [mkDecl "p" (DGit 0 0 1 None) []].
Proof.
  induction 1 as [ | rootf md d dep md' R IH Hd RD GM]; auto.
  destruct IH as [ -> | [ -> | -> ] ]; simpl in Hd.
  - destruct Hd as [ <- | [ <- | [] ] ]; destruct rootf; vm_compute in RD; inversion RD; subst;
      vm_compute in GM; inversion GM; auto.
  - destruct Hd.
  - destruct Hd as [ <- | [] ]; destruct rootf; vm_compute in RD; inversion RD; subst;
      vm_compute in GM; inversion GM; auto.
Qed.

Example agree_example :
  exists t, lockfile_new N.leb (nmatches ex_mt) ex_world ex_root = Ok t /\
            agree N N N.leb (nmatches ex_mt) ex_world ex_root t /\
            lockfile_update N.leb (nmatches ex_mt) ex_world t ex_root false = Ok (false, t).
Proof.
  eexists. split; [vm_compute; reflexivity|]. split; [|vm_compute; reflexivity].
  intros rootf md d u prj rq ovr R Hd S.
  destruct (ex_reach_cases rootf md R) as [ -> | [ -> | -> ] ]; simpl in Hd.
  - destruct Hd as [ <- | [ <- | [] ] ]; simpl in S; inversion S; subst; vm_compute; reflexivity.
  - destruct Hd.
  - destruct Hd as [ <- | [] ]; simpl in S; inversion S; subst; vm_compute; reflexivity.
Qed.
