(* Proofs for C13 on top of the renderer model and its anchor theorem (C28):
   - no u32 underflow in SourceMap::add
   - every entry's 0-based dst position is where its name starts in the rendered text
   - entries are sorted by output position (the renderer only appends, except for the
     DedentHardline truncation, which removes spaces that follow every anchored text)
   - the entries are exactly the document's anchored fragments, in order *)
From VV Require Import Pretty.Render Pretty.RenderContent Pretty.RenderAnchors Pos.SourceMapModel.
From Coq Require Import Sorting.Sorted.
Open Scope N_scope.

Definition apos (a : anchor) : N * N := (a_dl a, a_dc a).
Definition endpos (st : state) : N * N := (cur_line st, col st + 1).

Lemma ple_refl p : ple p p.
Proof. right. split; [reflexivity|lia]. Qed.

Lemma ple_trans p q r : ple p q -> ple q r -> ple p r.
Proof. unfold ple. intros [H|[H1 H2]] [K|[K1 K2]]; [left|left|left|right]; try lia. Qed.

(* an anchor located in the output lies at or before the end of the output *)
Lemma located_le_end st a : Good0 st -> located (rout st) a -> ple (apos a) (endpos st).
Proof.
  intros [Hl Hc _] (rpost & rpre & E & H1 & H2). unfold out in *.
  assert (Ho : rev (rout st) = rev rpre ++ (a_text a ++ rev rpost)).
  { rewrite E, !rev_app_distr, rev_involutive, app_assoc. reflexivity. }
  unfold ple, apos, endpos. cbn [fst snd].
  rewrite Hl, Hc, Ho, count_nl_app, lll_app, H1, H2.
  destruct (count_nl (a_text a ++ rev rpost) =? 0) eqn:Ez.
  - apply N.eqb_eq in Ez. right. split; lia.
  - apply N.eqb_neq in Ez. left. lia.
Qed.

(* newest first: every older anchor is at or before every newer one *)
Fixpoint desc (l : list anchor) : Prop :=
  match l with
  | [] => True
  | a :: r => Forall (fun b => ple (apos b) (apos a)) r /\ desc r
  end.

Definition Inv2 (st : state) : Prop := Inv st /\ desc (ranchors st).

Lemma Inv2_same st st' : Inv st' -> ranchors st' = ranchors st -> Inv2 st -> Inv2 st'.
Proof. intros H E [_ D]. split; [exact H|]. rewrite E. exact D. Qed.

Lemma desc_cons_at_end st st1 a :
  Good0 st1 -> Forall (located (rout st1)) (ranchors st) -> desc (ranchors st) ->
  apos a = endpos st1 -> desc (a :: ranchors st).
Proof.
  intros G HA D Ea. split; [|exact D].
  eapply Forall_impl; [|exact HA]. intros b Hb. cbv beta. rewrite Ea.
  apply located_le_end; assumption.
Qed.

Lemma Inv2_emit_anchored o i s sl sc st :
  ends_nonsp s = true -> Inv2 st -> Inv2 (emit_anchored o i s sl sc st).
Proof.
  intros Hs [HI D]. split; [apply Inv_emit_anchored; assumption|].
  destruct HI as ((G & _) & HA & _).
  unfold emit_anchored. rewrite ranchors_put_text. cbn [ranchors].
  rewrite ranchors_flush_wi.
  destruct (Good0_flush_wi o i st G) as [G1 _].
  eapply desc_cons_at_end; [exact G1| |exact D|reflexivity].
  pose proof (AnchOK_flush_wi o i st HA) as H. unfold AnchOK in H.
  rewrite ranchors_flush_wi in H. exact H.
Qed.

(* the state of render_comment after the leading separator (st1 in the model) *)
Definition comment_lead (o : opts) (indent : Z) (st : state) (c : comment) : state :=
  let pad_width := pad_for o indent in
  let pre_swallow := swallow st in
  let pend := match pending st with Some _ => true | None => false end in
  if (c_lead c =? 0) && negb pre_swallow && negb pend
  then if 0 <? col st
       then mkState (SP :: rout st) (col st + 1) (cur_line st) false (pending st) (ranchors st)
       else mkState (rout st) (col st) (cur_line st) false (pending st) (ranchors st)
  else
    let already := if pre_swallow || pend then 1 else 0 in
    let to_emit := N.max (c_lead c) 1 - already in
    let ro := N.iter to_emit (push (newline o)) (rout st) in
    mkState (push (spaces pad_width) ro) pad_width (cur_line st + to_emit) false None
            (ranchors st).

Lemma comment_lead_facts o i st c :
  nl_pos o -> Inv st ->
  let st1 := comment_lead o i st c in
  Good0 st1 /\ Forall (located (rout st1)) (ranchors st) /\ ranchors st1 = ranchors st.
Proof.
  intros Hnl ((G & Hsw) & HA & HT). pose proof Hnl as [N1 N2].
  unfold comment_lead.
  set (pend := match pending st with Some _ => true | None => false end).
  destruct ((c_lead c =? 0) && negb (swallow st) && negb pend) eqn:E.
  - apply andb_true_iff in E as [E Ep]. apply andb_true_iff in E as [_ Es].
    assert (Hpn : pending st = None).
    { subst pend. destruct (pending st); [discriminate|reflexivity]. }
    destruct (0 <? col st).
    + split; [|split]; cbn [pending swallow ranchors rout]; auto.
      * eapply (Good0_push_nonl [SP]); try exact G; cbn [rout col cur_line pending]; auto.
      * eapply Forall_impl; [|exact HA]. intros a. apply located_cons.
    + split; [|split]; cbn [pending swallow ranchors rout]; auto.
      destruct G as [Hl Hc Hp]. constructor; auto.
  - clear E.
    set (already := if swallow st || pend then 1 else 0).
    set (k := N.max (c_lead c) 1 - already).
    split; [|split]; cbn [pending swallow ranchors rout col cur_line]; auto.
    + destruct G as [Hl Hc Hp]. unfold out in *.
      constructor; unfold out; cbn [pending swallow ranchors rout col cur_line].
      * rewrite rev_push, count_nl_app, count_nl_spaces, count_nl_iter by assumption.
        rewrite Hl. lia.
      * rewrite rev_push, lll_app, count_nl_spaces. simpl. rewrite len_spaces.
        rewrite lll_iter by assumption.
        destruct (k =? 0) eqn:Ek; [|lia].
        apply N.eqb_eq in Ek.
        assert (Hal : swallow st || pend = true).
        { destruct (swallow st || pend) eqn:Eo; auto. subst k already. lia. }
        assert (Hpn : pending st <> None).
        { apply orb_true_iff in Hal as [Hs|Hp']; [auto|].
          subst pend. destruct (pending st); [discriminate|discriminate]. }
        rewrite <- Hc, (Hp Hpn). lia.
      * congruence.
    + eapply Forall_impl; [|exact HA]. intros a Ha.
      apply located_push. apply located_iter_push. exact Ha.
Qed.

Lemma ranchors_render_comment o i st c :
  ranchors (render_comment o i st c) =
  let st1 := comment_lead o i st c in
  if negb (c_sl c =? 0) && negb (c_sc c =? 0)
  then mkAnchor (cur_line st1) (col st1 + 1) (c_sl c) (c_sc c) (c_text c) :: ranchors st1
  else ranchors st1.
Proof.
  unfold render_comment. fold (comment_lead o i st c).
  set (st1 := comment_lead o i st c). cbv zeta.
  destruct (negb (c_sl c =? 0) && negb (c_sc c =? 0));
    destruct (c_is_line c); try reflexivity;
    destruct (0 <? count_nl (c_text c)); reflexivity.
Qed.

Lemma Inv2_render_comment o i st c :
  nl_pos o -> comment_ok c = true -> Inv2 st -> Inv2 (render_comment o i st c).
Proof.
  intros Hnl Hok [HI D]. split; [apply Inv_render_comment; assumption|].
  rewrite ranchors_render_comment. cbv zeta.
  destruct (comment_lead_facts o i st c Hnl HI) as (G1 & A1 & R1).
  rewrite R1.
  destruct (negb (c_sl c =? 0) && negb (c_sc c =? 0)); [|exact D].
  eapply desc_cons_at_end; [exact G1|exact A1|exact D|reflexivity].
Qed.

Lemma Inv2_render_comments o i cs :
  nl_pos o -> forallb comment_ok cs = true ->
  forall st, Inv2 st -> Inv2 (render_comments o i cs st).
Proof.
  intros Hnl. unfold render_comments. induction cs as [|c cs IH]; intros Hok st H; simpl; auto.
  simpl in Hok. apply andb_true_iff in Hok as [H1 H2].
  apply IH; auto. apply Inv2_render_comment; auto.
Qed.

Lemma Inv2_render_doc o (Hnl : nl_pos o) d :
  wf_pos d = true ->
  forall indent m k st, Inv2 st -> Inv2 (render_doc o indent m d k st).
Proof.
  induction d as [ |s|l IH|off d IH|d IH|d IH|sep| |lvl|cs|s|w|w|w|s a b] using doc_ind2;
    intros Hwf indent m k st H; cbn [render_doc]; cbn [wf_pos] in Hwf.
  - exact H.
  - eapply Inv2_same; [apply Inv_text; apply H| |exact H].
    rewrite ranchors_put_text, ranchors_flush_wi. reflexivity.
  - revert k st H. induction IH as [|x xs Hx Hxs IHl]; intros k st H; [exact H|].
    cbn [forallb] in Hwf. apply andb_true_iff in Hwf as [W1 W2].
    apply IHl; [exact W2|]. apply Hx; assumption.
  - apply IH; assumption.
  - destruct m; [|destruct (fits_flat d k _)]; apply IH; assumption.
  - apply IH; assumption.
  - apply N.eqb_eq in Hwf. destruct m.
    + eapply Inv2_same; [apply Inv_put_flat; [assumption|apply H]| |exact H].
      unfold put_flat. cbn [ranchors]. apply ranchors_flush.
    + eapply Inv2_same; [apply Inv_emit_break; [assumption|apply H]| |exact H].
      apply ranchors_emit_break.
  - destruct m.
    + eapply Inv2_same; [apply Inv_flat_space; apply H| |exact H].
      unfold flat_space. cbn [ranchors]. apply ranchors_flush.
    + eapply Inv2_same; [apply Inv_emit_break; [assumption|apply H]| |exact H].
      apply ranchors_emit_break.
  - destruct m.
    + eapply Inv2_same; [apply Inv_flat_space; apply H| |exact H].
      unfold flat_space. cbn [ranchors]. apply ranchors_flush.
    + eapply Inv2_same; [apply Inv_emit_break; [assumption|apply Inv_dedent_trunc; apply H]| |exact H].
      rewrite ranchors_emit_break. apply ranchors_dedent_trunc.
  - apply Inv2_render_comments; assumption.
  - apply N.eqb_eq in Hwf. destruct m; [exact H|].
    eapply Inv2_same; [apply Inv_put_flat_wi; [assumption|apply H]| |exact H].
    unfold put_flat. cbn [ranchors]. apply ranchors_flush_wi.
  - destruct m; [exact H|]. destruct (0 <? w); [|exact H].
    eapply Inv2_same; [apply Inv_put_spaces; apply H| |exact H].
    unfold put_spaces. cbn [ranchors]. apply ranchors_flush_wi.
  - destruct (0 <? w); [|exact H].
    eapply Inv2_same; [apply Inv_put_spaces; apply H| |exact H].
    unfold put_spaces. cbn [ranchors]. apply ranchors_flush_wi.
  - destruct m; [|exact H]. destruct (0 <? w); [|exact H].
    eapply Inv2_same; [apply Inv_put_spaces; apply H| |exact H].
    unfold put_spaces. cbn [ranchors]. apply ranchors_flush_wi.
  - apply Inv2_emit_anchored; assumption.
Qed.

Lemma Inv2_init : Inv2 init_state.
Proof. split; [apply Inv_init|exact I]. Qed.

(* ---------------------------------------------------------------- sortedness *)

Definition asc (l : list anchor) : Prop :=
  StronglySorted (fun a b => ple (apos a) (apos b)) l.

Lemma asc_snoc l a : asc l -> Forall (fun b => ple (apos b) (apos a)) l -> asc (l ++ [a]).
Proof.
  unfold asc. induction l as [|x l IH]; intros Hs Hf; simpl.
  - constructor; constructor.
  - inversion Hs; subst. inversion Hf; subst. constructor.
    + apply IH; assumption.
    + apply Forall_app. split; [assumption|]. constructor; [assumption|constructor].
Qed.

Lemma desc_asc_rev l : desc l -> asc (rev l).
Proof.
  induction l as [|a r IH]; intros H; simpl.
  - constructor.
  - destruct H as [Hf Hd]. apply asc_snoc; [apply IH; exact Hd|].
    apply Forall_rev. exact Hf.
Qed.

Theorem anchors_sorted o d :
  nl_pos o -> wf_pos d = true -> asc (render_anchors o d).
Proof.
  intros Hnl Hwf. unfold render_anchors. apply desc_asc_rev.
  apply (Inv2_render_doc o Hnl d Hwf 0%Z Break [] init_state Inv2_init).
Qed.

Definition entries_asc (l : list entry) : Prop :=
  StronglySorted (fun a b => ple (epos a) (epos b)) l.

Lemma ple_dec1 a b :
  1 <= a_dl a -> 1 <= a_dc a -> 1 <= a_dl b -> 1 <= a_dc b ->
  ple (apos a) (apos b) -> ple (epos (sm_entry a)) (epos (sm_entry b)).
Proof. unfold ple, apos, epos, sm_entry. cbn [fst snd e_dl e_dc]. lia. Qed.

(* anchors carry 1-based destination positions *)
Lemma anchor_dst_pos o d :
  nl_pos o -> wf_pos d = true ->
  forall a, In a (render_anchors o d) -> 1 <= a_dl a /\ 1 <= a_dc a.
Proof.
  intros Hnl Hwf a Ha.
  destruct (anchor_points_at_text_raw o d Hnl Hwf a Ha) as (pre & post & _ & H1 & H2).
  unfold line_after, column_after in *. lia.
Qed.

Theorem entries_sorted o d :
  nl_pos o -> wf_pos d = true -> entries_asc (source_map_entries o d).
Proof.
  intros Hnl Hwf. unfold source_map_entries, entries_asc.
  pose proof (anchors_sorted o d Hnl Hwf) as Hs.
  pose proof (anchor_dst_pos o d Hnl Hwf) as Hp.
  unfold asc in Hs.
  induction Hs as [|a l Hl IH Hf]; simpl; constructor.
  - apply IH. intros b Hb. apply Hp. now right.
  - apply Forall_forall. intros e He. apply in_map_iff in He as (b & <- & Hb).
    rewrite Forall_forall in Hf.
    destruct (Hp a (or_introl eq_refl)) as [A1 A2].
    destruct (Hp b (or_intror Hb)) as [B1 B2].
    apply ple_dec1; auto.
Qed.

(* ---------------------------------------------------------------- dst position *)

(* 0-based position at which [pre] ends *)
Definition text_at0 (output : str) (line column : N) (text : str) : Prop :=
  exists pre post, output = pre ++ text ++ post /\
                   line = count_nl pre /\ column = last_line_len pre.

Theorem map_dst_correct o d :
  nl_pos o -> wf_pos d = true ->
  forall e, In e (source_map_entries o d) ->
  text_at0 (rev (rout (raw_render o d))) (e_dl e) (e_dc e) (e_name e).
Proof.
  intros Hnl Hwf e He. unfold source_map_entries in He.
  apply in_map_iff in He as (a & <- & Ha).
  destruct (anchor_points_at_text_raw o d Hnl Hwf a Ha) as (pre & post & E & H1 & H2).
  exists pre, post. split; [exact E|]. unfold line_after, column_after in *.
  cbn [sm_entry e_dl e_dc]. lia.
Qed.

(* ---------------------------------------------------------------- no underflow, completeness *)

Lemma wf_src_doc_anchors d :
  wf_src d = true -> Forall (fun x => 1 <= fst (fst x) /\ 1 <= snd (fst x)) (doc_anchors d).
Proof.
  induction d as [ |s|l IH|off d IH|d IH|d IH|sep| |lvl|cs|s|w|w|w|s a b] using doc_ind2;
    intros H; cbn [doc_anchors wf_src] in *; try (constructor; fail); auto.
  - induction IH as [|x xs Hx Hxs IHl]; simpl; [constructor|].
    cbn [forallb] in H. apply andb_true_iff in H as [W1 W2].
    apply Forall_app. split; auto.
  - induction cs as [|c cs IHc]; simpl; [constructor|].
    apply Forall_app. split; [|exact IHc].
    destruct (c_sl c =? 0) eqn:E1; simpl; [constructor|].
    destruct (c_sc c =? 0) eqn:E2; simpl; [constructor|].
    apply N.eqb_neq in E1, E2. constructor; [|constructor]. cbn [fst snd]. lia.
  - apply andb_true_iff in H as [E1 E2].
    apply negb_true_iff in E1, E2. apply N.eqb_neq in E1, E2.
    constructor; [|constructor]. cbn [fst snd]. lia.
Qed.

Lemma sm_add_entry a :
  1 <= a_dl a -> 1 <= a_dc a -> 1 <= a_sl a -> 1 <= a_sc a -> sm_add a = Some (sm_entry a).
Proof.
  intros A B C D.
  assert (Hd : forall x, 1 <= x -> dec x = Some (x - 1)).
  { intros x Hx. unfold dec. destruct (x =? 0) eqn:E; [apply N.eqb_eq in E; lia|reflexivity]. }
  unfold sm_add. rewrite (Hd _ A), (Hd _ B), (Hd _ C), (Hd _ D). reflexivity.
Qed.

(* SourceMap::add never underflows, so the map built by Emitter::emit is exactly the list of
   0-based entries *)
Theorem add_no_underflow o d :
  nl_pos o -> wf_pos d = true -> wf_src d = true ->
  source_map o d = map Some (source_map_entries o d).
Proof.
  intros Hnl Hwf Hsrc. unfold source_map, source_map_entries. rewrite map_map.
  apply map_ext_in. intros a Ha.
  destruct (anchor_dst_pos o d Hnl Hwf a Ha) as [D1 D2].
  pose proof (wf_src_doc_anchors d Hsrc) as Hf.
  rewrite <- (anchors_are_documents o d) in Hf. rewrite Forall_forall in Hf.
  specialize (Hf (src_of a) (in_map src_of _ _ Ha)). cbn [src_of fst snd] in Hf.
  apply sm_add_entry; tauto.
Qed.

(* one entry per anchored fragment / positioned comment of the document, in document order,
   carrying its (0-based) source position and its text: nothing anchored is left unmapped *)
Theorem entries_are_documents o d :
  map (fun e => (e_sl e + 1, e_sc e + 1, e_name e)) (source_map_entries o d) =
  map (fun x => (fst (fst x) - 1 + 1, snd (fst x) - 1 + 1, snd x)) (doc_anchors d).
Proof.
  rewrite <- (anchors_are_documents o d). unfold source_map_entries. rewrite !map_map.
  apply map_ext. intros a. reflexivity.
Qed.
