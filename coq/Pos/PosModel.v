(* L5 Pos — source positions.  Definitions only (no proofs), so the model still evaluates
   when a proof breaks.

   Source text is a list of BYTES (N, 0..255).  The Rust code mixes two measures:
     - s.len()            = number of bytes                       -> [length]
     - s.chars().count()  = number of Unicode scalar values.  For valid UTF-8 (guaranteed by
                            Rust's str) that is the number of bytes that are not
                            continuation bytes (10xxxxxx)             -> [chars]
   The lexer (scnr2 CharIterWithPosition) assigns  line = 1 + number of '\n' before the token,
   column = 1 + number of characters between the last '\n' (or the start) and the token;
   '\r' is an ordinary character.                                     -> [line_of] [col_of]

   Modelled code:
     crates/parser/src/veryl_token.rs   COMMENT_REGEX, split_comment_token,
                                        Token::end_line, Token::end_column
   Indices inside a text are nat (structural list functions); token fields are N. *)
From Coq Require Export List NArith Bool Lia.
Export ListNotations.

Definition byte := N.
Definition bytes := list N.

Definition NL : N := 10%N.
Definition SLASH : N := 47%N.
Definition STAR : N := 42%N.

(* UTF-8 continuation byte: 0x80..0xBF *)
Definition is_cont (b : N) : bool := (N.leb 128 b) && (N.ltb b 192).

(* chars().count() of a (slice of a) valid UTF-8 string *)
Fixpoint chars (s : bytes) : nat :=
  match s with
  | [] => 0
  | b :: r => (if is_cont b then 0 else 1) + chars r
  end.

(* s.matches('\n').count() *)
Fixpoint count_nl (s : bytes) : nat :=
  match s with
  | [] => 0
  | b :: r => (if N.eqb b NL then 1 else 0) + count_nl r
  end.

(* the part of s after its last '\n' (all of s when it has none):
   &s[s.rfind('\n').map_or(0, |x| x + 1)..]   and   s.split('\n').next_back() *)
Fixpoint last_line (s : bytes) : bytes :=
  match s with
  | [] => []
  | b :: r => if Nat.eqb (count_nl r) 0
              then (if N.eqb b NL then r else b :: r)
              else last_line r
  end.

(* &s[p .. p+n] *)
Definition slice (s : bytes) (p n : nat) : bytes := firstn n (skipn p s).

(* where the lexer says byte offset p is *)
Definition line_of (src : bytes) (p : nat) : nat := 1 + count_nl (firstn p src).
Definition col_of (src : bytes) (p : nat) : nat := 1 + chars (last_line (firstn p src)).

Record tok := mkTok {
  t_text : bytes;
  t_line : N;
  t_col : N;       (* column, counted in characters, 1-based *)
  t_pos : N;       (* byte offset *)
  t_len : N        (* byte length *)
}.

(* The specification of C12 for one token: its text is at [pos, pos+len) of the source and
   line / character column are those of byte offset pos. *)
Definition located (src : bytes) (t : tok) : Prop :=
  slice src (N.to_nat (t_pos t)) (N.to_nat (t_len t)) = t_text t /\
  N.to_nat (t_len t) = length (t_text t) /\
  N.of_nat (line_of src (N.to_nat (t_pos t))) = t_line t /\
  N.of_nat (col_of src (N.to_nat (t_pos t))) = t_col t.

Definition bytes_eqb (a b : bytes) : bool :=
  Nat.eqb (length a) (length b) && forallb (fun p => N.eqb (fst p) (snd p)) (combine a b).

Definition locatedb (src : bytes) (t : tok) : bool :=
  bytes_eqb (slice src (N.to_nat (t_pos t)) (N.to_nat (t_len t))) (t_text t) &&
  Nat.eqb (N.to_nat (t_len t)) (length (t_text t)) &&
  N.eqb (N.of_nat (line_of src (N.to_nat (t_pos t)))) (t_line t) &&
  N.eqb (N.of_nat (col_of src (N.to_nat (t_pos t)))) (t_col t).

(* ------------------------------------------------------------------------------------
   COMMENT_REGEX =
     ((?://.*(?:\r\n|\r|\n|$))|(?:/\*(?:[^*]|\*+[^*/])*\*+/))
   as a scanner.  regex-crate semantics: leftmost match, alternatives in order, greedy; '.'
   is any character but '\n'; '$' is end of text only.
   - "//": .* runs up to the first '\n' (or the end); there "\n" (or "$") matches, so the
     match is everything up to and including the first '\n', or up to the end of the text.
   - "/*": the body can never consume a '*' that is followed by '/', so a match ends at the
     first "*/" whose '*' lies at offset >= 2; if there is none there is no match here. *)

(* length of "//..." : up to and including the first '\n', or everything *)
Fixpoint line_len (l : bytes) : nat :=
  match l with
  | [] => 0
  | b :: r => if N.eqb b NL then 1 else S (line_len r)
  end.

(* offset just past the first "*/" of l *)
Fixpoint close_len (l : bytes) : option nat :=
  match l with
  | a :: r =>
      match r with
      | b :: _ => if N.eqb a STAR && N.eqb b SLASH then Some 2
                  else option_map S (close_len r)
      | [] => None
      end
  | [] => None
  end.

(* does a comment start at the head of l? Some length if so *)
Definition match_at (l : bytes) : option nat :=
  match l with
  | a :: b :: r =>
      if N.eqb a SLASH && N.eqb b SLASH then Some (line_len l)
      else if N.eqb a SLASH && N.eqb b STAR then option_map (fun k => 2 + k) (close_len r)
      else None
  | _ => None
  end.

(* COMMENT_REGEX.captures_iter(text): all (start, length), leftmost first, non-overlapping.
   idx = offset of the head of l in the text; skip = bytes still inside the previous match *)
Fixpoint matches_from (l : bytes) (idx skip : nat) : list (nat * nat) :=
  match l with
  | [] => []
  | _ :: r =>
      match skip with
      | S k => matches_from r (S idx) k
      | O => match match_at l with
             | Some n => (idx, n) :: matches_from r (S idx) (n - 1)
             | None => matches_from r (S idx) 0
             end
      end
  end.

Definition comment_matches (text : bytes) : list (nat * nat) := matches_from text 0 0.

(* The loop of split_comment_token.  State carried between iterations: line, column and
   prev_pos (the START of the previous match, so prev_text = previous comment + the
   whitespace after it).
     n_lines = prev_text.matches('\n').count()
     line   += n_lines
     column  = if n_lines == 0 { column + prev_text.chars().count() }
               else { last_line.chars().count() + 1 }          (last_line = after the last '\n')
     pos     = token.pos + cap.start()                          length = cap.end() - cap.start() *)
Fixpoint split_loop (text : bytes) (tokpos : N) (ms : list (nat * nat))
         (line col : N) (prev_pos : nat) : list tok :=
  match ms with
  | [] => []
  | (p, n) :: ms' =>
      let prev_text := slice text prev_pos (p - prev_pos) in
      let n_lines := count_nl prev_text in
      let line' := (line + N.of_nat n_lines)%N in
      let col' := if Nat.eqb n_lines 0 then (col + N.of_nat (chars prev_text))%N
                  else (N.of_nat (chars (last_line prev_text)) + 1)%N in
      mkTok (slice text p n) line' col' (tokpos + N.of_nat p)%N (N.of_nat n)
        :: split_loop text tokpos ms' line' col' p
  end.

Definition split_comments (run : tok) : list tok :=
  split_loop (t_text run) (t_pos run) (comment_matches (t_text run)) (t_line run) (t_col run) 0.

(* Token::end_line / Token::end_column *)
Definition end_line (t : tok) : N := (t_line t + N.of_nat (count_nl (t_text t)))%N.

Definition end_column (t : tok) : N :=
  if Nat.ltb 0 (count_nl (t_text t))
  then N.of_nat (chars (last_line (t_text t)))
  else (t_col t + N.of_nat (chars (t_text t)) - 1)%N.

(* ------------------------------------------------------------------------------------
   The arithmetic split_comment_token had before the repair (commit "fix: comment tokens
   report absolute byte offset and character column"): column advanced by BYTE lengths and
   pos was the offset inside the run plus the comment's own length.  Kept only to state what
   was wrong (PosProofs: old_split_*_refuted). *)
Fixpoint split_loop_old (text : bytes) (ms : list (nat * nat))
         (line col : N) (prev_pos : nat) : list tok :=
  match ms with
  | [] => []
  | (p, n) :: ms' =>
      let prev_text := slice text prev_pos (p - prev_pos) in
      let n_lines := count_nl prev_text in
      let line' := (line + N.of_nat n_lines)%N in
      let col' := if Nat.eqb n_lines 0 then (col + N.of_nat (length prev_text))%N
                  else N.of_nat (length (last_line prev_text) + 1) in
      mkTok (slice text p n) line' col' (N.of_nat p + N.of_nat n)%N (N.of_nat n)
        :: split_loop_old text ms' line' col' p
  end.

Definition split_comments_old (run : tok) : list tok :=
  split_loop_old (t_text run) (comment_matches (t_text run)) (t_line run) (t_col run) 0.
