(* Proofs about the position model (C12): comment splitting keeps tokens located, ordered,
   inside the run; end_line/end_column are the position just past the token. *)
From VV Require Import Pos.PosModel.
From Coq Require Import Arith.

(* ---------------------------------------------------------------- list basics *)

Lemma count_nl_app a b : count_nl (a ++ b) = count_nl a + count_nl b.
Proof. induction a; simpl; lia. Qed.

Lemma chars_app a b : chars (a ++ b) = chars a + chars b.
Proof. induction a; simpl; lia. Qed.

Lemma last_line_app a b :
  last_line (a ++ b) = if Nat.eqb (count_nl b) 0 then last_line a ++ b else last_line b.
Proof.
  induction a as [|x a IH]; simpl.
  - destruct (Nat.eqb (count_nl b) 0) eqn:E; auto.
    destruct b as [|y b]; simpl in *; auto.
    destruct (Nat.eqb (count_nl b) 0) eqn:E2.
    + destruct (N.eqb y NL); simpl in E; auto. discriminate.
    + apply Nat.eqb_eq in E. apply Nat.eqb_neq in E2. lia.
  - rewrite count_nl_app.
    destruct (Nat.eqb (count_nl b) 0) eqn:E.
    + apply Nat.eqb_eq in E. rewrite E, Nat.add_0_r.
      destruct (Nat.eqb (count_nl a) 0); auto.
      destruct (N.eqb x NL); auto.
    + apply Nat.eqb_neq in E.
      replace (Nat.eqb (count_nl a + count_nl b) 0) with false
        by (symmetry; apply Nat.eqb_neq; lia).
      exact IH.
Qed.

Lemma firstn_add_slice (s : bytes) p n : firstn (p + n) s = firstn p s ++ slice s p n.
Proof.
  unfold slice. revert s. induction p; intros s; simpl; auto.
  destruct s; simpl.
  - now rewrite firstn_nil.
  - now rewrite IHp.
Qed.

Lemma skipn_skipn {A} (l : list A) a b : skipn a (skipn b l) = skipn (b + a) l.
Proof.
  revert l. induction b; intros l; simpl; auto.
  destruct l; simpl; auto. now rewrite skipn_nil.
Qed.

Lemma skipn_firstn {A} (l : list A) q L : skipn q (firstn L l) = firstn (L - q) (skipn q l).
Proof.
  revert l L. induction q; intros l L; simpl.
  - now rewrite Nat.sub_0_r.
  - destruct L; simpl.
    + reflexivity.
    + destruct l; simpl; auto. now rewrite firstn_nil.
Qed.

Lemma slice_slice (s : bytes) a L q m :
  q + m <= L -> slice (slice s a L) q m = slice s (a + q) m.
Proof.
  intros H. unfold slice.
  rewrite skipn_firstn, firstn_firstn, skipn_skipn.
  now rewrite Nat.min_l by lia.
Qed.

Lemma slice_length (s : bytes) p n : p + n <= length s -> length (slice s p n) = n.
Proof.
  intros H. unfold slice. rewrite firstn_length, skipn_length. lia.
Qed.

Lemma slice_full_length (s : bytes) p n : length (slice s p n) = n -> p + n <= length s \/ n = 0.
Proof.
  unfold slice. rewrite firstn_length, skipn_length. lia.
Qed.

(* ---------------------------------------------------------------- positions advance *)

Lemma line_of_advance src p k :
  line_of src (p + k) = line_of src p + count_nl (slice src p k).
Proof. unfold line_of. rewrite firstn_add_slice, count_nl_app. lia. Qed.

Lemma col_of_advance src p k :
  col_of src (p + k) =
  if Nat.eqb (count_nl (slice src p k)) 0 then col_of src p + chars (slice src p k)
  else chars (last_line (slice src p k)) + 1.
Proof.
  unfold col_of. rewrite firstn_add_slice, last_line_app.
  destruct (Nat.eqb (count_nl (slice src p k)) 0).
  - rewrite chars_app. lia.
  - lia.
Qed.

(* ---------------------------------------------------------------- the scanner *)

Lemma line_len_le l : line_len l <= length l.
Proof. induction l; simpl; auto. destruct (N.eqb a NL); lia. Qed.

Lemma close_len_le l k : close_len l = Some k -> 2 <= k <= length l.
Proof.
  revert k. induction l as [|a r IH]; intros k; simpl; try discriminate.
  destruct r as [|b r']; try discriminate.
  destruct (N.eqb a STAR && N.eqb b SLASH).
  - intros [= <-]. simpl. lia.
  - destruct (close_len (b :: r')) eqn:E; simpl; try discriminate.
    intros [= <-]. specialize (IH _ eq_refl). simpl in *. lia.
Qed.

Definition starts_comment (l : bytes) : bool :=
  match l with
  | a :: b :: _ => N.eqb a SLASH && (N.eqb b SLASH || N.eqb b STAR)
  | _ => false
  end.

Lemma match_at_bounds l n : match_at l = Some n -> 2 <= n <= length l /\ starts_comment l = true.
Proof.
  unfold match_at. destruct l as [|a [|b r]]; try discriminate.
  destruct (N.eqb a SLASH && N.eqb b SLASH) eqn:E1.
  - intros [= <-]. apply andb_prop in E1 as [Ea Eb].
    apply N.eqb_eq in Ea, Eb. subst a b. simpl.
    pose proof (line_len_le r). split; [lia|reflexivity].
  - destruct (N.eqb a SLASH && N.eqb b STAR) eqn:E2; try discriminate.
    destruct (close_len r) eqn:E3; simpl; try discriminate.
    intros [= <-]. apply close_len_le in E3. apply andb_prop in E2 as [Ea Eb].
    simpl. rewrite Ea, Eb. rewrite orb_true_r. simpl. split; [lia|reflexivity].
Qed.

(* matches are in order, non-empty, non-overlapping and inside [lo, hi) *)
Fixpoint ms_ok (lo hi : nat) (ms : list (nat * nat)) : Prop :=
  match ms with
  | [] => True
  | (p, n) :: r => lo <= p /\ 2 <= n /\ p + n <= hi /\ ms_ok (p + n) hi r
  end.

Lemma ms_ok_weaken lo lo' hi ms : lo' <= lo -> ms_ok lo hi ms -> ms_ok lo' hi ms.
Proof. destruct ms as [|[p n] r]; simpl; auto. intros H (A & B & C & D). repeat split; auto; lia. Qed.

Lemma matches_from_ok l : forall idx skip, skip <= length l ->
  ms_ok (idx + skip) (idx + length l) (matches_from l idx skip).
Proof.
  induction l as [|a r IH]; intros idx skip Hs; [simpl; auto|].
  cbn [matches_from length] in *.
  destruct skip as [|k].
  - destruct (match_at (a :: r)) as [n|] eqn:E.
    + apply match_at_bounds in E as [[H2 Hn] _]. cbn [length] in Hn.
      cbn [ms_ok]. repeat split; try lia.
      specialize (IH (S idx) (n - 1)).
      replace (S idx + (n - 1)) with (idx + n) in IH by lia.
      replace (S idx + length r) with (idx + S (length r)) in IH by lia.
      apply IH. lia.
    + specialize (IH (S idx) 0).
      replace (S idx + length r) with (idx + S (length r)) in IH by lia.
      eapply ms_ok_weaken; [|apply IH; lia]. lia.
  - specialize (IH (S idx) k).
    replace (S idx + k) with (idx + S k) in IH by lia.
    replace (S idx + length r) with (idx + S (length r)) in IH by lia.
    apply IH. lia.
Qed.

(* every match is a place where the regex matches: the text there starts a comment *)
Lemma matches_from_start l : forall idx skip p n,
  In (p, n) (matches_from l idx skip) ->
  idx <= p /\ match_at (skipn (p - idx) l) = Some n.
Proof.
  induction l as [|a r IH]; intros idx skip p n; [simpl; tauto|].
  cbn [matches_from].
  destruct skip as [|k].
  - destruct (match_at (a :: r)) as [m|] eqn:E.
    + intros [[= <- <-]|H].
      * rewrite Nat.sub_diag. simpl. auto.
      * apply IH in H as [H1 H2]. split; [lia|].
        replace (p - idx) with (S (p - S idx)) by lia. exact H2.
    + intros H. apply IH in H as [H1 H2]. split; [lia|].
      replace (p - idx) with (S (p - S idx)) by lia. exact H2.
  - intros H. apply IH in H as [H1 H2]. split; [lia|].
    replace (p - idx) with (S (p - S idx)) by lia. exact H2.
Qed.

Lemma starts_comment_firstn l n : 2 <= n -> starts_comment (firstn n l) = starts_comment l.
Proof.
  intros H. destruct n as [|[|n]]; try lia.
  destruct l as [|a [|b r]]; simpl; auto.
Qed.

(* ---------------------------------------------------------------- the loop *)

Section Loop.
  Variable src text : bytes.
  Variable tokpos : nat.
  Hypothesis Htext : slice src tokpos (length text) = text.

  Lemma text_slice q m : q + m <= length text -> slice text q m = slice src (tokpos + q) m.
  Proof. intros H. rewrite <- Htext at 1. now apply slice_slice. Qed.

  Lemma split_loop_located : forall ms line col prev,
    ms_ok prev (length text) ms ->
    line = N.of_nat (line_of src (tokpos + prev)) ->
    col = N.of_nat (col_of src (tokpos + prev)) ->
    Forall (located src) (split_loop text (N.of_nat tokpos) ms line col prev).
  Proof.
    induction ms as [|[p n] ms IH]; intros line col prev Hok Hl Hc; simpl; auto.
    destruct Hok as (Hp & Hn & Hhi & Hrest).
    assert (Hseg : slice text prev (p - prev) = slice src (tokpos + prev) (p - prev))
      by (apply text_slice; lia).
    assert (Hline : (line + N.of_nat (count_nl (slice text prev (p - prev))))%N =
                    N.of_nat (line_of src (tokpos + p))).
    { replace (tokpos + p) with ((tokpos + prev) + (p - prev)) by lia.
      rewrite line_of_advance, Hseg, Hl. lia. }
    assert (Hcol : (if Nat.eqb (count_nl (slice text prev (p - prev))) 0
                    then (col + N.of_nat (chars (slice text prev (p - prev))))%N
                    else (N.of_nat (chars (last_line (slice text prev (p - prev)))) + 1)%N) =
                   N.of_nat (col_of src (tokpos + p))).
    { replace (tokpos + p) with ((tokpos + prev) + (p - prev)) by lia.
      rewrite col_of_advance, Hseg, Hc.
      destruct (Nat.eqb (count_nl (slice src (tokpos + prev) (p - prev))) 0); lia. }
    constructor.
    - unfold located; simpl.
      replace (N.to_nat (N.of_nat tokpos + N.of_nat p)) with (tokpos + p) by lia.
      rewrite Nat2N.id.
      repeat split.
      + symmetry. apply text_slice. lia.
      + symmetry. apply slice_length. lia.
      + symmetry. exact Hline.
      + symmetry. exact Hcol.
    - apply IH.
      + eapply ms_ok_weaken; [|exact Hrest]. lia.
      + exact Hline.
      + exact Hcol.
  Qed.
End Loop.

Theorem split_located src run :
  located src run -> Forall (located src) (split_comments run).
Proof.
  intros (Hs & Hlen & Hl & Hc). unfold split_comments.
  rewrite <- (N2Nat.id (t_pos run)).
  apply split_loop_located.
  - rewrite <- Hlen. exact Hs.
  - apply (matches_from_ok (t_text run) 0 0). lia.
  - rewrite Nat.add_0_r. now symmetry.
  - rewrite Nat.add_0_r. now symmetry.
Qed.

(* ---------------------------------------------------------------- order *)

(* consecutive tokens do not overlap, are non-empty, and all lie in [lo, hi] *)
Fixpoint ordered_within (lo hi : N) (l : list tok) : Prop :=
  match l with
  | [] => True
  | t :: r => (lo <= t_pos t)%N /\ (0 < t_len t)%N /\ (t_pos t + t_len t <= hi)%N /\
              ordered_within (t_pos t + t_len t) hi r
  end.

Lemma split_loop_ordered text tokpos : forall ms line col prev lo,
  ms_ok lo (length text) ms ->
  ordered_within (tokpos + N.of_nat lo) (tokpos + N.of_nat (length text))
                 (split_loop text tokpos ms line col prev).
Proof.
  induction ms as [|[p n] ms IH]; intros line col prev lo Hok; simpl; auto.
  destruct Hok as (Hp & Hn & Hhi & Hrest).
  repeat split; try lia.
  replace (tokpos + N.of_nat p + N.of_nat n)%N with (tokpos + N.of_nat (p + n))%N by lia.
  apply IH. exact Hrest.
Qed.

Theorem split_ordered run :
  t_len run = N.of_nat (length (t_text run)) ->
  ordered_within (t_pos run) (t_pos run + t_len run) (split_comments run).
Proof.
  intros H. unfold split_comments. rewrite H.
  replace (t_pos run) with (t_pos run + N.of_nat 0)%N at 1 by lia.
  apply split_loop_ordered. apply (matches_from_ok (t_text run) 0 0). lia.
Qed.

(* ---------------------------------------------------------------- comment texts *)

Lemma split_loop_texts text tokpos : forall ms line col prev,
  (forall p n, In (p, n) ms -> match_at (skipn p text) = Some n) ->
  Forall (fun c => starts_comment (t_text c) = true) (split_loop text tokpos ms line col prev).
Proof.
  induction ms as [|[p n] ms IH]; intros line col prev H; simpl; auto.
  constructor.
  - simpl. unfold slice. specialize (H p n (or_introl eq_refl)).
    apply match_at_bounds in H as [[H2 _] Hs].
    now rewrite starts_comment_firstn.
  - apply IH. intros p' n' Hin. apply H. now right.
Qed.

Theorem split_texts_are_comments run :
  Forall (fun c => starts_comment (t_text c) = true) (split_comments run).
Proof.
  apply split_loop_texts. intros p n H.
  apply matches_from_start in H as [_ H]. now rewrite Nat.sub_0_r in H.
Qed.

(* ---------------------------------------------------------------- end_line / end_column *)

Theorem end_position_correct src t :
  located src t ->
  let e := N.to_nat (t_pos t) + N.to_nat (t_len t) in
  end_line t = N.of_nat (line_of src e) /\
  (end_column t + 1)%N = N.of_nat (col_of src e).
Proof.
  intros (Hs & Hlen & Hl & Hc) e. unfold e, end_line, end_column.
  rewrite line_of_advance, col_of_advance, Hs.
  split; [lia|].
  destruct (count_nl (t_text t)) eqn:E; cbn [Nat.ltb Nat.leb Nat.eqb].
  - assert (1 <= col_of src (N.to_nat (t_pos t))) by (unfold col_of; lia). lia.
  - lia.
Qed.

(* ---------------------------------------------------------------- non-vacuity, witnesses *)

(* source:  "/* é */ /* b */\nmodule A { // xé\n /* m\n n */ /* q */ }"  (bytes) *)
Definition ex_src : bytes :=
  [47;42;32;195;169;32;42;47;32;47;42;32;98;32;42;47;10;
   109;111;100;117;108;101;32;65;32;123;32;47;47;32;120;195;169;10;
   32;47;42;32;109;10;32;110;32;42;47;32;47;42;32;113;32;42;47;32;125]%N.

(* the comment run in front of "module": "/* é */ /* b */\n" at offset 0, line 1, column 1 *)
Definition ex_run1 : tok := mkTok (firstn 17 ex_src) 1 1 0 17.
(* the run after "{": "// xé\n /* m\n n */ /* q */ " at offset 28, line 2, column 12 *)
Definition ex_run2 : tok := mkTok (slice ex_src 28 27) 2 12 28 27.

Lemma ex_run1_located : located ex_src ex_run1.
Proof. repeat split. Qed.
Lemma ex_run2_located : located ex_src ex_run2.
Proof. repeat split. Qed.

Lemma ex_split1 :
  map (fun c => (t_line c, t_col c, t_pos c, t_len c)) (split_comments ex_run1)
  = [(1, 1, 0, 8); (1, 9, 9, 7)]%N.
Proof. reflexivity. Qed.

Lemma ex_split2 :
  map (fun c => (t_line c, t_col c, t_pos c, t_len c)) (split_comments ex_run2)
  = [(2, 12, 28, 7); (3, 2, 36, 10); (4, 7, 47, 7)]%N.
Proof. reflexivity. Qed.

(* what split_comment_token computed before the repair: the second comment of run 1 got
   column 10 (true: 9) and every pos was offset-in-run + length *)
Lemma old_split_example :
  map (fun c => (t_line c, t_col c, t_pos c, t_len c)) (split_comments_old ex_run1)
  = [(1, 1, 8, 8); (1, 10, 16, 7)]%N.
Proof. reflexivity. Qed.

Theorem old_split_pos_refuted :
  exists src run, located src run /\ ~ Forall (located src) (split_comments_old run).
Proof.
  exists ex_src, ex_run1. split; [exact ex_run1_located|].
  intros H. inversion H as [|c l Hc _]; subst. destruct Hc as (Hs & _). vm_compute in Hs. discriminate.
Qed.

Theorem old_split_column_utf8_refuted :
  exists src run, located src run /\
    exists c, In c (split_comments_old run) /\
      N.of_nat (col_of src (N.to_nat (t_pos c) - N.to_nat (t_len c))) <> t_col c.
Proof.
  exists ex_src, ex_run1. split; [exact ex_run1_located|].
  exists (nth 1 (split_comments_old ex_run1) ex_run1). split.
  - vm_compute. right. left. reflexivity.
  - vm_compute. discriminate.
Qed.
