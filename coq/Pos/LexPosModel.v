(* L5 Pos — how the lexer assigns (line, column) to characters.  Definitions only.

   Modelled code (third party, scnr2 0.5.2, src/internals/char_iter/iter_with_position.rs):
     CharIterWithPosition { char_indices, line, column, last_char, saved_state }
       new:      line = 1, column = 0, last_char = '\0'
       next:     (line, column) = if last_char == '\n' { (line + 1, 1) } else { (line, column + 1) };
                 last_char = ch
       save_state:    saved = (char_indices, line, column)            -- last_char is NOT saved
       restore_state: (char_indices, line, column) = saved            -- last_char is NOT restored
   A token's (start_line, start_column) is the position [next] assigns to its first character.
   Characters are code points (list N); '\n' = 10. *)
From VV Require Export Pos.PosModel.

Record citer := mkCI {
  ci_rest : list N;
  ci_line : nat;
  ci_col : nat;
  ci_last : N;
  ci_saved : option (list N * nat * nat)
}.

Definition ci_new (cs : list N) : citer := mkCI cs 1 0 0%N None.

Definition ci_step (line col : nat) (last : N) : nat * nat :=
  if N.eqb last NL then (S line, 1) else (line, S col).

Definition ci_next (it : citer) : option ((nat * nat) * citer) :=
  match ci_rest it with
  | [] => None
  | c :: r => let p := ci_step (ci_line it) (ci_col it) (ci_last it) in
              Some (p, mkCI r (fst p) (snd p) c (ci_saved it))
  end.

Definition ci_save (it : citer) : citer :=
  mkCI (ci_rest it) (ci_line it) (ci_col it) (ci_last it) (Some (ci_rest it, ci_line it, ci_col it)).

Definition ci_restore (it : citer) : citer :=
  match ci_saved it with
  | Some (r, l, k) => mkCI r l k (ci_last it) None
  | None => it
  end.

(* positions assigned by iterating [next] to the end, without save/restore *)
Fixpoint run_from (rest : list N) (line col : nat) (last : N) : list (nat * nat) :=
  match rest with
  | [] => []
  | c :: r => let p := ci_step line col last in p :: run_from r (fst p) (snd p) c
  end.

Definition lexer_positions (cs : list N) : list (nat * nat) := run_from cs 1 0 0%N.

(* the specification: position of the character with index i *)
Definition cpos (cs : list N) (i : nat) : nat * nat :=
  (1 + count_nl (firstn i cs), 1 + length (last_line (firstn i cs))).
