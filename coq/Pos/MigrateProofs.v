(* Proofs for C23: the migrator's output is the pushed texts in order, separated only by
   newline strings and blanks; tokens that are apart in the source stay apart. *)
From VV Require Import Pos.PosModel Pos.PosProofs Pos.MigrateModel.
Open Scope N_scope.

(* ---------------------------------------------------------------- content *)

(* a separator: some newline strings followed by some blanks *)
Definition is_sep (nl s : bytes) : Prop := exists k m, s = nnewlines nl k ++ nspaces m.

Lemma sep_for_is_sep nl st x : is_sep nl (sep_for nl st x).
Proof. unfold sep_for. eexists _, _. reflexivity. Qed.

(* the separators push_token uses along a list of items *)
Fixpoint seps_with (measure : bytes -> N) (nl : bytes) (st : mstate) (l : list mtok) : list bytes :=
  match l with
  | [] => []
  | x :: r => sep_for nl st x :: seps_with measure nl (push_token_with measure nl st x) r
  end.

Fixpoint interleave (ss : list bytes) (l : list mtok) : bytes :=
  match ss, l with
  | s :: ss', x :: l' => s ++ m_text x ++ interleave ss' l'
  | _, _ => []
  end.

Lemma out_bytes_push measure nl st x :
  out_bytes (push_token_with measure nl st x) = out_bytes st ++ sep_for nl st x ++ m_text x.
Proof.
  unfold out_bytes, push_token_with. cbn [ms_out rev].
  rewrite !concat_app. simpl. rewrite !app_nil_r, <- app_assoc. reflexivity.
Qed.

Lemma fold_content measure nl l : forall st,
  out_bytes (fold_left (push_token_with measure nl) l st) =
  out_bytes st ++ interleave (seps_with measure nl st l) l.
Proof.
  induction l as [|x r IH]; intros st; simpl.
  - now rewrite app_nil_r.
  - rewrite IH, out_bytes_push, <- !app_assoc. reflexivity.
Qed.

Lemma seps_with_length measure nl l : forall st, length (seps_with measure nl st l) = length l.
Proof. induction l; intros st; simpl; auto. Qed.

Lemma seps_with_are_seps measure nl l : forall st, Forall (is_sep nl) (seps_with measure nl st l).
Proof.
  induction l; intros st; simpl; constructor; auto. apply sep_for_is_sep.
Qed.

(* The migrated text is the pushed texts in order, each preceded by a separator made only of
   newline strings and blanks: nothing is lost, altered, duplicated or reordered. *)
Theorem migrate_content nl vts :
  exists ss, length ss = length (walk vts) /\ Forall (is_sep nl) ss /\
             out_bytes (migrate nl vts) = interleave ss (walk vts).
Proof.
  exists (seps_with tail_chars nl init_ms (walk vts)). split; [|split].
  - apply seps_with_length.
  - apply seps_with_are_seps.
  - unfold migrate, push_token. rewrite fold_content. reflexivity.
Qed.

(* what is pushed: every token that is not a dropped for-index type token, and every comment
   (also those attached to dropped tokens), in source order *)
Theorem walk_texts vts :
  map m_text (walk vts) =
  flat_map (fun v => (if v_dropped v then [] else [m_text (v_tok v)]) ++ map m_text (v_comments v)) vts.
Proof.
  unfold walk. induction vts as [|v r IH]; simpl; auto.
  rewrite map_app, IH. destruct (v_dropped v); reflexivity.
Qed.

(* ---------------------------------------------------------------- separation *)

Definition valid (x : mtok) : Prop := 1 <= m_line x /\ 1 <= m_col x.

(* the migrator's own position is at or before the next token *)
Definition behind (st : mstate) (x : mtok) : Prop :=
  ms_line st < m_line x \/ (ms_line st = m_line x /\ ms_col st <= m_col x).

(* after pushing a, the migrator's line is a's true end line and its column is at most a's
   true end column *)
Definition tracks (st : mstate) (a : mtok) : Prop :=
  ms_line st = end_line_of a /\ ms_col st <= end_col_of a.

Lemma tracks_behind st a x : tracks st a -> before a x -> behind st x.
Proof. unfold tracks, before, behind. intros [H1 H2] [H|[H3 H4]]; [left|right]; lia. Qed.

Lemma push_tracks nl st x : valid x -> behind st x -> tracks (push_token nl st x) x.
Proof.
  intros [V1 V2] Hb. unfold tracks, push_token, push_token_with, end_line_of, end_col_of.
  cbn [ms_line ms_col]. split; [reflexivity|].
  destruct (count_nl (m_text x)) as [|k] eqn:E; cbn [Nat.ltb Nat.leb].
  - change (0 <? N.of_nat 0) with false. cbv iota.
    destruct (0 <? m_line x - ms_line st) eqn:En.
    + apply N.ltb_lt in En. lia.
    + apply N.ltb_ge in En. destruct Hb as [H|[H1 H2]]; lia.
  - assert (0 <? N.of_nat (S k) = true) as -> by (apply N.ltb_lt; lia). lia.
Qed.

Lemma nnewlines_nonempty nl k : nl <> [] -> 0 < k -> nnewlines nl k <> [].
Proof.
  intros Hn Hk. unfold nnewlines.
  destruct (N.to_nat k) as [|n] eqn:E; [lia|]. simpl.
  destruct nl; [congruence|]. discriminate.
Qed.

Lemma nspaces_nonempty m : 0 < m -> nspaces m <> [].
Proof. intros H. unfold nspaces. destruct (N.to_nat m) eqn:E; [lia|]. discriminate. Qed.

Lemma sep_nonempty nl st a x :
  nl <> [] -> tracks st a -> gap a x -> sep_for nl st x <> [].
Proof.
  intros Hn [T1 T2] Hg. unfold sep_for.
  destruct Hg as [H|[H1 H2]].
  - intros E. apply app_eq_nil in E as [E _]. revert E. apply nnewlines_nonempty; [assumption|lia].
  - replace (m_line x - ms_line st) with 0 by lia. change (0 <? 0) with false. cbv iota.
    intros E. apply app_eq_nil in E as [_ E]. revert E. apply nspaces_nonempty. lia.
Qed.

(* along the pushed items: whenever two consecutive items are apart in the source, the
   separator written between them is not empty *)
Fixpoint seps_ok (nl : bytes) (st : mstate) (prev : option mtok) (l : list mtok) : Prop :=
  match l with
  | [] => True
  | x :: r =>
      (match prev with Some a => gap a x -> sep_for nl st x <> [] | None => True end) /\
      seps_ok nl (push_token nl st x) (Some x) r
  end.

Lemma seps_ok_from nl (Hn : nl <> []) l : forall st a,
  Forall valid l -> tracks st a -> chain (a :: l) -> seps_ok nl st (Some a) l.
Proof.
  induction l as [|x r IH]; intros st a Hv Ht Hc; simpl; auto.
  destruct Hc as [Hb Hc]. inversion Hv as [|? ? Vx Vr]; subst.
  split.
  - intros Hg. eapply sep_nonempty; eauto.
  - apply IH; auto. apply push_tracks; auto. eapply tracks_behind; eauto.
Qed.

Theorem migrate_separation nl l :
  nl <> [] -> Forall valid l -> chain l -> seps_ok nl init_ms None l.
Proof.
  intros Hn Hv Hc. destruct l as [|x r]; simpl; auto. split; auto.
  inversion Hv as [|? ? Vx Vr]; subst.
  apply seps_ok_from; auto.
  apply push_tracks; auto.
  destruct Vx as [V1 V2]. unfold behind. cbn [init_ms ms_line ms_col]. lia.
Qed.

(* ---------------------------------------------------------------- the old arithmetic *)

(* "/* é */a b": with the column advanced by byte length, "a" and "b" are written with no
   separator although a blank separates them in the source *)
Definition ex_items : list mtok :=
  [mkM [47;42;32;195;169;32;42;47] 1 1; mkM [97] 1 8; mkM [98] 1 10].

Lemma ex_items_chain : Forall valid ex_items /\ chain ex_items.
Proof.
  split.
  - unfold ex_items. repeat (constructor; [split; vm_compute; discriminate|]). constructor.
  - simpl. repeat split; right; (split; [reflexivity|vm_compute; discriminate]).
Qed.

Theorem old_separation_refuted :
  exists nl l, nl <> [] /\ Forall valid l /\ chain l /\
    exists a b st, gap a b /\ st = fold_left (push_token_old nl) [nth 0 l a; a] init_ms /\
                   sep_for nl st b = [].
Proof.
  exists [10], ex_items. split; [discriminate|]. split; [apply ex_items_chain|]. split; [apply ex_items_chain|].
  exists (mkM [97] 1 8), (mkM [98] 1 10), (fold_left (push_token_old [10]) [mkM [47;42;32;195;169;32;42;47] 1 1; mkM [97] 1 8] init_ms).
  split; [|split; reflexivity].
  right. split; [reflexivity|]. vm_compute. reflexivity.
Qed.

Lemma old_output_example :
  out_bytes (fold_left (push_token_old [10]) ex_items init_ms) = [47;42;32;195;169;32;42;47;97;98].
Proof. reflexivity. Qed.

Lemma new_output_example :
  out_bytes (fold_left (push_token [10]) ex_items init_ms) = [47;42;32;195;169;32;42;47;97;32;98].
Proof. reflexivity. Qed.
