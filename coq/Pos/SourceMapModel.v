(* L5 Pos — source maps (C13).  Definitions only.

   Modelled code:
     crates/sourcemap/src/sourcemap.rs   SourceMap::add  (1-based -> 0-based, u32 subtraction)
     crates/emitter/src/emitter.rs       Emitter::emit: for a in rendered.anchors { map.add(..) }
   The anchors come from the renderer model VV.Pretty.Render (property C28).  The `sourcemap`
   crate's builder keeps the entries in insertion order and its encoder writes them in that
   order (line deltas as a run of ';', which only terminates when dst lines never decrease);
   the VLQ encoding itself is outside the model and is decoded independently by the check. *)
From VV Require Export Pretty.Render.
Open Scope N_scope.

Record entry := mkEntry {
  e_dl : N; e_dc : N;      (* 0-based line / character column in the emitted text *)
  e_sl : N; e_sc : N;      (* 0-based line / character column in the Veryl source *)
  e_name : str
}.

(* u32 `x - 1`: panics (debug) / wraps (release) when x = 0 *)
Definition dec (x : N) : option N := if x =? 0 then None else Some (x - 1).

(* SourceMap::add *)
Definition sm_add (a : anchor) : option entry :=
  match dec (a_dl a), dec (a_dc a), dec (a_sl a), dec (a_sc a) with
  | Some dl, Some dc, Some sl, Some sc => Some (mkEntry dl dc sl sc (a_text a))
  | _, _, _, _ => None
  end.

(* total version used to state the theorems once underflow is excluded *)
Definition sm_entry (a : anchor) : entry :=
  mkEntry (a_dl a - 1) (a_dc a - 1) (a_sl a - 1) (a_sc a - 1) (a_text a).

(* the loop in Emitter::emit *)
Definition source_map (o : opts) (d : doc) : list (option entry) :=
  map sm_add (render_anchors o d).

Definition source_map_entries (o : opts) (d : doc) : list entry :=
  map sm_entry (render_anchors o d).

(* every anchored fragment / positioned comment of the document carries a 1-based source
   position (the emitter anchors a token only when line != 0 && column != 0; the renderer
   anchors a comment only when src_line != 0 && src_column != 0) *)
Fixpoint wf_src (d : doc) : bool :=
  match d with
  | Concat l => forallb wf_src l
  | Indent _ d' | Group d' | ForceFlat d' => wf_src d'
  | Anchored _ sl sc => negb (sl =? 0) && negb (sc =? 0)
  | _ => true
  end.

(* lexicographic order on (line, column) *)
Definition ple (p q : N * N) : Prop :=
  fst p < fst q \/ (fst p = fst q /\ snd p <= snd q).

Definition epos (e : entry) : N * N := (e_dl e, e_dc e).
