(* L5 Pos — the migrator's text reconstruction (C23).  Definitions only.

   Modelled code: crates/migrator/src/migrator.rs
     Migrator::push_token   rebuilds the spacing in front of a token from its (line, column):
                            newlines = x.line.saturating_sub(self.line); spaces =
                            x.column.saturating_sub(self.column); then advances its own
                            line / column over the token text
     Migrator::token        pushes a token and then the comments attached to it
     for_statement          walks a for statement without its `: Type`; the comments attached
                            to the dropped tokens are still pushed (comments_only)
   Columns are CHARACTER counts everywhere (the lexer's token columns, the comment columns of
   split_comment_token, and — after the repair — the migrator's own column).
   [push_token_old] keeps the arithmetic before the repair (column advanced by BYTE length). *)
From VV Require Export Pos.PosModel.
Open Scope N_scope.

Definition SP : N := 32.

Record mtok := mkM { m_text : bytes; m_line : N; m_col : N }.

Record mstate := mkMS {
  ms_out : list bytes;     (* pieces pushed so far, newest first: text, spaces, newlines *)
  ms_line : N;
  ms_col : N
}.

Definition init_ms : mstate := mkMS [] 1 1.

Definition nspaces (n : N) : bytes := repeat SP (N.to_nat n).
Definition nnewlines (nl : bytes) (n : N) : bytes := concat (repeat nl (N.to_nat n)).

(* the separator push_token writes in front of x *)
Definition sep_for (nl : bytes) (st : mstate) (x : mtok) : bytes :=
  let newlines := m_line x - ms_line st in               (* saturating_sub *)
  let col1 := if 0 <? newlines then 1 else ms_col st in
  let spaces := m_col x - col1 in                        (* saturating_sub *)
  nnewlines nl newlines ++ nspaces spaces.

(* width of the text after its last newline, in characters *)
Definition tail_chars (t : bytes) : N := N.of_nat (chars (last_line t)).
Definition tail_bytes (t : bytes) : N := N.of_nat (length (last_line t)).

Definition push_token_with (measure : bytes -> N) (nl : bytes) (st : mstate) (x : mtok) : mstate :=
  let newlines := m_line x - ms_line st in
  let col1 := if 0 <? newlines then 1 else ms_col st in
  let spaces := m_col x - col1 in
  let col2 := col1 + spaces in
  let nl_in := N.of_nat (count_nl (m_text x)) in
  let line' := m_line x + nl_in in
  let col' := if 0 <? nl_in then 1 else col2 + measure (m_text x) in
  mkMS (m_text x :: sep_for nl st x :: ms_out st) line' col'.

Definition push_token := push_token_with tail_chars.
Definition push_token_old := push_token_with tail_bytes.

Definition out_bytes (st : mstate) : bytes := concat (rev (ms_out st)).

(* a VerylToken as the walker meets it: the token, its comments, and whether the walker
   override for_statement skips the token (the `: Type` of an old for statement) *)
Record vtok := mkV { v_tok : mtok; v_comments : list mtok; v_dropped : bool }.

(* what reaches push_token, in order *)
Definition walk (vts : list vtok) : list mtok :=
  flat_map (fun v => if v_dropped v then v_comments v else v_tok v :: v_comments v) vts.

Definition migrate (nl : bytes) (vts : list vtok) : mstate :=
  fold_left (push_token nl) (walk vts) init_ms.

Definition migrate_old (nl : bytes) (vts : list vtok) : mstate :=
  fold_left (push_token_old nl) (walk vts) init_ms.

(* true position just past a token that starts at (line, col): what the lexer would report
   for the next character *)
Definition end_line_of (x : mtok) : N := m_line x + N.of_nat (count_nl (m_text x)).
Definition end_col_of (x : mtok) : N :=
  if Nat.ltb 0 (count_nl (m_text x)) then 1 + tail_chars (m_text x)
  else m_col x + tail_chars (m_text x).

(* a comes before b in the source *)
Definition before (a b : mtok) : Prop :=
  end_line_of a < m_line b \/ (end_line_of a = m_line b /\ end_col_of a <= m_col b).
(* ... with at least one character between them *)
Definition gap (a b : mtok) : Prop :=
  end_line_of a < m_line b \/ (end_line_of a = m_line b /\ end_col_of a < m_col b).

Fixpoint chain (l : list mtok) : Prop :=
  match l with
  | a :: ((b :: _) as r) => before a b /\ chain r
  | _ => True
  end.
