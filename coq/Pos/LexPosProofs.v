(* The lexer's position rule is right for straight iteration, and wrong after a
   save / look-ahead / restore that crosses a newline (the known finding of C12). *)
From VV Require Import Pos.PosModel Pos.PosProofs Pos.LexPosModel.
From Coq Require Import Arith.

Lemma firstn_app_exact {A} (p q : list A) : firstn (length p) (p ++ q) = p.
Proof. induction p; simpl; auto. now rewrite IHp. Qed.

Lemma cpos_snoc p c0 r :
  cpos (p ++ c0 :: r) (S (length p)) = ci_step (fst (cpos (p ++ c0 :: r) (length p)))
                                             (snd (cpos (p ++ c0 :: r) (length p))) c0.
Proof.
  unfold cpos, ci_step. cbn [fst snd].
  replace (p ++ c0 :: r) with ((p ++ [c0]) ++ r) by (rewrite <- app_assoc; reflexivity).
  replace (S (length p)) with (length (p ++ [c0])) by (rewrite app_length; simpl; lia).
  rewrite firstn_app_exact.
  rewrite <- app_assoc. cbn [app]. rewrite firstn_app_exact.
  rewrite count_nl_app, last_line_app. simpl.
  destruct (N.eqb c0 NL); simpl.
  - f_equal. lia.
  - rewrite app_length. simpl. f_equal; lia.
Qed.

Lemma run_from_correct rest : forall pre line col last,
  (pre = [] /\ line = 1 /\ col = 0 /\ last = 0%N) \/
  (exists p c, pre = p ++ [c] /\ last = c /\ (line, col) = cpos (pre ++ rest) (length p)) ->
  run_from rest line col last = map (cpos (pre ++ rest)) (seq (length pre) (length rest)).
Proof.
  induction rest as [|c r IH]; intros pre line col last H; [reflexivity|].
  cbn [run_from length seq map]. set (q := ci_step line col last).
  assert (Hq : q = cpos (pre ++ c :: r) (length pre)).
  { subst q. destruct H as [(-> & -> & -> & ->)|(p & c0 & -> & -> & E)].
    - reflexivity.
    - rewrite app_length. simpl. rewrite Nat.add_1_r.
      rewrite <- app_assoc in *. cbn [app] in *.
      rewrite cpos_snoc, <- E. reflexivity. }
  rewrite Hq. f_equal.
  replace (pre ++ c :: r) with ((pre ++ [c]) ++ r) by (rewrite <- app_assoc; reflexivity).
  replace (S (length pre)) with (length (pre ++ [c])) by (rewrite app_length; simpl; lia).
  apply IH. right. exists pre, c. split; [reflexivity|]. split; [reflexivity|].
  rewrite <- app_assoc. cbn [app]. rewrite <- Hq. destruct q; reflexivity.
Qed.

(* every character gets its true (line, character column) when the iterator only advances *)
Theorem lexer_positions_correct cs :
  lexer_positions cs = map (cpos cs) (seq 0 (length cs)).
Proof. apply (run_from_correct cs [] 1 0 0%N). left. auto. Qed.

(* after save_state; next (look-ahead over a '/'); restore_state, a character that follows a
   newline is given the newline's line and the next column: "c\n/" with the state saved
   before '/' *)
Definition take (n : nat) (it : citer) : citer :=
  Nat.iter n (fun it => match ci_next it with Some (_, it') => it' | None => it end) it.

Theorem restore_position_refuted :
  exists cs i, forall it, it = ci_restore (take 1 (ci_save (take i (ci_new cs)))) ->
    exists p it', ci_next it = Some (p, it') /\ p <> cpos cs i.
Proof.
  exists [99; 10; 47; 49]%N, 2. intros it ->. vm_compute.
  eexists _, _. split; [reflexivity|]. discriminate.
Qed.

(* the wrong position is the newline's line and the column after it; the true one is (2, 1) *)
Example restore_position_example :
  let cs := [99; 10; 47; 49]%N in
  option_map fst (ci_next (ci_restore (take 1 (ci_save (take 2 (ci_new cs)))))) = Some (1, 3) /\
  cpos cs 2 = (2, 1).
Proof. split; reflexivity. Qed.
