(* C35 — proofs about the host/component boundary model (ComponentModel.v).
   No axioms.  The normal form used throughout: norm w x = the words_for(w) little-endian 64-bit
   words of x mod 2^w. *)
From Coq Require Import ZArith.
From VV Require Import Component.ComponentModel.
Ltac Zify.zify_post_hook ::= Z.to_euclidean_division_equations.
Open Scope N_scope.

(* ---------------------------------------------------------------- part P1 *)
Lemma W64_pos : 0 < W64. Proof. reflexivity. Qed.
Lemma W64_eq : W64 = 18446744073709551616. Proof. reflexivity. Qed.

Lemma nwords_spec w : N.of_nat (nwords w) = words_for w.
Proof. unfold nwords. apply N2Nat.id. Qed.

Lemma words_for_le w : w <= 64 * words_for w.
Proof. unfold words_for. lia. Qed.

Lemma words_for_small w : w <= 64 -> words_for w = 1.
Proof. unfold words_for. lia. Qed.

Lemma words_for_step w : 64 < w -> words_for w = words_for (w - 64) + 1.
Proof. unfold words_for. lia. Qed.

Lemma nwords_small w : w <= 64 -> nwords w = 1%nat.
Proof. intros. unfold nwords. rewrite words_for_small by auto. reflexivity. Qed.

Lemma nwords_step w : 64 < w -> nwords w = S (nwords (w - 64)).
Proof. intros. unfold nwords. rewrite words_for_step by auto. lia. Qed.

Lemma nwords_pos w : (1 <= nwords w)%nat.
Proof. unfold nwords, words_for. lia. Qed.

(* ---------------------------------------------------------------- part P2 *)
Lemma words_of_zero n : words_of n 0 = zeros n.
Proof. induction n; simpl; auto. unfold zeros in *. simpl. f_equal. exact IHn. Qed.

Lemma words_of_len n v : length (words_of n v) = n.
Proof. revert v; induction n; simpl; intros; auto. Qed.

Lemma words_of_w64s n v : w64s (words_of n v).
Proof.
  revert v; induction n; simpl; intros; constructor.
  - apply N.mod_lt. discriminate.
  - apply IHn.
Qed.

Lemma zeros_w64s n : w64s (zeros n).
Proof. rewrite <- words_of_zero. apply words_of_w64s. Qed.

Lemma pow64_S n : 2 ^ (64 * N.of_nat (S n)) = W64 * 2 ^ (64 * N.of_nat n).
Proof.
  replace (64 * N.of_nat (S n)) with (64 + 64 * N.of_nat n) by lia.
  rewrite N.pow_add_r. reflexivity.
Qed.

Lemma bits_of_words_of n v : bits_of (words_of n v) = v mod 2 ^ (64 * N.of_nat n).
Proof.
  revert v; induction n; intros.
  - simpl. rewrite N.mod_1_r. reflexivity.
  - cbn [words_of bits_of]. rewrite IHn, pow64_S.
    rewrite N.mod_mul_r by (try discriminate; apply N.pow_nonzero; discriminate).
    reflexivity.
Qed.

Lemma bits_of_lt ws : w64s ws -> bits_of ws < 2 ^ (64 * N.of_nat (length ws)).
Proof.
  induction 1.
  - simpl. reflexivity.
  - cbn [bits_of length]. rewrite pow64_S.
    assert (0 < 2 ^ (64 * N.of_nat (length l))) by (apply N.neq_0_lt_0, N.pow_nonzero; discriminate).
    nia.
Qed.

Lemma mod_w64 x b : x < W64 -> (x + W64 * b) mod W64 = x.
Proof. intros. rewrite (N.mul_comm W64 b), N.mod_add by discriminate. apply N.mod_small; auto. Qed.
Lemma div_w64 x b : x < W64 -> (x + W64 * b) / W64 = b.
Proof. intros. rewrite (N.mul_comm W64 b), N.div_add by discriminate. rewrite N.div_small by auto. reflexivity. Qed.

Lemma canon ws : w64s ws -> words_of (length ws) (bits_of ws) = ws.
Proof.
  induction 1; cbn [words_of bits_of length]; auto.
  f_equal.
  - apply mod_w64; auto.
  - rewrite div_w64 by auto. exact IHForall.
Qed.

Lemma resize_nil n : resize n [] = zeros n.
Proof. induction n; simpl; auto. unfold zeros in *; simpl; f_equal; auto. Qed.

Lemma resize_canon n ws : w64s ws -> resize n ws = words_of n (bits_of ws).
Proof.
  revert ws; induction n; intros ws H; cbn [resize words_of]; auto.
  destruct H as [|x r Hx Hr].
  - cbn [bits_of]. rewrite N.mod_0_l by discriminate. rewrite N.div_0_l by discriminate.
    rewrite resize_nil, words_of_zero. reflexivity.
  - cbn [bits_of]. f_equal.
    + symmetry; apply mod_w64; auto.
    + rewrite div_w64 by auto. apply IHn; auto.
Qed.

Lemma resize_len n ws : length (resize n ws) = n.
Proof. revert ws; induction n; intros; simpl; auto. destruct ws; simpl; f_equal; auto. Qed.

Lemma map_last_len f ws : length (map_last f ws) = length ws.
Proof.
  induction ws as [|x r IH]; simpl; auto. destruct r; simpl in *; auto.
Qed.

Lemma mask_top_len ws w : length (mask_top_word ws w) = length ws.
Proof.
  unfold mask_top_word. destruct (w =? 0); [apply map_last_len|].
  destruct (w mod 64 =? 0); auto. apply map_last_len.
Qed.

Lemma map_last_w64s f ws : (forall x, x < W64 -> f x < W64) -> w64s ws -> w64s (map_last f ws).
Proof.
  intros Hf. induction 1 as [|x r Hx Hr IH]; simpl; [constructor|].
  destruct r.
  - constructor; auto.
  - constructor; auto.
Qed.

Lemma shiftr_ones r : r <= 64 -> N.shiftr (N.ones 64) (64 - r) = N.ones r.
Proof.
  intros. apply N.bits_inj; intro i. rewrite N.shiftr_spec'.
  destruct (N.ltb_spec i r).
  - rewrite !N.ones_spec_low by lia. reflexivity.
  - rewrite !N.ones_spec_high by lia. reflexivity.
Qed.

Lemma land_mask x r : r <= 64 -> N.land x (N.shiftr (N.ones 64) (64 - r)) = x mod 2 ^ r.
Proof. intros. rewrite shiftr_ones by auto. apply N.land_ones. Qed.

(* ---------------------------------------------------------------- part P3 *)
Lemma nwords_one_inv w : nwords w = 1%nat -> w <= 64.
Proof. unfold nwords, words_for. lia. Qed.
Lemma nwords_big_inv w k : nwords w = S (S k) -> 64 < w.
Proof. unfold nwords, words_for. lia. Qed.

Lemma mask_top_cons x y r w :
  64 < w -> mask_top_word (x :: y :: r) w = x :: mask_top_word (y :: r) (w - 64).
Proof.
  intros H. unfold mask_top_word.
  destruct (N.eqb_spec w 0); [lia|].
  destruct (N.eqb_spec (w - 64) 0); [lia|].
  assert (E: (w - 64) mod 64 = w mod 64).
  { replace w with ((w - 64) + 1 * 64) at 2 by lia. rewrite N.mod_add by discriminate. reflexivity. }
  rewrite E.
  destruct (w mod 64 =? 0); reflexivity.
Qed.

Lemma bits_single x : bits_of [x] = x.
Proof. cbn [bits_of]. lia. Qed.

Lemma mask_top_spec ws : forall w, w64s ws -> length ws = nwords w ->
  bits_of (mask_top_word ws w) = bits_of ws mod 2 ^ w.
Proof.
  induction ws as [|x r IH]; intros w Hw Hl.
  - pose proof (nwords_pos w). simpl in Hl. lia.
  - destruct r as [|y r].
    + apply eq_sym, nwords_one_inv in Hl.
      inversion Hw as [|? ? Hx _]; subst.
      unfold mask_top_word. destruct (N.eqb_spec w 0) as [->|Hn0].
      * cbn [map_last]. rewrite !bits_single. rewrite N.mod_1_r. reflexivity.
      * destruct (N.eqb_spec (w mod 64) 0) as [Hr|Hr].
        { assert (w = 64) by lia. subst w. rewrite bits_single. symmetry. apply N.mod_small. exact Hx. }
        { cbn [map_last]. rewrite !bits_single.
          assert (w mod 64 = w) by lia. rewrite H. apply land_mask. lia. }
    + pose proof (nwords_big_inv _ _ (eq_sym Hl)) as Hbig.
      rewrite mask_top_cons by auto.
      inversion Hw as [|? ? Hx Hr]; subst.
      cbn [bits_of]. rewrite (IH (w - 64)); auto.
      2:{ rewrite nwords_step in Hl by auto. simpl in Hl |- *. lia. }
      replace (2 ^ w) with (W64 * 2 ^ (w - 64)).
      2:{ unfold W64. rewrite <- N.pow_add_r. f_equal. lia. }
      rewrite N.mod_mul_r by (try discriminate; apply N.pow_nonzero; discriminate).
      change (bits_of (y :: r)) with (bits_of (y :: r)).
      rewrite mod_w64 by auto. rewrite div_w64 by auto. reflexivity.
Qed.

Lemma mask_top_w64s ws w : w64s ws -> w64s (mask_top_word ws w).
Proof.
  intros H. unfold mask_top_word.
  destruct (w =? 0). { apply map_last_w64s; auto. intros; reflexivity. }
  destruct (N.eqb_spec (w mod 64) 0); auto.
  apply map_last_w64s; auto. intros x Hx.
  rewrite land_mask by lia.
  eapply N.lt_le_trans. { apply N.mod_lt. apply N.pow_nonzero; discriminate. }
  unfold W64. apply N.pow_le_mono_r; lia.
Qed.

(* normal form: the n = words_for w words of x mod 2^w *)
Definition norm (w x : N) : list N := words_of (nwords w) (x mod 2 ^ w).

Lemma pow_words_for w : 2 ^ w <= 2 ^ (64 * N.of_nat (nwords w)).
Proof. apply N.pow_le_mono_r; [discriminate|]. rewrite nwords_spec. apply words_for_le. Qed.

Lemma mod_mod_pow x a b : a <= b -> (x mod 2 ^ b) mod 2 ^ a = x mod 2 ^ a.
Proof.
  intros. replace b with (a + (b - a)) by lia. rewrite N.pow_add_r.
  rewrite N.mod_mul_r by (apply N.pow_nonzero; discriminate).
  set (q := (x / 2 ^ a) mod 2 ^ (b - a)).
  rewrite (N.mul_comm (2 ^ a) q), N.mod_add by (apply N.pow_nonzero; discriminate).
  apply N.mod_mod. apply N.pow_nonzero; discriminate.
Qed.

Lemma mask_top_norm ws w : w64s ws -> length ws = nwords w ->
  mask_top_word ws w = norm w (bits_of ws).
Proof.
  intros Hw Hl. unfold norm. rewrite <- mask_top_spec by auto.
  rewrite <- Hl, <- (mask_top_len ws w). symmetry. apply canon. apply mask_top_w64s; auto.
Qed.

Lemma resize_mask_norm ws w : w64s ws ->
  mask_top_word (resize (nwords w) ws) w = norm w (bits_of ws).
Proof.
  intros Hw. rewrite mask_top_norm.
  - rewrite resize_canon by auto. rewrite bits_of_words_of. unfold norm.
    rewrite mod_mod_pow; auto. rewrite nwords_spec. apply words_for_le.
  - rewrite resize_canon by auto. apply words_of_w64s.
  - apply resize_len.
Qed.

Lemma bits_of_norm w x : bits_of (norm w x) = x mod 2 ^ w.
Proof.
  unfold norm. rewrite bits_of_words_of. apply N.mod_small.
  eapply N.lt_le_trans; [|apply pow_words_for]. apply N.mod_lt, N.pow_nonzero; discriminate.
Qed.

Lemma norm_len w x : length (norm w x) = nwords w.
Proof. apply words_of_len. Qed.
Lemma norm_w64s w x : w64s (norm w x).
Proof. apply words_of_w64s. Qed.

(* ---------------------------------------------------------------- part P4 *)
Lemma digits_f_resize k : forall p n, p < 2 ^ (N.of_nat k) -> resize n (digits_f k p) = words_of n p.
Proof.
  induction k; intros p n Hp.
  - simpl in Hp. assert (p = 0) by lia. subst. cbn [digits_f]. rewrite resize_nil, words_of_zero. reflexivity.
  - cbn [digits_f]. destruct (N.eqb_spec p 0) as [->|Hn].
    + rewrite resize_nil, words_of_zero. reflexivity.
    + destruct n; [reflexivity|]. cbn [resize words_of]. f_equal. apply IHk.
      apply N.div_lt_upper_bound; [discriminate|].
      rewrite Nat2N.inj_succ, N.pow_succ_r' in Hp.
      assert (0 < 2 ^ N.of_nat k) by (apply N.neq_0_lt_0, N.pow_nonzero; discriminate).
      rewrite W64_eq. nia.
Qed.

Lemma digits_resize p n : resize n (digits p) = words_of n p.
Proof. unfold digits. apply digits_f_resize. rewrite N2Nat.id. apply N.size_gt. Qed.

Lemma pow_le_w64 w : w <= 64 -> 2 ^ w <= W64.
Proof. intros. unfold W64. apply N.pow_le_mono_r; [discriminate|auto]. Qed.

Lemma value_words_spec w x : x < 2 ^ w -> value_words w x (nwords w) = norm w x.
Proof.
  intros Hx. unfold value_words, norm. rewrite (N.mod_small x) by auto.
  destruct (N.leb_spec w 64).
  - rewrite resize_canon. { rewrite bits_single. reflexivity. }
    constructor; [|constructor]. eapply N.lt_le_trans; [exact Hx|apply pow_le_w64; auto].
  - apply digits_resize.
Qed.

Lemma norm_small w x : x < 2 ^ w -> norm w x = words_of (nwords w) x.
Proof. intros. unfold norm. rewrite N.mod_small; auto. Qed.

Lemma norm_idem w x : norm w (bits_of (norm w x)) = norm w x.
Proof.
  rewrite bits_of_norm. unfold norm. rewrite N.mod_mod; auto. apply N.pow_nonzero; discriminate.
Qed.

Lemma from_bits_norm ws ms w : w64s ws -> w64s ms ->
  from_bits ws ms w = mkCV (norm w (bits_of ws)) (norm w (bits_of ms)) w.
Proof. intros. unfold from_bits. rewrite !resize_mask_norm by auto. reflexivity. Qed.

Lemma to_port_words_norm v pw : w64s (cv_words v) -> to_port_words v pw = norm pw (bits_of (cv_words v)).
Proof. intros. apply resize_mask_norm; auto. Qed.
Lemma to_port_mask_norm v pw : w64s (cv_mask v) -> to_port_mask_xz v pw = norm pw (bits_of (cv_mask v)).
Proof. intros. apply resize_mask_norm; auto. Qed.

Definition src_ok (s : source) (w : N) : Prop :=
  match s with DirectScalar => w <= 64 | _ => True end.

Lemma zeros_len n : length (zeros n) = n.
Proof. apply repeat_length. Qed.

Lemma firstn_all' (l : list N) n : n = length l -> firstn n l = l.
Proof. intros ->. apply firstn_all. Qed.

Lemma map_zero_zeros n : map (fun _ : N => 0) (zeros n) = zeros n.
Proof. unfold zeros. induction n; simpl; f_equal; auto. Qed.

Lemma norm_zero w : norm w 0 = zeros (nwords w).
Proof. unfold norm. rewrite N.mod_0_l by (apply N.pow_nonzero; discriminate). apply words_of_zero. Qed.

Lemma stage_spec src four v :
  wf_svar v -> src_ok src (sv_width v) ->
  stage_input src four v (new_port (sv_width v)) =
  Some (mkPort (sv_width v) (norm (sv_width v) (sv_p v))
               (norm (sv_width v) (if four then sv_m v else 0)) false).
Proof.
  intros [Hp Hm] Hs. destruct v as [w p m]; cbn [sv_width sv_p sv_m] in *.
  destruct src; cbn [stage_input new_port p_words p_mask p_width p_dirty sv_width sv_p sv_m].
  - cbn [src_ok] in Hs. rewrite (nwords_small w) by auto. cbn [zeros repeat].
    f_equal. unfold norm. rewrite (nwords_small w) by auto. cbn [words_of].
    assert (Hw: 2 ^ w <= W64) by (apply pow_le_w64; auto).
    rewrite !(N.mod_small _ (2 ^ w)) by (destruct four; auto; apply N.neq_0_lt_0, N.pow_nonzero; discriminate).
    rewrite (N.mod_small p W64) by lia.
    destruct four.
    + rewrite (N.mod_small m W64) by lia. reflexivity.
    + reflexivity.
  - rewrite zeros_len. f_equal. rewrite !norm_small by auto. destruct four.
    + rewrite norm_small by auto. reflexivity.
    + rewrite norm_zero. reflexivity.
  - destruct four.
    + unfold set_input_masked, new_port. cbn [p_words p_mask p_width p_dirty]. rewrite zeros_len.
      rewrite !value_words_spec by auto. unfold copy_prefix. rewrite !norm_len, Nat.leb_refl.
      rewrite !firstn_all' by (symmetry; apply norm_len). reflexivity.
    + unfold set_input, new_port. cbn [p_words p_mask p_width p_dirty]. rewrite zeros_len.
      rewrite !value_words_spec by auto. unfold copy_prefix. rewrite !norm_len, Nat.leb_refl.
      rewrite !firstn_all' by (symmetry; apply norm_len). rewrite map_zero_zeros, norm_zero. reflexivity.
Qed.

Lemma read_spec four w x y :
  ctx_read four (mkPort w (norm w x) (norm w y) false) =
  mkCV (norm w x) (norm w (if four then y else 0)) w.
Proof.
  unfold ctx_read. cbn [p_words p_mask p_width]. destruct four.
  - rewrite from_bits_norm by apply norm_w64s. rewrite !norm_idem. reflexivity.
  - rewrite from_bits_norm by (try apply norm_w64s; constructor). rewrite norm_idem. reflexivity.
Qed.

Lemma write_spec four qw v :
  w64s (cv_words v) -> w64s (cv_mask v) ->
  ctx_write four (new_port qw) v =
  Some (mkPort qw (norm qw (bits_of (cv_words v)))
              (if four then norm qw (bits_of (cv_mask v)) else zeros (nwords qw)) true).
Proof.
  intros Hw Hm. unfold ctx_write, svc_write_output. cbn [new_port p_words p_mask p_width].
  rewrite to_port_words_norm by auto. rewrite norm_len, zeros_len, Nat.eqb_refl. cbn [negb].
  destruct four.
  - rewrite to_port_mask_norm by auto. rewrite norm_len, Nat.eqb_refl. reflexivity.
  - rewrite map_zero_zeros. reflexivity.
Qed.

Lemma width_mask_land x w : w <= 64 -> x < W64 -> N.land x (width_mask w) = x mod 2 ^ w.
Proof.
  intros Hw Hx. unfold width_mask. destruct (N.leb_spec 64 w).
  - assert (w = 64) by lia. subst. rewrite N.land_ones. reflexivity.
  - replace (2 ^ w - 1) with (N.ones w) by (rewrite N.ones_equiv; lia). apply N.land_ones.
Qed.

Lemma hd_norm_small w x : w <= 64 -> hd 0 (norm w x) = x mod 2 ^ w.
Proof.
  intros. unfold norm. rewrite nwords_small by auto. cbn [words_of hd].
  apply N.mod_small. eapply N.lt_le_trans; [apply N.mod_lt, N.pow_nonzero; discriminate|apply pow_le_w64; auto].
Qed.

Lemma apply_spec four qw x y :
  apply_output four qw (mkPort qw (norm qw x) (if four then norm qw y else zeros (nwords qw)) true) =
  mkSV qw (x mod 2 ^ qw) (if four then y mod 2 ^ qw else 0).
Proof.
  unfold apply_output. cbn [p_words p_mask].
  assert (Hlt: forall z, z mod 2 ^ qw < 2 ^ qw) by (intro; apply N.mod_lt, N.pow_nonzero; discriminate).
  destruct (N.leb_spec qw 64) as [Hq|Hq].
  - f_equal.
    + rewrite hd_norm_small by auto. rewrite width_mask_land; auto.
      * apply N.mod_mod, N.pow_nonzero; discriminate.
      * eapply N.lt_le_trans; [apply Hlt|apply pow_le_w64; auto].
    + destruct four; auto. rewrite hd_norm_small by auto. rewrite width_mask_land; auto.
      * apply N.mod_mod, N.pow_nonzero; discriminate.
      * eapply N.lt_le_trans; [apply Hlt|apply pow_le_w64; auto].
  - f_equal.
    + apply bits_of_norm.
    + destruct four; auto. apply bits_of_norm.
Qed.

(* what the hook sees *)
Definition seen (four : bool) (v : svar) : cvalue :=
  mkCV (norm (sv_width v) (sv_p v)) (norm (sv_width v) (if four then sv_m v else 0)) (sv_width v).

Theorem through_component_spec src four f v qw :
  wf_svar v -> src_ok src (sv_width v) ->
  w64s (cv_words (f (seen four v))) -> w64s (cv_mask (f (seen four v))) ->
  through_component src four f v qw =
  Some (mkSV qw (bits_of (cv_words (f (seen four v))) mod 2 ^ qw)
             (if four then bits_of (cv_mask (f (seen four v))) mod 2 ^ qw else 0)).
Proof.
  intros Hv Hs Hw Hm. unfold through_component. rewrite stage_spec by auto.
  rewrite read_spec.
  replace (if four then if four then sv_m v else 0 else 0) with (if four then sv_m v else 0) by (destruct four; auto).
  fold (seen four v). rewrite write_spec by auto. rewrite apply_spec. reflexivity.
Qed.

Theorem marshal_roundtrip_lemma src four v :
  wf_svar v -> src_ok src (sv_width v) ->
  through_component src four (fun x => x) v (sv_width v) =
  Some (mkSV (sv_width v) (sv_p v) (if four then sv_m v else 0)).
Proof.
  intros Hv Hs. rewrite through_component_spec; auto; try apply norm_w64s.
  unfold seen; cbn [cv_words cv_mask]. rewrite !bits_of_norm.
  destruct Hv as [Hp Hm].
  rewrite !N.mod_mod by (apply N.pow_nonzero; discriminate).
  rewrite (N.mod_small (sv_p v)) by auto.
  destruct four; auto. rewrite (N.mod_small (sv_m v)) by auto. reflexivity.
Qed.

(* ---------------------------------------------------------------- part P5 *)
Lemma le_bytes_len k x : length (le_bytes k x) = k.
Proof. revert x; induction k; intros; simpl; auto. Qed.

Lemma of_le_bytes_le_bytes k x : of_le_bytes (le_bytes k x) = x mod 256 ^ N.of_nat k.
Proof.
  revert x; induction k; intros.
  - simpl. rewrite N.mod_1_r. reflexivity.
  - cbn [le_bytes of_le_bytes]. rewrite IHk. rewrite Nat2N.inj_succ, N.pow_succ_r'.
    rewrite N.mod_mul_r by (try discriminate; apply N.pow_nonzero; discriminate). reflexivity.
Qed.

Lemma le8_id x : x < W64 -> of_le_bytes (le_bytes 8 x) = x.
Proof. intros. rewrite of_le_bytes_le_bytes. apply N.mod_small. exact H. Qed.

Lemma le4_id x : x < 2 ^ 32 -> of_le_bytes (le_bytes 4 x) = x.
Proof. intros. rewrite of_le_bytes_le_bytes. apply N.mod_small. exact H. Qed.

Lemma words_to_bytes_cons x r : words_to_bytes (x :: r) = le_bytes 8 x ++ words_to_bytes r.
Proof. reflexivity. Qed.

Lemma words_to_bytes_len ws : length (words_to_bytes ws) = (8 * length ws)%nat.
Proof.
  induction ws; [reflexivity|]. rewrite words_to_bytes_cons, app_length, le_bytes_len, IHws. simpl length. lia.
Qed.

Lemma firstn_app_exact {A} (a b : list A) n : length a = n -> firstn n (a ++ b) = a.
Proof. intros <-. rewrite firstn_app, Nat.sub_diag, firstn_all. simpl. apply app_nil_r. Qed.
Lemma skipn_app_exact {A} (a b : list A) n : length a = n -> skipn n (a ++ b) = b.
Proof. intros <-. rewrite skipn_app, Nat.sub_diag, skipn_all. reflexivity. Qed.

Lemma b2w_w2b_f ws : forall fuel, (length ws <= fuel)%nat -> w64s ws ->
  bytes_to_words_f fuel (words_to_bytes ws) = ws.
Proof.
  induction ws as [|x r IH]; intros fuel Hf Hw.
  - destruct fuel; reflexivity.
  - destruct fuel; [simpl in Hf; lia|].
    inversion Hw as [|? ? Hx Hr]; subst.
    rewrite words_to_bytes_cons. cbn [bytes_to_words_f].
    remember (le_bytes 8 x ++ words_to_bytes r) as bs eqn:E.
    destruct bs as [|b0 bs'].
    { apply (f_equal (@length N)) in E. rewrite app_length, le_bytes_len in E. simpl in E. lia. }
    rewrite E. rewrite firstn_app_exact by apply le_bytes_len.
    rewrite skipn_app_exact by apply le_bytes_len.
    rewrite le8_id by auto. f_equal. apply IH; auto. simpl in Hf; lia.
Qed.

Lemma b2w_w2b ws : w64s ws -> bytes_to_words (words_to_bytes ws) = ws.
Proof. intros. unfold bytes_to_words. apply b2w_w2b_f; auto. rewrite words_to_bytes_len. lia. Qed.

(* memory *)
Lemma skipn_nth_cons (l : list N) off : (off < length l)%nat -> skipn off l = nth off l 0 :: skipn (S off) l.
Proof.
  revert off; induction l; intros off H; simpl in H; [lia|].
  destruct off; [reflexivity|]. simpl. apply IHl. lia.
Qed.

Lemma mem_read_write_gen m ptr bs : forall k off, (off + k = length bs)%nat ->
  mem_read (mem_write m ptr bs) (ptr + N.of_nat off) k = skipn off bs.
Proof.
  induction k; intros off H.
  - simpl. rewrite skipn_all2; auto. lia.
  - cbn [mem_read]. rewrite skipn_nth_cons by lia. f_equal.
    + unfold mem_write.
      replace ((ptr <=? ptr + N.of_nat off) && (ptr + N.of_nat off <? ptr + N.of_nat (length bs))) with true.
      * f_equal. lia.
      * symmetry. apply andb_true_intro. split; [apply N.leb_le; lia|apply N.ltb_lt; lia].
    + replace (ptr + N.of_nat off + 1) with (ptr + N.of_nat (S off)) by lia. apply IHk. lia.
Qed.

Lemma mem_read_write_same m ptr bs : mem_read (mem_write m ptr bs) ptr (length bs) = bs.
Proof.
  pose proof (mem_read_write_gen m ptr bs (length bs) 0 eq_refl) as H.
  rewrite N.add_0_r in H. exact H.
Qed.

Lemma mem_read_write_other m ptr bs : forall k q,
  (q + N.of_nat k <= ptr \/ ptr + N.of_nat (length bs) <= q) ->
  mem_read (mem_write m ptr bs) q k = mem_read m q k.
Proof.
  induction k; intros q H; [reflexivity|]. cbn [mem_read]. f_equal.
  - unfold mem_write.
    destruct (N.leb_spec ptr q); destruct (N.ltb_spec q (ptr + N.of_nat (length bs))); cbn [andb]; auto; lia.
  - apply IHk. lia.
Qed.

Lemma load_store_same m ptr ws : w64s ws -> load_words (store_words m ptr ws) ptr (length ws) = ws.
Proof.
  intros. unfold load_words, store_words. rewrite <- words_to_bytes_len.
  rewrite mem_read_write_same. apply b2w_w2b; auto.
Qed.

(* ---- read_input *)
Definition wf_port (p : port) : Prop :=
  w64s (p_words p) /\ w64s (p_mask p) /\ length (p_mask p) = length (p_words p).

Theorem wasm_read_input_eq_native_lemma p m wptr mptr :
  wf_port p ->
  let n := length (p_words p) in
  (mptr <> 0 -> wptr + N.of_nat (8 * n) <= mptr \/ mptr + N.of_nat (8 * n) <= wptr) ->
  let m' := wasm_read_input p m wptr mptr in
  load_words m' wptr n = fst (native_read_input p (negb (mptr =? 0))) /\
  match snd (native_read_input p (negb (mptr =? 0))) with
  | Some ms => load_words m' mptr n = ms
  | None => forall a, ~ (wptr <= a < wptr + N.of_nat (8 * n)) -> m' a = m a
  end.
Proof.
  intros (Hw & Hm & Hl) n Hd m'. unfold native_read_input, wasm_read_input in *. cbn [fst snd].
  destruct (N.eqb_spec mptr 0) as [E|E]; cbn [negb].
  - subst m'. split.
    + apply load_store_same; auto.
    + intros a Ha. unfold mem_write. rewrite words_to_bytes_len. fold n.
      destruct (N.leb_spec wptr a); destruct (N.ltb_spec a (wptr + N.of_nat (8 * n))); cbn [andb]; auto; lia.
  - subst m'. specialize (Hd E). split.
    + unfold load_words. rewrite mem_read_write_other.
      * fold (store_words m wptr (p_words p)). apply load_store_same; auto.
      * rewrite words_to_bytes_len, Hl. fold n. lia.
    + unfold n. rewrite <- Hl.
      fold (store_words (mem_write m wptr (words_to_bytes (p_words p))) mptr (p_mask p)).
      apply load_store_same; auto.
Qed.

(* ---- write_output *)
Theorem wasm_write_output_eq_native_lemma p m wptr mptr ws ms :
  let n := length (p_words p) in
  w64s ws -> length ws = n -> mem_read m wptr (8 * n) = words_to_bytes ws ->
  (mptr <> 0 -> w64s ms /\ length ms = n /\ mem_read m mptr (8 * n) = words_to_bytes ms) ->
  wasm_write_output p m wptr mptr = svc_write_output p ws (if mptr =? 0 then None else Some ms).
Proof.
  intros n Hw Hl Hr Hm. unfold wasm_write_output. fold n. rewrite Hr, b2w_w2b by auto.
  destruct (N.eqb_spec mptr 0); auto.
  destruct (Hm n0) as (Hmw & Hml & Hmr). rewrite Hmr, b2w_w2b by auto. reflexivity.
Qed.

Definition mem_ff : mem := fun _ => 255.

Theorem wasm_write_output_unrepaired_refuted_lemma :
  exists p m wptr ws,
    mem_read m wptr (8 * length (p_words p)) = words_to_bytes ws /\
    wasm_write_output_unrepaired p m wptr 0 <> svc_write_output p ws None.
Proof.
  exists (new_port 8), mem_ff, 64, [18446744073709551615]. split.
  - vm_compute. reflexivity.
  - vm_compute. discriminate.
Qed.

(* ---- VrlValue32 *)
Definition wf_v32 (v : v32) : Prop :=
  v_kind v < 2 ^ 32 /\ v_width v < 2 ^ 32 /\ v_words v < 2 ^ 32 /\ v_nwords v < 2 ^ 32 /\
  v_mask v < 2 ^ 32 /\ v_sptr v < 2 ^ 32 /\ v_slen v < 2 ^ 32.

Lemma field_of_le4 pre x post i : length pre = (i * 4)%nat ->
  field (pre ++ le_bytes 4 x ++ post) i = x mod 2 ^ 32.
Proof.
  intros. unfold field. rewrite skipn_app_exact by auto.
  rewrite firstn_app_exact by apply le_bytes_len. rewrite of_le_bytes_le_bytes. reflexivity.
Qed.

Theorem v32_roundtrip_lemma v : wf_v32 v -> v32_from_bytes (v32_to_bytes v) = v.
Proof.
  intros (H0 & H1 & H2 & H3 & H4 & H5 & H6). destruct v as [a b c d e f g]; cbn [v_kind v_width v_words v_nwords v_mask v_sptr v_slen] in *.
  pose proof (le4_id a H0) as Ea. pose proof (le4_id b H1) as Eb. pose proof (le4_id c H2) as Ec.
  pose proof (le4_id d H3) as Ed. pose proof (le4_id e H4) as Ee. pose proof (le4_id f H5) as Ef.
  pose proof (le4_id g H6) as Eg.
  cbn [of_le_bytes le_bytes] in Ea, Eb, Ec, Ed, Ee, Ef, Eg.
  unfold v32_from_bytes, v32_to_bytes, field.
  cbn [flat_map app le_bytes skipn firstn Nat.mul Nat.add of_le_bytes v_kind v_width v_words v_nwords v_mask v_sptr v_slen].
  rewrite Ea, Eb, Ec, Ed, Ee, Ef, Eg. reflexivity.
Qed.

(* ---- method arguments / parameters *)
Theorem wasm_arg_eq_native_lemma h m ptr :
  w64s (hv_words h) -> hv_width h < 2 ^ 32 -> ptr < 2 ^ 32 -> N.of_nat (length (hv_words h)) < 2 ^ 32 ->
  wasm_arg h m ptr = from_vrl_native h.
Proof.
  intros Hw Hwd Hp Hl. unfold wasm_arg, from_vrl_native.
  rewrite v32_roundtrip_lemma by (unfold wf_v32; cbn; repeat split; auto; reflexivity).
  cbn [v_nwords v_words v_width]. rewrite Nat2N.id.
  fold (store_words m ptr (hv_words h)). rewrite load_store_same by auto. reflexivity.
Qed.

Lemma firstn_resize_id ws n : (length ws <= n)%nat -> firstn (length ws) (resize n ws) = ws.
Proof.
  revert n; induction ws; intros n H; [reflexivity|].
  destruct n; [simpl in H; lia|]. cbn [resize length firstn]. f_equal. apply IHws. simpl in H. lia.
Qed.

Theorem wasm_method_return_eq_native_lemma v m ptr :
  w64s (cv_words v) -> cv_width v < 2 ^ 32 -> ptr < 2 ^ 32 ->
  wasm_method_return v m ptr = method_return_native v.
Proof.
  intros Hw Hwd Hp. unfold wasm_method_return, method_return_native.
  destruct (Nat.ltb_spec METHOD_RET_WORDS (length (cv_words v))) as [Hgt|Hle]; auto.
  assert (Hl32: N.of_nat (length (cv_words v)) < 2 ^ 32).
  { unfold METHOD_RET_WORDS in Hle. apply N.le_lt_trans with 8; [lia|reflexivity]. }
  rewrite v32_roundtrip_lemma by (unfold wf_v32; cbn; repeat split; auto; reflexivity).
  cbn [v_nwords v_width]. rewrite Nat2N.id. rewrite Nat.min_l by auto.
  rewrite firstn_resize_id by auto.
  replace (length (cv_words v) * 8)%nat with (length (words_to_bytes (cv_words v))) by (rewrite words_to_bytes_len; lia).
  unfold store_words. rewrite mem_read_write_same, b2w_w2b by auto. reflexivity.
Qed.

(* ---- HostValue echo through a method *)
Theorem echo_roundtrip_lemma v :
  wf_svar v ->
  echo_native v = if (sv_width v <=? 512) then Some (mkSV (sv_width v) (sv_p v) 0) else None.
Proof.
  intros [Hp Hm]. unfold echo_native, method_return_native, from_vrl_native, host_value_from.
  cbn [hv_words hv_width]. rewrite value_words_spec by auto.
  rewrite from_bits_norm by (try apply norm_w64s; apply zeros_w64s).
  cbn [cv_words cv_width]. rewrite norm_idem, norm_len.
  assert (Hn: N.of_nat (nwords (sv_width v)) = words_for (sv_width v)) by apply nwords_spec.
  destruct (N.leb_spec (sv_width v) 512) as [Hs|Hs].
  - destruct (Nat.ltb_spec METHOD_RET_WORDS (nwords (sv_width v))) as [Hgt|Hle].
    { unfold METHOD_RET_WORDS, words_for in *. lia. }
    rewrite Nat.min_l by auto.
    rewrite <- (norm_len (sv_width v) (sv_p v)) at 1. rewrite firstn_resize_id by (rewrite norm_len; auto).
    unfold host_value_to_value. cbn [hv_words hv_width]. f_equal.
    destruct (N.leb_spec (sv_width v) 64).
    + rewrite hd_norm_small by auto. rewrite N.mod_small; auto.
    + rewrite bits_of_norm, N.mod_small; auto.
  - destruct (Nat.ltb_spec METHOD_RET_WORDS (nwords (sv_width v))) as [Hgt|Hle]; auto.
    unfold METHOD_RET_WORDS, words_for in *. lia.
Qed.

(* ---------------------------------------------------------------- per-bit reading *)
Lemma testbit_high x w i : x < 2 ^ w -> w <= i -> N.testbit x i = false.
Proof.
  intros Hx Hi. destruct (N.eq_dec x 0) as [->|Hn]; [apply N.bits_0|].
  apply N.bits_above_log2. apply N.log2_lt_pow2; [lia|].
  eapply N.lt_le_trans; [exact Hx|]. apply N.pow_le_mono_r; [discriminate|auto].
Qed.

Theorem marshal_roundtrip_bits_lemma src four v :
  wf_svar v -> src_ok src (sv_width v) ->
  exists out, through_component src four (fun x => x) v (sv_width v) = Some out /\
    sv_width out = sv_width v /\
    (forall i, i < sv_width v ->
       N.testbit (sv_p out) i = N.testbit (sv_p v) i /\
       N.testbit (sv_m out) i = (four && N.testbit (sv_m v) i)%bool) /\
    (forall i, sv_width v <= i -> N.testbit (sv_p out) i = false /\ N.testbit (sv_m out) i = false).
Proof.
  intros Hv Hs. eexists. split; [apply marshal_roundtrip_lemma; auto|].
  destruct Hv as [Hp Hm]. cbn [sv_width sv_p sv_m]. split; [reflexivity|]. split.
  - intros i _. split; [reflexivity|]. destruct four; [reflexivity|apply N.bits_0].
  - intros i Hi. split; [eapply testbit_high; eauto|].
    destruct four; [eapply testbit_high; eauto|apply N.bits_0].
Qed.

(* every word list that crosses the boundary is clean: words_for(width) words, value < 2^width *)
Theorem port_buffers_clean_lemma src four v qw f :
  wf_svar v -> src_ok src (sv_width v) ->
  w64s (cv_words (f (seen four v))) -> w64s (cv_mask (f (seen four v))) ->
  exists pin pout,
    stage_input src four v (new_port (sv_width v)) = Some pin /\
    ctx_write four (new_port qw) (f (ctx_read four pin)) = Some pout /\
    length (p_words pin) = nwords (sv_width v) /\ length (p_mask pin) = nwords (sv_width v) /\
    bits_of (p_words pin) = sv_p v /\ bits_of (p_mask pin) = (if four then sv_m v else 0) /\
    length (p_words pout) = nwords qw /\ length (p_mask pout) = nwords qw /\
    bits_of (p_words pout) < 2 ^ qw /\ bits_of (p_mask pout) < 2 ^ qw /\ p_dirty pout = true.
Proof.
  intros Hv Hs Hw Hm. destruct (Hv) as [Hp Hmk].
  eexists. eexists. split; [apply stage_spec; auto|].
  rewrite read_spec.
  replace (if four then if four then sv_m v else 0 else 0) with (if four then sv_m v else 0) by (destruct four; auto).
  fold (seen four v). split; [apply write_spec; auto|].
  cbn [p_words p_mask p_dirty]. rewrite !norm_len, !bits_of_norm.
  assert (Hpos: forall z, z mod 2 ^ qw < 2 ^ qw) by (intro; apply N.mod_lt, N.pow_nonzero; discriminate).
  repeat split; auto.
  - apply N.mod_small; auto.
  - destruct four; [apply N.mod_small; auto|apply N.mod_0_l, N.pow_nonzero; discriminate].
  - destruct four; [apply norm_len|apply zeros_len].
  - destruct four; [rewrite bits_of_norm; auto|].
    rewrite <- norm_zero, bits_of_norm. auto.
Qed.

(* scalar fast path: write_u64 masks to the port width and clears the mask *)
Theorem write_u64_spec_lemma four qw x :
  qw <= 64 -> x < W64 ->
  match ctx_write_u64 (new_port qw) x with
  | Some pout => apply_output four qw pout = mkSV qw (x mod 2 ^ qw) 0
  | None => False
  end.
Proof.
  intros Hq Hx. unfold ctx_write_u64, new_port. cbn [p_words p_mask p_width].
  rewrite (nwords_small qw) by auto. cbn [zeros repeat].
  unfold apply_output. rewrite (proj2 (N.leb_le qw 64)) by auto. cbn [p_words p_mask hd].
  assert (E: (if 64 <=? qw then x else N.land x (N.shiftr (N.ones 64) (64 - qw))) = x mod 2 ^ qw).
  { destruct (N.leb_spec 64 qw).
    - assert (qw = 64) by lia. subst. symmetry. apply N.mod_small. exact Hx.
    - apply land_mask. lia. }
  rewrite E. f_equal.
  - rewrite width_mask_land; auto.
    + apply N.mod_mod, N.pow_nonzero; discriminate.
    + eapply N.lt_le_trans; [apply N.mod_lt, N.pow_nonzero; discriminate|apply pow_le_w64; auto].
  - destruct four; auto.
Qed.
