(* C35 — a small step model mirroring Simulator::step_event_inner (simulator.rs):

     stage_components(event)   sample the inputs of every component listening to the event
     eval_event_stmts(event)   run the event's always_ff bodies: read current storage, append
                               non-blocking writes to the write log   (+ the async-reset edge)
     commit_event_log()        apply the write log to FF storage, reset the log
     fire_components(event)    run the hook (it can read only the staged inputs), then
                               apply_outputs: write the dirty output ports into variable storage

   The ORDER of the phases is not written here: it is regenerated from the Rust source on every
   check (StepOrderGen.v) and the theorems of StepProofs.v are proved about that generated list.
   Everything else is abstract (Section variables): the theorems hold for every design, every
   component and every connection expression. *)
From Coq Require Export List NArith.
Export ListNotations.

Inductive phase := Stage | Eval | Commit | Fire.

Definition phase_eqb (a b : phase) : bool :=
  match a, b with Stage, Stage | Eval, Eval | Commit, Commit | Fire, Fire => true | _, _ => false end.

(* consecutive repetitions are calls for further events sharing the same commit (gated clocks,
   the asynchronous-reset assertion edge); the one-component model collapses them *)
Fixpoint collapse (l : list phase) : list phase :=
  match l with
  | [] => []
  | a :: r => match r with
              | b :: _ => if phase_eqb a b then collapse r else a :: collapse r
              | [] => [a]
              end
  end.

Section Step.
  Variables S L C I O : Type.
  Variable sample : S -> I.                 (* stage_inputs: evaluate the connections on current storage *)
  Variable eval_event : S -> L -> L.        (* eval_event_stmts: bodies read current storage, extend the log *)
  Variable commit : S -> L -> S.            (* ff_commit_from_log *)
  Variable empty : L.                       (* write_log_buffer.reset() *)
  Variable hook : C -> I -> C * option O.   (* on_clock: reads the staged inputs only *)
  Variable apply_out : S -> option O -> S.  (* apply_outputs (None: nothing dirty) *)

  Record st := mkSt { vars : S; log : L; staged : I; comp : C; hook_saw : option I }.

  Definition run_phase (s : st) (ph : phase) : st :=
    match ph with
    | Stage => mkSt (vars s) (log s) (sample (vars s)) (comp s) (hook_saw s)
    | Eval => mkSt (vars s) (eval_event (vars s) (log s)) (staged s) (comp s) (hook_saw s)
    | Commit => mkSt (commit (vars s) (log s)) empty (staged s) (comp s) (hook_saw s)
    | Fire => let (c', o) := hook (comp s) (staged s) in
              mkSt (apply_out (vars s) o) (log s) (staged s) c' (Some (staged s))
    end.

  Definition run (order : list phase) (s : st) : st := fold_left run_phase order s.
End Step.

(* a concrete instance used for the "outputs are one more non-blocking write" reading:
   storage is a map from variable ids to values, a log / an output set is a list of writes *)
Definition store := N -> N.
Definition upd (s : store) (k v : N) : store := fun a => if N.eqb a k then v else s a.
Definition writes := list (N * N).
Definition apply_writes (s : store) (l : writes) : store :=
  fold_left (fun s kv => upd s (fst kv) (snd kv)) l s.
Definition apply_opt (s : store) (o : option writes) : store :=
  match o with Some l => apply_writes s l | None => s end.
