(* C35 — model of the test scaffolding (the `probe` component of harness/component) on top of
   ComponentModel.v, so that a whole harness case can be evaluated inside Coq (vm_compute) and
   compared with what the real HostContext / veryl_component code produced.  Definitions only. *)
From VV Require Import Component.ComponentModel.
Open Scope N_scope.

Definition ones64 : N := N.ones 64.
Definition inv64 (x : N) : N := N.lxor (x mod W64) ones64.

(* harness add_words: acc += x over acc's length, wrapping *)
Definition add_words (acc x : list N) : list N :=
  let n := length acc in
  words_of n (bits_of acc + bits_of (resize n x)).

Record probe_out := mkPO { po_saw : cvalue; po_q : option port; po_acc : list N }.

(* one on_clock of the probe; pd = input port d (already staged), pq = output port q *)
Definition probe_clock (four : bool) (mode func : N) (pd pq : port) (acc : list N) : probe_out :=
  let nq := nwords (p_width pq) in
  match mode with
  | 0 =>
      let v := ctx_read four pd in
      let '(out, acc') :=
        match func with
        | 1 => (from_bits (map inv64 (cv_words v)) (cv_mask v) (cv_width v), acc)
        | 2 => let a := add_words acc (cv_words v) in
               (from_bits a (zeros (length a)) (p_width pq), a)
        | 3 => (from_bits (cv_mask v) (cv_words v) (cv_width v), acc)
        | 4 => (mkCV (repeat ones64 (S nq)) (repeat ones64 (S nq)) (64 * N.of_nat (S nq)), acc)
        | _ => (v, acc)
        end in
      mkPO v (ctx_write four pq out) acc'
  | 1 =>
      let x := ctx_read_u64 pd in
      let '(y, acc') :=
        match func with
        | 1 => (inv64 x, acc)
        | 2 => let a := (hd 0 acc + x) mod W64 in (a, a :: tl acc)
        | _ => (x, acc)
        end in
      mkPO (mkCV [x] [0] (p_width pd)) (ctx_write_u64 pq y) acc'
  | _ =>
      let ws := ctx_read_words pd in
      let '(out, acc') :=
        match func with
        | 1 => (map inv64 ws, acc)
        | 2 => let a := add_words acc ws in (a, a)
        | _ => (ws, acc)
        end in
      let pad := if func =? 1 then ones64 else 0 in
      let out' := out ++ repeat pad (nq - length out) in
      mkPO (mkCV ws (zeros (length ws)) (p_width pd)) (ctx_write_words pq out') acc'
  end.

(* a whole "marshal" case: ports created, then per step set_input(_masked) + on_clock.
   Result per step: None when the host call panics (a too short slice), otherwise
   (seen words, seen mask, q words, q mask, dirty). *)
Definition step_result := option (list N * list N * list N * list N * bool).

Fixpoint marshal_steps (four : bool) (mode func : N) (pd pq : port) (acc : list N)
         (steps : list (list N * list N)) : list step_result :=
  match steps with
  | [] => []
  | (p, m) :: rest =>
      match (if four then set_input_masked pd p m else set_input pd p) with
      | None => [None]
      | Some pd' =>
          let pqc := mkPort (p_width pq) (p_words pq) (p_mask pq) false in
          let r := probe_clock four mode func pd' pqc acc in
          match po_q r with
          | None => [None]
          | Some pq' =>
              Some (cv_words (po_saw r), cv_mask (po_saw r), p_words pq', p_mask pq', p_dirty pq')
              :: marshal_steps four mode func pd' pq' (po_acc r) rest
          end
      end
  end.

Definition marshal_case (four : bool) (mode func dw qw : N) (steps : list (list N * list N)) : list step_result :=
  marshal_steps four mode func (new_port dw) (new_port qw)
                (zeros (Nat.max (nwords qw) (nwords dw))) steps.

(* "conv" case: the pure conversions *)
Definition conv_case (w p m vw : N) (rw rm : list N) :=
  let hv := host_value_from (mkSV w p m) in
  let back := host_value_to_value hv in
  let cv := from_bits rw rm vw in
  let u := from_u64 (hd 0 rw) vw in
  (hv_words hv, hv_width hv, (sv_width back, sv_p back, sv_m back),
   (cv_words cv, cv_mask cv), cv_words u).

Definition v32_case (a b c d e f g : N) :=
  let bs := v32_to_bytes (mkV32 a b c d e f g) in
  let r := v32_from_bytes bs in
  (bs, [v_kind r; v_width r; v_words r; v_nwords r; v_mask r; v_sptr r; v_slen r]).

(* "method" case: echo of a HostValue *)
Definition method_case (w : N) (ws : list N) :=
  let h := mkHV ws w in
  let v := from_vrl_native h in
  (cv_words v, cv_mask v,
   match method_return_native v with
   | Some r => Some (hv_words r, hv_width r, let b := host_value_to_value r in (sv_p b))
   | None => None
   end).
