(* C35 — staging-order theorems over StepModel.v, proved for the phase order regenerated from
   simulator.rs (StepOrderGen.v). *)
From VV Require Import Component.StepModel Component.StepOrderGen.

Definition canonical_order : list phase := [Stage; Eval; Commit; Fire].

(* the generated orders collapse to stage -> eval -> commit -> fire *)
Lemma step_event_inner_order_ok : collapse step_event_inner_order = canonical_order.
Proof. reflexivity. Qed.
Lemma derived_master_order_ok : collapse derived_master_order = canonical_order.
Proof. reflexivity. Qed.

Section Step.
  Variables S L C I O : Type.
  Variable sample : S -> I.
  Variable eval_event : S -> L -> L.
  Variable commit : S -> L -> S.
  Variable empty : L.
  Variable hook : C -> I -> C * option O.
  Variable apply_out : S -> option O -> S.

  Let run := run S L C I O sample eval_event commit empty hook apply_out.
  Let St := st S L C I.

  (* a step starts with an empty write log (commit_event_log resets it) *)
  Definition start (s : S) (i : I) (c : C) : St := mkSt S L C I s empty i c None.

  Lemma stage_sees_pre_edge_lemma s i c :
    hook_saw _ _ _ _ (run (collapse step_event_inner_order) (start s i c)) = Some (sample s) /\
    hook_saw _ _ _ _ (run (collapse derived_master_order) (start s i c)) = Some (sample s).
  Proof.
    rewrite step_event_inner_order_ok, derived_master_order_ok.
    unfold run, StepModel.run, canonical_order, start. cbn [fold_left run_phase vars log staged comp hook_saw].
    destruct (hook c (sample s)); cbn; auto.
  Qed.

  Lemma outputs_with_ff_lemma s i c :
    let committed := commit s (eval_event s empty) in
    let r := hook c (sample s) in
    vars _ _ _ _ (run (collapse step_event_inner_order) (start s i c)) = apply_out committed (snd r) /\
    comp _ _ _ _ (run (collapse step_event_inner_order) (start s i c)) = fst r /\
    vars _ _ _ _ (run (collapse derived_master_order) (start s i c)) = apply_out committed (snd r).
  Proof.
    rewrite step_event_inner_order_ok, derived_master_order_ok.
    unfold run, StepModel.run, canonical_order, start. cbn [fold_left run_phase vars log staged comp hook_saw].
    destruct (hook c (sample s)); cbn; auto.
  Qed.

  (* the write log is evaluated on the pre-edge storage: it cannot depend on what the hook writes
     at this edge (the same edge's always_ff bodies never observe the component's new outputs) *)
  Lemma ff_bodies_do_not_see_outputs_lemma s i c hook' :
    let run' := StepModel.run S L C I O sample eval_event commit empty hook' apply_out in
    forall o o', snd (hook c (sample s)) = o -> snd (hook' c (sample s)) = o' ->
    exists base, vars _ _ _ _ (run (collapse step_event_inner_order) (start s i c)) = apply_out base o /\
                 vars _ _ _ _ (run' (collapse step_event_inner_order) (start s i c)) = apply_out base o'.
  Proof.
    intros run' o o' Ho Ho'. exists (commit s (eval_event s empty)).
    rewrite step_event_inner_order_ok.
    unfold run', run, StepModel.run, canonical_order, start. cbn [fold_left run_phase vars log staged comp hook_saw].
    destruct (hook c (sample s)); destruct (hook' c (sample s)); cbn in *; subst; auto.
  Qed.
End Step.

(* concrete reading: with storage as a map and logs as write lists, the component's outputs are
   exactly additional non-blocking writes of the same commit *)
Lemma apply_writes_app s a b : apply_writes (apply_writes s a) b = apply_writes s (a ++ b).
Proof. unfold apply_writes. rewrite fold_left_app. reflexivity. Qed.

Lemma component_is_nba_process_lemma (C I : Type) (sample : store -> I)
      (bodies : store -> writes) (hook : C -> I -> C * option writes) s i c :
  let r := StepModel.run store writes C I writes sample (fun s l => l ++ bodies s) apply_writes []
                         hook apply_opt (collapse step_event_inner_order)
                         (mkSt store writes C I s [] i c None) in
  vars _ _ _ _ r =
  apply_writes s (bodies s ++ match snd (hook c (sample s)) with Some o => o | None => [] end).
Proof.
  rewrite step_event_inner_order_ok.
  unfold StepModel.run, canonical_order. cbn [fold_left run_phase vars log staged comp hook_saw app].
  destruct (hook c (sample s)) as [c' [o|]]; cbn [snd apply_opt vars].
  - apply apply_writes_app.
  - rewrite app_nil_r. reflexivity.
Qed.

(* contrast (non-vacuity): had staging been placed after the commit, the hook would see the
   post-edge value *)
Lemma late_staging_sees_post_edge :
  let r := StepModel.run N N unit N N (fun s => s) (fun s _ => N.succ s) (fun _ l => l) 0%N
                         (fun c i => (c, Some i)) (fun s _ => s) [Eval; Commit; Stage; Fire]
                         (mkSt N N unit N 5%N 0%N 0%N tt None) in
  hook_saw _ _ _ _ r = Some 6%N.
Proof. reflexivity. Qed.
