(* C35 — model of the host/component value boundary of veryl's user components.

   Transcribed (definitions only) from
     crates/component/src/value.rs        words_for, mask_top_word, Value::from_bits / from_u64,
                                          to_port_words, to_port_mask_xz, from_vrl
     crates/component/src/ctx.rs          SimCtx::read / write / read_u64 / write_u64 / write_words
     crates/component/src/export.rs       write_return
     crates/simulator/src/component/host.rs     words_for, set_input, set_input_masked,
                                          host_read_input, host_write_output / svc_write_output,
                                          HostValue::as_vrl, call_method return decoding
     crates/simulator/src/component/runtime.rs  value_to_words_into, value_to_mask_xz_into,
                                          host_value_from, words_to_value(_masked),
                                          stage_inputs (DirectScalar / DirectWide / Expr),
                                          apply_outputs (scalar / wide)
     crates/simulator/src/component/wasm.rs     words_to_bytes, bytes_to_words, read_input /
                                          write_output / param_get imports, prepare_method_call,
                                          decode_return
     crates/component/sys/src/lib.rs      wasm32::VrlValue32::{to_le_bytes, from_le_bytes}

   u64 words are modelled as N (the well-formedness predicate `w64s` says every word is < 2^64);
   widths and lengths are unbounded N / nat.  A simulator variable is (width, payload, mask) with
   payload, mask < 2^width (veryl's payload / mask_xz encoding: X = (0,1), Z = (1,1)). *)
From Coq Require Export List NArith Lia Bool.
Export ListNotations.
Open Scope N_scope.

Definition W64 : N := 2 ^ 64.

(* (width as usize).div_ceil(64).max(1)   — value.rs:23, host.rs:104 *)
Definition words_for (w : N) : N := N.max ((w + 63) / 64) 1.
Definition nwords (w : N) : nat := N.to_nat (words_for w).

(* LSB-first 64-bit words <-> number *)
Fixpoint bits_of (ws : list N) : N :=
  match ws with [] => 0 | x :: r => x + W64 * bits_of r end.

Fixpoint words_of (n : nat) (v : N) : list N :=
  match n with O => [] | S k => (v mod W64) :: words_of k (v / W64) end.

Definition w64s (ws : list N) : Prop := Forall (fun x => x < W64) ws.

(* Vec::resize(n, 0) / SmallVec::resize(n, 0) *)
Fixpoint resize (n : nat) (ws : list N) : list N :=
  match n with
  | O => []
  | S k => match ws with [] => 0 :: resize k [] | x :: r => x :: resize k r end
  end.

Definition zeros (n : nat) : list N := repeat 0 n.

Fixpoint map_last (f : N -> N) (ws : list N) : list N :=
  match ws with
  | [] => []
  | [x] => [f x]
  | x :: r => x :: map_last f r
  end.

(* value.rs mask_top_word *)
Definition mask_top_word (ws : list N) (w : N) : list N :=
  if w =? 0 then map_last (fun _ => 0) ws
  else
    let rem := w mod 64 in
    if rem =? 0 then ws
    else map_last (fun x => N.land x (N.shiftr (N.ones 64) (64 - rem))) ws.

(* ------------------------------------------------------------------ component-side Value *)
Record cvalue := mkCV { cv_words : list N; cv_mask : list N; cv_width : N }.

(* Value::from_bits *)
Definition from_bits (ws ms : list N) (w : N) : cvalue :=
  let n := nwords w in
  mkCV (mask_top_word (resize n ws) w) (mask_top_word (resize n ms) w) w.

(* Value::from_u64 *)
Definition from_u64 (v w : N) : cvalue :=
  let n := nwords w in
  let ws := mask_top_word (resize n [v]) w in
  mkCV ws (zeros (length ws)) w.

(* Value::to_port_words / to_port_mask_xz *)
Definition to_port_words (v : cvalue) (pw : N) : list N :=
  mask_top_word (resize (nwords pw) (cv_words v)) pw.
Definition to_port_mask_xz (v : cvalue) (pw : N) : list N :=
  mask_top_word (resize (nwords pw) (cv_mask v)) pw.

(* ------------------------------------------------------------------ host port buffers *)
Record port := mkPort { p_width : N; p_words : list N; p_mask : list N; p_dirty : bool }.

(* HostContext::add_port_role *)
Definition new_port (w : N) : port := mkPort w (zeros (nwords w)) (zeros (nwords w)) false.

(* copy_from_slice(&src[..n]) panics when src is shorter than n *)
Definition copy_prefix (n : nat) (src : list N) : option (list N) :=
  if Nat.leb n (length src) then Some (firstn n src) else None.

(* HostContext::set_input_masked / set_input *)
Definition set_input_masked (p : port) (ws ms : list N) : option port :=
  let n := length (p_words p) in
  match copy_prefix n ws, copy_prefix n ms with
  | Some a, Some b => Some (mkPort (p_width p) a b (p_dirty p))
  | _, _ => None
  end.
Definition set_input (p : port) (ws : list N) : option port :=
  let n := length (p_words p) in
  match copy_prefix n ws with
  | Some a => Some (mkPort (p_width p) a (map (fun _ => 0) (p_mask p)) (p_dirty p))
  | None => None
  end.

(* HostContext::svc_write_output: copy_from_slice needs equal lengths *)
Definition svc_write_output (p : port) (ws : list N) (ms : option (list N)) : option port :=
  if negb (Nat.eqb (length ws) (length (p_words p))) then None
  else match ms with
       | Some m => if negb (Nat.eqb (length m) (length (p_mask p))) then None
                   else Some (mkPort (p_width p) ws m true)
       | None => Some (mkPort (p_width p) ws (map (fun _ => 0) (p_mask p)) true)
       end.

(* ------------------------------------------------------------------ simulator <-> port *)
Record svar := mkSV { sv_width : N; sv_p : N; sv_m : N }.
Definition wf_svar (v : svar) : Prop := sv_p v < 2 ^ sv_width v /\ sv_m v < 2 ^ sv_width v.

(* BigUint::iter_u64_digits: minimal little-endian digits (none for zero) *)
Fixpoint digits_f (fuel : nat) (p : N) : list N :=
  match fuel with
  | O => []
  | S k => if p =? 0 then [] else (p mod W64) :: digits_f k (p / W64)
  end.
Definition digits (p : N) : list N := digits_f (N.to_nat (N.size p)) p.

(* runtime.rs value_to_words_into / value_to_mask_xz_into: Value::U64 pushes the one word,
   Value::BigUint its digits; then resize(nwords, 0) *)
Definition value_words (w x : N) (n : nat) : list N :=
  resize n (if w <=? 64 then [x] else digits x).

Inductive source := DirectScalar | DirectWide | ExprSrc.

(* runtime.rs InputSource::classify on a plain variable of width w (native_bytes 1,2,4,8 for
   w <= 64, whole 64-bit words above); anything else is evaluated as an expression *)
Definition classify_plain (w : N) : source := if w <=? 64 then DirectScalar else DirectWide.

(* RuntimeComponent::stage_inputs for one input port.  Two-state runs leave the mask buffer of a
   directly-read port untouched and zero it (set_input) for an expression port. *)
Definition stage_input (src : source) (four : bool) (v : svar) (p : port) : option port :=
  let n := length (p_words p) in
  match src with
  | DirectScalar =>
      (* *dst_words = payload; if use_4state { *dst_mask = mask }  — only word 0 is written *)
      match p_words p, p_mask p with
      | _ :: wr, m0 :: mr =>
          Some (mkPort (p_width p) (sv_p v :: wr) (if four then sv_m v :: mr else m0 :: mr) (p_dirty p))
      | _, _ => None
      end
  | DirectWide =>
      (* copy native_bytes = 8 * n bytes of payload, then of the mask under four-state *)
      Some (mkPort (p_width p) (words_of n (sv_p v))
                   (if four then words_of n (sv_m v) else p_mask p) (p_dirty p))
  | ExprSrc =>
      let nw := nwords (sv_width v) in
      if four then set_input_masked p (value_words (sv_width v) (sv_p v) nw)
                                      (value_words (sv_width v) (sv_m v) nw)
      else set_input p (value_words (sv_width v) (sv_p v) nw)
  end.

(* SimCtx::read through host_read_input (copies all port words; the mask only when the guest
   passes a buffer, i.e. under four-state) followed by Value::from_bits *)
Definition ctx_read (four : bool) (p : port) : cvalue :=
  if four then from_bits (p_words p) (p_mask p) (p_width p)
  else from_bits (p_words p) [] (p_width p).

(* SimCtx::read_u64 / read_words: the raw port words, X/Z dropped *)
Definition ctx_read_u64 (p : port) : N := hd 0 (p_words p).
Definition ctx_read_words (p : port) : list N := p_words p.

(* SimCtx::write through host_write_output / svc_write_output *)
Definition ctx_write (four : bool) (p : port) (v : cvalue) : option port :=
  svc_write_output p (to_port_words v (p_width p))
                   (if four then Some (to_port_mask_xz v (p_width p)) else None).

(* SimCtx::write_u64: masked to the port width, mask cleared, dirty set (direct or fallback) *)
Definition ctx_write_u64 (p : port) (x : N) : option port :=
  let word := if 64 <=? p_width p then x else N.land x (N.shiftr (N.ones 64) (64 - p_width p)) in
  match p_words p, p_mask p with
  | _ :: wr, _ :: mr => Some (mkPort (p_width p) (word :: wr) (0 :: mr) true)
  | _, _ => None
  end.

(* SimCtx::write_words: first n words copied, top word masked to width - 64*(n-1) bits *)
Definition ctx_write_words (p : port) (ws : list N) : option port :=
  let n := nwords (p_width p) in
  if negb (Nat.leb n (length ws)) then None
  else
    let top_bits := p_width p - 64 * (N.of_nat n - 1) in
    let top_mask := if 64 <=? top_bits then N.ones 64 else 2 ^ top_bits - 1 in
    Some (mkPort (p_width p) (map_last (fun x => N.land x top_mask) (firstn n ws))
                 (map (fun _ => 0) (p_mask p)) true).

(* RuntimeComponent::apply_outputs for one dirty output bound to a variable of width w.
   Scalar destination: word 0 masked with width_mask; wide: the whole buffer is copied unmasked.
   Two-state storage has no mask slot (modelled as mask 0). *)
Definition width_mask (w : N) : N := if 64 <=? w then N.ones 64 else 2 ^ w - 1.
Definition apply_output (four : bool) (w : N) (p : port) : svar :=
  if w <=? 64 then
    mkSV w (N.land (hd 0 (p_words p)) (width_mask w))
         (if four then N.land (hd 0 (p_mask p)) (width_mask w) else 0)
  else
    mkSV w (bits_of (p_words p)) (if four then bits_of (p_mask p) else 0).

(* the whole path  variable -> input port -> hook (read; f; write) -> output port -> variable *)
Definition through_component (src : source) (four : bool) (f : cvalue -> cvalue)
           (v : svar) (qw : N) : option svar :=
  match stage_input src four v (new_port (sv_width v)) with
  | None => None
  | Some pin =>
      match ctx_write four (new_port qw) (f (ctx_read four pin)) with
      | None => None
      | Some pout => Some (apply_output four qw pout)
      end
  end.

(* ------------------------------------------------------------------ HostValue (params, methods) *)
Record hostvalue := mkHV { hv_words : list N; hv_width : N }.

(* runtime.rs host_value_from *)
Definition host_value_from (v : svar) : hostvalue :=
  mkHV (value_words (sv_width v) (sv_p v) (nwords (sv_width v))) (sv_width v).

(* HostValue::as_vrl (mask_xz = null) followed by the guest's Value::from_vrl *)
Definition from_vrl_native (h : hostvalue) : cvalue :=
  from_bits (hv_words h) (zeros (length (hv_words h))) (hv_width h).

Definition METHOD_RET_WORDS : nat := 8.

(* export.rs write_return into the host's 8-word slot + host.rs call_method decoding *)
Definition method_return_native (v : cvalue) : option hostvalue :=
  if Nat.ltb METHOD_RET_WORDS (length (cv_words v)) then None
  else
    let buf := resize METHOD_RET_WORDS (cv_words v) in
    Some (mkHV (firstn (Nat.min (length (cv_words v)) METHOD_RET_WORDS) buf) (cv_width v)).

(* runtime.rs words_to_value (two-state) *)
Definition host_value_to_value (h : hostvalue) : svar :=
  if hv_width h <=? 64 then mkSV (hv_width h) (hd 0 (hv_words h)) 0
  else mkSV (hv_width h) (bits_of (hv_words h)) 0.

(* a method that returns its argument *)
Definition echo_native (v : svar) : option svar :=
  match method_return_native (from_vrl_native (host_value_from v)) with
  | Some h => Some (host_value_to_value h)
  | None => None
  end.

(* ------------------------------------------------------------------ wasm transport *)
(* guest linear memory: address -> byte *)
Definition mem := N -> N.

Fixpoint le_bytes (k : nat) (x : N) : list N :=
  match k with O => [] | S j => (x mod 256) :: le_bytes j (x / 256) end.
Fixpoint of_le_bytes (bs : list N) : N :=
  match bs with [] => 0 | b :: r => b + 256 * of_le_bytes r end.

(* wasm.rs words_to_bytes *)
Definition words_to_bytes (ws : list N) : list N := flat_map (le_bytes 8) ws.

(* wasm.rs bytes_to_words: chunks(8), a short last chunk is zero-padded *)
Fixpoint bytes_to_words_f (fuel : nat) (bs : list N) : list N :=
  match fuel with
  | O => []
  | S k => match bs with
           | [] => []
           | _ => of_le_bytes (firstn 8 bs) :: bytes_to_words_f k (skipn 8 bs)
           end
  end.
Definition bytes_to_words (bs : list N) : list N := bytes_to_words_f (length bs) bs.

(* Memory::write / Memory::read *)
Definition mem_write (m : mem) (ptr : N) (bs : list N) : mem :=
  fun a => if (ptr <=? a) && (a <? ptr + N.of_nat (length bs)) then nth (N.to_nat (a - ptr)) bs 0 else m a.
Fixpoint mem_read (m : mem) (ptr : N) (len : nat) : list N :=
  match len with O => [] | S k => m ptr :: mem_read m (ptr + 1) k end.

(* the guest's own view: little-endian u64 loads / stores *)
Definition load_words (m : mem) (ptr : N) (n : nat) : list N := bytes_to_words (mem_read m ptr (8 * n)).
Definition store_words (m : mem) (ptr : N) (ws : list N) : mem := mem_write m ptr (words_to_bytes ws).

(* wasm.rs "read_input" import (as repaired: a null mask pointer is skipped like in the native
   adapter host_read_input) *)
Definition wasm_read_input (p : port) (m : mem) (wptr mptr : N) : mem :=
  let m1 := mem_write m wptr (words_to_bytes (p_words p)) in
  if mptr =? 0 then m1 else mem_write m1 mptr (words_to_bytes (p_mask p)).

(* native host_read_input into guest buffers (None = null pointer) *)
Definition native_read_input (p : port) (want_mask : bool) : list N * option (list N) :=
  (p_words p, if want_mask then Some (p_mask p) else None).

(* wasm.rs "write_output" import (as repaired: null mask pointer = two-state value) *)
Definition wasm_write_output (p : port) (m : mem) (wptr mptr : N) : option port :=
  let n := length (p_words p) in
  let ws := bytes_to_words (mem_read m wptr (8 * n)) in
  if mptr =? 0 then svc_write_output p ws None
  else svc_write_output p ws (Some (bytes_to_words (mem_read m mptr (8 * n)))).

(* the import as it was before the repair: the mask is always read from guest memory *)
Definition wasm_write_output_unrepaired (p : port) (m : mem) (wptr mptr : N) : option port :=
  let n := length (p_words p) in
  svc_write_output p (bytes_to_words (mem_read m wptr (8 * n)))
                   (Some (bytes_to_words (mem_read m mptr (8 * n)))).

(* sys::wasm32::VrlValue32 *)
Record v32 := mkV32 { v_kind : N; v_width : N; v_words : N; v_nwords : N; v_mask : N; v_sptr : N; v_slen : N }.
Definition v32_to_bytes (v : v32) : list N :=
  flat_map (le_bytes 4) [v_kind v; v_width v; v_words v; v_nwords v; v_mask v; v_sptr v; v_slen v].
Definition field (bs : list N) (i : nat) : N := of_le_bytes (firstn 4 (skipn (i * 4) bs)).
Definition v32_from_bytes (bs : list N) : v32 :=
  mkV32 (field bs 0) (field bs 1) (field bs 2) (field bs 3) (field bs 4) (field bs 5) (field bs 6).

(* wasm.rs prepare_method_call for a Bits argument + the guest's from_vrl on what it finds *)
Definition wasm_arg (h : hostvalue) (m : mem) (ptr : N) : cvalue :=
  let m1 := mem_write m ptr (words_to_bytes (hv_words h)) in
  let d := v32_from_bytes (v32_to_bytes (mkV32 0 (hv_width h) ptr (N.of_nat (length (hv_words h))) 0 0 0)) in
  let n := N.to_nat (v_nwords d) in
  from_bits (load_words m1 (v_words d) n) (zeros n) (v_width d).

(* guest write_return into guest memory + wasm.rs decode_return *)
Definition wasm_method_return (v : cvalue) (m : mem) (ret_words_ptr : N) : option hostvalue :=
  if Nat.ltb METHOD_RET_WORDS (length (cv_words v)) then None
  else
    let m1 := store_words m ret_words_ptr (cv_words v) in
    let d := v32_from_bytes (v32_to_bytes (mkV32 0 (cv_width v) ret_words_ptr (N.of_nat (length (cv_words v))) 0 0 0)) in
    let n := Nat.min (N.to_nat (v_nwords d)) METHOD_RET_WORDS in
    Some (mkHV (bytes_to_words (mem_read m1 ret_words_ptr (n * 8))) (v_width d)).
