(* Gate/Npn4Model.v — Gallina transcription of crates/synthesizer/src/aig/npn4.rs.
   Definitions only (no proofs) so that the model still evaluates when a proof breaks.

   Representation: a 4-input truth table (Rust `Tt4 = u16`) is an N < 65536; bit m is the function
   value when the inputs encode m.  `[u8; 4]` permutations are `list N` of length 4.  The tables
   ALL_PERMS / VAR_TT / IDENTITY come from Gate/GeneratedNpn.v (translator, regenerated each run).

   Not modelled: machine overflow of the u32 shifts in perm_tt (perm entries >= 32 would panic in a
   debug build); every permutation in ALL_PERMS has entries < 4.  The `perm_table()` lookup table is
   modelled as perm_tt itself (it is filled with perm_tt (tt, ALL_PERMS[i])).  HashMap iteration
   order in build_library is modelled as an arbitrary list order (theorems quantify over it). *)
From Coq Require Import NArith List Bool.
Import ListNotations.
From VV Require Import Gate.GeneratedNpn.
Open Scope N_scope.

Definition M16 : N := 65535.
(* `!t` on a u16 *)
Definition not16 (t : N) : N := N.lxor t M16.

Definition seq16 : list N := [0;1;2;3;4;5;6;7;8;9;10;11;12;13;14;15].
Definition seq4 : list N := [0;1;2;3].

(* inner loop of perm_tt: mprime |= ((m >> i) & 1) << perm[i] *)
Definition pidx (perm : list N) (m : N) : N :=
  fold_left (fun mp ip => N.lor mp (N.shiftl (N.land (N.shiftr m (fst ip)) 1) (snd ip)))
            (combine seq4 perm) 0.

(* pub fn perm_tt(tt, perm): out |= ((tt >> mprime) & 1) << m  for m in 0..16 *)
Definition perm_tt (tt : N) (perm : list N) : N :=
  fold_left (fun out m => N.lor out (N.shiftl (N.land (N.shiftr tt (pidx perm m)) 1) m)) seq16 0.

(* pub fn flip_inputs(tt, mask): out |= ((tt >> (m ^ mask)) & 1) << m *)
Definition flip_inputs (tt : N) (mask : N) : N :=
  let mask := N.land mask 15 in
  fold_left (fun out m => N.lor out (N.shiftl (N.land (N.shiftr tt (N.lxor m mask)) 1) m)) seq16 0.

Record transform := mkT { t_perm : list N; t_in_neg : N; t_out_neg : bool }.

Definition IDENTITY : transform := mkT IDENTITY_PERM IDENTITY_IN_NEG IDENTITY_OUT_NEG.

(* NpnTransform::apply *)
Definition apply_t (t : transform) (tt : N) : N :=
  let a := perm_tt tt (t_perm t) in
  let b := flip_inputs a (t_in_neg t) in
  if t_out_neg t then not16 b else b.

(* body of `for in_neg in 0..16u8` *)
Definition step_neg (permed : N) (perm : list N) (st : N * transform) (in_neg : N) : N * transform :=
  let flipped := flip_inputs permed in_neg in
  let st1 := if flipped <? fst st then (flipped, mkT perm in_neg false) else st in
  let neg := not16 flipped in
  if neg <? fst st1 then (neg, mkT perm in_neg true) else st1.

(* body of `for (pi, &perm) in ALL_PERMS` ; table[pi*65536+tt] = perm_tt tt perm *)
Definition step_perm (tt : N) (st : N * transform) (perm : list N) : N * transform :=
  let permed := perm_tt tt perm in
  fold_left (step_neg permed perm) seq16 st.

Definition npn_canonical_with (perms : list (list N)) (tt : N) : N * transform :=
  fold_left (step_perm tt) perms (tt, IDENTITY).

(* pub fn npn_canonical *)
Definition npn_canonical (tt : N) : N * transform := npn_canonical_with ALL_PERMS tt.

(* the 768 transforms the search ranges over *)
Definition transforms_of (perms : list (list N)) : list transform :=
  flat_map (fun p => flat_map (fun n => [mkT p n false; mkT p n true]) seq16) perms.
Definition all_transforms : list transform := transforms_of ALL_PERMS.

(* ---- patterns -------------------------------------------------------------------------- *)

(* PatEdge(node, negated) *)
Definition pedge := (N * bool)%type.
Record pattern := mkPat { p_ands : list (pedge * pedge); p_out : pedge }.

Definition pat_size (p : pattern) : N := N.of_nat (length (p_ands p)).

Definition xmask (neg : bool) : N := if neg then M16 else 0.
(* values[e.0] ^ if e.1 { !0 } else { 0 } *)
Definition pe_val (values : list N) (e : pedge) : N :=
  N.lxor (nth (N.to_nat (fst e)) values 0) (xmask (snd e)).

Definition pat_values (ands : list (pedge * pedge)) (vars : list N) : list N :=
  fold_left (fun values ab => values ++ [N.land (pe_val values (fst ab)) (pe_val values (snd ab))])
            ands vars.

(* AigPattern::eval *)
Definition pat_eval (p : pattern) (vars : list N) : N :=
  pe_val (pat_values (p_ands p) vars) (p_out p).
(* AigPattern::tt *)
Definition pat_tt (p : pattern) : N := pat_eval p VAR_TT.

(* every edge of the j-th AND refers to an input or an earlier AND (otherwise values[..] panics) *)
Fixpoint wf_ands (n : N) (ands : list (pedge * pedge)) : bool :=
  match ands with
  | [] => true
  | (a, b) :: r => (fst a <? n) && (fst b <? n) && wf_ands (n + 1) r
  end.
Definition wf_pat (p : pattern) : bool :=
  wf_ands 4 (p_ands p) && (fst (p_out p) <? 4 + pat_size p).

(* ---- transform_pattern ------------------------------------------------------------------ *)

Fixpoint set_nth {A} (i : nat) (x : A) (l : list A) : list A :=
  match l, i with
  | [], _ => []
  | _ :: r, O => x :: r
  | y :: r, S i' => y :: set_nth i' x r
  end.

(* perm_inv[p as usize] = i  for (i, &p) in perm *)
Definition perm_inv (perm : list N) : list N :=
  fold_left (fun inv ip => set_nth (N.to_nat (snd ip)) (fst ip) inv) (combine seq4 perm) [0;0;0;0].

Definition var_subst (t : transform) (j : N) : N * bool :=
  let new_node := nth (N.to_nat j) (perm_inv (t_perm t)) 0 in
  (new_node, N.testbit (t_in_neg t) new_node).

Definition map_edge (t : transform) (e : pedge) : pedge :=
  if fst e <? 4 then let (n, vn) := var_subst t (fst e) in (n, xorb (snd e) vn) else e.

Definition transform_pattern (p : pattern) (t : transform) : pattern :=
  mkPat (map (fun ab => (map_edge t (fst ab), map_edge t (snd ab))) (p_ands p))
        (let o := map_edge t (p_out p) in (fst o, xorb (snd o) (t_out_neg t))).

(* ---- library ------------------------------------------------------------------------------ *)

Definition lib := list (N * pattern).

Fixpoint lib_get (k : N) (l : lib) : option pattern :=
  match l with
  | [] => None
  | (k', p) :: r => if k' =? k then Some p else lib_get k r
  end.

Fixpoint lib_put (k : N) (p : pattern) (l : lib) : lib :=
  match l with
  | [] => [(k, p)]
  | (k', p') :: r => if k' =? k then (k, p) :: r else (k', p') :: lib_put k p r
  end.

(* match m.get(&k) { Some(existing) if existing.size() <= pat.size() => {}, _ => insert } *)
Definition lib_offer (k : N) (p : pattern) (l : lib) : lib :=
  match lib_get k l with
  | Some e => if pat_size e <=? pat_size p then l else lib_put k p l
  | None => lib_put k p l
  end.

(* first pass: keep the smallest pattern per raw truth table *)
Definition by_tt_step (m : lib) (p : pattern) : lib := lib_offer (pat_tt p) p m.
Definition by_tt_of (pats : list pattern) : lib := fold_left by_tt_step pats [].

(* second pass: `for (tt, pat) in by_tt` *)
Definition canon_step (best : lib) (ttp : N * pattern) : lib :=
  let (tt, pat) := ttp in
  let (canonical, t) := npn_canonical tt in
  lib_offer canonical (transform_pattern pat t) best.
Definition canon_pass (entries : lib) : lib := fold_left canon_step entries [].

(* enumerate(ands, remaining, by_tt): the sequence of patterns offered to by_tt, in order *)
Definition outputs_of (ands : list (pedge * pedge)) : list pattern :=
  let n := 4 + N.of_nat (length ands) in
  flat_map (fun o => [mkPat ands (o, false); mkPat ands (o, true)])
           (map N.of_nat (seq 0 (N.to_nat n))).

Definition and_choices (max_edge : N) : list (pedge * pedge) :=
  let nodes := map N.of_nat (seq 0 (N.to_nat max_edge)) in
  flat_map (fun a => flat_map (fun an => flat_map (fun b => flat_map (fun bn =>
    if a =? b then [] else [((a, an), (b, bn))]) [false; true])
    (filter (fun b => a <=? b) nodes)) [false; true]) nodes.

Fixpoint enumerate (remaining : nat) (ands : list (pedge * pedge)) : list pattern :=
  outputs_of ands ++
  match remaining with
  | O => []
  | S r => flat_map (fun ab => enumerate r (ands ++ [ab])) (and_choices (4 + N.of_nat (length ands)))
  end.

Definition build_library : lib := canon_pass (by_tt_of (enumerate (N.to_nat MAX_ANDS) [])).
